/* C17 harness: runs histories of sc_options calls on the real library (case file on stdin) and prints
   one canonical result line per operation, in the same format as tools/ocaml/c17_driver.ml.
   getopt_long is wrapped (-Wl,--wrap=getopt_long): every call sc_options_parse makes is recorded and
   printed as an "EV" line, which the check hands to the model as its getopt oracle.

   Case format (one operation per line, strings hex-encoded with a leading 'x', NULL = '-'):
     H id | new o | kv k n (key i|o val)* | add o ty chr name var hasarg kv init | sub o s prefix
     parse o argc args.. | load o f | loadargs o f | save o f | file f bytes | errno n
     seti v z | setd v bits | sets v s | assign v (i<int>|z<size>|d<bits>|s<text>) | destroy o | summary o | strtol s | dirty c | quiet b | E
   iniparser's dictionary directly (iniparser/dictionary.h is part of libsc):
     dnew size | dset key val | dget key | dunset key | dall      (val '-' = NULL; dget prints '!' for "not found")
   every d-line prints d->n and d->size; dall prints every slot in use as index:key:value.
   `quiet 1`: the result lines of the declaration operations (new, kv, add, sub) carry no dump of the variables until
   `quiet 0` (histories with hundreds of options: the dump of every variable after every declaration is quadratic).  */
#include <sc.h>
#include <sc_options.h>
#include <sc_keyvalue.h>
#include <dictionary.h>
#include <getopt.h>
#include <errno.h>
#include <inttypes.h>
#include <unistd.h>
#include <dirent.h>

#define NV 2048
#define NO 8
#define NK 4

static int          ivar[NV];
static size_t       zvar[NV];
static double       dvar[NV];
static const char  *svar[NV];
static char         kind[NV];   /* 0 unused, i, z, d, s */
static sc_options_t *obj[NO];
static sc_keyvalue_t *kvt[NK];
static char         tmpdir[256];
static dictionary  *dic;
static int          quiet;       /* no variable dump on the lines of declaration operations */
static int          saveok[NO];  /* sc_options_save is legal only after a successful parse / load_args */

/* allocations that must outlive the calls (argv, names, prefixes); freed at the end of a history */
static void       **keep;
static size_t       nkeep, ckeep;
static void        *keepit (void *p)
{
  if (nkeep == ckeep) { ckeep = ckeep ? 2 * ckeep : 256; keep = realloc (keep, ckeep * sizeof (void *)); }
  keep[nkeep++] = p;
  return p;
}

static int hexv (int c) { return c <= '9' ? c - '0' : (c | 32) - 'a' + 10; }

/* "x6162" -> "ab" (malloc), "-" -> NULL; *len receives the byte count */
static char *unhex (const char *t, size_t *len)
{
  size_t n, i;
  char *r;
  if (t[0] == '-' && t[1] == 0) { if (len) *len = 0; return NULL; }
  n = (strlen (t) - 1) / 2;
  r = malloc (n + 1);
  for (i = 0; i < n; ++i) r[i] = (char) (hexv (t[1 + 2 * i]) * 16 + hexv (t[2 + 2 * i]));
  r[n] = 0;
  if (len) *len = n;
  return r;
}

static void puthex (const char *s)
{
  if (s == NULL) { putchar ('-'); return; }
  putchar ('x');
  for (; *s; ++s) printf ("%02x", (unsigned char) *s);
}

static void putz (long long v)
{
  if (v < 0) printf ("-%llx", (unsigned long long) (-(v + 1)) + 1ULL); else printf ("%llx", (unsigned long long) v);
}

static long long parsez (const char *s)
{
  int neg = (*s == '-');
  unsigned long long v = strtoull (neg ? s + 1 : s, NULL, 16);
  return neg ? (long long) (0ULL - v) : (long long) v;
}

static void dump (void)
{
  int v;
  for (v = 0; v < NV; ++v) {
    switch (kind[v]) {
    case 'i': printf (" v%d=i", v); putz (ivar[v]); break;
    case 'z': printf (" v%d=z%llx", v, (unsigned long long) zvar[v]); break;
    case 'd': { uint64_t b; memcpy (&b, &dvar[v], 8); printf (" v%d=d%" PRIx64, v, b); break; }
    case 's': printf (" v%d=s", v); puthex (svar[v]); break;
    default: break;
    }
  }
}

static char *path_of (const char *name)
{
  char *p;
  if (name[0] == '/') return keepit (strdup (name));
  p = keepit (malloc (strlen (tmpdir) + strlen (name) + 2));
  sprintf (p, "%s/%s", tmpdir, name);
  return p;
}

/* ---- getopt_long recorder ------------------------------------------------------------------ */
static int          recording;
int __real_getopt_long (int argc, char *const *argv, const char *optstring, const struct option *longopts, int *longind);
int __wrap_getopt_long (int argc, char *const *argv, const char *optstring, const struct option *longopts, int *longind)
{
  int li = -1;
  int c = __real_getopt_long (argc, argv, optstring, longopts, &li);
  if (longind != NULL) *longind = li;
  if (recording) {
    if (c == -1) printf (" e");
    /* glibc stores the offending byte through a plain `char`: 0xad arrives as -83; the model counts bytes 0..255 */
    else if (c == '?') printf (" q%d", optopt < 0 ? optopt + 256 : optopt);
    else if (c == 0) { printf (" l%d:", li >= 0 ? longopts[li].val : -1); puthex (optarg); }
    else { printf (" s%d:", c); puthex (optarg); }
  }
  return c;
}

/* Overwrites the part of the stack the next call will use with the byte c.  sc_options_parse hands its local
   `char optstring[BUFSIZ]` to getopt_long; when no option has a short name nothing is ever written to it (F-C17l),
   so what getopt_long sees is whatever an earlier call left there.  Every parse therefore starts from a stack of
   zero bytes (deterministic, and equal to the empty option string the code intends); the operation `dirty c`
   makes the NEXT parse start from a stack full of the byte c instead. */
static int          next_fill;
static void __attribute__ ((noinline)) fill_stack (int c)
{
  char buf[65536];
  memset (buf, c, sizeof buf);
  __asm__ volatile ("" : : "r" (buf) : "memory");
}

static int the_callback (sc_options_t * opt, const char *arg, void *data)
{
  ++*(int *) data;
  return (arg != NULL && arg[0] == '!') ? -1 : 0;
}

static int          nlog;
static void quiet_log (FILE * log_stream, const char *filename, int lineno, int package, int category, int priority, const char *msg)
{
  ++nlog;
}

#define MAXTOK 20000
int main (int argc, char **argv)
{
  char *line = NULL;
  size_t cap = 0;
  static char *tok[MAXTOK];
  int mem0 = 0, dmem0 = 0;
  long hid = -1;

  setvbuf (stdout, NULL, _IOLBF, 0);
  snprintf (tmpdir, sizeof tmpdir, "%s", argc > 1 ? argv[1] : "/var/tmp");
  sc_init (sc_MPI_COMM_NULL, 0, 0, quiet_log, SC_LP_SILENT);
  if (chdir (tmpdir) != 0) { fprintf (stderr, "cannot enter %s\n", tmpdir); return 2; }
  while (getline (&line, &cap, stdin) > 0) {
    int n = 0, o, ret = 0;
    char *p;
    const char *op;
    for (p = strtok (line, " \n"); p && n < MAXTOK; p = strtok (NULL, " \n")) tok[n++] = p;
    if (n == 0) continue;
    op = tok[0];
    if (!strcmp (op, "H")) {
      /* every history starts with an empty file directory (the model's file system is per history); relative names
         inside argument vectors (-J f0.ini) resolve against the same directory because it is the working directory */
      DIR *dd = opendir (tmpdir);
      if (dd != NULL) {
        struct dirent *de;
        while ((de = readdir (dd)) != NULL) {
          if (de->d_name[0] != '.') { char *pp = path_of (de->d_name); remove (pp); }
        }
        closedir (dd);
        { size_t i; for (i = 0; i < nkeep; ++i) free (keep[i]); nkeep = 0; }
      }
      hid = atol (tok[1]);
      memset (kind, 0, sizeof kind);
      memset (ivar, 0, sizeof ivar); memset (zvar, 0, sizeof zvar); memset (dvar, 0, sizeof dvar); memset (svar, 0, sizeof svar);
      quiet = 0;
      mem0 = sc_memory_status (sc_package_id);
      dmem0 = sc_memory_status (-1);
      printf ("H %ld\n", hid);
      continue;
    }
    if (!strcmp (op, "E")) {
      int k, bal;
      size_t i;
      for (o = 0; o < NO; ++o) if (obj[o]) { sc_options_destroy (obj[o]); obj[o] = NULL; }
      for (k = 0; k < NK; ++k) if (kvt[k]) { sc_keyvalue_destroy (kvt[k]); kvt[k] = NULL; }
      if (dic != NULL) { dictionary_del (dic); dic = NULL; }
      bal = (sc_memory_status (sc_package_id) == mem0) && (sc_memory_status (-1) == dmem0);
      for (i = 0; i < nkeep; ++i) free (keep[i]);
      nkeep = 0;
      printf ("E %ld mem=%s\n", hid, bal ? "ok" : "LEAK");
      continue;
    }
    if (!strcmp (op, "new")) {
      o = atoi (tok[1]);
      obj[o] = sc_options_new ("prog");
      saveok[o] = 0;
    }
    else if (!strcmp (op, "kv")) {
      int k = atoi (tok[1]), cnt = atoi (tok[2]), i;
      kvt[k] = sc_keyvalue_new ();
      for (i = 0; i < cnt; ++i) {
        char *key = keepit (unhex (tok[3 + 3 * i], NULL));
        if (tok[4 + 3 * i][0] == 'i') sc_keyvalue_set_int (kvt[k], key, (int) parsez (tok[5 + 3 * i]));
        else sc_keyvalue_set_double (kvt[k], key, 1.5);
      }
    }
    else if (!strcmp (op, "add")) {
      const char *ty = tok[2];
      int chr = atoi (tok[3]);
      const char *name = keepit (unhex (tok[4], NULL));
      int var = atoi (tok[5]), hasarg = atoi (tok[6]), k = atoi (tok[7]);
      const char *init = tok[8];
      o = atoi (tok[1]);
      if (!strcmp (ty, "sw")) { kind[var] = 'i'; sc_options_add_switch (obj[o], chr, name, &ivar[var], "switch help"); }
      else if (!strcmp (ty, "bool")) { kind[var] = 'i'; sc_options_add_bool (obj[o], chr, name, &ivar[var], (int) parsez (init + 1), NULL); }
      else if (!strcmp (ty, "int")) { kind[var] = 'i'; sc_options_add_int (obj[o], chr, name, &ivar[var], (int) parsez (init + 1), "int help"); }
      else if (!strcmp (ty, "size")) { kind[var] = 'z'; sc_options_add_size_t (obj[o], chr, name, &zvar[var], (size_t) strtoull (init + 1, NULL, 16), NULL); }
      else if (!strcmp (ty, "dbl")) { uint64_t b = strtoull (init + 1, NULL, 16); double d; memcpy (&d, &b, 8); kind[var] = 'd';
        sc_options_add_double (obj[o], chr, name, &dvar[var], d, "a double"); }
      else if (!strcmp (ty, "str")) { char *iv = keepit (unhex (init + 1, NULL)); kind[var] = 's';
        sc_options_add_string (obj[o], chr, name, &svar[var], iv, "string help"); }
      else if (!strcmp (ty, "ini")) sc_options_add_inifile (obj[o], chr, name, "load ini");
      else if (!strcmp (ty, "json")) sc_options_add_jsonfile (obj[o], chr, name, NULL);
      else if (!strcmp (ty, "cb")) { kind[var] = 'i'; sc_options_add_callback (obj[o], chr, name, hasarg, the_callback, &ivar[var], "callback"); }
      else if (!strcmp (ty, "kvo")) { char *iv = keepit (unhex (init + 1, NULL)); kind[var] = 'i';
        sc_options_add_keyvalue (obj[o], chr, name, &ivar[var], iv, kvt[k], "choice"); }
    }
    else if (!strcmp (op, "sub")) {
      o = atoi (tok[1]);
      sc_options_add_suboptions (obj[o], obj[atoi (tok[2])], (char *) keepit (unhex (tok[3], NULL)));
    }
    else if (!strcmp (op, "parse")) {
      int ac = atoi (tok[2]), i;
      char **av = keepit (calloc ((size_t) ac + 1, sizeof (char *)));
      o = atoi (tok[1]);
      for (i = 0; i < ac; ++i) av[i] = keepit (unhex (tok[3 + i], NULL));
      printf ("EV");
      recording = 1;
      fill_stack (next_fill);
      next_fill = 0;
      ret = sc_options_parse (sc_package_id, SC_LP_ERROR, obj[o], ac, av);
      recording = 0;
      saveok[o] = ret >= 0;
      printf (" | %d %d", optind, ac);
      for (i = 0; i < ac; ++i) { putchar (' '); puthex (av[i]); }
      printf ("\n");
    }
    else if (!strcmp (op, "load")) { o = atoi (tok[1]); ret = sc_options_load (sc_package_id, SC_LP_ERROR, obj[o], path_of (keepit (unhex (tok[2], NULL)))); }
    else if (!strcmp (op, "loadargs")) { o = atoi (tok[1]); ret = sc_options_load_args (sc_package_id, SC_LP_ERROR, obj[o], path_of (keepit (unhex (tok[2], NULL))));
      saveok[o] = (ret == 0);  /* a failure may leave NULL entries behind: saving is no longer legal */ }
    else if (!strcmp (op, "save")) {
      char *path = path_of (keepit (unhex (tok[2], NULL)));
      o = atoi (tok[1]);
      if (!saveok[o]) { printf ("save r=-77 |"); dump (); printf (" | f=x\n"); continue; }
      ret = sc_options_save (sc_package_id, SC_LP_ERROR, obj[o], path);
      printf ("save r=%d |", ret);
      dump ();
      printf (" | f=x");
      if (ret == 0) { FILE *f = fopen (path, "rb"); int c; while ((c = fgetc (f)) != EOF) printf ("%02x", c); fclose (f); }
      printf ("\n");
      continue;
    }
    else if (!strcmp (op, "file")) {
      size_t len;
      char *bytes = unhex (tok[2], &len);
      FILE *f = fopen (path_of (keepit (unhex (tok[1], NULL))), "wb");
      fwrite (bytes, 1, len, f);
      fclose (f);
      free (bytes);
    }
    else if (!strcmp (op, "errno")) { printf ("errno r=0 |"); dump (); printf ("\n"); errno = atoi (tok[1]); continue; }
    else if (!strcmp (op, "seti")) { int v = atoi (tok[1]); if (kind[v] == 'z') zvar[v] = (size_t) strtoull (tok[2], NULL, 16); else ivar[v] = (int) parsez (tok[2]); }
    else if (!strcmp (op, "setd")) { uint64_t b = strtoull (tok[2], NULL, 16); memcpy (&dvar[atoi (tok[1])], &b, 8); }
    else if (!strcmp (op, "sets")) svar[atoi (tok[1])] = keepit (unhex (tok[2], NULL));
    else if (!strcmp (op, "assign")) {
      /* the application assigns its own variable between two calls of the library: assign v i<int> | z<size> | d<bits> | s<text> */
      int v = atoi (tok[1]);
      const char *t = tok[2];
      if (t[0] == 's') svar[v] = keepit (unhex (t + 1, NULL));
      else if (t[0] == 'd') { uint64_t b = strtoull (t + 1, NULL, 16); memcpy (&dvar[v], &b, 8); }
      else if (t[0] == 'z' || kind[v] == 'z') zvar[v] = (size_t) strtoull (t + 1, NULL, 16);
      else ivar[v] = (int) parsez (t + 1);
    }
    else if (!strcmp (op, "destroy")) { o = atoi (tok[1]); sc_options_destroy (obj[o]); obj[o] = NULL; }
    else if (!strcmp (op, "summary")) {
      o = atoi (tok[1]);
      sc_options_print_summary (sc_package_id, SC_LP_ERROR, obj[o]);
      sc_options_print_usage (sc_package_id, SC_LP_ERROR, obj[o], "ARG1\nARG2");
    }
    else if (!strcmp (op, "dirty")) next_fill = atoi (tok[1]);
    else if (!strcmp (op, "quiet")) quiet = atoi (tok[1]);
    else if (op[0] == 'd' && (!strcmp (op, "dnew") || !strcmp (op, "dset") || !strcmp (op, "dget") || !strcmp (op, "dunset") || !strcmp (op, "dall"))) {
      static char notfound[] = "!";
      char *key = n > 1 && op[1] != 'n' ? unhex (tok[1], NULL) : NULL;
      if (!strcmp (op, "dnew")) { if (dic != NULL) dictionary_del (dic); dic = dictionary_new (atoi (tok[1])); }
      else if (!strcmp (op, "dset")) { char *val = unhex (tok[2], NULL); ret = dictionary_set (dic, key, val); free (val); }
      else if (!strcmp (op, "dunset")) dictionary_unset (dic, key);
      printf ("%s r=%d | n=%d size=%d", op, ret, dic->n, dic->size);
      if (!strcmp (op, "dget")) {
        char *v = dictionary_get (dic, key, notfound);
        if (v == notfound) printf (" v=!"); else { printf (" v="); puthex (v); }
      }
      if (!strcmp (op, "dall")) {
        int i;
        for (i = 0; i < dic->size; ++i) if (dic->key[i] != NULL) { printf (" %d:", i); puthex (dic->key[i]); putchar (':'); puthex (dic->val[i]); }
      }
      printf ("\n");
      free (key);
      continue;
    }
    else if (!strcmp (op, "strtol")) {
      char *s = unhex (tok[1], NULL);
      long l;
      errno = 0;
      l = strtol (s, NULL, 0);
      printf ("strtol r="); putz (l); printf (" %d\n", errno == ERANGE);
      free (s);
      continue;
    }
    else { printf ("UNKNOWN_OP %s\n", op); continue; }
    {
      int saved = errno;        /* printing must not disturb the errno the next operation sees */
      printf ("%s r=%d |", op, ret);
      if (!(quiet && (!strcmp (op, "new") || !strcmp (op, "kv") || !strcmp (op, "add") || !strcmp (op, "sub")))) dump ();
      printf ("\n");
      errno = saved;
    }
  }
  free (line);
  free (keep);
  sc_finalize ();
  return 0;
}
