/* C16 driver: ONE program written against the sc_MPI_* wrapper, compiled twice: against the serial libsc
   build (no MPI: the emulation of sc_mpi.c is what runs) and against a libsc built with OpenMPI (run with one
   rank: the real MPI library is what runs).  Reads the case file (argv[1]) and prints one line per case; every
   output argument is pre-filled with a sentinel so that a forgotten store is visible.
   Format: checks/C16.py. */
#include <sc.h>
#include <inttypes.h>

#define SENT 0xEE
#define ISENT ((int) 0xEEEEEEEE)
#define GUARD 32

typedef struct { const char *name; int id; } dtname_t;
static const char *dtnames[] = { "BYTE", "CHAR", "UNSIGNED_CHAR", "SHORT", "UNSIGNED_SHORT", "INT", "UNSIGNED", "LONG",
  "UNSIGNED_LONG", "LONG_LONG_INT", "FLOAT", "DOUBLE", "LONG_DOUBLE", "2INT", "DOUBLE_INT", NULL };

static sc_MPI_Datatype dt (const char *s)
{
  if (!strcmp (s, "BYTE")) return sc_MPI_BYTE;
  if (!strcmp (s, "CHAR")) return sc_MPI_CHAR;
  if (!strcmp (s, "UNSIGNED_CHAR")) return sc_MPI_UNSIGNED_CHAR;
  if (!strcmp (s, "SHORT")) return sc_MPI_SHORT;
  if (!strcmp (s, "UNSIGNED_SHORT")) return sc_MPI_UNSIGNED_SHORT;
  if (!strcmp (s, "INT")) return sc_MPI_INT;
  if (!strcmp (s, "UNSIGNED")) return sc_MPI_UNSIGNED;
  if (!strcmp (s, "LONG")) return sc_MPI_LONG;
  if (!strcmp (s, "UNSIGNED_LONG")) return sc_MPI_UNSIGNED_LONG;
  if (!strcmp (s, "LONG_LONG_INT")) return sc_MPI_LONG_LONG_INT;
  if (!strcmp (s, "FLOAT")) return sc_MPI_FLOAT;
  if (!strcmp (s, "DOUBLE")) return sc_MPI_DOUBLE;
  if (!strcmp (s, "LONG_DOUBLE")) return sc_MPI_LONG_DOUBLE;
  if (!strcmp (s, "2INT")) return sc_MPI_2INT;
  if (!strcmp (s, "DOUBLE_INT")) return sc_MPI_DOUBLE_INT;
  fprintf (stderr, "bad datatype %s\n", s); exit (2);
}

static sc_MPI_Op op (const char *s)
{
  if (!strcmp (s, "MAX")) return sc_MPI_MAX;
  if (!strcmp (s, "MIN")) return sc_MPI_MIN;
  if (!strcmp (s, "SUM")) return sc_MPI_SUM;
  if (!strcmp (s, "PROD")) return sc_MPI_PROD;
  if (!strcmp (s, "LAND")) return sc_MPI_LAND;
  if (!strcmp (s, "BAND")) return sc_MPI_BAND;
  if (!strcmp (s, "LOR")) return sc_MPI_LOR;
  if (!strcmp (s, "BOR")) return sc_MPI_BOR;
  if (!strcmp (s, "LXOR")) return sc_MPI_LXOR;
  if (!strcmp (s, "BXOR")) return sc_MPI_BXOR;
  if (!strcmp (s, "MINLOC")) return sc_MPI_MINLOC;
  if (!strcmp (s, "MAXLOC")) return sc_MPI_MAXLOC;
  fprintf (stderr, "bad op %s\n", s); exit (2);
}

static int errcode (const char *s)
{
#define EC(n) if (!strcmp (s, #n)) return sc_MPI_##n
  EC (SUCCESS); EC (ERR_ARG); EC (ERR_UNKNOWN); EC (ERR_OTHER); EC (ERR_NO_MEM); EC (ERR_FILE); EC (ERR_NOT_SAME);
  EC (ERR_AMODE); EC (ERR_UNSUPPORTED_DATAREP); EC (ERR_UNSUPPORTED_OPERATION); EC (ERR_NO_SUCH_FILE);
  EC (ERR_FILE_EXISTS); EC (ERR_BAD_FILE); EC (ERR_ACCESS); EC (ERR_NO_SPACE); EC (ERR_QUOTA); EC (ERR_READ_ONLY);
  EC (ERR_FILE_IN_USE); EC (ERR_DUP_DATAREP); EC (ERR_CONVERSION); EC (ERR_IO);
  fprintf (stderr, "bad error code %s\n", s); exit (2);
}

static size_t parse_hex (const char *s, unsigned char **out, size_t minlen)
{
  size_t n = (!strcmp (s, "-")) ? 0 : strlen (s) / 2, i;
  unsigned char *b = (unsigned char *) malloc ((n > minlen ? n : minlen) + GUARD);
  memset (b, SENT, (n > minlen ? n : minlen) + GUARD);
  for (i = 0; i < n; ++i) { unsigned v; sscanf (s + 2 * i, "%2x", &v); b[i] = (unsigned char) v; }
  *out = b;
  return n;
}

static unsigned char *sentbuf (size_t n)
{
  unsigned char *b = (unsigned char *) malloc (n + GUARD);
  memset (b, SENT, n + GUARD);
  return b;
}

static void dump (const unsigned char *p, size_t n)
{
  size_t i;
  if (n == 0) { printf ("."); return; }
  for (i = 0; i < n; ++i) printf ("%02x", p[i]);
}

static void guard (const unsigned char *p, size_t n)
{
  size_t i;
  for (i = 0; i < GUARD; ++i) if (p[n + i] != SENT) { printf (" GUARD"); return; }
}

static void prc (int rc) { printf (rc == sc_MPI_SUCCESS ? "0" : "E"); }

static void pint (int v)
{
  if (v == ISENT) printf ("UNSET");
  else if (v == sc_MPI_UNDEFINED) printf ("UNDEF");
  else printf ("%d", v);
}

static int status_touched (sc_MPI_Status * st, int n)
{
  const unsigned char *p = (const unsigned char *) st;
  size_t i;
  for (i = 0; i < n * sizeof (sc_MPI_Status); ++i) if (p[i] != SENT) return 1;
  return 0;
}

int main (int argc, char **argv)
{
  static char line[1 << 20];
  char *tok[64];
  int provided = ISENT, rc;
  FILE *in;
  sc_MPI_Comm world = sc_MPI_COMM_WORLD;

  rc = sc_MPI_Init_thread (&argc, &argv, sc_MPI_THREAD_SINGLE, &provided);
#ifdef SC_ENABLE_MPI
  /* errors must come back as return values in the MPI build as well */
  MPI_Comm_set_errhandler (MPI_COMM_WORLD, MPI_ERRORS_RETURN);
#endif
  in = fopen (argv[1], "r");
  if (in == NULL) { fprintf (stderr, "cannot read %s\n", argv[1]); return 2; }
  printf ("init "); prc (rc); printf (" %s\n", provided == ISENT ? "UNSET" : "set");

  while (fgets (line, sizeof line, in)) {
    int n = 0; char *p; const char *c;
    for (p = strtok (line, " \n"); p && n < 64; p = strtok (NULL, " \n")) tok[n++] = p;
    if (n == 0) continue;
    c = tok[0];
    if (!strcmp (c, "gather") || !strcmp (c, "allgather") || !strcmp (c, "alltoall")) {
      /* T count srchex rlen */
      int cnt = atoi (tok[2]); size_t rlen = (size_t) atol (tok[4]);
      unsigned char *s, *r = sentbuf (rlen); parse_hex (tok[3], &s, 1);
      if (c[0] == 'g') rc = sc_MPI_Gather (s, cnt, dt (tok[1]), r, cnt, dt (tok[1]), 0, world);
      else if (c[3] == 'g') rc = sc_MPI_Allgather (s, cnt, dt (tok[1]), r, cnt, dt (tok[1]), world);
      else rc = sc_MPI_Alltoall (s, cnt, dt (tok[1]), r, cnt, dt (tok[1]), world);
      prc (rc); printf (" "); dump (r, rlen); guard (r, rlen); free (s); free (r);
    }
    else if (!strcmp (c, "gatherv") || !strcmp (c, "allgatherv")) {
      /* T count displ srchex rlen */
      int cnt = atoi (tok[2]), displ = atoi (tok[3]); size_t rlen = (size_t) atol (tok[5]);
      int recvc[1], displs[1];
      unsigned char *s, *r = sentbuf (rlen); parse_hex (tok[4], &s, 1);
      recvc[0] = cnt; displs[0] = displ;
      if (c[0] == 'g') rc = sc_MPI_Gatherv (s, cnt, dt (tok[1]), r, recvc, displs, dt (tok[1]), 0, world);
      else rc = sc_MPI_Allgatherv (s, cnt, dt (tok[1]), r, recvc, displs, dt (tok[1]), world);
      prc (rc); printf (" "); dump (r, rlen); guard (r, rlen); free (s); free (r);
    }
    else if (!strcmp (c, "gathervx") || !strcmp (c, "allgathervx")) {
      /* TS ns TR nr displ srchex rlen : different send and receive types with the same total length */
      int ns = atoi (tok[2]), nr = atoi (tok[4]), displ = atoi (tok[5]); size_t rlen = (size_t) atol (tok[7]);
      int recvc[1], displs[1];
      unsigned char *s, *r = sentbuf (rlen); parse_hex (tok[6], &s, 1);
      recvc[0] = nr; displs[0] = displ;
      if (c[0] == 'g') rc = sc_MPI_Gatherv (s, ns, dt (tok[1]), r, recvc, displs, dt (tok[3]), 0, world);
      else rc = sc_MPI_Allgatherv (s, ns, dt (tok[1]), r, recvc, displs, dt (tok[3]), world);
      prc (rc); printf (" "); dump (r, rlen); guard (r, rlen); free (s); free (r);
    }
    else if (!strcmp (c, "gatherx") || !strcmp (c, "allgatherx") || !strcmp (c, "alltoallx")) {
      /* TS ns TR nr srchex rlen */
      int ns = atoi (tok[2]), nr = atoi (tok[4]); size_t rlen = (size_t) atol (tok[6]);
      unsigned char *s, *r = sentbuf (rlen); parse_hex (tok[5], &s, 1);
      if (c[0] == 'g') rc = sc_MPI_Gather (s, ns, dt (tok[1]), r, nr, dt (tok[3]), 0, world);
      else if (c[2] == 'l' && c[3] == 'g') rc = sc_MPI_Allgather (s, ns, dt (tok[1]), r, nr, dt (tok[3]), world);
      else rc = sc_MPI_Alltoall (s, ns, dt (tok[1]), r, nr, dt (tok[3]), world);
      prc (rc); printf (" "); dump (r, rlen); guard (r, rlen); free (s); free (r);
    }
    else if (!strcmp (c, "reduce") || !strcmp (c, "allreduce") || !strcmp (c, "reduce_scatter_block") ||
             !strcmp (c, "scan") || !strcmp (c, "exscan")) {
      /* OP T count srchex rlen */
      int cnt = atoi (tok[3]); size_t rlen = (size_t) atol (tok[5]);
      unsigned char *s, *r = sentbuf (rlen); parse_hex (tok[4], &s, 1);
      if (!strcmp (c, "reduce")) rc = sc_MPI_Reduce (s, r, cnt, dt (tok[2]), op (tok[1]), 0, world);
      else if (!strcmp (c, "allreduce")) rc = sc_MPI_Allreduce (s, r, cnt, dt (tok[2]), op (tok[1]), world);
      else if (!strcmp (c, "reduce_scatter_block")) rc = sc_MPI_Reduce_scatter_block (s, r, cnt, dt (tok[2]), op (tok[1]), world);
      else if (!strcmp (c, "scan")) rc = sc_MPI_Scan (s, r, cnt, dt (tok[2]), op (tok[1]), world);
      else rc = sc_MPI_Exscan (s, r, cnt, dt (tok[2]), op (tok[1]), world);
      prc (rc); printf (" "); dump (r, rlen); guard (r, rlen); free (s); free (r);
    }
    else if (!strcmp (c, "bcast")) {
      /* T count bufhex */
      unsigned char *b; size_t bn = parse_hex (tok[3], &b, 1);
      rc = sc_MPI_Bcast (b, atoi (tok[2]), dt (tok[1]), 0, world);
      prc (rc); printf (" "); dump (b, bn); guard (b, bn); free (b);
    }
    else if (!strcmp (c, "barrier")) { rc = sc_MPI_Barrier (world); prc (rc); }
    else if (!strcmp (c, "pack")) {
      /* T incount outsize position inhex */
      int incount = atoi (tok[2]), outsize = atoi (tok[3]), pos = atoi (tok[4]);
      unsigned char *ib, *ob = sentbuf ((size_t) outsize); parse_hex (tok[5], &ib, 1);
      rc = sc_MPI_Pack (ib, incount, dt (tok[1]), ob, outsize, &pos, world);
      prc (rc); printf (" %d ", pos); dump (ob, (size_t) outsize); guard (ob, (size_t) outsize); free (ib); free (ob);
    }
    else if (!strcmp (c, "unpack")) {
      /* T outcount position inhex olen   (insize = length of inhex) */
      int outcount = atoi (tok[2]), pos = atoi (tok[3]); size_t olen = (size_t) atol (tok[5]);
      unsigned char *ib, *ob = sentbuf (olen); size_t insize = parse_hex (tok[4], &ib, 1);
      rc = sc_MPI_Unpack (ib, (int) insize, &pos, ob, outcount, dt (tok[1]), world);
      prc (rc); printf (" %d ", pos); dump (ob, olen); guard (ob, olen); free (ib); free (ob);
    }
    else if (!strcmp (c, "packbig") || !strcmp (c, "unpackbig")) {
      /* T count limit position: a buffer of `limit` bytes (up to INT_MAX) that is not filled; code, position, guard */
      int count = atoi (tok[2]), limit = atoi (tok[3]), pos = atoi (tok[4]);
      size_t slen = (size_t) count * 16 + 16;
      unsigned char *big = (unsigned char *) malloc ((size_t) limit + GUARD), *small;
      if (slen > ((size_t) 1 << 24)) { small = (unsigned char *) malloc (slen + GUARD); if (small) memset (small + slen, SENT, GUARD); }
      else small = sentbuf (slen);      /* huge counts (the buffer the call is entitled to read): not filled */
      if (big == NULL || small == NULL) { printf ("NOMEM"); }
      else {
        memset (big + limit, SENT, GUARD);
        if (c[0] == 'p') rc = sc_MPI_Pack (small, count, dt (tok[1]), big, limit, &pos, world);
        else rc = sc_MPI_Unpack (big, limit, &pos, small, count, dt (tok[1]), world);
        prc (rc); printf (" %d", pos); guard (big, (size_t) limit); guard (small, slen);
        free (big);
      }
      free (small);
    }
    else if (!strcmp (c, "packsize")) {
      int size = ISENT;
      rc = sc_MPI_Pack_size (atoi (tok[2]), dt (tok[1]), world, &size);
      prc (rc); printf (" "); pint (size);
    }
    else if (!strcmp (c, "typesize")) {
      int size = ISENT;
      rc = sc_MPI_Type_size (dt (tok[1]), &size);
      prc (rc); printf (" "); pint (size);
    }
    else if (!strcmp (c, "sizeof")) { printf ("%zu", sc_mpi_sizeof (dt (tok[1]))); }
    else if (!strcmp (c, "comm")) {
      /* color key */
      int size = ISENT, rank = ISENT, dsize = ISENT, drank = ISENT, ssize = ISENT, srank = ISENT;
      sc_MPI_Comm dup = sc_MPI_COMM_NULL, spl = sc_MPI_COMM_NULL;
      int r1, r2, r3, r4, r5, r6, r7, r8, r9, r10;
      r1 = sc_MPI_Comm_size (world, &size); r2 = sc_MPI_Comm_rank (world, &rank);
      r3 = sc_MPI_Comm_dup (world, &dup);
      r4 = sc_MPI_Comm_size (dup, &dsize); r5 = sc_MPI_Comm_rank (dup, &drank);
      r6 = sc_MPI_Comm_split (world, atoi (tok[1]), atoi (tok[2]), &spl);
      r7 = sc_MPI_Comm_size (spl, &ssize); r8 = sc_MPI_Comm_rank (spl, &srank);
      printf ("%s ", (dup != sc_MPI_COMM_NULL && spl != sc_MPI_COMM_NULL) ? "valid" : "NULLCOMM");
      r9 = sc_MPI_Comm_free (&spl); r10 = sc_MPI_Comm_free (&dup);
      prc (r1 | r2 | r3 | r4 | r5 | r6 | r7 | r8 | r9 | r10);
      printf (" "); pint (size); printf (" "); pint (rank); printf (" "); pint (dsize); printf (" "); pint (drank);
      printf (" "); pint (ssize); printf (" "); pint (srank);
      printf (" %s", (dup == sc_MPI_COMM_NULL && spl == sc_MPI_COMM_NULL) ? "freed" : "NOTNULL");
    }
    else if (!strcmp (c, "group")) {
      sc_MPI_Group g; int size = ISENT, rank = ISENT, r1, r2, r3, r4;
      r1 = sc_MPI_Comm_group (world, &g);
      r2 = sc_MPI_Group_size (g, &size); r3 = sc_MPI_Group_rank (g, &rank);
      r4 = sc_MPI_Group_free (&g);
      prc (r1 | r2 | r3 | r4); printf (" "); pint (size); printf (" "); pint (rank);
      printf (" %s", g == sc_MPI_GROUP_NULL ? "freed" : "NOTNULL");
    }
    else if (!strcmp (c, "wait") || !strcmp (c, "waitall") || !strcmp (c, "testall") || !strcmp (c, "waitsome")) {
      /* n withstatus */
      int nreq = atoi (tok[1]), ws = atoi (tok[2]), i, flag = ISENT, outcount = ISENT;
      sc_MPI_Request *req = (sc_MPI_Request *) malloc ((nreq + 1) * sizeof (sc_MPI_Request));
      sc_MPI_Status *st = (sc_MPI_Status *) malloc ((nreq + 1) * sizeof (sc_MPI_Status));
      int *idx = (int *) malloc ((nreq + 1) * sizeof (int));
      for (i = 0; i <= nreq; ++i) { req[i] = sc_MPI_REQUEST_NULL; idx[i] = ISENT; }
      memset (st, SENT, (nreq + 1) * sizeof (sc_MPI_Status));
      if (!strcmp (c, "wait")) { rc = sc_MPI_Wait (req, ws ? st : sc_MPI_STATUS_IGNORE); prc (rc); }
      else if (!strcmp (c, "waitall")) { rc = sc_MPI_Waitall (nreq, req, ws ? st : sc_MPI_STATUSES_IGNORE); prc (rc); }
      else if (!strcmp (c, "testall")) { rc = sc_MPI_Testall (nreq, req, &flag, ws ? st : sc_MPI_STATUSES_IGNORE); prc (rc); printf (" "); pint (flag); }
      else { rc = sc_MPI_Waitsome (nreq, req, &outcount, idx, ws ? st : sc_MPI_STATUSES_IGNORE); prc (rc); printf (" "); pint (outcount); }
      for (i = 0; i <= nreq; ++i) if (req[i] != sc_MPI_REQUEST_NULL) printf (" REQCHANGED");
      printf (" st=%s", ws ? (status_touched (st, nreq > 0 ? nreq : 1) ? "written" : "untouched") : "ignored");
      free (req); free (st); free (idx);
    }
    else if (!strcmp (c, "wtime")) {
      double a = sc_MPI_Wtime (), b = sc_MPI_Wtime ();
      printf ("%s", (a == a && b == b && b >= a && b - a < 10.) ? "monotone" : "BAD");
    }
    else if (!strcmp (c, "errclass")) {
      int code = errcode (tok[1]), cls = ISENT;
      rc = sc_MPI_Error_class (code, &cls);
      prc (rc); printf (" %s", cls == code ? "same" : (cls == ISENT ? "UNSET" : "OTHER"));
    }
    else if (!strcmp (c, "errstring")) {
      char str[sc_MPI_MAX_ERROR_STRING + 1]; int len = ISENT;
      memset (str, 0, sizeof str);
      rc = sc_MPI_Error_string (errcode (tok[1]), str, &len);
      prc (rc); printf (" %s", (len != ISENT && len > 0 && (size_t) len == strlen (str)) ? "text" : "BAD");
    }
    else if (!strcmp (c, "errtext")) {
      /* NAME: the text and the length stored (serial build: compared with the model; MPI's wording is its own) */
      char str[sc_MPI_MAX_ERROR_STRING + 1]; int len = ISENT;
      memset (str, 0, sizeof str);
      rc = sc_MPI_Error_string (errcode (tok[1]), str, &len);
      prc (rc); if (len == ISENT) printf (" UNSET "); else printf (" %d ", len); dump ((const unsigned char *) str, strlen (str));
    }
    else if (!strcmp (c, "errclassx") || !strcmp (c, "errtextx")) {
      /* CODE (a number that is none of the 21 codes): serial build only */
      int code = atoi (tok[1]), cls = ISENT, len = ISENT; char str[sc_MPI_MAX_ERROR_STRING + 1];
#ifdef SC_ENABLE_MPI
      printf ("skipped");
#else
      memset (str, 0, sizeof str);
      if (c[3] == 'c') { rc = sc_MPI_Error_class (code, &cls); prc (rc); printf (" "); pint (cls == sc_MPI_ERR_UNKNOWN ? -1 : cls); }
      else { rc = sc_MPI_Error_string (code, str, &len); prc (rc); if (len == ISENT) printf (" UNSET "); else printf (" %d ", len); dump ((const unsigned char *) str, strlen (str)); }
#endif
    }
    else printf ("UNKNOWN_CASE");
    printf ("\n");
    fflush (stdout);            /* a stop in the next case must be attributed to that case */
  }
  fclose (in);
  rc = sc_MPI_Finalize ();
  printf ("finalize "); prc (rc); printf ("\n");
  return 0;
}
