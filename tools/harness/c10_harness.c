/* C10 harness: executes histories of allocation / package calls on the real libsc (built from the working tree,
   ASan+UBSan) and prints one line per call in the format of tools/ocaml/c10_driver.ml (format: checks/C10.py).
   Linked with -Wl,--wrap=malloc,--wrap=free: the ONE malloc call made by sc_malloc_aligned right after the harness
   armed `next_k` returns a pointer that is misaligned by k bytes (k = 0..7), so that the shift computation of the padding
   allocator is exercised for every residue (glibc/ASan malloc alone only ever returns 16-byte aligned pointers).
   Input (stdin): "H" | "E" | "<op> args..." (integers hexadecimal, "-1" = default package; byte strings hex, "-" = empty).
   Output per op: "<result tokens> ; -1:<status> <id>:<status> ..." (status of the default package and of every
   registered id < 32, read with sc_memory_status after EVERY call).  Pointers are never printed, only ptr mod 8,
   ptr - raw, the two bookkeeping words (size, raw - raw). */
#include <sc.h>
#include <sc_containers.h>
#include <sc_private.h>        /* sc_package_rc_count_add: internal header, external linkage */
#include <stdint.h>

void *__real_malloc (size_t n);
void __real_free (void *p);

#define NSH 64
static int   next_k = 0, armed = 0;
static char *last_raw = NULL;
static char *shifted[NSH];          /* pointers handed out with a shift */
static char *shbase[NSH];

void *__wrap_malloc (size_t n)
{
  if (armed) {
    int k = next_k, i;
    armed = 0;
    if (k == 0) { last_raw = (char *) __real_malloc (n); return last_raw; }
    for (i = 0; i < NSH && shifted[i] != NULL; ++i);
    if (i == NSH) { fputs ("HARNESS: shift table full\n", stderr); abort (); }
    shbase[i] = (char *) __real_malloc (n + 16);
    shifted[i] = shbase[i] + k;                /* base is 16-aligned, so raw mod 8 = k */
    last_raw = shifted[i];
    return last_raw;
  }
  return __real_malloc (n);
}
void __wrap_free (void *p)
{
  int i;
  if (p != NULL)
    for (i = 0; i < NSH; ++i)
      if (shifted[i] == (char *) p) { shifted[i] = NULL; __real_free (shbase[i]); return; }
  __real_free (p);
}

#define MAXH 4096
static char *hp[MAXH];      /* handle -> user pointer (NULL once freed) */
static int   hpk[MAXH];     /* package it was obtained for */
static size_t hsz[MAXH];
static int   nh;            /* next handle */
static long  rc_def;        /* what this history added to the default reference counter */
static char  pool[512][16];  /* package names: libsc keeps the pointer, so every registration gets its own buffer */
static int   npool;

static long long parse (const char *s)
{
  int neg = (*s == '-');
  unsigned long long v = strtoull (neg ? s + 1 : s, NULL, 16);
  return neg ? (long long) (0ULL - v) : (long long) v;
}
static int hexv (char c) { return c <= '9' ? c - '0' : (c | 32) - 'a' + 10; }
static size_t parse_bytes (const char *s, unsigned char **out)
{
  size_t n = (s[0] == '-') ? 0 : strlen (s) / 2, i;
  unsigned char *b = (unsigned char *) __real_malloc (n + 1);
  for (i = 0; i < n; ++i) b[i] = (unsigned char) (hexv (s[2 * i]) * 16 + hexv (s[2 * i + 1]));
  b[n] = 0;
  *out = b;
  return n;
}
static void pbytes (const unsigned char *p, size_t n)
{
  size_t i;
  if (n == 0) { fputs ("-", stdout); return; }
  for (i = 0; i < n; ++i) printf ("%02x", p[i]);
}
static void phex (long long v) { if (v < 0) printf ("-%llx", -v); else printf ("%llx", v); }

static void newblock (char *p, int pk, size_t n)
{
  /* result tokens: handle, ptr mod 8, ptr - raw, size word, raw word - raw */
  hp[nh] = p; hpk[nh] = pk; hsz[nh] = n;
  printf ("%x %x ", nh, (unsigned) ((uintptr_t) p % 8));
  phex ((long long) (p - last_raw));
  printf (" %zx ", ((size_t *) p)[-2]);
  phex ((long long) (((char **) p)[-1] - last_raw));
  ++nh;
}
static void observe (void)
{
  int i;
  printf (" ; -1:");
  phex (sc_memory_status (-1));
  for (i = 0; i < 32; ++i)
    if (sc_package_is_registered (i)) { printf (" %x:", i); phex (sc_memory_status (i)); }
  fputs ("\n", stdout);
}
/* give back what a history left behind so that the next one starts balanced */
static void cleanup (void)
{
  int h;
  for (h = 1; h < nh; ++h) {
    if (hp[h] == NULL) continue;
    if (hpk[h] == -1) sc_free (-1, hp[h]);           /* keeps the default counters balanced across histories */
    else __wrap_free (((char **) hp[h])[-1]);        /* package counters are reset by the finalize below: return the raw block */
    hp[h] = NULL;
  }
  if (rc_def) sc_package_rc_count_add (-1, (int) -rc_def);
  rc_def = 0;
  for (h = 0; h < 32; ++h)
    if (sc_package_is_registered (h)) sc_package_set_abort_alloc_mismatch (h, 0);
  sc_finalize_noabort ();
  npool = 0;
}

int main (void)
{
  static char line[1 << 20];
  sc_set_log_defaults (NULL, NULL, SC_LP_SILENT);
  nh = 1;
  while (fgets (line, sizeof line, stdin)) {
    char *tok[8]; int n = 0;
    long long a[8] = {0};
    for (char *p = strtok (line, " \n"); p && n < 8; p = strtok (NULL, " \n")) tok[n++] = p;
    if (n == 0) continue;
    const char *op = tok[0];
    for (int i = 1; i < n; ++i) a[i] = parse (tok[i]);
    if (!strcmp (op, "H")) { cleanup (); nh = 1; printf ("H %x\n", sc_memory_status (-1)); fflush (stdout); continue; }
    if (!strcmp (op, "E")) { cleanup (); printf ("E %x\n", sc_memory_status (-1)); fflush (stdout); continue; }
    unsigned char *d = NULL;
    if (nh >= MAXH - 2) { fputs ("HARNESS: too many handles\n", stderr); abort (); }
    if (!strcmp (op, "malloc")) {
      next_k = (int) a[3]; armed = 1;
      newblock ((char *) sc_malloc ((int) a[1], (size_t) a[2]), (int) a[1], (size_t) a[2]);
    }
    else if (!strcmp (op, "calloc")) {
      next_k = (int) a[4]; armed = 1;
      newblock ((char *) sc_calloc ((int) a[1], (size_t) a[2], (size_t) a[3]), (int) a[1], (size_t) (a[2] * a[3]));
    }
    else if (!strcmp (op, "realloc")) {
      int h = (int) a[2];
      char *old = h ? hp[h] : NULL, *p;
      next_k = (int) a[4]; armed = 1;
      p = (char *) sc_realloc ((int) a[1], old, (size_t) a[3]);
      armed = 0;
      if (h) hp[h] = NULL;
      if (p == NULL) fputs ("0", stdout); else newblock (p, (int) a[1], (size_t) a[3]);
    }
    else if (!strcmp (op, "strdup")) {
      char *p;
      next_k = (int) a[3]; armed = 1;
      if (!strcmp (tok[2], "NULL")) p = sc_strdup ((int) a[1], NULL);
      else { parse_bytes (tok[2], &d); p = sc_strdup ((int) a[1], (const char *) d); }
      armed = 0;
      if (p == NULL) fputs ("0", stdout); else newblock (p, (int) a[1], strlen (p) + 1);
    }
    else if (!strcmp (op, "free")) {
      int h = (int) a[2];
      sc_free ((int) a[1], h ? hp[h] : NULL);
      if (h) hp[h] = NULL;
      fputs ("-", stdout);
    }
    else if (!strcmp (op, "write")) {
      size_t dl = parse_bytes (tok[3], &d);
      if (dl) memcpy (hp[a[1]] + a[2], d, dl);
      fputs ("-", stdout);
    }
    else if (!strcmp (op, "read")) { pbytes ((unsigned char *) hp[a[1]] + a[2], (size_t) a[3]); }
    else if (!strcmp (op, "register")) {
      int id;
      if (npool >= 512) { fputs ("HARNESS: name pool full\n", stderr); abort (); }
      snprintf (pool[npool], sizeof pool[0], "pk%llx", a[1]);
      id = sc_package_register (NULL, SC_LP_DEFAULT, pool[npool], "verif package");
      ++npool;
      phex (id);
    }
    else if (!strcmp (op, "unregister")) {
      sc_package_unregister ((int) a[1]);        /* aborts if the package is not balanced */
      fputs ("-", stdout);
    }
    else if (!strcmp (op, "isreg")) { printf ("%x", sc_package_is_registered ((int) a[1]) ? 1 : 0); }
    else if (!strcmp (op, "check")) { printf ("%x", sc_memory_check_noerr ((int) a[1])); }
    else if (!strcmp (op, "rc")) {
      sc_package_rc_count_add ((int) a[1], (int) a[2]);
      if (a[1] == -1) rc_def += (long) a[2];
      fputs ("-", stdout);
    }
    else if (!strcmp (op, "finalize")) {
      printf ("%x", sc_finalize_noabort ());
    }
    else fputs ("UNKNOWN_OP", stdout);
    if (d != NULL) __real_free (d);
    observe ();
    fflush (stdout);
  }
  cleanup ();
  return 0;
}
