/* C12 harness: the parallel file wrapper of the real libsc (sc_io_open / read_at / read_at_all / write_at /
   write_at_all / close) in its three build configurations, with file-system faults injected through
   `-Wl,--wrap=fopen,...` (see checks/C12.py).
     -DC12_SIM      MPI without MPI I/O (token passing fallback) on the simulated MPI, P ranks in one process
     -DC12_SERIAL   without MPI; a collective operation of P logical ranks is performed as P successive calls
     -DC12_REALMPI  MPI with MPI I/O under mpirun (cases from the file argv[1], output to argv[2].<rank>)
     -DC12_SIMIO    MPI with MPI I/O on the simulated MPI (libsc built with SC_ENABLE_MPIIO and -include c12_mpiio.h): the MPI I/O
                    functions are the MOCK below, whose behaviour is the executable specification coq/C12/MpiioModel.v
                    (m_open, m_set_size, m_close, m_write_at, m_read_at): one file, one amode per open, collective calls
                    synchronise and take effect in rank order, error codes injected by the fault plan (fn = 20..28:
                    open, set_size, close, read_at, write_at, read_at_all, write_at_all, read, write).  Every call is a trace
                    note `mio <fn> <args> -> <error code> <bytes> [<data>]`; the MPI calls the mock makes itself are bracketed
                    by the notes `mio-hide 1` / `mio-hide 0` and dropped by the check.

   stdin: one scenario per line (decimal numbers, blank separated):
     <P> <seed> <adversary> <dataseed> <pathkind> <init> F <nf> {<rank> <fn> <k> <errno> <short>}*nf OPS <nops> op...
       pathkind 0: regular path in the scratch directory   1: path inside a missing directory   2: path is a directory
       init     `-` file absent, `=` empty file, else hex of the initial content
       pathkind 3: the path is a named pipe (FIFO) whose read end the harness holds open (glibc's fopen (.., "ab") on it
                   succeeds and leaves errno = ESPIPE); the file is reported as `fifo`
       fault    the k-th call (from 0) of stdio function fn (0 fopen 1 fwrite 2 fread 3 fseek 4 ftell 5 fflush 6 fclose) that
                rank `rank` makes on the scenario's file fails with `errno` after transferring `short` items;
                short = -1: "success with errno noise" - the call is performed normally and, if it succeeds, errno is set to
                `errno` afterwards (a legal freedom of the C library)
       op       o <amode>                                   sc_io_open (collective)      amode 0 read 1 create 2 append
                c                                           sc_io_close (collective)
                W <tsize> <opid> {<off> <count>}*P          sc_io_write_at_all           rank q: count elements at byte offset off
                R <tsize> {<off> <count>}*P                 sc_io_read_at_all
                w <tsize> <opid> <off> <count>              sc_io_write_at on rank 0 (the other ranks do nothing)
                r <tsize> <off> <count>                     sc_io_read_at  on rank 0
     Operations on a file whose open failed are skipped (line `OUT q i skip`).
   stdout per scenario:
     RUN <i> rc=<simmpi code> steps=<n>            [REPORT ...]
     OUT <rank> <opindex> <op> <class> <ocount> <hex|-> <flag>     one per rank and operation; hex = the read buffer (count*tsize
                                                   bytes, untouched ones are ee); flag = handle is NULL after open/close, spare bytes behind
                                                   a read buffer were modified
     OUT F <hex|missing|dir>                       file content afterwards
     OUT F big <st_size> <st_blocks> {<off>:<hex|->}*   a file larger than BIGFILE bytes (sparse, family big-offset) is not read as
                                                   a whole: fstat size and block count, then per write operation and rank the bytes
                                                   found (pread) in the window [off, off + count*tsize) (`-` = nothing there)
     OUT S <fopen calls> <fclose calls> <streams left open>
     OUT E <rank> <stdio event>                    serial configuration only (the simulated one has them in the trace)
     TRACE-BEGIN ... TRACE-END                     simulated MPI only; stdio calls appear as notes `io ...`
     END <i> mem=<delta of sc_memory_status> */
#include <sc.h>
#include <sc_io.h>
#include <errno.h>
#include <sys/stat.h>
#include <unistd.h>
#include <fcntl.h>
#include <setjmp.h>
#ifdef C12_SIMIO
#define C12_SIM
#endif
#ifdef C12_SIM
#include <simmpi.h>
#endif

/* ------------------------------------------------------------------ stdio interposition */
FILE               *__real_fopen (const char *path, const char *mode);
size_t              __real_fwrite (const void *p, size_t s, size_t n, FILE * f);
size_t              __real_fread (void *p, size_t s, size_t n, FILE * f);
int                 __real_fseek (FILE * f, long off, int whence);
long                __real_ftell (FILE * f);
int                 __real_fflush (FILE * f);
int                 __real_fclose (FILE * f);

#define MAXR 64
#define MAXF 32
#define MAXT 64
typedef struct { int rank, fn, k, err; long shortn; } fault_t;
static struct
{
  int                 active;
  char                path[512];
  fault_t             faults[MAXF];
  int                 nf;
  int                 calls[MAXR][32];
  int                 fifo_rd;          /* pathkind 3: read end of the named pipe, -1 otherwise */
  int                 mopen;            /* C12_SIMIO: MPI file handles currently open (all ranks) */
  FILE               *tracked[MAXT];
  int                 ntracked, nfopen, nfclose;
  int                 lrank;            /* logical rank in the serial configuration */
  size_t              bufcap;           /* bytes that may be dumped from a user buffer */
  FILE               *evout;            /* serial configuration: where events go */
}
G;

static int
cur_rank (void)
{
#ifdef C12_SIM
  int                 r = simmpi_current_rank ();
  return r < 0 ? 0 : r;
#else
  return G.lrank;
#endif
}

static int
is_tracked (FILE * f)
{
  for (int i = 0; i < G.ntracked; ++i)
    if (G.tracked[i] == f)
      return 1;
  return 0;
}

static void
untrack (FILE * f)
{
  for (int i = 0; i < G.ntracked; ++i)
    if (G.tracked[i] == f) {
      G.tracked[i] = G.tracked[--G.ntracked];
      return;
    }
}

static const fault_t *
next_fault (int fn)
{
  int                 r = cur_rank ();
  int                 k = G.calls[r % MAXR][fn]++;
  for (int i = 0; i < G.nf; ++i)
    if (G.faults[i].rank == r && G.faults[i].fn == fn && G.faults[i].k == k)
      return &G.faults[i];
  return NULL;
}

#define IS_NOISE(ft) ((ft) != NULL && (ft)->shortn == -1)

static void
emit (const char *text)
{
#ifdef C12_SIM
  simmpi_trace_note (text);
#else
  if (G.evout)
    fprintf (G.evout, "OUT E %d %s\n", cur_rank (), text);
#endif
}

static char        *
hexdump (const void *p, size_t n)
{
  char               *s = (char *) malloc (2 * n + 2);
  for (size_t i = 0; i < n; ++i)
    sprintf (s + 2 * i, "%02x", ((const unsigned char *) p)[i]);
  if (n == 0)
    strcpy (s, "-");
  return s;
}

FILE               *
__wrap_fopen (const char *path, const char *mode)
{
  if (!G.active || strcmp (path, G.path) != 0)
    return __real_fopen (path, mode);
  const fault_t      *ft = next_fault (0);
  FILE               *f = NULL;
  int                 e;
  char                buf[256];
  ++G.nfopen;
  if (ft && !IS_NOISE (ft)) {
    e = ft->err;
  }
  else {
    f = __real_fopen (path, mode);
    e = errno;
    if (f != NULL && G.ntracked < MAXT)
      G.tracked[G.ntracked++] = f;
    if (f != NULL && IS_NOISE (ft))
      e = ft->err;
  }
  snprintf (buf, sizeof buf, "io fopen %s -> %d %d", mode[0] ? mode : "EMPTY", f != NULL, e);
  emit (buf);
  errno = e;
  return f;
}

size_t
__wrap_fwrite (const void *p, size_t s, size_t n, FILE * f)
{
  if (!G.active || !is_tracked (f))
    return __real_fwrite (p, s, n, f);
  const fault_t      *ft = next_fault (1);
  size_t              r, dump = s * n;
  int                 e;
  if (ft) {
    size_t              m = (!IS_NOISE (ft) && (size_t) ft->shortn < n) ? (size_t) ft->shortn : n;
    r = m ? __real_fwrite (p, s, m, f) : 0;
    e = ft->err;
  }
  else {
    r = __real_fwrite (p, s, n, f);
    e = errno;
  }
  if (dump > G.bufcap)
    dump = G.bufcap;
  char               *h = hexdump (p, dump);
  char               *buf = (char *) malloc (strlen (h) + 128);
  sprintf (buf, "io fwrite %lu %lu %s -> %lu %d", (unsigned long) s, (unsigned long) n, h, (unsigned long) r, e);
  emit (buf);
  free (buf);
  free (h);
  errno = e;
  return r;
}

size_t
__wrap_fread (void *p, size_t s, size_t n, FILE * f)
{
  if (!G.active || !is_tracked (f))
    return __real_fread (p, s, n, f);
  const fault_t      *ft = next_fault (2);
  size_t              r;
  int                 e;
  if (ft) {
    size_t              m = (!IS_NOISE (ft) && (size_t) ft->shortn < n) ? (size_t) ft->shortn : n;
    r = m ? __real_fread (p, s, m, f) : 0;
    e = ft->err;
  }
  else {
    r = __real_fread (p, s, n, f);
    e = errno;
  }
  char               *h = hexdump (p, r * s);
  char               *buf = (char *) malloc (strlen (h) + 128);
  sprintf (buf, "io fread %lu %lu -> %lu %d %s", (unsigned long) s, (unsigned long) n, (unsigned long) r, e, h);
  emit (buf);
  free (buf);
  free (h);
  errno = e;
  return r;
}

int
__wrap_fseek (FILE * f, long off, int whence)
{
  if (!G.active || !is_tracked (f))
    return __real_fseek (f, off, whence);
  const fault_t      *ft = next_fault (3);
  int                 r, e;
  char                buf[128];
  if (ft && !IS_NOISE (ft)) {
    r = -1;
    e = ft->err;
  }
  else {
    r = __real_fseek (f, off, whence);
    e = (r == 0 && IS_NOISE (ft)) ? ft->err : errno;
  }
  snprintf (buf, sizeof buf, "io fseek %ld %d -> %d %d", off, whence, r, e);
  emit (buf);
  errno = e;
  return r;
}

long
__wrap_ftell (FILE * f)
{
  if (!G.active || !is_tracked (f))
    return __real_ftell (f);
  const fault_t      *ft = next_fault (4);
  long                r;
  int                 e;
  char                buf[128];
  if (ft && !IS_NOISE (ft)) {
    r = -1;
    e = ft->err;
  }
  else {
    r = __real_ftell (f);
    e = (r >= 0 && IS_NOISE (ft)) ? ft->err : errno;
  }
  snprintf (buf, sizeof buf, "io ftell -> %ld %d", r, e);
  emit (buf);
  errno = e;
  return r;
}

int
__wrap_fflush (FILE * f)
{
  if (!G.active || f == NULL || !is_tracked (f))
    return __real_fflush (f);
  const fault_t      *ft = next_fault (5);
  int                 r, e;
  char                buf[128];
  r = __real_fflush (f);
  e = errno;
  if (IS_NOISE (ft)) {
    if (r == 0)
      e = ft->err;
  }
  else if (ft) {
    r = EOF;
    e = ft->err;
  }
  snprintf (buf, sizeof buf, "io fflush -> %d %d", r ? -1 : 0, e);
  emit (buf);
  errno = e;
  return r;
}

int
__wrap_fclose (FILE * f)
{
  if (!G.active || !is_tracked (f))
    return __real_fclose (f);
  const fault_t      *ft = next_fault (6);
  int                 r, e;
  char                buf[128];
  ++G.nfclose;
  untrack (f);
  r = __real_fclose (f);
  e = errno;
  if (IS_NOISE (ft)) {
    if (r == 0)
      e = ft->err;
  }
  else if (ft) {
    r = EOF;
    e = ft->err;
  }
  snprintf (buf, sizeof buf, "io fclose -> %d %d", r ? -1 : 0, e);
  emit (buf);
  errno = e;
  return r;
}

#ifdef C12_SIMIO
/* ------------------------------------------------------------------ mock MPI I/O (specification: coq/C12/MpiioModel.v) */
struct c12_mfile
{
  int                 amode;
  long long           pos;      /* individual file pointer (MPI_File_read / MPI_File_write) */
  MPI_Comm            comm;
};
enum { K_MOPEN = 20, K_MSETSIZE, K_MCLOSE, K_MREADAT, K_MWRITEAT, K_MREADATALL, K_MWRITEATALL, K_MREAD, K_MWRITE };

static const fault_t *
mio_fault (int kind, int rank)
{
  int                 k = G.calls[rank % MAXR][kind]++;
  for (int i = 0; i < G.nf; ++i)
    if (G.faults[i].rank == rank && G.faults[i].fn == kind && G.faults[i].k == k)
      return &G.faults[i];
  return NULL;
}

static int
mio_can_read (int a) { return (a & (MPI_MODE_RDONLY | MPI_MODE_RDWR)) != 0; }
static int
mio_can_write (int a) { return (a & (MPI_MODE_WRONLY | MPI_MODE_RDWR)) != 0; }
static int
mio_amode_valid (int a)
{
  int                 n = !!(a & MPI_MODE_RDONLY) + !!(a & MPI_MODE_WRONLY) + !!(a & MPI_MODE_RDWR);
  return n == 1 && !((a & MPI_MODE_RDONLY) && (a & (MPI_MODE_CREATE | MPI_MODE_EXCL)));
}

/* a collective decision: all ranks arrive, rank 0 computes *e (and performs the effect), everybody learns it */
#define MIO_COLLECTIVE_BEGIN(comm) do { emit ("mio-hide 1"); MPI_Barrier (comm); } while (0)
#define MIO_COLLECTIVE_END(comm, e) do { MPI_Bcast (&(e), 1, MPI_INT, 0, comm); emit ("mio-hide 0"); } while (0)

int
MPI_File_open (MPI_Comm comm, const char *filename, int amode, MPI_Info info, MPI_File * fh)
{
  int                 e = MPI_SUCCESS, rank;
  char                buf[128];
  MPI_Comm_rank (comm, &rank);
  MIO_COLLECTIVE_BEGIN (comm);
  if (rank == 0) {
    const fault_t      *ft = mio_fault (K_MOPEN, 0);
    struct stat         st;
    if (ft)
      e = ft->err;
    else if (!mio_amode_valid (amode))
      e = MPI_ERR_AMODE;
    else if (stat (filename, &st) != 0) {
      /* missing: the directory or the file */
      char                dir[512];
      snprintf (dir, sizeof dir, "%s", filename);
      char               *sl = strrchr (dir, '/');
      if (sl) *sl = 0;
      if (sl && stat (dir, &st) != 0)
        e = MPI_ERR_NO_SUCH_FILE;
      else if (amode & MPI_MODE_CREATE) {
        int                 fd = open (filename, O_WRONLY | O_CREAT, 0644);
        if (fd < 0) e = MPI_ERR_ACCESS; else close (fd);
      }
      else
        e = MPI_ERR_NO_SUCH_FILE;
    }
    else if (S_ISDIR (st.st_mode))
      e = MPI_ERR_BAD_FILE;
    else if ((amode & MPI_MODE_CREATE) && (amode & MPI_MODE_EXCL))
      e = MPI_ERR_FILE_EXISTS;
  }
  MIO_COLLECTIVE_END (comm, e);
  if (e == MPI_SUCCESS) {
    *fh = (MPI_File) calloc (1, sizeof (struct c12_mfile));
    (*fh)->amode = amode;
    (*fh)->comm = comm;
    if (amode & MPI_MODE_APPEND) {
      struct stat         st;
      (*fh)->pos = stat (filename, &st) == 0 ? (long long) st.st_size : 0;
    }
    ++G.mopen;
  }
  else
    *fh = MPI_FILE_NULL;
  snprintf (buf, sizeof buf, "mio %d %d -> %d 0", K_MOPEN, amode, e);
  emit (buf);
  return e;
}

int
MPI_File_set_size (MPI_File fh, MPI_Offset size)
{
  int                 e = MPI_SUCCESS, rank;
  char                buf[128];
  MPI_Comm_rank (fh->comm, &rank);
  MIO_COLLECTIVE_BEGIN (fh->comm);
  if (rank == 0) {
    const fault_t      *ft = mio_fault (K_MSETSIZE, 0);
    if (ft)
      e = ft->err;
    else if (!mio_can_write (fh->amode))
      e = MPI_ERR_READ_ONLY;
    else if (truncate (G.path, (off_t) size) != 0)
      e = MPI_ERR_IO;
  }
  MIO_COLLECTIVE_END (fh->comm, e);
  snprintf (buf, sizeof buf, "mio %d %lld -> %d 0", K_MSETSIZE, (long long) size, e);
  emit (buf);
  return e;
}

int
MPI_File_close (MPI_File * fh)
{
  int                 e = MPI_SUCCESS, rank;
  char                buf[128];
  MPI_Comm            comm = (*fh)->comm;
  MPI_Comm_rank (comm, &rank);
  MIO_COLLECTIVE_BEGIN (comm);
  if (rank == 0) {
    const fault_t      *ft = mio_fault (K_MCLOSE, 0);
    if (ft)
      e = ft->err;
  }
  MIO_COLLECTIVE_END (comm, e);
  free (*fh);
  *fh = MPI_FILE_NULL;
  --G.mopen;
  snprintf (buf, sizeof buf, "mio %d -> %d 0", K_MCLOSE, e);
  emit (buf);
  return e;
}

/* one rank's transfer; kind decides the fault plan entry; returns the error code, *nbytes = bytes transferred */
static int
mio_transfer (MPI_File fh, int kind, int wr, long long off, void *buf, int count, MPI_Datatype t, MPI_Status * status)
{
  int                 e = MPI_SUCCESS, tsize = 0, rank = cur_rank ();
  long long           nbytes = 0;
  const fault_t      *ft = mio_fault (kind, rank);
  MPI_Type_size (t, &tsize);
  if (ft)
    e = ft->err;
  else if (wr ? !mio_can_write (fh->amode) : !mio_can_read (fh->amode))
    e = MPI_ERR_ACCESS;
  else if (count > 0) {
    int                 fd = open (G.path, wr ? O_WRONLY : O_RDONLY);
    if (fd < 0)
      e = MPI_ERR_IO;
    else {
      ssize_t             r = wr ? pwrite (fd, buf, (size_t) count * tsize, (off_t) off) : pread (fd, buf, (size_t) count * tsize, (off_t) off);
      if (r < 0) e = MPI_ERR_IO; else nbytes = r;
      close (fd);
    }
  }
  if (status != MPI_STATUS_IGNORE) {
    memset (status, 0, sizeof *status);
    status->simmpi_nbytes = (size_t) nbytes;
  }
  {
    size_t              dump = wr ? (size_t) (count > 0 ? count : 0) * tsize : (size_t) nbytes;
    char               *h = hexdump (buf, dump);
    char               *line = (char *) malloc (strlen (h) + 160);
    if (wr)
      sprintf (line, "mio %d %lld %d %d %s -> %d %lld", kind, off, tsize, count, h, e, nbytes);
    else
      sprintf (line, "mio %d %lld %d %d -> %d %lld %s", kind, off, tsize, count, e, nbytes, h);
    emit (line);
    free (line);
    free (h);
  }
  return e;
}

/* a collective transfer: the ranks' transfers take effect one after the other in rank order */
static int
mio_transfer_all (MPI_File fh, int kind, int wr, long long off, void *buf, int count, MPI_Datatype t, MPI_Status * status)
{
  int                 e = MPI_SUCCESS, rank, size;
  MPI_Comm_rank (fh->comm, &rank);
  MPI_Comm_size (fh->comm, &size);
  for (int r = 0; r < size; ++r) {
    if (r == rank)
      e = mio_transfer (fh, kind, wr, off, buf, count, t, status);
    emit ("mio-hide 1");
    MPI_Barrier (fh->comm);
    emit ("mio-hide 0");
  }
  return e;
}

int
MPI_File_read_at (MPI_File fh, MPI_Offset offset, void *buf, int count, MPI_Datatype t, MPI_Status * status)
{
  return mio_transfer (fh, K_MREADAT, 0, offset, buf, count, t, status);
}

int
MPI_File_write_at (MPI_File fh, MPI_Offset offset, const void *buf, int count, MPI_Datatype t, MPI_Status * status)
{
  return mio_transfer (fh, K_MWRITEAT, 1, offset, (void *) buf, count, t, status);
}

int
MPI_File_read_at_all (MPI_File fh, MPI_Offset offset, void *buf, int count, MPI_Datatype t, MPI_Status * status)
{
  return mio_transfer_all (fh, K_MREADATALL, 0, offset, buf, count, t, status);
}

int
MPI_File_write_at_all (MPI_File fh, MPI_Offset offset, const void *buf, int count, MPI_Datatype t, MPI_Status * status)
{
  return mio_transfer_all (fh, K_MWRITEATALL, 1, offset, (void *) buf, count, t, status);
}

int
MPI_File_read (MPI_File fh, void *buf, int count, MPI_Datatype t, MPI_Status * status)
{
  MPI_Status          st;
  int                 e = mio_transfer (fh, K_MREAD, 0, fh->pos, buf, count, t, &st);
  fh->pos += (long long) st.simmpi_nbytes;
  if (status != MPI_STATUS_IGNORE) *status = st;
  return e;
}

int
MPI_File_write (MPI_File fh, const void *buf, int count, MPI_Datatype t, MPI_Status * status)
{
  MPI_Status          st;
  int                 e = mio_transfer (fh, K_MWRITE, 1, fh->pos, (void *) buf, count, t, &st);
  fh->pos += (long long) st.simmpi_nbytes;
  if (status != MPI_STATUS_IGNORE) *status = st;
  return e;
}

int
MPI_File_get_size (MPI_File fh, MPI_Offset * size)
{
  struct stat         st;
  *size = stat (G.path, &st) == 0 ? (MPI_Offset) st.st_size : 0;
  return MPI_SUCCESS;
}

int
MPI_File_set_errhandler (MPI_File fh, MPI_Errhandler eh)
{
  return MPI_SUCCESS;
}
#endif /* C12_SIMIO */

/* ------------------------------------------------------------------ scenarios */
typedef struct { char kind; int a, tsize, opid; long off[MAXR]; int count[MAXR]; } op_t;
typedef struct
{
  int                 P, adv, pathkind, nops;
  unsigned long       seed;
  unsigned            dseed;
  char               *init;
  op_t               *ops;
  /* results: one text per rank and op */
  char             ***res;
}
scen_t;

static const char  *
class_name (int c)
{
  switch (c) {
  case sc_MPI_SUCCESS: return "SUCCESS";
  case sc_MPI_ERR_ARG: return "ARG";
  case sc_MPI_ERR_COUNT: return "COUNT";
  case sc_MPI_ERR_UNKNOWN: return "UNKNOWN";
  case sc_MPI_ERR_OTHER: return "OTHER";
  case sc_MPI_ERR_NO_MEM: return "NO_MEM";
  case sc_MPI_ERR_FILE: return "FILE";
  case sc_MPI_ERR_NOT_SAME: return "NOT_SAME";
  case sc_MPI_ERR_AMODE: return "AMODE";
  case sc_MPI_ERR_UNSUPPORTED_DATAREP: return "UNSUPPORTED_DATAREP";
  case sc_MPI_ERR_UNSUPPORTED_OPERATION: return "UNSUPPORTED_OPERATION";
  case sc_MPI_ERR_NO_SUCH_FILE: return "NO_SUCH_FILE";
  case sc_MPI_ERR_FILE_EXISTS: return "FILE_EXISTS";
  case sc_MPI_ERR_BAD_FILE: return "BAD_FILE";
  case sc_MPI_ERR_ACCESS: return "ACCESS";
  case sc_MPI_ERR_NO_SPACE: return "NO_SPACE";
  case sc_MPI_ERR_QUOTA: return "QUOTA";
  case sc_MPI_ERR_READ_ONLY: return "READ_ONLY";
  case sc_MPI_ERR_FILE_IN_USE: return "FILE_IN_USE";
  case sc_MPI_ERR_DUP_DATAREP: return "DUP_DATAREP";
  case sc_MPI_ERR_CONVERSION: return "CONVERSION";
  case sc_MPI_ERR_IO: return "IO";
  default:
    {
      static char         b[32];
      snprintf (b, sizeof b, "code%d", c);
      return b;
    }
  }
}

static unsigned char
data_byte (unsigned dseed, int opid, int rank, long k)
{
  unsigned            x = dseed * 2654435761u + (unsigned) opid * 97003u + (unsigned) rank * 40503u + (unsigned) k * 9176u;
  x ^= x >> 13; x *= 0x5bd1e995u; x ^= x >> 15;
  return (unsigned char) (x & 0xff);
}

static sc_MPI_Datatype
type_of (int tsize)
{
  return tsize == 1 ? sc_MPI_BYTE : tsize == 4 ? sc_MPI_INT : sc_MPI_DOUBLE;
}

#define SLACK 64                /* spare bytes behind every user buffer */

/* one logical rank performs operation i; `file` is this rank's handle */
static void
do_op (scen_t * sc, int rank, int i, sc_MPI_File * file, int *opened)
{
  op_t               *o = &sc->ops[i];
  char               *out = NULL;
  int                 cls, ocount = -7;
  {
    char                mk[64];
    snprintf (mk, sizeof mk, "op %d %c", i, o->kind);
    emit (mk);
  }
  if (o->kind == 'o') {
    *file = sc_MPI_FILE_NULL;
    cls = sc_io_open (sc_MPI_COMM_WORLD, G.path, (sc_io_open_mode_t) o->a, sc_MPI_INFO_NULL, file);
    *opened = (cls == sc_MPI_SUCCESS);
    out = (char *) malloc (96);
    snprintf (out, 96, "o %s 0 - %d", class_name (cls), *file == sc_MPI_FILE_NULL);
  }
  else if (!*opened) {
    out = strdup ("skip");
  }
  else if (o->kind == 'c') {
    cls = sc_io_close (file);
    *opened = 0;
    out = (char *) malloc (96);
    snprintf (out, 96, "c %s 0 - %d", class_name (cls), *file == sc_MPI_FILE_NULL);
  }
  else if (o->kind == 'W' || o->kind == 'w') {
    int                 q = rank;
    if (o->kind == 'w' && rank != 0) {
      out = strdup ("idle");
    }
    else {
      size_t              nb = (size_t) o->count[q] * o->tsize;
      unsigned char      *buf = (unsigned char *) malloc (nb + SLACK);
      for (size_t k = 0; k < nb + SLACK; ++k)
        buf[k] = k < nb ? data_byte (sc->dseed, o->opid, q, (long) k) : 0xEE;
      G.bufcap = nb + SLACK;
      if (o->kind == 'W')
        cls = sc_io_write_at_all (*file, (sc_MPI_Offset) o->off[q], buf, o->count[q], type_of (o->tsize), &ocount);
      else
        cls = sc_io_write_at (*file, (sc_MPI_Offset) o->off[q], buf, o->count[q], type_of (o->tsize), &ocount);
      out = (char *) malloc (96);
      snprintf (out, 96, "%c %s %d - 0", o->kind, class_name (cls), ocount);
      free (buf);
    }
  }
  else if (o->kind == 'R' || o->kind == 'r') {
    int                 q = rank;
    if (o->kind == 'r' && rank != 0) {
      out = strdup ("idle");
    }
    else {
      size_t              nb = (size_t) o->count[q] * o->tsize;
      unsigned char      *buf = (unsigned char *) malloc (nb + SLACK);
      memset (buf, 0xEE, nb + SLACK);
      if (o->kind == 'R')
        cls = sc_io_read_at_all (*file, (sc_MPI_Offset) o->off[q], buf, o->count[q], type_of (o->tsize), &ocount);
      else
        cls = sc_io_read_at (*file, (sc_MPI_Offset) o->off[q], buf, o->count[q], type_of (o->tsize), &ocount);
      /* the requested part of the buffer is shown (untouched bytes read ee); the spare bytes behind it must stay 0xEE */
      int                 dirty = 0;
      for (size_t k = nb; k < nb + SLACK; ++k)
        dirty |= buf[k] != 0xEE;
      char               *h = hexdump (buf, nb);
      out = (char *) malloc (strlen (h) + 96);
      sprintf (out, "%c %s %d %s %d", o->kind, class_name (cls), ocount, h, dirty);
      free (h);
      free (buf);
    }
  }
  else {
    out = strdup ("badop");
  }
  sc->res[rank][i] = out;
}

static void
rank_main (int rank, int size, void *varg)
{
  scen_t             *sc = (scen_t *) varg;
  sc_MPI_File         file = sc_MPI_FILE_NULL;
  int                 opened = 0;
  for (int i = 0; i < sc->nops; ++i)
    do_op (sc, rank, i, &file, &opened);
}

static int
hexval (int c)
{
  return c <= '9' ? c - '0' : (c | 32) - 'a' + 10;
}

static void
prepare_file (scen_t * sc, const char *dir)
{
  char                sub[600];
  snprintf (sub, sizeof sub, "%s/c12.%d.dat", dir, (int) getpid ());
  if (sc->pathkind == 1)
    snprintf (G.path, sizeof G.path, "%s/c12-missing-dir.%d/x.dat", dir, (int) getpid ());
  else if (sc->pathkind == 2)
    snprintf (G.path, sizeof G.path, "%s", dir);
  else
    snprintf (G.path, sizeof G.path, "%s", sub);
  G.fifo_rd = -1;
  if (sc->pathkind == 3) {
    remove (G.path);
    if (mkfifo (G.path, 0600) == 0)
      G.fifo_rd = open (G.path, O_RDWR | O_NONBLOCK);   /* both ends: no fopen blocks */
  }
  if (sc->pathkind == 0) {
    remove (G.path);
    if (strcmp (sc->init, "-") != 0) {
      FILE               *f = __real_fopen (G.path, "wb");
      if (strcmp (sc->init, "=") != 0)
        for (const char *p = sc->init; p[0] && p[1]; p += 2)
          fputc (hexval (p[0]) * 16 + hexval (p[1]), f);
      __real_fclose (f);
    }
  }
}

#define BIGFILE 65536

static void
print_file (FILE * outf, scen_t * sc)
{
  struct stat         st;
  if (stat (G.path, &st) != 0) {
    fprintf (outf, "OUT F missing\n");
    return;
  }
  if (S_ISDIR (st.st_mode)) {
    fprintf (outf, "OUT F dir\n");
    return;
  }
  if (S_ISFIFO (st.st_mode)) {
    fprintf (outf, "OUT F fifo\n");
    return;
  }
  if ((long long) st.st_size > BIGFILE) {
    /* never read such a file as a whole: size, blocks, and the windows of the write operations */
    int                 fd = open (G.path, O_RDONLY);
    fprintf (outf, "OUT F big %lld %lld", (long long) st.st_size, (long long) st.st_blocks);
    for (int i = 0; i < sc->nops; ++i) {
      op_t               *o = &sc->ops[i];
      if (o->kind != 'w' && o->kind != 'W')
        continue;
      for (int q = 0; q < (o->kind == 'w' ? 1 : sc->P); ++q) {
        size_t              nb = (size_t) o->count[q] * o->tsize;
        unsigned char      *buf = (unsigned char *) malloc (nb + 1);
        ssize_t             got = (fd >= 0 && nb > 0) ? pread (fd, buf, nb, (off_t) o->off[q]) : 0;
        char               *h = hexdump (buf, got > 0 ? (size_t) got : 0);
        fprintf (outf, " %ld:%s", o->off[q], h);
        free (h);
        free (buf);
      }
    }
    fprintf (outf, "\n");
    if (fd >= 0)
      close (fd);
    return;
  }
  FILE               *f = __real_fopen (G.path, "rb");
  int                 c, n = 0;
  fprintf (outf, "OUT F ");
  while (f && (c = fgetc (f)) != EOF) {
    fprintf (outf, "%02x", c);
    ++n;
  }
  if (n == 0)
    fprintf (outf, "=");
  fprintf (outf, "\n");
  if (f)
    __real_fclose (f);
}

static int
parse_scenario (char *line, scen_t * sc)
{
  char               *save = NULL, *t;
#define TOK() (t = strtok_r (NULL, " \t\r\n", &save))
  t = strtok_r (line, " \t\r\n", &save);
  if (!t) return 0;
  sc->P = atoi (t);
  if (!TOK ()) return 0; sc->seed = strtoul (t, NULL, 10);
  if (!TOK ()) return 0; sc->adv = atoi (t);
  if (!TOK ()) return 0; sc->dseed = (unsigned) strtoul (t, NULL, 10);
  if (!TOK ()) return 0; sc->pathkind = atoi (t);
  if (!TOK ()) return 0; sc->init = strdup (t);
  if (!TOK () || strcmp (t, "F")) return 0;
  if (!TOK ()) return 0; G.nf = atoi (t);
  if (G.nf > MAXF || sc->P > MAXR || sc->P < 1) return 0;
  for (int i = 0; i < G.nf; ++i) {
    fault_t            *f = &G.faults[i];
    if (!TOK ()) return 0; f->rank = atoi (t);
    if (!TOK ()) return 0; f->fn = atoi (t);
    if (!TOK ()) return 0; f->k = atoi (t);
    if (!TOK ()) return 0; f->err = atoi (t);
    if (!TOK ()) return 0; f->shortn = atol (t);
  }
  if (!TOK () || strcmp (t, "OPS")) return 0;
  if (!TOK ()) return 0; sc->nops = atoi (t);
  sc->ops = (op_t *) calloc ((size_t) sc->nops + 1, sizeof (op_t));
  for (int i = 0; i < sc->nops; ++i) {
    op_t               *o = &sc->ops[i];
    if (!TOK ()) return 0; o->kind = t[0];
    switch (o->kind) {
    case 'o': if (!TOK ()) return 0; o->a = atoi (t); break;
    case 'c': break;
    case 'W': case 'R':
      if (!TOK ()) return 0; o->tsize = atoi (t);
      if (o->kind == 'W') { if (!TOK ()) return 0; o->opid = atoi (t); }
      for (int q = 0; q < sc->P; ++q) {
        if (!TOK ()) return 0; o->off[q] = atol (t);
        if (!TOK ()) return 0; o->count[q] = atoi (t);
      }
      break;
    case 'w': case 'r':
      if (!TOK ()) return 0; o->tsize = atoi (t);
      if (o->kind == 'w') { if (!TOK ()) return 0; o->opid = atoi (t); }
      if (!TOK ()) return 0; o->off[0] = atol (t);
      if (!TOK ()) return 0; o->count[0] = atoi (t);
      break;
    default: return 0;
    }
  }
  return 1;
}

#ifdef C12_SERIAL
/* SC_ABORT in the serial configuration: back to the scenario loop (the simulated MPI has its own abort handler) */
static jmp_buf      serial_abort_jmp;
static void
serial_abort_handler (void)
{
  longjmp (serial_abort_jmp, 1);
}
#endif

#ifndef C12_REALMPI
int
main (void)
{
  static char         line[1 << 20];
  char                tpath[512];
  const char         *dir = getenv ("VERIF_SCRATCH") ? getenv ("VERIF_SCRATCH") : "/var/tmp";
  int                 run = 0;
  sc_init (sc_MPI_COMM_NULL, 0, 0, NULL, SC_LP_SILENT);
#ifdef C12_SIM
  sc_set_abort_handler (simmpi_abort_handler);
#endif
#ifdef C12_SERIAL
  sc_set_abort_handler (serial_abort_handler);
#endif
  snprintf (tpath, sizeof tpath, "%s/c12trace.%d.jsonl", dir, (int) getpid ());
  while (fgets (line, sizeof line, stdin)) {
    scen_t              sc;
    memset (&sc, 0, sizeof sc);
    memset (&G, 0, sizeof G);
    if (!parse_scenario (line, &sc)) {
      printf ("RUN %d rc=99 steps=0\nEND %d mem=0\n", run, run);
      ++run;
      continue;
    }
    sc.res = (char ***) calloc ((size_t) sc.P, sizeof (char **));
    for (int q = 0; q < sc.P; ++q)
      sc.res[q] = (char **) calloc ((size_t) sc.nops + 1, sizeof (char *));
    prepare_file (&sc, dir);
    int                 mem0 = sc_memory_status (sc_package_id);
    int                 rc = 0;
    long                steps = 0;
    G.active = 1;
#ifdef C12_SIM
    simmpi_opts         o;
    simmpi_report       rep;
    simmpi_opts_default (&o);
    o.nranks = sc.P; o.seed = sc.seed; o.adversary = sc.adv; o.trace_path = tpath;
    rc = simmpi_run (&o, rank_main, &sc, &rep);
    steps = rep.steps;
    G.active = 0;
    printf ("RUN %d rc=%d steps=%ld\n", run, rc, steps);
    if (rc) { char *t = rep.text; for (char *p = t; *p; ++p) if (*p == '\n') *p = '~'; printf ("REPORT %s\n", t); }
    simmpi_report_free (&rep);
#else
    /* serial: the logical ranks take turns operation by operation, each with its own handle; an
       open/close is performed once (by logical rank 0) because there is one process */
    /* the stdio events are collected and printed behind the RUN line, whose code tells whether the scenario aborted */
    char               *evbuf = NULL;
    size_t              evlen = 0;
    G.evout = open_memstream (&evbuf, &evlen);
    if (setjmp (serial_abort_jmp) != 0) {
      rc = 4;
    }
    else {
      sc_MPI_File         file = sc_MPI_FILE_NULL;
      int                 opened = 0;
      for (int i = 0; i < sc.nops; ++i) {
        char                k = sc.ops[i].kind;
        for (int q = 0; q < sc.P; ++q) {
          G.lrank = q;
          if ((k == 'o' || k == 'c' || k == 'w' || k == 'r') && q > 0) {
            sc.res[q][i] = strdup ("idle");
            continue;
          }
          do_op (&sc, q, i, &file, &opened);
        }
      }
      G.lrank = 0;
    }
    G.active = 0;
    G.lrank = 0;
    __real_fclose (G.evout);
    G.evout = NULL;
    printf ("RUN %d rc=%d steps=0\n", run, rc);
    if (rc)
      printf ("REPORT SC_ABORT in the serial configuration\n");
    if (evbuf) {
      fputs (evbuf, stdout);
      free (evbuf);
    }
#endif
    for (int q = 0; q < sc.P; ++q)
      for (int i = 0; i < sc.nops; ++i)
        printf ("OUT %d %d %s\n", q, i, sc.res[q][i] ? sc.res[q][i] : "none");
    /* streams the code under test left open (after an abort, or a leak) */
#ifdef C12_SIMIO
    printf ("OUT S %d %d %d\n", G.nfopen, G.nfclose, G.mopen);       /* MPI file handles never closed */
#else
    printf ("OUT S %d %d %d\n", G.nfopen, G.nfclose, G.ntracked);
#endif
    for (int i = 0; i < G.ntracked; ++i)
      __real_fclose (G.tracked[i]);
    print_file (stdout, &sc);
#ifdef C12_SIM
    printf ("TRACE-BEGIN\n");
    {
      FILE               *f = __real_fopen (tpath, "r");
      if (f) { char buf[65536]; size_t k; while ((k = __real_fread (buf, 1, sizeof buf, f)) > 0) __real_fwrite (buf, 1, k, stdout); __real_fclose (f); }
    }
    printf ("TRACE-END\n");
#endif
    printf ("END %d mem=%d\n", run, sc_memory_status (sc_package_id) - mem0);
    if (G.fifo_rd >= 0)
      close (G.fifo_rd);
    if (sc.pathkind == 0 || sc.pathkind == 3)
      remove (G.path);
    for (int q = 0; q < sc.P; ++q) {
      for (int i = 0; i < sc.nops; ++i)
        free (sc.res[q][i]);
      free (sc.res[q]);
    }
    free (sc.res); free (sc.ops); free (sc.init);
    ++run;
  }
  remove (tpath);
  return 0;
}
#else /* C12_REALMPI */
int
main (int argc, char **argv)
{
  static char         line[1 << 20];
  char                opath[600];
  int                 run = 0, rank, size;
  MPI_Init (&argc, &argv);
  sc_init (MPI_COMM_WORLD, 0, 0, NULL, SC_LP_SILENT);
  MPI_Comm_rank (MPI_COMM_WORLD, &rank);
  MPI_Comm_size (MPI_COMM_WORLD, &size);
  MPI_Comm_set_errhandler (MPI_COMM_WORLD, MPI_ERRORS_RETURN);
  MPI_File_set_errhandler (MPI_FILE_NULL, MPI_ERRORS_RETURN);
  FILE               *in = __real_fopen (argv[1], "r");
  snprintf (opath, sizeof opath, "%s.%d", argv[2], rank);
  FILE               *outf = __real_fopen (opath, "w");
  const char         *dir = argv[3];
  while (in && fgets (line, sizeof line, in)) {
    scen_t              sc;
    memset (&sc, 0, sizeof sc);
    memset (&G, 0, sizeof G);
    if (!parse_scenario (line, &sc) || sc.P != size) {
      fprintf (outf, "RUN %d rc=99 steps=0\nEND %d mem=0\n", run, run);
      ++run;
      continue;
    }
    sc.res = (char ***) calloc ((size_t) sc.P, sizeof (char **));
    for (int q = 0; q < sc.P; ++q)
      sc.res[q] = (char **) calloc ((size_t) sc.nops + 1, sizeof (char *));
    /* one common path: the pid of rank 0 */
    int                 pid0 = (int) getpid ();
    MPI_Bcast (&pid0, 1, MPI_INT, 0, MPI_COMM_WORLD);
    if (sc.pathkind == 1) snprintf (G.path, sizeof G.path, "%s/c12-missing-dir.%d/x.dat", dir, pid0);
    else if (sc.pathkind == 2) snprintf (G.path, sizeof G.path, "%s", dir);
    else snprintf (G.path, sizeof G.path, "%s/c12.%d.dat", dir, pid0);
    if (rank == 0 && sc.pathkind == 0) {
      remove (G.path);
      if (strcmp (sc.init, "-") != 0) {
        FILE               *f = __real_fopen (G.path, "wb");
        if (strcmp (sc.init, "=") != 0)
          for (const char *p = sc.init; p[0] && p[1]; p += 2)
            fputc (hexval (p[0]) * 16 + hexval (p[1]), f);
        __real_fclose (f);
      }
    }
    MPI_Barrier (MPI_COMM_WORLD);
    int                 mem0 = sc_memory_status (sc_package_id);
    rank_main (rank, size, &sc);
    MPI_Barrier (MPI_COMM_WORLD);
    fprintf (outf, "RUN %d rc=0 steps=0\n", run);
    for (int i = 0; i < sc.nops; ++i)
      fprintf (outf, "OUT %d %d %s\n", rank, i, sc.res[rank][i] ? sc.res[rank][i] : "none");
    if (rank == 0) {
      fprintf (outf, "OUT S 0 0 0\n");
      print_file (outf, &sc);
    }
    fprintf (outf, "END %d mem=%d\n", run, sc_memory_status (sc_package_id) - mem0);
    MPI_Barrier (MPI_COMM_WORLD);
    if (rank == 0 && sc.pathkind == 0)
      remove (G.path);
    MPI_Barrier (MPI_COMM_WORLD);
    for (int q = 0; q < sc.P; ++q) {
      for (int i = 0; i < sc.nops; ++i)
        free (sc.res[q][i]);
      free (sc.res[q]);
    }
    free (sc.res); free (sc.ops); free (sc.init);
    ++run;
  }
  fclose (outf);
  sc_finalize ();
  MPI_Finalize ();
  return 0;
}
#endif
