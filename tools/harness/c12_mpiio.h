/* C12: the MPI I/O interface that src/sc_io.c uses in the configuration SC_ENABLE_MPI + SC_ENABLE_MPIIO, declared on top of
   the simulated mpi.h (tools/simmpi has no MPI I/O).  The functions are IMPLEMENTED by tools/harness/c12_harness.c (-DC12_SIMIO):
   a mock whose behaviour is the executable specification coq/C12/MpiioModel.v (`m_open`, `m_set_size`, `m_read_at`, ...): one
   file = a byte array, one amode per open, collective calls synchronise.  It is used in two ways:
     * force-included (`-include`) when libsc is built for the simulated MPI with SC_ENABLE_MPIIO (checks/C12.py, variant B-sim);
     * included by tools/c2g/groups_C12.py when clang parses sc_io.c in that configuration (group OpenC12).
   The constants have the values of Open MPI 4.1 (mpi.h); nothing depends on the particular numbers: they reach the Coq side
   through tools/c2g/wrap/consts_c12.c. */
#ifndef C12_MPIIO_H
#define C12_MPIIO_H

#include <mpi.h>

typedef struct c12_mfile *MPI_File;
#define MPI_FILE_NULL ((MPI_File) 0)

#define MPI_MODE_CREATE            1
#define MPI_MODE_RDONLY            2
#define MPI_MODE_WRONLY            4
#define MPI_MODE_RDWR              8
#define MPI_MODE_DELETE_ON_CLOSE  16
#define MPI_MODE_UNIQUE_OPEN      32
#define MPI_MODE_EXCL             64
#define MPI_MODE_APPEND          128
#define MPI_MODE_SEQUENTIAL      256

#define MPI_SEEK_SET             600
#define MPI_SEEK_CUR             602
#define MPI_SEEK_END             604

int                 MPI_File_open (MPI_Comm comm, const char *filename, int amode, MPI_Info info, MPI_File * fh);
int                 MPI_File_close (MPI_File * fh);
int                 MPI_File_set_size (MPI_File fh, MPI_Offset size);
int                 MPI_File_get_size (MPI_File fh, MPI_Offset * size);
int                 MPI_File_read (MPI_File fh, void *buf, int count, MPI_Datatype t, MPI_Status * status);
int                 MPI_File_write (MPI_File fh, const void *buf, int count, MPI_Datatype t, MPI_Status * status);
int                 MPI_File_read_at (MPI_File fh, MPI_Offset offset, void *buf, int count, MPI_Datatype t, MPI_Status * status);
int                 MPI_File_read_at_all (MPI_File fh, MPI_Offset offset, void *buf, int count, MPI_Datatype t, MPI_Status * status);
int                 MPI_File_write_at (MPI_File fh, MPI_Offset offset, const void *buf, int count, MPI_Datatype t, MPI_Status * status);
int                 MPI_File_write_at_all (MPI_File fh, MPI_Offset offset, const void *buf, int count, MPI_Datatype t, MPI_Status * status);
int                 MPI_File_set_errhandler (MPI_File fh, MPI_Errhandler eh);

#endif /* !C12_MPIIO_H */
