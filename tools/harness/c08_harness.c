/* C08 harness: executes operation histories on real sc_arrays (libsc built from the working tree).
   Input (stdin): lines  "H" (new history) | "<op> args..." | "E" (end of history).
   Output: one line per input line:  "<result> ; h:esz:cnt:hexbytes ..." (all live handles, ascending),
   "H" for H and "status <sc_memory_status (-1) relative to the start of the history>" for E.
   Integers are hexadecimal, byte strings are hex pairs ("-" = empty).  Pointers and allocation sizes are never printed.
   Every operation line ends with " | <sc_memory_status (-1) relative to the start of the history, decimal> h:K:P:B ..." for all
   live handles: K = o (owner, byte_alloc >= 0) | v (view), P = N (array == NULL) | P, B = Z (byte_alloc == 0) | A.  This is the
   RELEASED STATE the documentation speaks about ("the effect equals sc_array_reset", "a newly initialized array", "memory
   neutral"); it is judged by the reference of the check alone and is not part of the comparison with the extracted model. */
#include <sc.h>
#include <sc_containers.h>

#define NH 24
static sc_array_t   sarr[NH];
static sc_array_t  *parr[NH];
static int          kind[NH];   /* 0 free, 1 static struct, 2 created by sc_array_new* */
static size_t       g_esz;
static int          g_base;     /* sc_memory_status at the start of the history */

static int cmp_mem (const void *a, const void *b) { return memcmp (a, b, g_esz); }
static size_t type_first (sc_array_t * array, size_t index, void *data)
{
  (void) data;
  return (size_t) *(unsigned char *) sc_array_index (array, index);
}

static long long parse (const char *s)
{
  int neg = (*s == '-');
  unsigned long long v = strtoull (neg ? s + 1 : s, NULL, 16);
  return neg ? (long long) (0ULL - v) : (long long) v;
}
static int hexv (char c) { return c <= '9' ? c - '0' : (c | 32) - 'a' + 10; }
static size_t parse_bytes (const char *s, unsigned char **out)
{
  size_t n = (s[0] == '-') ? 0 : strlen (s) / 2, i;
  unsigned char *b = (unsigned char *) malloc (n + 1);
  for (i = 0; i < n; ++i) b[i] = (unsigned char) (hexv (s[2 * i]) * 16 + hexv (s[2 * i + 1]));
  *out = b;
  return n;
}
static void pbytes (const unsigned char *p, size_t n)
{
  size_t i;
  if (n == 0) { fputs ("-", stdout); return; }
  for (i = 0; i < n; ++i) printf ("%02x", p[i]);
}
static void observe (void)
{
  int h;
  fputs (" ;", stdout);
  for (h = 0; h < NH; ++h) {
    if (kind[h]) {
      sc_array_t *a = parr[h];
      size_t i;
      printf (" %x:%zx:%zx:", h, a->elem_size, a->elem_count);
      if (a->elem_count == 0) fputs ("-", stdout);
      /* read every element through the public accessor */
      for (i = 0; i < a->elem_count; ++i) pbytes ((unsigned char *) sc_array_index (a, i), a->elem_size);
    }
  }
  printf (" | %d", sc_memory_status (-1) - g_base);
  for (h = 0; h < NH; ++h) {
    if (kind[h]) {
      sc_array_t *a = parr[h];
      printf (" %x:%c:%c:%c", h, a->byte_alloc < 0 ? 'v' : 'o', a->array == NULL ? 'N' : 'P', a->byte_alloc == 0 ? 'Z' : 'A');
    }
  }
  fputs ("\n", stdout);
}
static sc_array_t *mk (int dyn, int h) { kind[h] = dyn ? 2 : 1; if (!dyn) parr[h] = &sarr[h]; return parr[h]; }

int main (void)
{
  static char line[1 << 22];
  sc_set_log_defaults (NULL, NULL, SC_LP_SILENT);
  while (fgets (line, sizeof line, stdin)) {
    char *tok[16]; int n = 0;
    long long a[16] = {0};
    for (char *p = strtok (line, " \n"); p && n < 16; p = strtok (NULL, " \n")) tok[n++] = p;
    if (n == 0) continue;
    const char *op = tok[0];
    for (int i = 1; i < n; ++i) a[i] = parse (tok[i]);
    if (!strcmp (op, "H")) {
      for (int h = 0; h < NH; ++h) kind[h] = 0;
      g_base = sc_memory_status (-1);
      puts ("H");
      continue;
    }
    if (!strcmp (op, "E")) { printf ("status %x\n", sc_memory_status (-1) - g_base); continue; }
    unsigned char *d = NULL; size_t dl = 0;
    int h = (int) a[1];
    if (!strcmp (op, "init")) {
      h = (int) a[2];
      if (a[1]) { kind[h] = 2; parr[h] = sc_array_new ((size_t) a[3]); }
      else sc_array_init (mk (0, h), (size_t) a[3]);
      fputs ("-", stdout);
    }
    else if (!strcmp (op, "initc")) {
      h = (int) a[2];
      dl = parse_bytes (tok[5], &d);
      if (a[1] == 1) { kind[h] = 2; parr[h] = sc_array_new_count ((size_t) a[3], (size_t) a[4]); }
      else if (a[1] == 2) { kind[h] = 2; parr[h] = sc_array_new_size ((size_t) a[3], (size_t) a[4]); }
      else if (a[1] == 3) sc_array_init_size (mk (0, h), (size_t) a[3], (size_t) a[4]);
      else sc_array_init_count (mk (0, h), (size_t) a[3], (size_t) a[4]);
      if (dl) memcpy (parr[h]->array, d, dl);
      fputs ("-", stdout);
    }
    else if (!strcmp (op, "view")) {
      h = (int) a[2];
      if (a[1]) { kind[h] = 2; parr[h] = sc_array_new_view (parr[a[3]], (size_t) a[4], (size_t) a[5]); }
      else sc_array_init_view (mk (0, h), parr[a[3]], (size_t) a[4], (size_t) a[5]);
      fputs ("-", stdout);
    }
    else if (!strcmp (op, "reshape")) {
      sc_array_init_reshape (mk (0, h), parr[a[2]], (size_t) a[3], (size_t) a[4]);
      fputs ("-", stdout);
    }
    else if (!strcmp (op, "data")) {
      h = (int) a[2];
      char *basep = parr[a[3]]->array + a[4];
      if (a[1]) { kind[h] = 2; parr[h] = sc_array_new_data (basep, (size_t) a[5], (size_t) a[6]); }
      else sc_array_init_data (mk (0, h), basep, (size_t) a[5], (size_t) a[6]);
      fputs ("-", stdout);
    }
    else if (!strcmp (op, "reset")) { sc_array_reset (parr[h]); fputs ("-", stdout); }
    else if (!strcmp (op, "destroy")) {
      if (a[2]) sc_array_destroy_null (&parr[h]); else sc_array_destroy (parr[h]);
      kind[h] = 0; fputs ("-", stdout);
    }
    else if (!strcmp (op, "drop")) { sc_array_reset (parr[h]); kind[h] = 0; fputs ("-", stdout); }
    /* a static struct is forgotten WITHOUT a call: legal for a view and for an array that was released by a reset-equivalent */
    else if (!strcmp (op, "abandon")) { memset (parr[h], 0x5a, sizeof (sc_array_t)); kind[h] = 0; fputs ("-", stdout); }
    else if (!strcmp (op, "trunc")) { sc_array_truncate (parr[h]); fputs ("-", stdout); }
    else if (!strcmp (op, "rewind")) { sc_array_rewind (parr[h], (size_t) a[2]); fputs ("-", stdout); }
    else if (!strcmp (op, "resize")) {
      size_t old = parr[h]->elem_count;
      dl = parse_bytes (tok[3], &d);
      sc_array_resize (parr[h], (size_t) a[2]);
      if (dl) memcpy (parr[h]->array + old * parr[h]->elem_size, d, dl);
      fputs ("-", stdout);
    }
    /* a view grows again inside its capacity; nothing is written */
    else if (!strcmp (op, "regrow")) { sc_array_resize (parr[h], (size_t) a[2]); fputs ("-", stdout); }
    else if (!strcmp (op, "pushc")) {
      dl = parse_bytes (tok[3], &d);
      void *p = sc_array_push_count (parr[h], (size_t) a[2]);
      if (dl) memcpy (p, d, dl);
      fputs ("-", stdout);
    }
    else if (!strcmp (op, "push")) {
      dl = parse_bytes (tok[2], &d);
      void *p = sc_array_push (parr[h]);
      if (dl) memcpy (p, d, dl);
      fputs ("-", stdout);
    }
    else if (!strcmp (op, "pop")) { void *p = sc_array_pop (parr[h]); pbytes ((unsigned char *) p, parr[h]->elem_size); }
    else if (!strcmp (op, "copy")) { sc_array_copy (parr[a[1]], parr[a[2]]); fputs ("-", stdout); }
    else if (!strcmp (op, "copyinto")) { sc_array_copy_into (parr[a[1]], (size_t) a[2], parr[a[3]]); fputs ("-", stdout); }
    else if (!strcmp (op, "move")) {
      sc_array_move_part (parr[a[1]], (size_t) a[2], parr[a[3]], (size_t) a[4], (size_t) a[5]); fputs ("-", stdout);
    }
    else if (!strcmp (op, "memset")) { sc_array_memset (parr[h], (int) a[2]); fputs ("-", stdout); }
    else if (!strcmp (op, "set")) {
      dl = parse_bytes (tok[3], &d);
      if (dl) memcpy (sc_array_index (parr[h], (size_t) a[2]), d, dl);
      fputs ("-", stdout);
    }
    else if (!strcmp (op, "index")) {
      unsigned char *p;
      switch ((int) a[3]) {       /* the typed variants of the accessor */
      case 1: p = (unsigned char *) sc_array_index_int (parr[h], (int) a[2]); break;
      case 2: p = (unsigned char *) sc_array_index_long (parr[h], (long) a[2]); break;
      case 3: p = (unsigned char *) sc_array_index_ssize_t (parr[h], (ssize_t) a[2]); break;
      case 4: p = (unsigned char *) sc_array_index_int16 (parr[h], (int16_t) a[2]); break;
      case 5: p = (unsigned char *) sc_array_index_null (parr[h], (size_t) a[2]); break;
      default: p = (unsigned char *) sc_array_index (parr[h], (size_t) a[2]);
      }
      if (sc_array_position (parr[h], p) != (size_t) a[2]) fputs ("BADPOSITION ", stdout);
      pbytes (p, parr[h]->elem_size);
    }
    else if (!strcmp (op, "sort")) { g_esz = parr[h]->elem_size; sc_array_sort (parr[h], cmp_mem); fputs ("-", stdout); }
    else if (!strcmp (op, "uniq")) { g_esz = parr[h]->elem_size; sc_array_uniq (parr[h], cmp_mem); fputs ("-", stdout); }
    else if (!strcmp (op, "issorted")) { g_esz = parr[h]->elem_size; printf ("%x", sc_array_is_sorted (parr[h], cmp_mem)); }
    else if (!strcmp (op, "isequal")) { printf ("%x", sc_array_is_equal (parr[a[1]], parr[a[2]]) ? 1 : 0); }
    else if (!strcmp (op, "bsearch")) {
      ssize_t r;
      dl = parse_bytes (tok[2], &d);
      g_esz = parr[h]->elem_size;
      r = sc_array_bsearch (parr[h], d, cmp_mem);
      if (r < 0) printf ("-%zx", (size_t) (-r));
      else if ((size_t) r < parr[h]->elem_count && !memcmp (sc_array_index (parr[h], (size_t) r), d, g_esz)) fputs ("hit", stdout);
      else printf ("BADHIT %zx", (size_t) r);
    }
    else if (!strcmp (op, "checksum")) { printf ("%x", sc_array_checksum (parr[h])); }
    else if (!strcmp (op, "isperm")) { printf ("%x", sc_array_is_permutation (parr[h])); }
    else if (!strcmp (op, "split")) {
      sc_array_split (parr[a[1]], parr[a[2]], (size_t) a[3], type_first, NULL); fputs ("-", stdout);
    }
    else if (!strcmp (op, "permute")) {
      sc_array_permute (parr[a[1]], parr[a[2]], (int) a[3]);
      if (!a[3]) {
        /* without keepperm the documentation only says that newindices "will be altered": its content afterwards is
           not an observable of the property; the harness puts the identity there (what model and reference hold) */
        size_t z;
        for (z = 0; z < parr[a[2]]->elem_count; ++z) *(size_t *) sc_array_index (parr[a[2]], z) = z;
      }
      fputs ("-", stdout);
    }
    else { fputs ("UNKNOWN_OP", stdout); }
    free (d);
    observe ();
    fflush (stdout);
  }
  return 0;
}
