/* C06/C07 harness: runs the real libsc codec functions on the case file (stdin), one result line per
   case, in the textual format of the extracted model drivers (tools/ocaml/c06_driver.ml, c07_driver.ml).
   Built twice per libsc variant: normally (public functions from libsc.a), and with -DSTATIC_OPS, where
   sc_io.c, cencode.c and cdecode.c are included textually so that their static functions can be called
   (translator validation of base64_*_value, sc_io_adler32_update, sc_io_noncompress_bound, and direct
   runs of sc_io_noncompress / sc_io_nonuncompress).
   argv[1] = scratch file name used for the VTK writers. */
#ifdef STATIC_OPS
#include "sc_io.c"
#include "cencode.c"
#include "cdecode.c"
#else
#include <sc_io.h>
#include <sc_puff.h>
#include <libb64.h>
#endif
#include "codec_common.h"
#include <unistd.h>

/* wall-clock limit per case: SIGALRM ends the process, the check attributes it to the case being run */
#ifndef CASE_SECONDS
#define CASE_SECONDS 20
#endif

#define SENT 32              /* sentinel bytes around view memory */
#define SENTV 0xA5

static void put_array (sc_array_t * a)
{
  printf ("%llx %llx ", (unsigned long long) a->elem_size, (unsigned long long) a->elem_count);
  puthex ((unsigned char *) a->array, a->elem_count * a->elem_size);
}

/* enc <inplace> <esz> <level> <lb> <hexdata> */
static void op_enc (void)
{
  int inplace = (int) num (g_tok[1]);
  size_t esz = (size_t) num (g_tok[2]);
  int level = (int) snum (g_tok[3]);
  int lb = (int) num (g_tok[4]);
  size_t n;
  unsigned char *d = unhex (g_tok[5], &n);
  sc_array_t *data = sc_array_new_count (esz, n / esz);
  sc_array_t *out = NULL;
  if (n) memcpy (data->array, d, n);
  if (!inplace) {
    out = sc_array_new_count (1, 5);          /* previous content must not matter */
    memcpy (out->array, "junk", 5);
  }
  if (level == 100) sc_io_encode (data, out);  /* the default entry point */
  else sc_io_encode_zlib (data, out, level, lb);
  put_array (inplace ? data : out);
  /* the input must be unchanged when not in place */
  if (!inplace && (data->elem_count * data->elem_size != n || (n && memcmp (data->array, d, n)))) printf (" INPUT-MODIFIED");
  sc_array_destroy (data);
  if (out) sc_array_destroy (out);
  free (d);
}

/* dec <inplace> <owner> <esz> <cnt> <max> <hextext>
   owner=1: the output (or, in place, the input) array owns its memory and has <cnt> elements before the call;
   owner=0: it is a view on cnt*esz bytes (in place: a view on the text itself, cnt and esz ignored). */
static void op_dec (void)
{
  int inplace = (int) num (g_tok[1]);
  int owner = (int) num (g_tok[2]);
  size_t esz = (size_t) num (g_tok[3]);
  size_t cnt = (size_t) num (g_tok[4]);
  size_t maxsz = (size_t) num (g_tok[5]);
  size_t n, cap = 0, i;
  unsigned char *t = unhex (g_tok[6], &n);
  unsigned char *mem = NULL, *exact = NULL;
  sc_array_t *data, *out = NULL, *res;
  int rc, bad = 0;
  if (inplace) {
    esz = 1; cnt = n;
  }
  if (!owner) {
    cap = cnt * esz;
    mem = (unsigned char *) malloc (cap + 2 * SENT);
    memset (mem, SENTV, cap + 2 * SENT);
  }
  if (inplace) {
    if (owner) { data = sc_array_new_count (1, n); if (n) memcpy (data->array, t, n); }
    else { if (n) memcpy (mem + SENT, t, n); data = sc_array_new_data (mem + SENT, 1, n); }
    res = data;
  }
  else {
    /* the input text lives in a block of exactly n bytes (a view), so that ASan sees any read behind it */
    exact = (unsigned char *) malloc (n);
    if (n) memcpy (exact, t, n);
    data = sc_array_new_data (exact, 1, n);
    if (owner) { out = sc_array_new_count (esz, cnt); if (esz * cnt) memset (out->array, 0x5a, esz * cnt); }
    else out = sc_array_new_data (mem + SENT, esz, cnt);
    res = out;
  }
  rc = sc_io_decode (data, out, maxsz, NULL);
  if (!owner) {
    /* a view never grows and nothing outside its memory is written */
    for (i = 0; i < SENT; ++i) if (mem[i] != SENTV || mem[SENT + cap + i] != SENTV) bad = 1;
    if (res->elem_count * res->elem_size > cap) bad = 1;
    if (rc == 0) for (i = res->elem_count * res->elem_size; i < cap; ++i) if (!inplace && mem[SENT + i] != SENTV) bad = 1;
  }
  if (res->elem_size != esz) bad = 1;
  if (rc == 0) { printf ("ok "); put_array (res); }
  else printf ("err %llx %llx", (unsigned long long) res->elem_size, (unsigned long long) res->elem_count);
  if (rc > 0) printf (" POSITIVE-RC");
  if (bad) printf (" VIEW-DAMAGED");
  if (!inplace && (data->elem_count != n || (n && memcmp (data->array, t, n)))) printf (" INPUT-MODIFIED");
  sc_array_destroy (data);
  if (out) sc_array_destroy (out);
  free (mem); free (t); free (exact);
}

/* info <hextext> */
static void op_info (void)
{
  size_t n, osz = 0x1234;
  char fc = '?';
  unsigned char *t = unhex (g_tok[1], &n);
  unsigned char *exact = (unsigned char *) malloc (n);      /* exactly n bytes: reads behind the text are seen by ASan */
  sc_array_t *data;
  int rc;
  if (n) memcpy (exact, t, n);
  data = sc_array_new_data (exact, 1, n);
  rc = sc_io_decode_info (data, &osz, &fc, NULL);
  if (rc == 0) printf ("ok %llx %x", (unsigned long long) osz, (unsigned) (unsigned char) fc);
  else printf ("err");
  if (rc > 0) printf (" POSITIVE-RC");
  if (data->elem_count != n || (n && memcmp (data->array, t, n))) printf (" INPUT-MODIFIED");
  /* NULL output arguments are allowed */
  if (sc_io_decode_info (data, NULL, NULL, NULL) != rc) printf (" NULL-ARGS-DIFFER");
  sc_array_destroy (data);
  free (t); free (exact);
}

static void put_file (const char *fn)
{
  FILE *f = fopen (fn, "rb");
  static unsigned char *buf = NULL;
  size_t cap = 1 << 24, n;
  if (!buf) buf = (unsigned char *) malloc (cap);
  n = fread (buf, 1, cap, f);
  fclose (f);
  puthex (buf, n);
}

/* vtkb <hexdata> / vtkc <hexdata>: the bytes the writer puts into the file */
static void op_vtk (const char *fn, int compressed)
{
  size_t n;
  unsigned char *d = unhex (g_tok[1], &n);
  FILE *f = fopen (fn, "wb+");
  int rc;
  if (!f) { printf ("NOFILE"); free (d); return; }
#ifndef SC_HAVE_ZLIB
  if (compressed) { fclose (f); printf ("unsupported"); free (d); return; }
#endif
  rc = compressed ? sc_vtk_write_compressed (f, (char *) d, n) : sc_vtk_write_binary (f, (char *) d, n);
  fclose (f);
  printf ("%d ", rc);
  put_file (fn);
  free (d);
}

/* b64 <hexchunk>...: one encoder state over the chunks, then blockend */
static void op_b64 (void)
{
  base64_encodestate st;
  int i;
  base64_init_encodestate (&st);
  for (i = 1; i < g_ntok; ++i) {
    size_t n, l;
    unsigned char *d = unhex (g_tok[i], &n);
    char *o = (char *) malloc (2 * n + 8);
    l = base64_encode_block ((char *) d, n, o, &st);
    puthex ((unsigned char *) o, l); printf (" ");
    free (o); free (d);
  }
  {
    char e[8];
    size_t l = base64_encode_blockend (e, &st);
    puthex ((unsigned char *) e, l);
  }
}

/* b64d <hexchunk>...: one decoder state over the chunks (each into a fresh buffer large enough) */
static void op_b64d (void)
{
  base64_decodestate st;
  int i;
  base64_init_decodestate (&st);
  for (i = 1; i < g_ntok; ++i) {
    size_t n, l;
    unsigned char *d = unhex (g_tok[i], &n);
    char *o = (char *) calloc (n + 2, 1);
    l = base64_decode_block ((char *) d, n, o, &st);
    printf ("%llx ", (unsigned long long) l);
    puthex ((unsigned char *) o, l); printf (" ");
    free (o); free (d);
  }
  printf ("%d", (int) st.step);
}

/* puff <nil> <destlen> <hexsrc> <sourcelen>: sc_puff on its own */
static void op_puff (void)
{
  int nil = (int) num (g_tok[1]);
  unsigned long destlen = (unsigned long) num (g_tok[2]);
  size_t n;
  unsigned char *src = unhex (g_tok[3], &n);
  unsigned long sourcelen = (unsigned long) num (g_tok[4]);
  unsigned char *dest = nil ? NULL : (unsigned char *) malloc (destlen);   /* exactly destlen bytes */
  unsigned char *srcx = (unsigned char *) malloc (sourcelen);       /* exactly sourcelen bytes: overreads are seen by ASan */
  int rc;
  unsigned long destlen0 = destlen, sourcelen0 = sourcelen;
  memcpy (srcx, src, sourcelen < n ? sourcelen : n);
  rc = sc_puff (dest, &destlen, srcx, &sourcelen);
  putnum (rc);
  if (rc == 0) {
    printf (" %lx %lx ", destlen, sourcelen);
    if (nil) printf ("-"); else puthex (dest, destlen);
  }
  else {
    /* documented in sc_puff.c: a positive code leaves both lengths alone; a negative one stores the counters,
       which never exceed what was offered (markers only when that is broken: the line is otherwise unchanged) */
    if (rc > 0 && (destlen != destlen0 || sourcelen != sourcelen0)) printf (" LEN-CHANGED");
    if (rc < 0 && ((!nil && destlen > destlen0) || sourcelen > sourcelen0)) printf (" LEN-RANGE");
  }
  free (dest); free (srcx); free (src);
}

#ifdef STATIC_OPS
static void op_evalue (void) { putnum ((long long) base64_encode_value ((char) snum (g_tok[1]))); }
static void op_dvalue (void) { putnum ((long long) base64_decode_value ((char) snum (g_tok[1]))); }
#ifndef SC_HAVE_ZLIB
/* adler <adler> <hex> */
static void op_adler (void)
{
  uint32_t a = (uint32_t) num (g_tok[1]);
  size_t n;
  unsigned char *d = unhex (g_tok[2], &n);
  sc_io_adler32_update (&a, (char *) d, n);
  printf ("%x", a);
  free (d);
}
static void op_ncb (void) { printf ("%llx", (unsigned long long) sc_io_noncompress_bound ((size_t) num (g_tok[1]))); }
/* nonc <hex> */
static void op_nonc (void)
{
  size_t n, b;
  unsigned char *d = unhex (g_tok[1], &n);
  char *o;
  b = sc_io_noncompress_bound (n);
  o = (char *) malloc (b + 1);
  memset (o, 0xEE, b + 1);
  sc_io_noncompress (o, b, (char *) d, n);
  puthex ((unsigned char *) o, b);
  free (o); free (d);
}
/* nonu <dest_size> <hexsrc> */
static void op_nonu (void)
{
  size_t dsz = (size_t) num (g_tok[1]), n;
  unsigned char *s = unhex (g_tok[2], &n);
  unsigned char *sx = (unsigned char *) malloc (n);                 /* exactly n bytes */
  char *o = dsz ? (char *) malloc (dsz) : NULL;
  int rc;
  memcpy (sx, s, n);
  rc = sc_io_nonuncompress (o, dsz, (char *) sx, n, NULL);
  if (rc == 0) { printf ("ok "); puthex ((unsigned char *) o, dsz); }
  else printf ("err");
  free (o); free (sx); free (s);
}
#endif
#endif

int main (int argc, char **argv)
{
  const char *fn = argc > 1 ? argv[1] : "c06_vtk.tmp";
  int mem_pkg, mem_def;
  sc_init (sc_MPI_COMM_NULL, 0, 0, NULL, SC_LP_SILENT);
  while (next_case ()) {
    const char *op;
    if (g_ntok == 0) continue;
    alarm (CASE_SECONDS);
    /* every case creates and destroys its own arrays: the allocation balance of the libsc package and of the
       default package must be the same before and after it, on success and on every error path */
    mem_pkg = sc_memory_status (sc_package_id);
    mem_def = sc_memory_status (-1);
    op = g_tok[0];
    if (!strcmp (op, "enc")) op_enc ();
    else if (!strcmp (op, "dec")) op_dec ();
    else if (!strcmp (op, "info")) op_info ();
    else if (!strcmp (op, "vtkb")) op_vtk (fn, 0);
    else if (!strcmp (op, "vtkc")) op_vtk (fn, 1);
    else if (!strcmp (op, "b64")) op_b64 ();
    else if (!strcmp (op, "b64d")) op_b64d ();
    else if (!strcmp (op, "puff")) op_puff ();
    else if (!strcmp (op, "zlib")) {
#ifdef SC_HAVE_ZLIB
      printf ("1");
#else
      printf ("0");
#endif
    }
#ifdef STATIC_OPS
    else if (!strcmp (op, "evalue")) op_evalue ();
    else if (!strcmp (op, "dvalue")) op_dvalue ();
#ifndef SC_HAVE_ZLIB
    else if (!strcmp (op, "adler")) op_adler ();
    else if (!strcmp (op, "ncb")) op_ncb ();
    else if (!strcmp (op, "nonc")) op_nonc ();
    else if (!strcmp (op, "nonu")) op_nonu ();
#endif
#endif
    else printf ("UNKNOWN_OP");
    if (sc_memory_status (sc_package_id) != mem_pkg || sc_memory_status (-1) != mem_def)
      printf (" MEMORY-STATUS-CHANGED(libsc%+d,default%+d)", sc_memory_status (sc_package_id) - mem_pkg, sc_memory_status (-1) - mem_def);
    printf ("\n");
    fflush (stdout);
  }
  return 0;
}
