/* C03 harness: sc_reduce / sc_allreduce / sc_reduce_custom / sc_allreduce_custom of the real libsc on the
   simulated MPI.  stdin: one run per line:
     <P> <seed> <adversary> <op> <dtype> <count> <target|-1> <dataseed>
   op: 0 MIN 1 MAX 2 SUM 3 custom (composition of affine maps on pairs of unsigned: associative, not commutative)
       4 custom on TRIPLES of unsigned (product of upper triangular 2x2 matrices mod 2^32: associative, not commutative;
         an operand of three items never divides a power-of-two piece of the buffer)
   dtype: 0 int 1 unsigned 2 long 3 float 4 double 5 char 6 short 7 unsigned long 8 long long
   The harness reads the input values from the line following each run line: <P*count> hex words (bit patterns).
   SEQUENCES of calls on one communicator, back to back, no barrier in between:
     seq <P> <seed> <adversary> <ncalls>
     <op> <dtype> <count> <target|-1>        \ ncalls times
     <P*count hex words>                     /
   every rank issues the calls in this order, with fresh buffers per call; after each call the rank writes the trace note
   "call-end"; the outputs are printed as OUT <rank> <hex of call 0>/<hex of call 1>/... ("-" for an empty buffer). */
#include <sc.h>
#include <sc_reduce.h>
#include <simmpi.h>
#include <inttypes.h>

typedef struct { int op, dt, count, target; uint64_t *vals; unsigned char **out; size_t esz; } arg_t;

static sc_MPI_Datatype dts[] = { sc_MPI_INT, sc_MPI_UNSIGNED, sc_MPI_LONG, sc_MPI_FLOAT, sc_MPI_DOUBLE, sc_MPI_CHAR, sc_MPI_SHORT,
  sc_MPI_UNSIGNED_LONG, sc_MPI_LONG_LONG_INT };
static size_t szs[] = { 4, 4, 8, 4, 8, 1, 2, 8, 8 };

static void comp (void *sv, void *rv, int n, sc_MPI_Datatype t)
{
  unsigned *s = (unsigned *) sv, *r = (unsigned *) rv;
  for (int i = 0; i + 1 < n; i += 2) { unsigned a = r[i], b = r[i + 1], c = s[i], d = s[i + 1]; r[i] = a * c; r[i + 1] = a * d + b; }
}

static void comp3 (void *sv, void *rv, int n, sc_MPI_Datatype t)
{
  /* recvbuf := recvbuf * sendbuf with (a b; 0 c) stored as a, b, c */
  unsigned *s = (unsigned *) sv, *r = (unsigned *) rv;
  for (int i = 0; i + 2 < n; i += 3) {
    unsigned a = r[i], b = r[i + 1], c = r[i + 2], x = s[i], y = s[i + 1], z = s[i + 2];
    r[i] = a * x; r[i + 1] = a * y + b * z; r[i + 2] = c * z;
  }
}

static void rank_main (int rank, int size, void *varg)
{
  arg_t *a = (arg_t *) varg;
  size_t bytes = a->esz * (size_t) a->count;
  unsigned char *in = SC_ALLOC (unsigned char, bytes + 1), *out = SC_ALLOC (unsigned char, bytes + 1);
  memset (out, 0xEE, bytes + 1);
  for (int k = 0; k < a->count; ++k) memcpy (in + k * a->esz, &a->vals[(size_t) rank * a->count + k], a->esz);   /* little endian */
  sc_MPI_Op ops[] = { sc_MPI_MIN, sc_MPI_MAX, sc_MPI_SUM };
  if (a->op < 3) {
    if (a->target < 0) sc_allreduce (in, out, a->count, dts[a->dt], ops[a->op], sc_MPI_COMM_WORLD);
    else sc_reduce (in, out, a->count, dts[a->dt], ops[a->op], a->target, sc_MPI_COMM_WORLD);
  }
  else {
    if (a->target < 0) sc_allreduce_custom (in, out, a->count, dts[a->dt], a->op == 4 ? comp3 : comp, sc_MPI_COMM_WORLD);
    else sc_reduce_custom (in, out, a->count, dts[a->dt], a->op == 4 ? comp3 : comp, a->target, sc_MPI_COMM_WORLD);
  }
  a->out[rank] = out;
  SC_FREE (in);
}

typedef struct { int ncalls; arg_t *calls; } seq_t;

static void rank_main_seq (int rank, int size, void *varg)
{
  seq_t *q = (seq_t *) varg;
  for (int j = 0; j < q->ncalls; ++j) {
    rank_main (rank, size, &q->calls[j]);
    simmpi_trace_note ("call-end");
  }
}

int main (void)
{
  static char line[1 << 24];
  char tpath[256];
  int run = 0;
  sc_init (sc_MPI_COMM_NULL, 0, 0, NULL, SC_LP_SILENT);
  sc_set_abort_handler (simmpi_abort_handler);
  snprintf (tpath, sizeof tpath, "%s/trace.%d.jsonl", getenv ("VERIF_SCRATCH") ? getenv ("VERIF_SCRATCH") : "/var/tmp", (int) getpid ());
  while (fgets (line, sizeof line, stdin)) {
    int P, adv; unsigned long seed; unsigned dseed; arg_t a;
    if (strncmp (line, "seq ", 4) == 0) {
      seq_t q; int ok = 1;
      if (sscanf (line + 4, "%d %lu %d %d", &P, &seed, &adv, &q.ncalls) < 4 || q.ncalls < 1 || q.ncalls > 64) continue;
      q.calls = (arg_t *) calloc ((size_t) q.ncalls, sizeof (arg_t));
      for (int j = 0; j < q.ncalls && ok; ++j) {
        arg_t *c = &q.calls[j];
        if (!fgets (line, sizeof line, stdin) || sscanf (line, "%d %d %d %d", &c->op, &c->dt, &c->count, &c->target) < 4) { ok = 0; break; }
        if (!fgets (line, sizeof line, stdin)) { ok = 0; break; }
        c->esz = szs[c->dt];
        c->vals = (uint64_t *) calloc ((size_t) P * c->count + 1, sizeof (uint64_t));
        { size_t k = 0; for (char *p = strtok (line, " \n"); p && k < (size_t) P * c->count; p = strtok (NULL, " \n")) c->vals[k++] = strtoull (p, NULL, 16); }
        c->out = (unsigned char **) calloc ((size_t) P, sizeof (unsigned char *));
      }
      if (!ok) break;
      int mem0 = (sc_memory_status (-1) + sc_memory_status (sc_package_id));
      simmpi_opts o; simmpi_report rep;
      simmpi_opts_default (&o);
      o.nranks = P; o.seed = seed; o.adversary = adv; o.trace_path = tpath;
      int rc = simmpi_run (&o, rank_main_seq, &q, &rep);
      printf ("RUN %d rc=%d steps=%ld\n", run, rc, rep.steps);
      if (rc) { char *t = rep.text; for (char *p = t; *p; ++p) if (*p == '\n') *p = '~'; printf ("REPORT %s\n", t); }
      for (int r = 0; r < P; ++r) {
        printf ("OUT %d ", r);
        for (int j = 0; j < q.ncalls; ++j) {
          arg_t *c = &q.calls[j];
          if (j) printf ("/");
          if (c->out[r]) { size_t b = c->esz * (size_t) c->count; for (size_t k = 0; k < b; ++k) printf ("%02x", c->out[r][k]); if (b == 0) printf ("-"); SC_FREE (c->out[r]); }
          else printf ("none");
        }
        printf ("\n");
      }
      printf ("TRACE-BEGIN\n");
      FILE *f = fopen (tpath, "r");
      if (f) { char buf[65536]; size_t k; while ((k = fread (buf, 1, sizeof buf, f)) > 0) fwrite (buf, 1, k, stdout); fclose (f); }
      printf ("TRACE-END\n");
      printf ("END %d mem=%d\n", run, (sc_memory_status (-1) + sc_memory_status (sc_package_id)) - mem0);
      simmpi_report_free (&rep);
      for (int j = 0; j < q.ncalls; ++j) { free (q.calls[j].out); free (q.calls[j].vals); }
      free (q.calls);
      ++run;
      continue;
    }
    if (sscanf (line, "%d %lu %d %d %d %d %d %u", &P, &seed, &adv, &a.op, &a.dt, &a.count, &a.target, &dseed) < 8) continue;
    if (!fgets (line, sizeof line, stdin)) break;
    a.esz = szs[a.dt];
    a.vals = (uint64_t *) calloc ((size_t) P * a.count + 1, sizeof (uint64_t));
    { size_t k = 0; for (char *p = strtok (line, " \n"); p && k < (size_t) P * a.count; p = strtok (NULL, " \n")) a.vals[k++] = strtoull (p, NULL, 16); }
    a.out = (unsigned char **) calloc ((size_t) P, sizeof (unsigned char *));
    int mem0 = (sc_memory_status (-1) + sc_memory_status (sc_package_id));
    simmpi_opts o; simmpi_report rep;
    simmpi_opts_default (&o);
    o.nranks = P; o.seed = seed; o.adversary = adv; o.trace_path = tpath;
    int rc = simmpi_run (&o, rank_main, &a, &rep);
    printf ("RUN %d rc=%d steps=%ld\n", run, rc, rep.steps);
    if (rc) { char *t = rep.text; for (char *p = t; *p; ++p) if (*p == '\n') *p = '~'; printf ("REPORT %s\n", t); }
    for (int r = 0; r < P; ++r) {
      printf ("OUT %d ", r);
      if (a.out[r]) { size_t b = a.esz * (size_t) a.count; for (size_t k = 0; k < b; ++k) printf ("%02x", a.out[r][k]); if (b == 0) printf ("-"); SC_FREE (a.out[r]); }
      else printf ("none");
      printf ("\n");
    }
    printf ("TRACE-BEGIN\n");
    FILE *f = fopen (tpath, "r");
    if (f) { char buf[65536]; size_t k; while ((k = fread (buf, 1, sizeof buf, f)) > 0) fwrite (buf, 1, k, stdout); fclose (f); }
    printf ("TRACE-END\n");
    printf ("END %d mem=%d\n", run, (sc_memory_status (-1) + sc_memory_status (sc_package_id)) - mem0);
    simmpi_report_free (&rep);
    free (a.out); free (a.vals);
    ++run;
  }
  remove (tpath);
  return 0;
}
