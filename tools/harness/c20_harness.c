/* C20 harness (part 2): calls every configuration setter/getter pair of the freshly built libsc.
   One scenario per line on stdin, operations separated by ';', integers in hexadecimal (negative with '-').
   Output: one line per scenario, the outputs of each operation joined by ',', operations separated by '|'.
     new k c | destroy k | settype k t | gettype k | seteager k v | geteager k | setstats k s | getstats k | getcomm k
     setw k a b c | getw k m1 m2 m3 p1 p2 p3 | setnr k v | getnr k | setpk k v | getpk k | setcb k f x | getcb k
     defaults t e a b c n | pkgid v | shset c t | shget c | spacing a b | spacing0
   k: controller handle 0..7; c: communicator 0 world, 1 self; s, f, x: indices of dummy objects (0 = NULL);
   m: output pointer given (1) or NULL (0); p: content of the output variable before the call.
   At the end of a scenario live controllers are destroyed, defaults restored, libsc finalized. */
#include <sc.h>
#include <sc_notify.h>
#include <sc_shmem.h>
#include <sc_options.h>
#include <stdio.h>
#include <stdlib.h>
#include <string.h>

static sc_notify_t *obj[8];
static char dummy_stats[8], dummy_ctx[8];
static int capture_on, col_type, col_help;

static void cb1 (sc_array_t * r, sc_array_t * e, sc_array_t * s, sc_notify_t * n, void *ctx) { }
static void cb2 (sc_array_t * r, sc_array_t * e, sc_array_t * s, sc_notify_t * n, void *ctx) { }
static void cb3 (sc_array_t * r, sc_array_t * e, sc_array_t * s, sc_notify_t * n, void *ctx) { }
static sc_compute_superset_t cbs[4] = { NULL, cb1, cb2, cb3 };

static void capture (FILE * s, const char *fn, int ln, int pkg, int cat, int prio, const char *msg)
{
  const char *a, *b;
  if (!capture_on) return;
  a = strstr (msg, "<INT>");
  b = strstr (msg, "HELPTXT");
  if (a != NULL) col_type = (int) (a - msg);
  if (b != NULL) col_help = (int) (b - msg);
}

static long hx (const char *s)
{
  if (s[0] == '-') return -(long) strtoull (s + 1, NULL, 16);
  return (long) strtoull (s, NULL, 16);
}
static void ph (FILE * o, long v, int first)
{
  if (!first) fputc (',', o);
  if (v < 0) fprintf (o, "-%lx", (unsigned long) (-v)); else fprintf (o, "%lx", (unsigned long) v);
}
static void pu (FILE * o, unsigned long v) { fprintf (o, "%lx", v); }

static sc_MPI_Comm comm_of (long c) { return c ? sc_MPI_COMM_SELF : sc_MPI_COMM_WORLD; }

static void spacing_probe (int set, int a, int b, FILE * o)
{
  sc_options_t *opt = sc_options_new ("prog");
  int var = 0;
  sc_options_add_int (opt, 'i', "int", &var, 0, "HELPTXT");
  if (set) sc_options_set_spacing (opt, a, b);
  col_type = col_help = -1;
  capture_on = 1;
  sc_options_print_usage (-1, SC_LP_ESSENTIAL, opt, NULL);
  capture_on = 0;
  sc_options_destroy (opt);
  ph (o, col_type, 1); ph (o, col_help, 0);
}

int main (int argc, char **argv)
{
  char *line = NULL; size_t cap = 0;
  int t0 = (int) sc_notify_type_default; size_t e0 = sc_notify_eager_threshold_default;
  int a0 = sc_notify_nary_ntop_default, b0 = sc_notify_nary_nint_default, c0 = sc_notify_nary_nbot_default;
  int n0 = sc_notify_ranges_num_ranges_default;
  FILE *o = stdout;
#ifdef SC_ENABLE_MPI
  if (sc_MPI_Init (&argc, &argv) != sc_MPI_SUCCESS) return 4;
#endif
  /* the scenarios come from a file (argument): mpirun's forwarding of a long stdin is not reliable */
  if (argc > 1 && freopen (argv[1], "r", stdin) == NULL) return 5;
  sc_set_log_defaults (stderr, capture, SC_LP_ESSENTIAL);
  while (getline (&line, &cap, stdin) > 0) {
    char *save = NULL, *opx;
    int first = 1, i;
    size_t l = strlen (line);
    while (l && (line[l - 1] == '\n' || line[l - 1] == '\r')) line[--l] = 0;
    if (l == 0) continue;
    for (opx = strtok_r (line, ";", &save); opx != NULL; opx = strtok_r (NULL, ";", &save)) {
      char name[16] = "", w[8][40];
      long a[8];
      int n = sscanf (opx, " %15s %39s %39s %39s %39s %39s %39s %39s", name, w[0], w[1], w[2], w[3], w[4], w[5], w[6]);
      if (n < 1) continue;
      for (i = 0; i < n - 1; i++) a[i] = hx (w[i]);
      if (!first) fputc ('|', o);
      first = 0;
      if (!strcmp (name, "new")) obj[a[0]] = sc_notify_new (comm_of (a[1]));
      else if (!strcmp (name, "destroy")) { sc_notify_destroy (obj[a[0]]); obj[a[0]] = NULL; }
      else if (!strcmp (name, "settype")) ph (o, sc_notify_set_type (obj[a[0]], (sc_notify_type_t) a[1]), 1);
      else if (!strcmp (name, "gettype")) ph (o, (long) sc_notify_get_type (obj[a[0]]), 1);
      else if (!strcmp (name, "seteager")) sc_notify_set_eager_threshold (obj[a[0]], (size_t) strtoull (w[1], NULL, 16));
      else if (!strcmp (name, "geteager")) pu (o, (unsigned long) sc_notify_get_eager_threshold (obj[a[0]]));
      else if (!strcmp (name, "setstats")) sc_notify_set_stats (obj[a[0]], a[1] ? (sc_statistics_t *) & dummy_stats[a[1]] : NULL);
      else if (!strcmp (name, "getstats")) {
        char *p = (char *) sc_notify_get_stats (obj[a[0]]);
        ph (o, p == NULL ? 0 : (p >= dummy_stats && p < dummy_stats + 8 ? (long) (p - dummy_stats) : 99), 1);
      }
      else if (!strcmp (name, "getcomm")) {
        sc_MPI_Comm c = sc_notify_get_comm (obj[a[0]]);
        ph (o, c == sc_MPI_COMM_WORLD ? 0 : (c == sc_MPI_COMM_SELF ? 1 : 99), 1);
      }
      else if (!strcmp (name, "setw")) sc_notify_nary_set_widths (obj[a[0]], (int) a[1], (int) a[2], (int) a[3]);
      else if (!strcmp (name, "getw")) {
        int x = (int) a[4], y = (int) a[5], z = (int) a[6];
        sc_notify_nary_get_widths (obj[a[0]], a[1] ? &x : NULL, a[2] ? &y : NULL, a[3] ? &z : NULL);
        ph (o, x, 1); ph (o, y, 0); ph (o, z, 0);
      }
      else if (!strcmp (name, "setnr")) sc_notify_ranges_set_num_ranges (obj[a[0]], (int) a[1]);
      else if (!strcmp (name, "getnr")) ph (o, sc_notify_ranges_get_num_ranges (obj[a[0]]), 1);
      else if (!strcmp (name, "setpk")) sc_notify_ranges_set_package_id (obj[a[0]], (int) a[1]);
      else if (!strcmp (name, "getpk")) ph (o, sc_notify_ranges_get_package_id (obj[a[0]]), 1);
      else if (!strcmp (name, "setcb")) sc_notify_superset_set_callback (obj[a[0]], cbs[a[1]], a[2] ? (void *) &dummy_ctx[a[2]] : NULL);
      else if (!strcmp (name, "getcb")) {
        sc_compute_superset_t f = cb3; char *x = dummy_ctx + 7;
        long fi = 99;
        sc_notify_superset_get_callback (obj[a[0]], &f, (void *) &x);
        for (i = 0; i < 4; i++) if (f == cbs[i]) fi = i;
        ph (o, fi, 1);
        ph (o, x == NULL ? 0 : (x >= dummy_ctx && x < dummy_ctx + 8 ? (long) (x - dummy_ctx) : 99), 0);
      }
      else if (!strcmp (name, "defaults")) {
        sc_notify_type_default = (sc_notify_type_t) a[0];
        sc_notify_eager_threshold_default = (size_t) strtoull (w[1], NULL, 16);
        sc_notify_nary_ntop_default = (int) a[2]; sc_notify_nary_nint_default = (int) a[3]; sc_notify_nary_nbot_default = (int) a[4];
        sc_notify_ranges_num_ranges_default = (int) a[5];
      }
      else if (!strcmp (name, "pkgid")) {
        if (a[0] >= 0 && sc_package_id < 0) sc_init (sc_MPI_COMM_NULL, 0, 0, NULL, SC_LP_SILENT);
        if (a[0] < 0 && sc_package_id >= 0) sc_finalize ();
        if (sc_package_id != (int) a[0]) { fprintf (stderr, "c20_harness: sc_package_id is %d, scenario expects %ld\n", sc_package_id, a[0]); return 5; }
      }
      else if (!strcmp (name, "shset")) sc_shmem_set_type (comm_of (a[0]), (sc_shmem_type_t) a[1]);
      else if (!strcmp (name, "shget")) ph (o, (long) sc_shmem_get_type (comm_of (a[0])), 1);
      else if (!strcmp (name, "spacing")) spacing_probe (1, (int) a[0], (int) a[1], o);
      else if (!strcmp (name, "spacing0")) spacing_probe (0, 0, 0, o);
      else { fprintf (stderr, "c20_harness: unknown operation '%s'\n", name); return 2; }
    }
    fputc ('\n', o);
    fflush (o);
    for (i = 0; i < 8; i++) if (obj[i] != NULL) { sc_notify_destroy (obj[i]); obj[i] = NULL; }
    sc_notify_type_default = (sc_notify_type_t) t0; sc_notify_eager_threshold_default = e0;
    sc_notify_nary_ntop_default = a0; sc_notify_nary_nint_default = b0; sc_notify_nary_nbot_default = c0;
    sc_notify_ranges_num_ranges_default = n0;
    if (sc_package_id >= 0) sc_finalize ();
    if (sc_memory_status (-1) != 0) { fprintf (stderr, "c20_harness: memory imbalance after scenario\n"); return 6; }
  }
#ifdef SC_ENABLE_MPI
  sc_MPI_Finalize ();
#endif
  return 0;
}
