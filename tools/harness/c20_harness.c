/* C20 harness (part 2): calls every configuration setter/getter pair of the freshly built libsc.
   One scenario per line on stdin, operations separated by ';', integers in hexadecimal (negative with '-').
   Output: one line per scenario, the outputs of each operation joined by ',', operations separated by '|'.
     new k c | destroy k | settype k t | gettype k | seteager k v | geteager k | setstats k s | getstats k | getcomm k
     setw k a b c | getw k m1 m2 m3 p1 p2 p3 | setnr k v | getnr k | setpk k v | getpk k | setcb k f x | getcb k
     defaults t e a b c n | pkgid v | shset c t | shget c | spacing a b | spacing0
     use k mode pay      one collective round sc_notify_payload on controller k (nothing is stored by it)
     usev k mode         one collective round sc_notify_payloadv (variable-size payload) on controller k
     usevn k mode        the same with the payload-free form of sc_notify_payloadv (payload arguments NULL)
     shuse c v           sc_shmem_malloc / write / [allgather] / [prefix] / free on communicator c (v: bit 0 allgather, bit 1 prefix, bit 2 memcpy)
     spacingu a b u      as `spacing`, but the options object is USED between set_spacing and the observed print_usage
                         (u: bit 0 sc_options_parse, bit 1 an earlier print_usage, bit 2 print_summary, bit 3 more options added)
   k: controller handle 0..7; c: communicator 0 world, 1 self; s: statistics object (0 = NULL, 1..7 real objects);
   f, x: indices of callbacks / dummy contexts (0 = NULL);
   m: output pointer given (1) or NULL (0); p: content of the output variable before the call.
   mode: receivers of this rank in the round: 0 none, 1 itself, 2 the next rank, 3 every rank of the communicator;
   pay: 0 no payload, 1 payload with separate output array, 2 payload in place, 3 no payload and senders == NULL.
   Every rank of the run executes every operation (the rounds are collective); rank 0 prints to stdout, rank r > 0
   into <argv[2]>.<r> if a second argument is given.  After each round all ranks meet in a barrier (libsc's recorded
   back-to-back findings of C01/C02 are not the subject here).
   At the end of a scenario live controllers are destroyed, defaults restored, libsc finalized (libsc counts allocations
   per package: `pkgid` must come before the first object of a scenario is created). */
#include <sc.h>
#include <sc_notify.h>
#include <sc_shmem.h>
#include <sc_options.h>
#include <sc_statistics.h>
#include <stdio.h>
#include <stdlib.h>
#include <string.h>

static sc_notify_t *obj[8];
static sc_statistics_t *stat_obj[8];
static char dummy_ctx[8];
static int capture_on, col_type, col_help;
static int use_notes;

/* a legal superset computation: every rank may be a sender; the ranks that are not receivers get an "extra" message */
static void cbx (sc_array_t * r, sc_array_t * e, sc_array_t * s, sc_notify_t * n)
{
  int size = 1, i;
  size_t z;
  sc_MPI_Comm_size (sc_notify_get_comm (n), &size);
  sc_array_resize (s, (size_t) size);
  for (i = 0; i < size; i++) {
    int found = 0;
    *(int *) sc_array_index_int (s, i) = i;
    for (z = 0; z < r->elem_count; z++) if (*(int *) sc_array_index (r, z) == i) found = 1;
    if (!found) *(int *) sc_array_push (e) = i;
  }
}
static void cb1 (sc_array_t * r, sc_array_t * e, sc_array_t * s, sc_notify_t * n, void *ctx) { cbx (r, e, s, n); }
static void cb2 (sc_array_t * r, sc_array_t * e, sc_array_t * s, sc_notify_t * n, void *ctx) { cbx (r, e, s, n); }
static void cb3 (sc_array_t * r, sc_array_t * e, sc_array_t * s, sc_notify_t * n, void *ctx) { cbx (r, e, s, n); }
static sc_compute_superset_t cbs[4] = { NULL, cb1, cb2, cb3 };

static void capture (FILE * s, const char *fn, int ln, int pkg, int cat, int prio, const char *msg)
{
  const char *a, *b;
  if (!capture_on) return;
  a = strstr (msg, "<INT>");
  b = strstr (msg, "HELPTXT");
  if (a != NULL) col_type = (int) (a - msg);
  if (b != NULL) col_help = (int) (b - msg);
}

static long hx (const char *s)
{
  if (s[0] == '-') return -(long) strtoull (s + 1, NULL, 16);
  return (long) strtoull (s, NULL, 16);
}
static void ph (FILE * o, long v, int first)
{
  if (!first) fputc (',', o);
  if (v < 0) fprintf (o, "-%lx", (unsigned long) (-v)); else fprintf (o, "%lx", (unsigned long) v);
}
static void pu (FILE * o, unsigned long v) { fprintf (o, "%lx", v); }

static sc_MPI_Comm comm_of (long c) { return c ? sc_MPI_COMM_SELF : sc_MPI_COMM_WORLD; }

static sc_statistics_t *stats_of (long s)
{
  if (s == 0) return NULL;
  if (stat_obj[s] == NULL) stat_obj[s] = sc_statistics_new (sc_MPI_COMM_WORLD);
  return stat_obj[s];
}

static void note (const char *what, sc_notify_t * n, int mode, int pay)
{
  if (use_notes++ < 5) fprintf (stderr, "c20_harness: note: round (type %d mode %d pay %d): %s\n", (int) sc_notify_get_type (n), mode, pay, what);
}

/* receivers of this rank and the senders it must learn */
static int pattern (sc_MPI_Comm comm, int mode, int *recs, int *snds, int *rank)
{
  int size = 1, i, nn = 0;
  sc_MPI_Comm_size (comm, &size);
  sc_MPI_Comm_rank (comm, rank);
  if (size > 32) size = 32;
  if (mode == 1) { recs[0] = snds[0] = *rank; nn = 1; }
  else if (mode == 2) { recs[0] = (*rank + 1) % size; snds[0] = (*rank + size - 1) % size; nn = 1; }
  else if (mode == 3) { for (i = 0; i < size; i++) recs[i] = snds[i] = i; nn = size; }
  return nn;
}

static void do_use (sc_notify_t * n, int mode, int pay)
{
  int recs[32], snds[32], rank = 0, nn, i;
  sc_array_t *rec, *snd = NULL, *in = NULL, *out = NULL, *res, *pres;
  nn = pattern (sc_notify_get_comm (n), mode, recs, snds, &rank);
  rec = sc_array_new_count (sizeof (int), (size_t) nn);
  for (i = 0; i < nn; i++) *(int *) sc_array_index_int (rec, i) = recs[i];
  if (pay != 3) snd = sc_array_new (sizeof (int));
  if (pay == 1 || pay == 2) {
    in = sc_array_new_count (sizeof (int), (size_t) nn);
    for (i = 0; i < nn; i++) *(int *) sc_array_index_int (in, i) = 1000 * rank + recs[i] + 7;
    if (pay == 1) out = sc_array_new (sizeof (int));
  }
  sc_notify_payload (rec, snd, in, out, 1, n);
  res = snd != NULL ? snd : rec;
  pres = out != NULL ? out : in;
  if ((int) res->elem_count != nn) note ("number of senders", n, mode, pay);
  else for (i = 0; i < nn; i++) {
    if (*(int *) sc_array_index_int (res, i) != snds[i]) { note ("senders", n, mode, pay); break; }
    if (pres != NULL && ((int) pres->elem_count != nn || *(int *) sc_array_index_int (pres, i) != 1000 * snds[i] + rank + 7)) { note ("payload", n, mode, pay); break; }
  }
  sc_array_destroy (rec);
  if (snd != NULL) sc_array_destroy (snd);
  if (in != NULL) sc_array_destroy (in);
  if (out != NULL) sc_array_destroy (out);
  sc_MPI_Barrier (sc_MPI_COMM_WORLD);
}

static void do_usev (sc_notify_t * n, int mode)
{
  int recs[32], snds[32], rank = 0, nn, i, j, tot = 0;
  sc_array_t *rec, *snd, *in, *out, *ioff, *ooff;
  if (mode >= 10) {
    /* the payload-free form of sc_notify_payloadv: all four payload arguments NULL (receiver pattern mode - 10) */
    nn = pattern (sc_notify_get_comm (n), mode - 10, recs, snds, &rank);
    rec = sc_array_new_count (sizeof (int), (size_t) nn);
    snd = sc_array_new (sizeof (int));
    for (i = 0; i < nn; i++) *(int *) sc_array_index_int (rec, i) = recs[i];
    sc_notify_payloadv (rec, snd, NULL, NULL, NULL, NULL, 1, n);
    if ((int) snd->elem_count != nn) note ("number of senders (payloadv without payload)", n, mode, -1);
    else for (i = 0; i < nn; i++) if (*(int *) sc_array_index_int (snd, i) != snds[i]) { note ("senders (payloadv without payload)", n, mode, -1); break; }
    sc_array_destroy (rec); sc_array_destroy (snd);
    sc_MPI_Barrier (sc_MPI_COMM_WORLD);
    return;
  }
  nn = pattern (sc_notify_get_comm (n), mode, recs, snds, &rank);
  rec = sc_array_new_count (sizeof (int), (size_t) nn);
  snd = sc_array_new (sizeof (int));
  ioff = sc_array_new_count (sizeof (int), (size_t) nn + 1);
  ooff = sc_array_new (sizeof (int));
  in = sc_array_new (sizeof (int));
  out = sc_array_new (sizeof (int));
  for (i = 0; i < nn; i++) {
    int cnt = (rank + recs[i]) % 3;          /* the sender rank passes (sender + receiver) mod 3 items to the receiver */
    *(int *) sc_array_index_int (rec, i) = recs[i];
    *(int *) sc_array_index_int (ioff, i) = tot;
    for (j = 0; j < cnt; j++) *(int *) sc_array_push (in) = 1000 * rank + 10 * recs[i] + j;
    tot += cnt;
  }
  *(int *) sc_array_index_int (ioff, nn) = tot;
  sc_notify_payloadv (rec, snd, in, out, ioff, ooff, 1, n);
  if ((int) snd->elem_count != nn || (int) ooff->elem_count != nn + 1) note ("number of senders (payloadv)", n, mode, -1);
  else {
    tot = 0;
    for (i = 0; i < nn; i++) {
      int cnt = (snds[i] + rank) % 3;
      if (*(int *) sc_array_index_int (snd, i) != snds[i] || *(int *) sc_array_index_int (ooff, i) != tot) { note ("senders/offsets (payloadv)", n, mode, -1); break; }
      for (j = 0; j < cnt; j++)
        if (tot + j >= (int) out->elem_count || *(int *) sc_array_index_int (out, tot + j) != 1000 * snds[i] + 10 * rank + j) { note ("payload (payloadv)", n, mode, -1); break; }
      tot += cnt;
    }
  }
  sc_array_destroy (rec); sc_array_destroy (snd); sc_array_destroy (in); sc_array_destroy (out);
  sc_array_destroy (ioff); sc_array_destroy (ooff);
  sc_MPI_Barrier (sc_MPI_COMM_WORLD);
}

static void do_shuse (sc_MPI_Comm comm, int v)
{
  int size = 1, rank = 0, i, mine;
  int *arr, *arr2;
  sc_MPI_Comm_size (comm, &size);
  sc_MPI_Comm_rank (comm, &rank);
  arr = (int *) sc_shmem_malloc (-1, sizeof (int), (size_t) size + 1, comm);
  if (sc_shmem_write_start (arr, comm)) { for (i = 0; i <= size; i++) arr[i] = -1; }
  sc_shmem_write_end (arr, comm);
  mine = rank + 40;
  if (v & 1) {
    sc_shmem_allgather (&mine, 1, sc_MPI_INT, arr, 1, sc_MPI_INT, comm);
    for (i = 0; i < size; i++) if (arr[i] != i + 40 && use_notes++ < 5) fprintf (stderr, "c20_harness: note: sc_shmem_allgather result\n");
  }
  if (v & 2) {
    sc_shmem_prefix (&mine, arr, 1, sc_MPI_INT, sc_MPI_SUM, comm);
    if ((arr[0] != 0 || arr[1] != 40) && use_notes++ < 5) fprintf (stderr, "c20_harness: note: sc_shmem_prefix result\n");
  }
  if (v & 4) {
    arr2 = (int *) sc_shmem_malloc (-1, sizeof (int), (size_t) size + 1, comm);
    sc_shmem_memcpy (arr2, arr, sizeof (int) * ((size_t) size + 1), comm);
    sc_shmem_free (-1, arr2, comm);
  }
  sc_shmem_free (-1, arr, comm);
  sc_MPI_Barrier (sc_MPI_COMM_WORLD);
}

static void spacing_probe (int set, int a, int b, int u, FILE * o)
{
  sc_options_t *opt = sc_options_new ("prog");
  int var = 0, sw = 0;
  const char *str = NULL;
  char a0[] = "prog", a1[] = "-i", a2[] = "5", a3[] = "rest";
  char *av[5] = { a0, a1, a2, a3, NULL };      /* sc_options_parse keeps the pointer for print_summary */
  sc_options_add_int (opt, 'i', "int", &var, 0, "HELPTXT");
  if (set) sc_options_set_spacing (opt, a, b);
  if (u & 8) {
    sc_options_add_switch (opt, 's', "a-rather-long-switch-name", &sw, "switch");
    sc_options_add_string (opt, 't', NULL, &str, "dflt", "string");
  }
  if (u & 1) {
    if (sc_options_parse (-1, SC_LP_SILENT, opt, 4, av) != 3 || var != 5) fprintf (stderr, "c20_harness: note: sc_options_parse result\n");
  }
  if (u & 2) sc_options_print_usage (-1, SC_LP_ESSENTIAL, opt, "ARG\tan argument");
  if (u & 4) sc_options_print_summary (-1, SC_LP_ESSENTIAL, opt);
  col_type = col_help = -1;
  capture_on = 1;
  sc_options_print_usage (-1, SC_LP_ESSENTIAL, opt, NULL);
  capture_on = 0;
  sc_options_destroy (opt);
  ph (o, col_type, 1); ph (o, col_help, 0);
}

int main (int argc, char **argv)
{
  char *line = NULL; size_t cap = 0;
  int t0 = (int) sc_notify_type_default; size_t e0 = sc_notify_eager_threshold_default;
  int a0 = sc_notify_nary_ntop_default, b0 = sc_notify_nary_nint_default, c0 = sc_notify_nary_nbot_default;
  int n0 = sc_notify_ranges_num_ranges_default;
  FILE *o = stdout;
  int myrank = 0;
#ifdef SC_ENABLE_MPI
  if (sc_MPI_Init (&argc, &argv) != sc_MPI_SUCCESS) return 4;
  sc_MPI_Comm_rank (sc_MPI_COMM_WORLD, &myrank);
#endif
  /* the scenarios come from a file (argument): mpirun's forwarding of a long stdin is not reliable */
  if (argc > 1 && freopen (argv[1], "r", stdin) == NULL) return 5;
  if (myrank > 0) {
    char fn[4096];
    snprintf (fn, sizeof (fn), "%s.%d", argc > 2 ? argv[2] : "/dev/null", myrank);
    if ((o = fopen (argc > 2 ? fn : "/dev/null", "w")) == NULL) return 5;
  }
  sc_set_log_defaults (stderr, capture, SC_LP_ESSENTIAL);
  while (getline (&line, &cap, stdin) > 0) {
    char *save = NULL, *opx;
    int first = 1, i;
    size_t l = strlen (line);
    while (l && (line[l - 1] == '\n' || line[l - 1] == '\r')) line[--l] = 0;
    if (l == 0) continue;
    for (opx = strtok_r (line, ";", &save); opx != NULL; opx = strtok_r (NULL, ";", &save)) {
      char name[16] = "", w[8][40];
      long a[8];
      int n = sscanf (opx, " %15s %39s %39s %39s %39s %39s %39s %39s", name, w[0], w[1], w[2], w[3], w[4], w[5], w[6]);
      if (n < 1) continue;
      for (i = 0; i < n - 1; i++) a[i] = hx (w[i]);
      if (!first) fputc ('|', o);
      first = 0;
      if (!strcmp (name, "new")) obj[a[0]] = sc_notify_new (comm_of (a[1]));
      else if (!strcmp (name, "destroy")) { sc_notify_destroy (obj[a[0]]); obj[a[0]] = NULL; }
      else if (!strcmp (name, "settype")) ph (o, sc_notify_set_type (obj[a[0]], (sc_notify_type_t) a[1]), 1);
      else if (!strcmp (name, "gettype")) ph (o, (long) sc_notify_get_type (obj[a[0]]), 1);
      else if (!strcmp (name, "seteager")) sc_notify_set_eager_threshold (obj[a[0]], (size_t) strtoull (w[1], NULL, 16));
      else if (!strcmp (name, "geteager")) pu (o, (unsigned long) sc_notify_get_eager_threshold (obj[a[0]]));
      else if (!strcmp (name, "setstats")) sc_notify_set_stats (obj[a[0]], stats_of (a[1]));
      else if (!strcmp (name, "getstats")) {
        sc_statistics_t *p = sc_notify_get_stats (obj[a[0]]);
        long si = p == NULL ? 0 : 99;
        for (i = 1; i < 8; i++) if (p != NULL && p == stat_obj[i]) si = i;
        ph (o, si, 1);
      }
      else if (!strcmp (name, "getcomm")) {
        sc_MPI_Comm c = sc_notify_get_comm (obj[a[0]]);
        ph (o, c == sc_MPI_COMM_WORLD ? 0 : (c == sc_MPI_COMM_SELF ? 1 : 99), 1);
      }
      else if (!strcmp (name, "setw")) sc_notify_nary_set_widths (obj[a[0]], (int) a[1], (int) a[2], (int) a[3]);
      else if (!strcmp (name, "getw")) {
        int x = (int) a[4], y = (int) a[5], z = (int) a[6];
        sc_notify_nary_get_widths (obj[a[0]], a[1] ? &x : NULL, a[2] ? &y : NULL, a[3] ? &z : NULL);
        ph (o, x, 1); ph (o, y, 0); ph (o, z, 0);
      }
      else if (!strcmp (name, "setnr")) sc_notify_ranges_set_num_ranges (obj[a[0]], (int) a[1]);
      else if (!strcmp (name, "getnr")) ph (o, sc_notify_ranges_get_num_ranges (obj[a[0]]), 1);
      else if (!strcmp (name, "setpk")) sc_notify_ranges_set_package_id (obj[a[0]], (int) a[1]);
      else if (!strcmp (name, "getpk")) ph (o, sc_notify_ranges_get_package_id (obj[a[0]]), 1);
      else if (!strcmp (name, "setcb")) sc_notify_superset_set_callback (obj[a[0]], cbs[a[1]], a[2] ? (void *) &dummy_ctx[a[2]] : NULL);
      else if (!strcmp (name, "getcb")) {
        sc_compute_superset_t f = cb3; char *x = dummy_ctx + 7;
        long fi = 99;
        sc_notify_superset_get_callback (obj[a[0]], &f, (void *) &x);
        for (i = 0; i < 4; i++) if (f == cbs[i]) fi = i;
        ph (o, fi, 1);
        ph (o, x == NULL ? 0 : (x >= dummy_ctx && x < dummy_ctx + 8 ? (long) (x - dummy_ctx) : 99), 0);
      }
      else if (!strcmp (name, "defaults")) {
        sc_notify_type_default = (sc_notify_type_t) a[0];
        sc_notify_eager_threshold_default = (size_t) strtoull (w[1], NULL, 16);
        sc_notify_nary_ntop_default = (int) a[2]; sc_notify_nary_nint_default = (int) a[3]; sc_notify_nary_nbot_default = (int) a[4];
        sc_notify_ranges_num_ranges_default = (int) a[5];
      }
      else if (!strcmp (name, "pkgid")) {
        if (a[0] >= 0 && sc_package_id < 0) sc_init (sc_MPI_COMM_NULL, 0, 0, NULL, SC_LP_SILENT);
        if (a[0] < 0 && sc_package_id >= 0) sc_finalize ();
        if (sc_package_id != (int) a[0]) { fprintf (stderr, "c20_harness: sc_package_id is %d, scenario expects %ld\n", sc_package_id, a[0]); return 5; }
      }
      else if (!strcmp (name, "shset")) sc_shmem_set_type (comm_of (a[0]), (sc_shmem_type_t) a[1]);
      else if (!strcmp (name, "shget")) ph (o, (long) sc_shmem_get_type (comm_of (a[0])), 1);
      else if (!strcmp (name, "spacing")) spacing_probe (1, (int) a[0], (int) a[1], 0, o);
      else if (!strcmp (name, "spacing0")) spacing_probe (0, 0, 0, 0, o);
      else if (!strcmp (name, "spacingu")) spacing_probe (1, (int) a[0], (int) a[1], (int) a[2], o);
      else if (!strcmp (name, "use")) do_use (obj[a[0]], (int) a[1], (int) a[2]);
      else if (!strcmp (name, "usev")) do_usev (obj[a[0]], (int) a[1]);
      else if (!strcmp (name, "usevn")) do_usev (obj[a[0]], 10 + (int) a[1]);     /* payload-free form */
      else if (!strcmp (name, "shuse")) do_shuse (comm_of (a[0]), (int) a[1]);
      else { fprintf (stderr, "c20_harness: unknown operation '%s'\n", name); return 2; }
    }
    fputc ('\n', o);
    fflush (o);
    for (i = 0; i < 8; i++) if (obj[i] != NULL) { sc_notify_destroy (obj[i]); obj[i] = NULL; }
    for (i = 0; i < 8; i++) if (stat_obj[i] != NULL) { sc_statistics_destroy (stat_obj[i]); stat_obj[i] = NULL; }
    sc_notify_type_default = (sc_notify_type_t) t0; sc_notify_eager_threshold_default = e0;
    sc_notify_nary_ntop_default = a0; sc_notify_nary_nint_default = b0; sc_notify_nary_nbot_default = c0;
    sc_notify_ranges_num_ranges_default = n0;
    if (sc_package_id >= 0) sc_finalize ();
    if (sc_memory_status (-1) != 0) { fprintf (stderr, "c20_harness: memory imbalance after scenario\n"); return 6; }
  }
  if (o != stdout) fclose (o);
#ifdef SC_ENABLE_MPI
  sc_MPI_Finalize ();
#endif
  return 0;
}
