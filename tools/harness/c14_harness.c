/* C14 harness: sc_shmem_* and the node communicators of the real libsc on the simulated MPI.
   stdin: one run per line:
     <P> <seed> <adversary> <ppn_attach> <ppn_sim> <noncontig> <flavour> <dtype> <count> <dataseed> <sync> <dup> <stype> <rtype>
       stype, rtype: how sc_shmem_allgather DESCRIBES the count * sizeof (dtype) bytes every rank contributes: on the send side as
                   items of type stype, on the receive side as items of type rtype (codes as dtype, 8 = sc_MPI_BYTE,
                   9 = sc_MPI_2INT; -1 = dtype itself); the counts are the byte length divided by the size of the type (a
                   length that is not a multiple is refused: rc=-1).  sc_shmem_prefix is typed by dtype, sc_shmem_memcpy by bytes.
       dup:        1: after attach + set_type the communicator is duplicated with MPI_Comm_dup (the attribute copy
                   callbacks run) and EVERYTHING below (grid report, arrays, write rounds) happens on the duplicate;
                   then the duplicate is freed (its inherited node communicators must go with it), the original must
                   still carry its grid (og=...), and is detached and freed as usual
       sync:       1: all ranks pass an MPI_Barrier before every write round (nobody still reads the array when the
                   next writer starts); 0: the rounds follow each other directly
       ppn_attach: argument of sc_mpi_comm_attach_node_comms (0: MPI_Comm_split_type; simmpi then forms nodes of
                   ppn_sim ranks, contiguous or round robin); -1: do not attach at all
       flavour:    sc_shmem_type_t value (0 basic, 1 prescan, 2 window, 3 window_prescan with SC_ENABLE_MPIWINSHARED)
       dtype:      0 char 1 short 2 ushort 3 int 4 unsigned 5 long 6 ulong 7 longlong
   HISTORY runs: a line  H <P> <seed> <adversary> <ppn_sim> <noncontig> <dtype> <count> <dataseed> <nops> {<kind> <c> <ppn>}*
     a history of operations on communicator 0 (a dup of the world) and communicator 1 (its MPI_Comm_dup, while it exists):
       kind 0: sc_mpi_comm_attach_node_comms (comm c, ppn)   (ppn 0: MPI_Comm_split_type; NO detach in front: MPI_Comm_set_attr
               replaces the attribute)      kind 1: sc_mpi_comm_detach_node_comms (comm c)
       kind 2: comm 1 = MPI_Comm_dup (comm 0)                   kind 3: MPI_Comm_free (comm 1)
     After EVERY operation k, on every existing communicator c, every rank reports (token s<k>c<c>=...):
       grid ; write_start grants for flavours 0..3 ; the array after sc_shmem_allgather for flavours 0..3 ; after sc_shmem_prefix for
       the window flavours 2, 3   (hex, separated by ';').  At the end: free comm 1 if it exists, detach and free comm 0.
     Trace notes h<k> after operation k, hfin after the final detach (the check counts the node communicators alive there).
   Every rank: dup world, attach, set type, [dup again]; reports the grid (rank/size on both attached communicators);
     A = shmem array of P*count items, sc_shmem_allgather of `count` own items;
     B = shmem array of (P+1)*count items, sc_shmem_prefix (SUM);
     C = shmem array like A, sc_shmem_memcpy (C, A);
     twice: w = sc_shmem_write_start (C); if (w) fill C with a pattern depending on the round and the writer's NODE
            (never on the writer's rank within the node); sc_shmem_write_end (C); read C;
     free, detach, free the communicator.
   stdout per run:  RUN <i> rc=<code> steps=<n>
                    OUT info warn=<n> leaks=<n> types=<SC_SHMEM_NUM_TYPES>
                    OUT <rank> grid=<intrarank>/<intrasize>/<interrank>/<intersize> w=<w1><w2> type=<t>
                               ag=<hex> pre=<hex> cp=<hex> w1=<hex> w2=<hex> det=<1 if get_node_comms gives NULL,NULL after detach>
                    REPORT ... (when the run did not end normally, or warnings/leaks were recorded)
                    TRACE-BEGIN / trace lines / TRACE-END
                    END <i> mem=<sc_memory_status delta> */
#include <sc.h>
#include <sc_shmem.h>
#include <simmpi.h>
#include <signal.h>
#include <unistd.h>

#define RUN_SECONDS 20
static void on_alarm (int sig) { static const char m[] = "\nHANG\n"; (void) sig; if (write (1, m, sizeof m - 1) < 0) { } _exit (3); }

typedef struct { int ppn_attach, flavour, dtype, count, sync, dup, stype, rtype; unsigned dseed; char **out; } arg_t;

static unsigned mix (unsigned a, unsigned b, unsigned c)
{
  unsigned x = a * 2654435761u + b * 40503u + c * 9176u + 12345u;
  x ^= x >> 13; x *= 0x5bd1e995u; x ^= x >> 15; x *= 0x85ebca6bu; x ^= x >> 16;
  return x;
}

static const int tsize[10] = { 1, 2, 2, 4, 4, 8, 8, 8, 1, 8 };
static sc_MPI_Datatype mpitype (int d)
{
  switch (d) {
  case 8: return sc_MPI_BYTE;  case 9: return sc_MPI_2INT;
  case 0: return sc_MPI_CHAR;  case 1: return sc_MPI_SHORT;  case 2: return sc_MPI_UNSIGNED_SHORT;
  case 3: return sc_MPI_INT;   case 4: return sc_MPI_UNSIGNED;  case 5: return sc_MPI_LONG;
  case 6: return sc_MPI_UNSIGNED_LONG;  default: return sc_MPI_LONG_LONG_INT;
  }
}

/* item c of rank r; signed 4- and 8-byte types stay small so that no prefix sum overflows (undefined in C);
   the narrow and the unsigned types use their whole range (their sums wrap) */
static void put_item (int d, unsigned dseed, int r, int c, char *dst)
{
  unsigned lo = mix (dseed, (unsigned) r, (unsigned) c), hi = mix (dseed ^ 0x5a5a5a5au, (unsigned) r, (unsigned) c);
  switch (d) {
  case 0: { char v = (char) (lo & 0xff); memcpy (dst, &v, 1); break; }
  case 1: { short v = (short) (lo & 0xffff); memcpy (dst, &v, 2); break; }
  case 2: { unsigned short v = (unsigned short) (lo & 0xffff); memcpy (dst, &v, 2); break; }
  case 3: { int v = (int) (lo % 2000001u) - 1000000; memcpy (dst, &v, 4); break; }
  case 4: { unsigned v = lo; memcpy (dst, &v, 4); break; }
  case 5: { long v = (long) (((unsigned long) hi << 20 | (lo & 0xfffff)) % 2000000000001ul) - 1000000000000l; memcpy (dst, &v, 8); break; }
  case 6: { unsigned long v = ((unsigned long) hi << 32) | lo; memcpy (dst, &v, 8); break; }
  default: { long long v = (long long) (lo % 2000001u) - 1000000; memcpy (dst, &v, 8); break; }
  }
}

static char *hexdup (const void *p, size_t n, char *dst)
{
  static const char h[] = "0123456789abcdef";
  const unsigned char *b = (const unsigned char *) p;
  if (n == 0) { *dst++ = '-'; }
  for (size_t i = 0; i < n; ++i) { *dst++ = h[b[i] >> 4]; *dst++ = h[b[i] & 15]; }
  *dst = 0;
  return dst;
}

static void rank_main (int rank, int size, void *varg)
{
  arg_t *a = (arg_t *) varg;
  const int ts = tsize[a->dtype], cnt = a->count;
  const size_t nA = (size_t) size * cnt * ts, nB = (size_t) (size + 1) * cnt * ts;
  sc_MPI_Comm comm, ocomm, intra = sc_MPI_COMM_NULL, inter = sc_MPI_COMM_NULL;
  int ir = -1, is = -1, er = -1, es = -1, w[2], mpiret, node;
  char *mine = SC_ALLOC (char, (size_t) cnt * ts + 1);
  char *o = (char *) malloc (2 * (2 * nA + 2 * nB + 2 * nA) + 400), *q = o;

  mpiret = sc_MPI_Comm_dup (sc_MPI_COMM_WORLD, &comm); SC_CHECK_MPI (mpiret);
  if (a->ppn_attach >= 0) sc_mpi_comm_attach_node_comms (comm, a->ppn_attach);
  sc_shmem_set_type (comm, (sc_shmem_type_t) a->flavour);
  ocomm = comm;
  if (a->dup) {
    /* from here on `comm` is the duplicate; it inherits the flavour and the node communicators through the
       attribute copy callbacks */
    simmpi_trace_note ("dup");
    mpiret = sc_MPI_Comm_dup (ocomm, &comm); SC_CHECK_MPI (mpiret);
  }
  sc_mpi_comm_get_node_comms (comm, &intra, &inter);
  if (intra != sc_MPI_COMM_NULL) { sc_MPI_Comm_rank (intra, &ir); sc_MPI_Comm_size (intra, &is); }
  if (inter != sc_MPI_COMM_NULL) { sc_MPI_Comm_rank (inter, &er); sc_MPI_Comm_size (inter, &es); }
  node = er >= 0 ? er : 0;
  q += sprintf (q, "grid=%d/%d/%d/%d ", ir, is, er, es);

  for (int c = 0; c < cnt; ++c) put_item (a->dtype, a->dseed, rank, c, mine + (size_t) c * ts);
  simmpi_trace_note ("mA");
  char *A = (char *) sc_shmem_malloc (sc_package_id, (size_t) ts, (size_t) size * cnt, comm);
  simmpi_trace_note ("ag");
  {
    /* the same cnt * ts bytes, described by the send and by the receive signature */
    const int st = a->stype < 0 ? a->dtype : a->stype, rt = a->rtype < 0 ? a->dtype : a->rtype;
    sc_shmem_allgather (mine, cnt * ts / tsize[st], mpitype (st), A, cnt * ts / tsize[rt], mpitype (rt), comm);
  }
  simmpi_trace_note ("mB");
  char *B = (char *) sc_shmem_malloc (sc_package_id, (size_t) ts, (size_t) (size + 1) * cnt, comm);
  simmpi_trace_note ("pre");
  sc_shmem_prefix (mine, B, cnt, mpitype (a->dtype), sc_MPI_SUM, comm);
  simmpi_trace_note ("mC");
  char *C = (char *) sc_shmem_malloc (sc_package_id, (size_t) ts, (size_t) size * cnt, comm);
  simmpi_trace_note ("cp");
  sc_shmem_memcpy (C, A, nA, comm);
  char *sag = (char *) malloc (nA + 1), *spre = (char *) malloc (nB + 1), *scp = (char *) malloc (nA + 1), *sw[2];
  memcpy (sag, A, nA); memcpy (spre, B, nB); memcpy (scp, C, nA);
  for (int round = 0; round < 2; ++round) {
    if (a->sync) { simmpi_trace_note ("sync"); mpiret = sc_MPI_Barrier (comm); SC_CHECK_MPI (mpiret); }
    simmpi_trace_note (round ? "w2" : "w1");
    w[round] = sc_shmem_write_start (C, comm);
    if (w[round]) {
      for (size_t k = 0; k < nA; ++k) C[k] = (char) (mix (a->dseed + 77u * (unsigned) round, (unsigned) node, (unsigned) k) & 0xff);
    }
    sc_shmem_write_end (C, comm);
    sw[round] = (char *) malloc (nA + 1); memcpy (sw[round], C, nA);
  }
  /* a second prefix into the SAME array, which is not fresh any more: the node's writer first fills all of it (leading
     block included) with 0x5a through the write protocol */
  simmpi_trace_note ("pr2");
  { int w2 = sc_shmem_write_start (B, comm); if (w2) memset (B, 0x5a, nB); sc_shmem_write_end (B, comm); }
  sc_shmem_prefix (mine, B, cnt, mpitype (a->dtype), sc_MPI_SUM, comm);
  char *spre2 = (char *) malloc (nB + 1); memcpy (spre2, B, nB);
  q += sprintf (q, "w=%d%d type=%d ag=", w[0], w[1], (int) sc_shmem_get_type (comm));
  q = hexdup (sag, nA, q); q += sprintf (q, " pre="); q = hexdup (spre, nB, q);
  q += sprintf (q, " pre2="); q = hexdup (spre2, nB, q); free (spre2);
  q += sprintf (q, " cp="); q = hexdup (scp, nA, q);
  q += sprintf (q, " w1="); q = hexdup (sw[0], nA, q); q += sprintf (q, " w2="); q = hexdup (sw[1], nA, q);
  free (sag); free (spre); free (scp); free (sw[0]); free (sw[1]);
  simmpi_trace_note ("fC");
  sc_shmem_free (sc_package_id, C, comm);
  simmpi_trace_note ("fB");
  sc_shmem_free (sc_package_id, B, comm);
  simmpi_trace_note ("fA");
  sc_shmem_free (sc_package_id, A, comm);
  if (a->dup) {
    sc_MPI_Comm i3 = sc_MPI_COMM_NULL, e3 = sc_MPI_COMM_NULL;
    int r3 = -1, s3 = -1, r4 = -1, s4 = -1;
    simmpi_trace_note ("dfree");
    mpiret = sc_MPI_Comm_free (&comm); SC_CHECK_MPI (mpiret);
    comm = ocomm;
    /* the original still carries its own node communicators */
    sc_mpi_comm_get_node_comms (comm, &i3, &e3);
    if (i3 != sc_MPI_COMM_NULL) { sc_MPI_Comm_rank (i3, &r3); sc_MPI_Comm_size (i3, &s3); }
    if (e3 != sc_MPI_COMM_NULL) { sc_MPI_Comm_rank (e3, &r4); sc_MPI_Comm_size (e3, &s4); }
    q += sprintf (q, " og=%d/%d/%d/%d", r3, s3, r4, s4);
  }
  simmpi_trace_note ("end");
  sc_mpi_comm_detach_node_comms (comm);
  {
    sc_MPI_Comm i2 = comm, e2 = comm;       /* after detach the communicator carries no node communicators any more */
    sc_mpi_comm_get_node_comms (comm, &i2, &e2);
    q += sprintf (q, " det=%d", (i2 == sc_MPI_COMM_NULL && e2 == sc_MPI_COMM_NULL) ? 1 : 0);
  }
  simmpi_trace_note ("free");
  mpiret = sc_MPI_Comm_free (&comm); SC_CHECK_MPI (mpiret);
  SC_FREE (mine);
  a->out[rank] = o;
}

/* ---- histories of attach / detach / dup / free ---------------------------------------------------------------------------- */
#define HMAXOPS 12
typedef struct { int nops, kind[HMAXOPS], c[HMAXOPS], pa[HMAXOPS], dtype, count; unsigned dseed; char **out; } harg_t;

static char *hist_report (sc_MPI_Comm comm, int rank, int size, harg_t * a, const char *mine, char *q, int step, int ci)
{
  const int ts = tsize[a->dtype], cnt = a->count;
  const size_t nA = (size_t) size * cnt * ts, nB = (size_t) (size + 1) * cnt * ts;
  sc_MPI_Comm intra = sc_MPI_COMM_NULL, inter = sc_MPI_COMM_NULL;
  int ir = -1, is = -1, er = -1, es = -1, w[4];
  char *ag[4], *pre[2];

  sc_mpi_comm_get_node_comms (comm, &intra, &inter);
  if (intra != sc_MPI_COMM_NULL) { sc_MPI_Comm_rank (intra, &ir); sc_MPI_Comm_size (intra, &is); }
  if (inter != sc_MPI_COMM_NULL) { sc_MPI_Comm_rank (inter, &er); sc_MPI_Comm_size (inter, &es); }
  for (int fl = 0; fl < 4; ++fl) {
    sc_shmem_set_type (comm, (sc_shmem_type_t) fl);
    char *A = (char *) sc_shmem_malloc (sc_package_id, (size_t) ts, (size_t) size * cnt, comm);
    sc_shmem_allgather ((void *) mine, cnt, mpitype (a->dtype), A, cnt, mpitype (a->dtype), comm);
    ag[fl] = (char *) malloc (nA + 1); memcpy (ag[fl], A, nA);
    w[fl] = sc_shmem_write_start (A, comm);
    sc_shmem_write_end (A, comm);
    sc_shmem_free (sc_package_id, A, comm);
    if (fl >= 2) {
      char *B = (char *) sc_shmem_malloc (sc_package_id, (size_t) ts, (size_t) (size + 1) * cnt, comm);
      sc_shmem_prefix ((void *) mine, B, cnt, mpitype (a->dtype), sc_MPI_SUM, comm);
      pre[fl - 2] = (char *) malloc (nB + 1); memcpy (pre[fl - 2], B, nB);
      sc_shmem_free (sc_package_id, B, comm);
    }
  }
  q += sprintf (q, " s%dc%d=%d/%d/%d/%d;%d%d%d%d", step, ci, ir, is, er, es, w[0], w[1], w[2], w[3]);
  for (int fl = 0; fl < 4; ++fl) { *q++ = ';'; q = hexdup (ag[fl], nA, q); free (ag[fl]); }
  for (int k = 0; k < 2; ++k) { *q++ = ';'; q = hexdup (pre[k], nB, q); free (pre[k]); }
  (void) rank;
  return q;
}

static void hist_main (int rank, int size, void *varg)
{
  harg_t *a = (harg_t *) varg;
  const int ts = tsize[a->dtype], cnt = a->count;
  const size_t per = 2 * (4 * (size_t) size * cnt * ts + 2 * (size_t) (size + 1) * cnt * ts) + 128;
  sc_MPI_Comm comm[2] = { sc_MPI_COMM_NULL, sc_MPI_COMM_NULL };
  int mpiret;
  char note[16];
  char *mine = SC_ALLOC (char, (size_t) cnt * ts + 1);
  char *o = (char *) malloc (per * 2 * (size_t) (a->nops + 1) + 64), *q = o;

  *q = 0;
  for (int c = 0; c < cnt; ++c) put_item (a->dtype, a->dseed, rank, c, mine + (size_t) c * ts);
  mpiret = sc_MPI_Comm_dup (sc_MPI_COMM_WORLD, &comm[0]); SC_CHECK_MPI (mpiret);
  for (int k = 0; k < a->nops; ++k) {
    const int c = a->c[k];
    switch (a->kind[k]) {
    case 0: sc_mpi_comm_attach_node_comms (comm[c], a->pa[k]); break;
    case 1: sc_mpi_comm_detach_node_comms (comm[c]); break;
    case 2: mpiret = sc_MPI_Comm_dup (comm[0], &comm[1]); SC_CHECK_MPI (mpiret); break;
    default: mpiret = sc_MPI_Comm_free (&comm[1]); SC_CHECK_MPI (mpiret); comm[1] = sc_MPI_COMM_NULL; break;
    }
    snprintf (note, sizeof note, "h%d", k);
    simmpi_trace_note (note);
    for (int ci = 0; ci < 2; ++ci) if (comm[ci] != sc_MPI_COMM_NULL) q = hist_report (comm[ci], rank, size, a, mine, q, k, ci);
  }
  simmpi_trace_note ("hend");
  if (comm[1] != sc_MPI_COMM_NULL) { mpiret = sc_MPI_Comm_free (&comm[1]); SC_CHECK_MPI (mpiret); }
  sc_mpi_comm_detach_node_comms (comm[0]);
  simmpi_trace_note ("hfin");
  mpiret = sc_MPI_Comm_free (&comm[0]); SC_CHECK_MPI (mpiret);
  SC_FREE (mine);
  a->out[rank] = o;
}

/* parses and runs one history line; returns 0 if the line is not well formed */
static int hist_line (const char *line, int run, const char *tpath)
{
  int P, adv, ppn_sim, noncontig, n = 0, m, valid = 1, dupalive = 0; unsigned long seed; harg_t a;
  if (sscanf (line, "H %d %lu %d %d %d %d %d %u %d%n", &P, &seed, &adv, &ppn_sim, &noncontig, &a.dtype, &a.count, &a.dseed, &a.nops, &n) < 9) return 0;
  if (P < 1 || a.dtype < 0 || a.dtype > 7 || a.count < 0 || a.nops < 0 || a.nops > HMAXOPS) valid = 0;
  for (int k = 0; valid && k < a.nops; ++k) {
    if (sscanf (line + n, "%d %d %d%n", &a.kind[k], &a.c[k], &a.pa[k], &m) < 3) { valid = 0; break; }
    n += m;
    /* only histories the MPI standard allows: communicator 1 exists between kind 2 and kind 3 */
    if (a.kind[k] < 0 || a.kind[k] > 3 || a.c[k] < 0 || a.c[k] > 1) valid = 0;
    else if (a.kind[k] <= 1 && a.c[k] == 1 && !dupalive) valid = 0;
    else if (a.kind[k] == 2) { if (dupalive) valid = 0; dupalive = 1; }
    else if (a.kind[k] == 3) { if (!dupalive) valid = 0; dupalive = 0; }
    if (valid && a.kind[k] == 0 && a.pa[k] > 0 && P % a.pa[k]) valid = 0;
  }
  if (!valid) { printf ("RUN %d rc=-1 steps=0\nEND %d mem=0\n", run, run); return 1; }
  a.out = (char **) calloc ((size_t) P, sizeof (char *));
  int mem0 = sc_memory_status (-1) + sc_memory_status (sc_package_id);
  simmpi_opts o; simmpi_report rep;
  simmpi_opts_default (&o);
  o.nranks = P; o.seed = seed; o.adversary = adv; o.trace_path = tpath; o.ppn = ppn_sim; o.noncontig_nodes = noncontig;
  fflush (stdout);
  alarm (RUN_SECONDS);
  int rc = simmpi_run (&o, hist_main, &a, &rep);
  alarm (0);
  printf ("RUN %d rc=%d steps=%ld\n", run, rc, rep.steps);
  printf ("OUT info warn=%d leaks=%d types=%d\n", rep.nwarnings, rep.nleaks, (int) SC_SHMEM_NUM_TYPES);
  if (rc || rep.nwarnings || rep.nleaks) { char *t = rep.text; for (char *p = t; *p; ++p) if (*p == '\n') *p = '~'; printf ("REPORT %s\n", t); }
  for (int r = 0; r < P; ++r) { printf ("OUT %d%s\n", r, a.out[r] ? a.out[r] : " none"); free (a.out[r]); }
  printf ("TRACE-BEGIN\n");
  FILE *f = fopen (tpath, "r");
  if (f) { static char buf[65536]; size_t nr; while ((nr = fread (buf, 1, sizeof buf, f)) > 0) fwrite (buf, 1, nr, stdout); fclose (f); }
  printf ("TRACE-END\n");
  printf ("END %d mem=%d\n", run, sc_memory_status (-1) + sc_memory_status (sc_package_id) - mem0);
  fflush (stdout);
  simmpi_report_free (&rep);
  free (a.out);
  return 1;
}

int main (void)
{
  static char line[4096];
  char tpath[256];
  int run = 0;
  sc_init (sc_MPI_COMM_NULL, 0, 0, NULL, SC_LP_SILENT);
  sc_set_abort_handler (simmpi_abort_handler);
  signal (SIGALRM, on_alarm);
  snprintf (tpath, sizeof tpath, "%s/trace.%d.jsonl", getenv ("VERIF_SCRATCH") ? getenv ("VERIF_SCRATCH") : "/var/tmp", (int) getpid ());
  while (fgets (line, sizeof line, stdin)) {
    int P, adv, ppn_sim, noncontig; unsigned long seed; arg_t a;
    if (line[0] == 'H') { if (hist_line (line, run, tpath)) ++run; continue; }
    a.sync = 1; a.dup = 0; a.stype = a.rtype = -1;
    if (sscanf (line, "%d %lu %d %d %d %d %d %d %d %u %d %d %d %d", &P, &seed, &adv, &a.ppn_attach, &ppn_sim, &noncontig, &a.flavour, &a.dtype, &a.count, &a.dseed, &a.sync, &a.dup, &a.stype, &a.rtype) < 10) continue;
    if (P < 1 || a.dtype < 0 || a.dtype > 7 || a.count < 0 || a.flavour < 0 || a.flavour >= (int) SC_SHMEM_NUM_TYPES
        || a.stype < -1 || a.stype > 9 || a.rtype < -1 || a.rtype > 9
        || (a.stype >= 0 && (a.count * tsize[a.dtype]) % tsize[a.stype]) || (a.rtype >= 0 && (a.count * tsize[a.dtype]) % tsize[a.rtype])) { printf ("RUN %d rc=-1 steps=0\nEND %d mem=0\n", run, run); ++run; continue; }
    a.out = (char **) calloc ((size_t) P, sizeof (char *));
    int mem0 = sc_memory_status (-1) + sc_memory_status (sc_package_id);
    simmpi_opts o; simmpi_report rep;
    simmpi_opts_default (&o);
    o.nranks = P; o.seed = seed; o.adversary = adv; o.trace_path = tpath; o.ppn = ppn_sim; o.noncontig_nodes = noncontig;
    fflush (stdout);
    alarm (RUN_SECONDS);
    int rc = simmpi_run (&o, rank_main, &a, &rep);
    alarm (0);
    printf ("RUN %d rc=%d steps=%ld\n", run, rc, rep.steps);
    printf ("OUT info warn=%d leaks=%d types=%d\n", rep.nwarnings, rep.nleaks, (int) SC_SHMEM_NUM_TYPES);
    if (rc || rep.nwarnings || rep.nleaks) { char *t = rep.text; for (char *p = t; *p; ++p) if (*p == '\n') *p = '~'; printf ("REPORT %s\n", t); }
    for (int r = 0; r < P; ++r) {
      printf ("OUT %d %s\n", r, a.out[r] ? a.out[r] : "none");
      free (a.out[r]);
    }
    printf ("TRACE-BEGIN\n");
    FILE *f = fopen (tpath, "r");
    if (f) { static char buf[65536]; size_t n; while ((n = fread (buf, 1, sizeof buf, f)) > 0) fwrite (buf, 1, n, stdout); fclose (f); }
    printf ("TRACE-END\n");
    printf ("END %d mem=%d\n", run, sc_memory_status (-1) + sc_memory_status (sc_package_id) - mem0);
    fflush (stdout);
    simmpi_report_free (&rep);
    free (a.out);
    ++run;
  }
  remove (tpath);
  return 0;
}
