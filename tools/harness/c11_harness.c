/* C11 harness: drives the real sinks and sources of libsc (sc_io.c) with the case file (stdin) and prints
   one result line per case in the same format as tools/ocaml/c11_driver.ml (format: checks/C11.py).
   argv[1] = scratch directory for files.  stdio faults are injected through ld --wrap. */
#include <sc.h>
#include <sc_io.h>
#include <sc_containers.h>
#include <inttypes.h>

/* ---------------- fault injection (linked with -Wl,--wrap=fwrite,...) ---------------- */
size_t __real_fwrite (const void *p, size_t sz, size_t n, FILE * f);
size_t __real_fread (void *p, size_t sz, size_t n, FILE * f);
int __real_fflush (FILE * f);
int __real_fclose (FILE * f);
int __real_fseek (FILE * f, long off, int wh);
int __real_feof (FILE * f);
int __real_ferror (FILE * f);

static long flt_fwrite_k = -1;          /* next fwrite transfers only k items */
static int flt_fflush = 0, flt_fclose = 0, flt_fseek = 0;
static long flt_fread_at = -1, flt_fread_k = 0;  /* the flt_fread_at-th fread from now is short */
static int flt_fread_e = 0, flt_fread_r = 0;
static FILE *forced_stream = NULL;
static int forced_eof = 0, forced_err = 0;

static void faults_clear (void)
{
  flt_fwrite_k = -1; flt_fflush = flt_fclose = flt_fseek = 0; flt_fread_at = -1; forced_stream = NULL;
}

size_t __wrap_fwrite (const void *p, size_t sz, size_t n, FILE * f)
{
  if (flt_fwrite_k >= 0 && f != stdout && f != stderr) {
    size_t k = (size_t) flt_fwrite_k < n ? (size_t) flt_fwrite_k : n;
    flt_fwrite_k = -1;
    return __real_fwrite (p, sz, k, f);
  }
  return __real_fwrite (p, sz, n, f);
}

size_t __wrap_fread (void *p, size_t sz, size_t n, FILE * f)
{
  forced_stream = NULL;
  if (f != stdin && flt_fread_at >= 0) {
    if (flt_fread_at-- == 0) {
      size_t k = (size_t) flt_fread_k < n ? (size_t) flt_fread_k : n;
      size_t got = __real_fread (p, sz, k, f);
      forced_stream = f; forced_eof = flt_fread_e; forced_err = flt_fread_r;
      flt_fread_at = -1;
      return got;
    }
  }
  return __real_fread (p, sz, n, f);
}

int __wrap_feof (FILE * f) { return (forced_stream != NULL && f == forced_stream) ? forced_eof : __real_feof (f); }
int __wrap_ferror (FILE * f) { return (forced_stream != NULL && f == forced_stream) ? forced_err : __real_ferror (f); }
int __wrap_fflush (FILE * f) { if (flt_fflush && f != NULL && f != stdout && f != stderr) { flt_fflush = 0; return EOF; } return __real_fflush (f); }
int __wrap_fclose (FILE * f) { if (flt_fclose) { flt_fclose = 0; __real_fclose (f); return EOF; } return __real_fclose (f); }
int __wrap_fseek (FILE * f, long off, int wh) { if (flt_fseek) { flt_fseek = 0; return -1; } return __real_fseek (f, off, wh); }

/* ---------------- helpers ---------------- */
#define SENT 0xEE
#define GUARD 32
static char scratch[1024];
static char path[1100];

static size_t parse_bytes (const char *s, unsigned char **out)
{
  size_t n = 0, i;
  unsigned char *b;
  if (!strcmp (s, "-") || !*s) { *out = (unsigned char *) malloc (1); return 0; }
  if (s[0] == '#') {
    unsigned long len, seed; unsigned long x;
    sscanf (s + 1, "%lu,%lu", &len, &seed);
    b = (unsigned char *) malloc (len + 1);
    x = seed;
    for (i = 0; i < len; ++i) { x = (x * 1103515245UL + 12345UL) & 0x7fffffffUL; b[i] = (unsigned char) ((x >> 16) & 0xff); }
    *out = b; return len;
  }
  n = strlen (s) / 2;
  b = (unsigned char *) malloc (n + 1);
  for (i = 0; i < n; ++i) { unsigned v; sscanf (s + 2 * i, "%2x", &v); b[i] = (unsigned char) v; }
  *out = b; return n;
}

static void dump (const unsigned char *p, size_t n)
{
  size_t i;
  if (n == 0) { printf ("."); return; }
  if (n > 1024) {
    uint64_t h = 0xcbf29ce484222325ULL;
    for (i = 0; i < n; ++i) { h = (h ^ p[i]) * 0x100000001b3ULL; }
    printf ("H%zu:%" PRIx64, n, h); return;
  }
  for (i = 0; i < n; ++i) printf ("%02x", p[i]);
}

static void write_file (const char *name, const unsigned char *p, size_t n)
{
  FILE *f = fopen (name, "wb");
  if (f == NULL) { printf ("HARNESS_IO_ERROR"); exit (3); }
  if (n) __real_fwrite (p, 1, n, f);
  __real_fclose (f);
}

static size_t read_file (const char *name, unsigned char **out)
{
  FILE *f = fopen (name, "rb"); size_t n = 0, cap = 1 << 16, k;
  unsigned char *b = (unsigned char *) malloc (cap);
  if (f == NULL) { *out = b; return (size_t) -1; }
  while ((k = __real_fread (b + n, 1, cap - n, f)) > 0) { n += k; if (n == cap) { cap *= 2; b = (unsigned char *) realloc (b, cap); } }
  __real_fclose (f);
  *out = b; return n;
}

static char *field (char *op, int idx)  /* idx-th ':'-separated part, or NULL */
{
  static char buf[8][1 << 18];
  int i = 0; char *p = op;
  while (i < idx) { p = strchr (p, ':'); if (p == NULL) return NULL; ++p; ++i; }
  {
    char *e = strchr (p, ':'); size_t l = e ? (size_t) (e - p) : strlen (p);
    if (l >= sizeof buf[0]) l = sizeof buf[0] - 1;
    memcpy (buf[idx], p, l); buf[idx][l] = 0;
  }
  return buf[idx];
}

/* ---------------- sinks ---------------- */
static void sink_state (sc_io_sink_t * s)
{
  printf ("%zu,%zu,%zu,", s->buffer_bytes, s->bytes_in, s->bytes_out);
  if (s->iotype == SC_IO_TYPE_BUFFER) printf ("%zu", s->buffer->elem_count); else printf ("-");
}

static void run_sink (char **tok, int n)
{
  const char *dev = tok[0], *mode = tok[1];
  size_t esz = (size_t) atol (tok[2]), cap = (size_t) atol (tok[4]);
  unsigned char *old; size_t oldn = parse_bytes (tok[3], &old);
  int append = (mode[0] == 'a' || mode[0] == 'A');
  int iomode = append ? SC_IO_MODE_APPEND : SC_IO_MODE_WRITE;
  sc_array_t *arr = NULL; unsigned char *vmem = NULL; FILE *fp = NULL;
  sc_io_sink_t *sink = NULL;
  size_t last_bb = 0; int guard_hit = 0, i;
  int mem0 = sc_memory_status (sc_package_id);

  snprintf (path, sizeof path, "%s/c11_sink.bin", scratch);
  if (dev[0] == 'b') {
    arr = sc_array_new_count (esz, oldn / esz);
    if (oldn) memcpy (arr->array, old, oldn);
    sink = sc_io_sink_new (SC_IO_TYPE_BUFFER, iomode, SC_IO_ENCODE_NONE, arr);
  }
  else if (dev[0] == 'v') {
    vmem = (unsigned char *) malloc (cap * esz + GUARD);
    memset (vmem, SENT, cap * esz + GUARD);
    if (oldn) memcpy (vmem, old, oldn);
    arr = sc_array_new_data (vmem, esz, cap);
    sc_array_resize (arr, oldn / esz);
    sink = sc_io_sink_new (SC_IO_TYPE_BUFFER, iomode, SC_IO_ENCODE_NONE, arr);
  }
  else if (dev[0] == 'n') {
    write_file (path, old, oldn);
    sink = sc_io_sink_new (SC_IO_TYPE_FILENAME, iomode, SC_IO_ENCODE_NONE, path);
  }
  else {
    /* FILE*: opened by the caller; the mode argument of the sink must not matter (W/A: crossed) */
    write_file (path, old, oldn);
    fp = fopen (path, append ? "ab" : "wb");
    if (mode[0] == 'W') iomode = SC_IO_MODE_APPEND;
    if (mode[0] == 'A') iomode = SC_IO_MODE_WRITE;
    sink = sc_io_sink_new (SC_IO_TYPE_FILEFILE, iomode, SC_IO_ENCODE_NONE, fp);
  }
  if (sink == NULL) { printf ("SINK_NEW_FAILED"); free (old); return; }
  last_bb = sink->buffer_bytes;

  for (i = 5; i < n; ++i) {
    char *op = tok[i];
    int rc;
    faults_clear ();
    if (op[0] == 'w') {
      unsigned char *d; size_t dn = parse_bytes (field (op, 1), &d);
      char *f = field (op, 2);
      if (f) flt_fwrite_k = atol (f);
      rc = sc_io_sink_write (sink, d, dn);
      free (d);
      printf ("%d,", rc); sink_state (sink);
    }
    else if (op[0] == 'a') {
      size_t al = (size_t) atol (field (op, 1));
      char *f = field (op, 2);
      if (f) flt_fwrite_k = atol (f);
      rc = sc_io_sink_align (sink, al);
      printf ("%d,", rc); sink_state (sink);
    }
    else if (op[0] == 'c') {
      size_t rin = (size_t) 0xDEADBEEFDEADULL, rout = (size_t) 0xDEADBEEFDEADULL;
      if (field (op, 1)) flt_fflush = 1;
      rc = sc_io_sink_complete (sink, &rin, &rout);
      printf ("%d,", rc); sink_state (sink);
      if (rin == (size_t) 0xDEADBEEFDEADULL) printf (",-"); else printf (",%zu", rin);
      if (rout == (size_t) 0xDEADBEEFDEADULL) printf (",-"); else printf (",%zu", rout);
    }
    else if (op[0] == 'C') {
      /* complete with NULL for some of the counter pointers: mask bit 0 = bytes_in wanted, bit 1 = bytes_out wanted */
      size_t rin = (size_t) 0xDEADBEEFDEADULL, rout = (size_t) 0xDEADBEEFDEADULL;
      int mask = atoi (field (op, 1));
      rc = sc_io_sink_complete (sink, (mask & 1) ? &rin : NULL, (mask & 2) ? &rout : NULL);
      printf ("%d,", rc); sink_state (sink);
      if (rin == (size_t) 0xDEADBEEFDEADULL) printf (",-"); else printf (",%zu", rin);
      if (rout == (size_t) 0xDEADBEEFDEADULL) printf (",-"); else printf (",%zu", rout);
    }
    else if (op[0] == 'd') {
      char *f = field (op, 1);
      if (f && strchr (f, 'F')) flt_fflush = 1;
      if (f && strchr (f, 'C')) flt_fclose = 1;
      last_bb = sink->buffer_bytes;
      rc = sc_io_sink_destroy_null (&sink);
      printf ("%d", rc);
      if (sink != NULL) printf ("!NOTNULL");
    }
    else printf ("UNKNOWN_OP");
    printf (" ");
    if (sink != NULL) last_bb = sink->buffer_bytes;
    if (vmem) { size_t g; for (g = 0; g < GUARD; ++g) if (vmem[cap * esz + g] != SENT) guard_hit = 1; }
  }
  faults_clear ();
  if (sink != NULL) { sc_io_sink_destroy (sink); printf ("NO_DESTROY_OP "); }
  if (fp) __real_fclose (fp);
  printf ("| ");
  if (dev[0] == 'b') {
    /* the bytes below buffer_bytes (at least the kept old content, as far as the array still has it) */
    size_t keep = append ? oldn : 0, show = last_bb > keep ? last_bb : keep, have = arr->elem_count * arr->elem_size;
    printf ("%zu:", arr->elem_count); dump ((unsigned char *) arr->array, show < have ? show : have);
  }
  else if (dev[0] == 'v') { printf ("%zu:", arr->elem_count); dump (vmem, cap * esz); }
  else { unsigned char *c; size_t cn = read_file (path, &c); if (cn == (size_t) -1) printf ("~"); else dump (c, cn); free (c); }
  if (arr) sc_array_destroy (arr);
  if (vmem) free (vmem);
  free (old);
  if (guard_hit) printf (" GUARD");
  if (sc_memory_status (sc_package_id) != mem0) printf (" LEAK=%d", sc_memory_status (sc_package_id) - mem0);
}

/* ---------------- sources ---------------- */
static void src_state (sc_io_source_t * s)
{
  if (s->iotype == SC_IO_TYPE_BUFFER) printf ("%zu", s->buffer_bytes); else printf ("%ld", ftell (s->file));
  printf (",%zu,%zu,%d", s->bytes_in, s->bytes_out, s->is_eof ? 1 : 0);
}

static void set_read_fault (char *f)
{
  if (f == NULL) return;
  if (f[0] == '!') { flt_fseek = 1; return; }
  { long k; int e, r; sscanf (f, "%ld,%d,%d", &k, &e, &r); flt_fread_at = 0; flt_fread_k = k; flt_fread_e = e; flt_fread_r = r; }
}

static void run_source (char **tok, int n)
{
  const char *dev = tok[0];
  size_t p = (size_t) atol (tok[1]);
  unsigned char *content; size_t cn = parse_bytes (tok[2], &content);
  sc_array_t *arr = NULL; FILE *fp = NULL; sc_io_source_t *src = NULL;
  int i, mem0 = sc_memory_status (sc_package_id);

  snprintf (path, sizeof path, "%s/c11_source.bin", scratch);
  if (dev[0] == 'b') {
    arr = sc_array_new_count (p, cn / p);
    if (cn) memcpy (arr->array, content, cn);
    src = sc_io_source_new (SC_IO_TYPE_BUFFER, SC_IO_ENCODE_NONE, arr);
  }
  else if (dev[0] == 'v') {
    arr = sc_array_new_data (content, p, cn / p);
    src = sc_io_source_new (SC_IO_TYPE_BUFFER, SC_IO_ENCODE_NONE, arr);
  }
  else if (dev[0] == 'n') {
    write_file (path, content, cn);
    src = sc_io_source_new (SC_IO_TYPE_FILENAME, SC_IO_ENCODE_NONE, path);
  }
  else {
    write_file (path, content, cn);
    fp = fopen (path, "rb");
    __real_fseek (fp, (long) p, SEEK_SET);
    src = sc_io_source_new (SC_IO_TYPE_FILEFILE, SC_IO_ENCODE_NONE, fp);
  }
  if (src == NULL) { printf ("SOURCE_NEW_FAILED"); free (content); return; }

  for (i = 3; i < n; ++i) {
    char *op = tok[i];
    char c = op[0];
    int rc;
    if (i > 3) printf (" ");
    faults_clear ();
    if (strchr ("rxstMXN", c)) {
      size_t want = (size_t) atol (field (op, 1));
      int with_data = (c == 'r' || c == 'x' || c == 'M' || c == 'X');
      int with_count = (c == 'r' || c == 's' || c == 'M' || c == 'N');
      unsigned char *buf = (unsigned char *) malloc (want + 1);
      size_t cnt = (size_t) 0xDEADBEEFDEADULL;
      memset (buf, SENT, want + 1);
      if (c == 'M' || c == 'X' || c == 'N') {
        rc = sc_io_source_read_mirror (src, with_data ? buf : NULL, want, with_count ? &cnt : NULL);
      }
      else {
        set_read_fault (field (op, 2));
        rc = sc_io_source_read (src, with_data ? buf : NULL, want, with_count ? &cnt : NULL);
      }
      faults_clear ();
      printf ("%d,", rc);
      if (cnt == (size_t) 0xDEADBEEFDEADULL) printf ("-,"); else printf ("%zu,", cnt);
      src_state (src); printf (",");
      if (with_data) dump (buf, want); else printf ("-");
      if (buf[want] != SENT) printf ("!OVERRUN");
      free (buf);
    }
    else if (c == 'a') {
      size_t al = (size_t) atol (field (op, 1));
      set_read_fault (field (op, 2));
      rc = sc_io_source_align (src, al);
      faults_clear ();
      printf ("%d,", rc); src_state (src);
    }
    else if (c == 'c') {
      size_t rin = (size_t) 0xDEADBEEFDEADULL, rout = (size_t) 0xDEADBEEFDEADULL;
      rc = sc_io_source_complete (src, &rin, &rout);
      printf ("%d,", rc); src_state (src);
      if (rin == (size_t) 0xDEADBEEFDEADULL) printf (",-"); else printf (",%zu", rin);
      if (rout == (size_t) 0xDEADBEEFDEADULL) printf (",-"); else printf (",%zu", rout);
    }
    else if (c == 'C') {
      size_t rin = (size_t) 0xDEADBEEFDEADULL, rout = (size_t) 0xDEADBEEFDEADULL;
      int mask = atoi (field (op, 1));
      rc = sc_io_source_complete (src, (mask & 1) ? &rin : NULL, (mask & 2) ? &rout : NULL);
      printf ("%d,", rc); src_state (src);
      if (rin == (size_t) 0xDEADBEEFDEADULL) printf (",-"); else printf (",%zu", rin);
      if (rout == (size_t) 0xDEADBEEFDEADULL) printf (",-"); else printf (",%zu", rout);
    }
    else if (c == 'm') { rc = sc_io_source_activate_mirror (src); printf ("%d", rc); }
    else if (c == 'z') {
      size_t newc = (size_t) atol (field (op, 1)), oldb = arr->elem_count * arr->elem_size;
      sc_array_resize (arr, newc);
      if (newc * arr->elem_size > oldb) memset (arr->array + oldb, 0xCD, newc * arr->elem_size - oldb);
      printf ("0");
    }
    else if (c == 'd') {
      if (field (op, 1)) flt_fclose = 1;
      rc = sc_io_source_destroy_null (&src);
      printf ("%d", rc);
      if (src != NULL) printf ("!NOTNULL");
    }
    else printf ("UNKNOWN_OP");
  }
  faults_clear ();
  if (src != NULL) { sc_io_source_destroy (src); printf (" NO_DESTROY_OP"); }
  if (fp) __real_fclose (fp);
  if (arr) sc_array_destroy (arr);
  free (content);
  if (sc_memory_status (sc_package_id) != mem0) printf (" LEAK=%d", sc_memory_status (sc_package_id) - mem0);
}

/* ---------------- save / load ---------------- */
static void run_saveload (char **tok, int n)
{
  unsigned char *content, *pre; size_t cn = parse_bytes (tok[0], &content), pn = parse_bytes (tok[1], &pre);
  int open_ok = 1, lopen = 1, i, rc, mem0 = sc_memory_status (sc_package_id);
  long wk = -1; int ff = 0, cf = 0, lcf = 0; long rat = -1, rk = 0; int re = 0, rr = 0;
  sc_array_t *a, *b;
  char other[1100];

  for (i = 2; i < n; ++i) {
    char *f = tok[i];
    if (f[0] == 'O') open_ok = 0;
    else if (f[0] == 'W') wk = atol (field (f, 1));
    else if (f[0] == 'F') ff = 1;
    else if (f[0] == 'C') cf = 1;
    else if (f[0] == 'o') lopen = 0;
    else if (f[0] == 'c') lcf = 1;
    else if (f[0] == 'R') { rat = atol (field (f, 1)); sscanf (field (f, 2), "%ld,%d,%d", &rk, &re, &rr); }
  }
  if (open_ok) snprintf (path, sizeof path, "%s/c11_save.bin", scratch);
  else snprintf (path, sizeof path, "%s/no-such-dir/c11_save.bin", scratch);
  remove (path);
  a = sc_array_new_count (1, cn);
  if (cn) memcpy (a->array, content, cn);
  faults_clear ();
  flt_fwrite_k = wk; flt_fflush = ff; flt_fclose = cf;
  rc = sc_io_file_save (path, a);
  faults_clear ();
  printf ("%d ", rc);
  { unsigned char *c; size_t k = read_file (path, &c); if (k == (size_t) -1) printf ("~"); else dump (c, k); free (c); }
  b = sc_array_new_count (1, pn);
  if (pn) memcpy (b->array, pre, pn);
  snprintf (other, sizeof other, "%s/c11_absent.bin", scratch);
  if (rat >= 0) { flt_fread_at = rat; flt_fread_k = rk; flt_fread_e = re; flt_fread_r = rr; }
  flt_fclose = lcf;
  rc = sc_io_file_load (lopen ? path : other, b);
  faults_clear ();
  if (rc == 0) { printf (" 0 %zu:", b->elem_count); dump ((unsigned char *) b->array, b->elem_count); }
  else printf (" %d ?", rc);
  sc_array_destroy (a); sc_array_destroy (b);
  free (content); free (pre);
  if (sc_memory_status (sc_package_id) != mem0) printf (" LEAK=%d", sc_memory_status (sc_package_id) - mem0);
}

int main (int argc, char **argv)
{
  static char line[1 << 22];
  static char *tok[1 << 16];
  sc_init (sc_MPI_COMM_NULL, 0, 0, NULL, SC_LP_SILENT);
  snprintf (scratch, sizeof scratch, "%s", argc > 1 ? argv[1] : "/var/tmp");
  while (fgets (line, sizeof line, stdin)) {
    int n = 0; char *p;
    for (p = strtok (line, " \n"); p && n < (1 << 16); p = strtok (NULL, " \n")) tok[n++] = p;
    if (n == 0) continue;
    if (!strcmp (tok[0], "K") && n >= 6) run_sink (tok + 1, n - 1);
    else if (!strcmp (tok[0], "R") && n >= 4) run_source (tok + 1, n - 1);
    else if (!strcmp (tok[0], "L") && n >= 3) run_saveload (tok + 1, n - 1);
    else printf ("UNKNOWN_CASE");
    printf ("\n");
    fflush (stdout);
  }
  {
    int left = sc_memory_status (sc_package_id);
    printf ("END %d\n", left);
  }
  sc_finalize ();
  return 0;
}
