/* shared helpers of the C06/C07 harnesses: case lines on stdin, bytes as hexadecimal text ("-" = empty) */
#include <stdio.h>
#include <stdlib.h>
#include <string.h>
#include <stdint.h>

#define MAXTOK 4096
static char *g_line = NULL;
static size_t g_cap = 0;
static char *g_tok[MAXTOK];
static int g_ntok;

static int next_case (void)
{
  ssize_t n = getline (&g_line, &g_cap, stdin);
  if (n < 0) return 0;
  g_ntok = 0;
  for (char *p = strtok (g_line, " \n"); p && g_ntok < MAXTOK; p = strtok (NULL, " \n")) g_tok[g_ntok++] = p;
  return 1;
}

static int hv (int c) { return c <= '9' ? c - '0' : (c | 32) - 'a' + 10; }

/* returns malloc'ed buffer (at least 1 byte), length in *n */
static unsigned char *unhex (const char *s, size_t *n)
{
  size_t l = strcmp (s, "-") ? strlen (s) / 2 : 0;
  unsigned char *b = (unsigned char *) malloc (l + 1);
  for (size_t i = 0; i < l; ++i) b[i] = (unsigned char) (hv (s[2 * i]) * 16 + hv (s[2 * i + 1]));
  *n = l;
  return b;
}

static void puthex (const unsigned char *b, size_t n)
{
  static const char d[] = "0123456789abcdef";
  if (n == 0) { fputs ("-", stdout); return; }
  char *o = (char *) malloc (2 * n + 1);
  for (size_t i = 0; i < n; ++i) { o[2 * i] = d[b[i] >> 4]; o[2 * i + 1] = d[b[i] & 15]; }
  o[2 * n] = 0;
  fputs (o, stdout);
  free (o);
}

static unsigned long long num (const char *s) { return strtoull (s, NULL, 16); }
static long long snum (const char *s) { return s[0] == '-' ? -(long long) strtoull (s + 1, NULL, 16) : (long long) strtoull (s, NULL, 16); }
static void putnum (long long v) { if (v < 0) printf ("-%llx", (unsigned long long) (-(v + 1)) + 1ULL); else printf ("%llx", (unsigned long long) v); }
