/* C05 harness: runs sc_psort of the real libsc on the simulated MPI.
   stdin: one run per line:  <P> <seed> <adversary> <size> <cmpid> <dataseed> <keyrange> <n_0> ... <n_{P-1}>
     element with global index g: bytes 0..3 = key (little endian), bytes 4.. = payload derived from (dataseed, g);
     key = mix (dataseed, g) % keyrange  (cmpid 1: minus keyrange / 2, stored as int32).
     cmpid 0: unsigned key ascending   1: signed key   2: unsigned key descending   3: key mod 5 (many ties)
           4: memcmp over the whole element
     comparison functions using the full range of int (cmpid >= 5: key = signed 32-bit, centred like cmpid 1):
           5: saturated difference of the 64-bit keys wide (key) (spread over +-2^62, identity for |key| < 256): INT_MIN / INT_MAX
              for keys further apart than INT_MAX, the exact (small) difference otherwise
           6: difference of the int keys (exact for |key| <= 2^30: any magnitude up to INT_MAX; clamped beyond)
           7: sign times 0x40000000 (low bits zero)   8: INT_MIN for every "less", INT_MAX for every "greater"
           9: descending order, INT_MIN for "less" (key greater), 1 for "greater"
   stdout per run:  RUN <i> rc=<code> steps=<n>
                    OUT <rank> <hex of the local array after the call | -> <send-buffer violations>
                    TRACE-BEGIN / trace lines / TRACE-END
                    END <i> mem=<sc_memory_status delta>
   Send-buffer monitor (linked with -Wl,--wrap=MPI_Isend,--wrap=MPI_Waitsome,--wrap=MPI_Waitall): the bytes handed to MPI_Isend are
   remembered and compared with the buffer at the moment a Wait call reports the send complete; MPI forbids
   modifying a send buffer before that, and sc_psort sends straight from the array it sorts. */
#include <sc.h>
#include <sc_sort.h>
#include <simmpi.h>
#include <signal.h>
#include <unistd.h>
#include <limits.h>

#define MAXP 64
#define RUN_SECONDS 20          /* wall-clock limit per run: a rank spinning without MPI calls is invisible to simmpi */
static void on_alarm (int sig) { static const char m[] = "\nHANG\n"; (void) sig; if (write (1, m, sizeof m - 1) < 0) { } _exit (3); }
typedef struct { int size, cmpid; unsigned dseed, keyrange; int counts[MAXP]; unsigned char **out; int *viol; } arg_t;

static unsigned mix (unsigned a, unsigned b, unsigned c)
{
  unsigned x = a * 2654435761u + b * 40503u + c * 9176u + 12345u;
  x ^= x >> 13; x *= 0x5bd1e995u; x ^= x >> 15; x *= 0x85ebca6bu; x ^= x >> 16;
  return x;
}

static size_t g_size;
static unsigned ukey (const void *p) { unsigned k; memcpy (&k, p, 4); return k; }
static int cmp_u (const void *a, const void *b) { unsigned x = ukey (a), y = ukey (b); return x < y ? -1 : x > y; }
static int cmp_s (const void *a, const void *b) { int x = (int) ukey (a), y = (int) ukey (b); return x < y ? -1 : x > y; }
static int cmp_d (const void *a, const void *b) { unsigned x = ukey (a), y = ukey (b); return x > y ? -1 : x < y; }
static int cmp_m (const void *a, const void *b) { unsigned x = ukey (a) % 5, y = ukey (b) % 5; return (int) x - (int) y; }
static int cmp_b (const void *a, const void *b) { return memcmp (a, b, g_size); }
/* 64-bit key: strictly monotone in the signed 32-bit key, identity near 0, up to about 2^62 in magnitude */
static long long wide (int x) { long long a = x < 0 ? -(long long) x : (long long) x; return (long long) x * (1 + ((a >> 8) << 8)); }
static int cmp_sat (const void *a, const void *b)
{
  long long x = wide ((int) ukey (a)), y = wide ((int) ukey (b));
  if (x < y) { unsigned long long d = (unsigned long long) y - (unsigned long long) x; return d > (unsigned long long) INT_MAX ? INT_MIN : -(int) d; }
  if (x > y) { unsigned long long d = (unsigned long long) x - (unsigned long long) y; return d > (unsigned long long) INT_MAX ? INT_MAX : (int) d; }
  return 0;
}
/* difference of the int keys: exact for |key| <= 2^30 (what the generator produces); clamped so that the function is defined on any bytes */
static int cmp_diff (const void *a, const void *b)
{
  long long d = (long long) (int) ukey (a) - (long long) (int) ukey (b);
  return d < (long long) INT_MIN ? INT_MIN : d > (long long) INT_MAX ? INT_MAX : (int) d;
}
static int cmp_big (const void *a, const void *b) { int x = (int) ukey (a), y = (int) ukey (b); return x < y ? -0x40000000 : x > y ? 0x40000000 : 0; }
static int cmp_min (const void *a, const void *b) { int x = (int) ukey (a), y = (int) ukey (b); return x < y ? INT_MIN : x > y ? INT_MAX : 0; }
static int cmp_dmin (const void *a, const void *b) { int x = (int) ukey (a), y = (int) ukey (b); return x > y ? INT_MIN : x < y ? 1 : 0; }
static int (*cmps[]) (const void *, const void *) = { cmp_u, cmp_s, cmp_d, cmp_m, cmp_b, cmp_sat, cmp_diff, cmp_big, cmp_min, cmp_dmin };
#define NCMP ((int) (sizeof cmps / sizeof cmps[0]))

/* ---- send-buffer monitor ---- */
typedef struct { int used, rank; MPI_Request req; const void *buf; int len; unsigned char *copy; } track_t;
#define NTRACK 4096
static track_t track[NTRACK];
static int *g_viol;

int __real_MPI_Isend (const void *, int, MPI_Datatype, int, int, MPI_Comm, MPI_Request *);
int __real_MPI_Waitsome (int, MPI_Request *, int *, int *, MPI_Status *);
int __real_MPI_Waitall (int, MPI_Request *, MPI_Status *);

int __wrap_MPI_Isend (const void *buf, int count, MPI_Datatype dt, int dest, int tag, MPI_Comm comm, MPI_Request *req)
{
  int rc = __real_MPI_Isend (buf, count, dt, dest, tag, comm, req);
  int rank = simmpi_current_rank ();
  if (rc == MPI_SUCCESS && rank >= 0 && dt == MPI_BYTE && count > 0) {
    for (int i = 0; i < NTRACK; ++i) if (!track[i].used) {
      track[i].used = 1; track[i].rank = rank; track[i].req = *req; track[i].buf = buf; track[i].len = count;
      track[i].copy = (unsigned char *) malloc ((size_t) count); memcpy (track[i].copy, buf, (size_t) count);
      break;
    }
  }
  return rc;
}

static void completed (int rank, MPI_Request r)
{
  if (r == MPI_REQUEST_NULL) return;
  for (int i = 0; i < NTRACK; ++i) if (track[i].used && track[i].rank == rank && track[i].req == r) {
    if (memcmp (track[i].buf, track[i].copy, (size_t) track[i].len) != 0 && g_viol != NULL) g_viol[rank]++;
    free (track[i].copy); track[i].used = 0;
    return;
  }
}

int __wrap_MPI_Waitsome (int n, MPI_Request *reqs, int *outcount, int *indices, MPI_Status *st)
{
  MPI_Request *snap = (MPI_Request *) malloc (sizeof (MPI_Request) * (size_t) (n > 0 ? n : 1));
  memcpy (snap, reqs, sizeof (MPI_Request) * (size_t) (n > 0 ? n : 0));
  int rc = __real_MPI_Waitsome (n, reqs, outcount, indices, st);
  int rank = simmpi_current_rank ();
  if (rc == MPI_SUCCESS && *outcount != MPI_UNDEFINED)
    for (int i = 0; i < *outcount; ++i) if (indices[i] >= 0 && indices[i] < n) completed (rank, snap[indices[i]]);
  free (snap);
  return rc;
}

int __wrap_MPI_Waitall (int n, MPI_Request *reqs, MPI_Status *st)
{
  MPI_Request *snap = (MPI_Request *) malloc (sizeof (MPI_Request) * (size_t) (n > 0 ? n : 1));
  memcpy (snap, reqs, sizeof (MPI_Request) * (size_t) (n > 0 ? n : 0));
  int rc = __real_MPI_Waitall (n, reqs, st);
  int rank = simmpi_current_rank ();
  if (rc == MPI_SUCCESS) for (int i = 0; i < n; ++i) completed (rank, snap[i]);
  free (snap);
  return rc;
}

static void fill_elem (arg_t *a, unsigned char *e, unsigned g)
{
  unsigned k = mix (a->dseed, g, 0) % a->keyrange;
  if (a->cmpid == 1 || a->cmpid >= 5) k = k - a->keyrange / 2;     /* as int32: centred around 0 */
  memcpy (e, &k, 4);
  for (int j = 4; j < a->size; ++j) e[j] = (unsigned char) (mix (a->dseed, g, (unsigned) j) & 0xff);
}

static void rank_main (int rank, int size, void *varg)
{
  arg_t *a = (arg_t *) varg;
  size_t *nmemb = SC_ALLOC (size_t, size);
  unsigned off = 0;
  for (int q = 0; q < size; ++q) { nmemb[q] = (size_t) a->counts[q]; if (q < rank) off += (unsigned) a->counts[q]; }
  int n = a->counts[rank];
  unsigned char *base = SC_ALLOC (unsigned char, (size_t) n * a->size + 1);
  for (int i = 0; i < n; ++i) fill_elem (a, base + (size_t) i * a->size, off + (unsigned) i);
  base[(size_t) n * a->size] = 0xA5;
  sc_psort (sc_MPI_COMM_WORLD, base, nmemb, (size_t) a->size, cmps[a->cmpid]);
  if (base[(size_t) n * a->size] != 0xA5) a->viol[rank] += 1000;
  a->out[rank] = base;
  SC_FREE (nmemb);
}

int main (void)
{
  static char line[8192];
  char tpath[256];
  int run = 0;
  sc_init (sc_MPI_COMM_NULL, 0, 0, NULL, SC_LP_SILENT);
  sc_set_abort_handler (simmpi_abort_handler);
  signal (SIGALRM, on_alarm);
  snprintf (tpath, sizeof tpath, "%s/trace.%d.jsonl", getenv ("VERIF_SCRATCH") ? getenv ("VERIF_SCRATCH") : "/var/tmp", (int) getpid ());
  while (fgets (line, sizeof line, stdin)) {
    int P, adv, pos = 0, k; unsigned long seed; arg_t a;
    if (sscanf (line, "%d %lu %d %d %d %u %u%n", &P, &seed, &adv, &a.size, &a.cmpid, &a.dseed, &a.keyrange, &pos) < 7) continue;
    if (P < 1 || P > MAXP || a.size < 4 || a.cmpid < 0 || a.cmpid >= NCMP || a.keyrange < 1) continue;
    for (int q = 0; q < P; ++q) { if (sscanf (line + pos, "%d%n", &a.counts[q], &k) < 1) { a.counts[q] = 0; } else pos += k; }
    g_size = (size_t) a.size;
    a.out = (unsigned char **) calloc ((size_t) P, sizeof (unsigned char *));
    a.viol = (int *) calloc ((size_t) P, sizeof (int));
    g_viol = a.viol;
    int mem0 = sc_memory_status (-1) + sc_memory_status (sc_package_id);
    simmpi_opts o; simmpi_report rep;
    simmpi_opts_default (&o);
    o.nranks = P; o.seed = seed; o.adversary = adv; o.trace_path = tpath;
    fflush (stdout);
    alarm (RUN_SECONDS);
    int rc = simmpi_run (&o, rank_main, &a, &rep);
    alarm (0);
    printf ("RUN %d rc=%d steps=%ld\n", run, rc, rep.steps);
    if (rc) { char *t = rep.text; for (char *p = t; *p; ++p) if (*p == '\n') *p = '~'; printf ("REPORT %s\n", t); }
    for (int r = 0; r < P; ++r) {
      printf ("OUT %d ", r);
      if (a.out[r]) {
        int nb = a.counts[r] * a.size;
        for (int j = 0; j < nb; ++j) printf ("%02x", a.out[r][j]);
        if (nb == 0) printf ("-");
        SC_FREE (a.out[r]);
      }
      else printf ("none");
      printf (" %d\n", a.viol[r]);
    }
    for (int i = 0; i < NTRACK; ++i) if (track[i].used) { free (track[i].copy); track[i].used = 0; }
    printf ("TRACE-BEGIN\n");
    FILE *f = fopen (tpath, "r");
    if (f) { static char buf[65536]; size_t n; while ((n = fread (buf, 1, sizeof buf, f)) > 0) fwrite (buf, 1, n, stdout); fclose (f); }
    printf ("TRACE-END\n");
    printf ("END %d mem=%d\n", run, sc_memory_status (-1) + sc_memory_status (sc_package_id) - mem0);
    fflush (stdout);
    simmpi_report_free (&rep);
    free (a.out); free (a.viol); g_viol = NULL;
    ++run;
  }
  remove (tpath);
  return 0;
}
