/* C10 sized lifecycles: create ... destroy of the library's own objects, sized ACROSS their internal thresholds
   (hash table rehash at 1020 / 4076 / 16300 entries and the shrink points on the way down, memory stamps of 4096 bytes,
   sc_array size classes 2^k, iniparser dictionary growth at 128 / 256 keys, growing sink buffers).
   Every lifecycle is bracketed by sc_memory_status (sc_package_id) and sc_memory_status (-1) with EVERYTHING destroyed
   at the end; an external allocator (sc_mempool handed to sc_hash / sc_list) must additionally have no element
   outstanding once the object that used it is gone / truncated.  At the end sc_finalize_noabort () must return 0.
   usage: c10_sized <seed> <scratch directory> <quick|thorough>
   stdout: SIZED <object> <size> <phase> <libsc status difference> <default status difference> <outstanding pool elements>
           (phase is one token: the steps of the lifecycle joined by '+', e.g. insert+remove-to-768+destroy)
           SIZED finalize 0 - <sc_finalize_noabort ()> 0 0
   This is monitoring of the implementation; the verdict is formed by checks/C10.py. */
#include <sc.h>
#include <sc_containers.h>
#include <sc_keyvalue.h>
#include <sc_options.h>
#include <sc_io.h>
#include <sc_statistics.h>
#include <sc_avl.h>

static unsigned long rs = 4711;
static unsigned rnd (unsigned n) { rs = rs * 6364136223846793005UL + 1442695040888963407UL; return (unsigned) ((rs >> 33) % n); }

static unsigned hfn (const void *v, const void *u) { return (unsigned) (*(const int *) v) * 2654435761u; }
static unsigned hfn_id (const void *v, const void *u) { return (unsigned) (*(const int *) v); }     /* consecutive slots */
static int eqfn (const void *a, const void *b, const void *u) { return *(const int *) a == *(const int *) b; }
static int cmpint (const void *a, const void *b) { int x = *(const int *) a, y = *(const int *) b; return x < y ? -1 : x > y; }

static int b0, d0;
static void begin (void) { b0 = sc_memory_status (sc_package_id); d0 = sc_memory_status (-1); }
static void end (const char *object, long size, const char *phase, long pool)
{
  printf ("SIZED %s %ld %s %d %d %ld\n", object, size, phase, sc_memory_status (sc_package_id) - b0, sc_memory_status (-1) - d0, pool);
  fflush (stdout);
}

/* ------------------------------------------------------------------ sc_hash */
/* how: 0 destroy, 1 truncate + reinsert + destroy, 2 remove down to `to` + destroy, 3 unlink + unlink_destroy (own allocator only),
        4 remove down to `to`, insert up to n again, destroy */
static void life_hash (int n, int ext, int how, int to, unsigned (*hf) (const void *, const void *))
{
  char phase[96];
  int *keys = (int *) malloc (sizeof (int) * (size_t) (n + 16));
  long pool = 0;
  int i;
  for (i = 0; i < n + 16; ++i) keys[i] = 7 * i + 3;
  begin ();
  {
    sc_mempool_t *mp = ext ? sc_mempool_new (sizeof (sc_link_t)) : NULL;
    sc_hash_t *h = sc_hash_new (hf, eqfn, NULL, mp);
    for (i = 0; i < n; ++i) sc_hash_insert_unique (h, &keys[i], NULL);
    switch (how) {
    case 0:
      snprintf (phase, sizeof phase, "insert+destroy");
      break;
    case 1:
      sc_hash_truncate (h);
      if (ext) pool += (long) mp->elem_count;
      for (i = 0; i < 10; ++i) sc_hash_insert_unique (h, &keys[i], NULL);
      snprintf (phase, sizeof phase, "insert+truncate+insert-10+destroy");
      break;
    case 2:
      for (i = n - 1; i >= to; --i) sc_hash_remove (h, &keys[i], NULL);
      snprintf (phase, sizeof phase, "insert+remove-to-%d+destroy", to);
      break;
    case 3:
      sc_hash_unlink (h);
      snprintf (phase, sizeof phase, "insert+unlink+unlink_destroy");
      break;
    default:
      for (i = n - 1; i >= to; --i) sc_hash_remove (h, &keys[i], NULL);
      for (i = to; i < n; ++i) sc_hash_insert_unique (h, &keys[i], NULL);
      snprintf (phase, sizeof phase, "insert+remove-to-%d+insert-to-%d+destroy", to, n);
      break;
    }
    if (how == 3) sc_hash_unlink_destroy (h);
    else sc_hash_destroy (h);
    if (ext) { pool += (long) mp->elem_count; sc_mempool_destroy (mp); }
  }
  end (ext ? (hf == hfn ? "sc_hash[external-allocator]" : "sc_hash[external-allocator,identity-hash]") : (hf == hfn ? "sc_hash" : "sc_hash[identity-hash]"), n, phase, pool);
  free (keys);
}

static void all_hash (int thorough)
{
  static const int sizes[] = { 0, 1, 255, 1019, 1020, 1021, 4075, 4076, 4077, 16299, 16300, 16301 };
  int k, ext, j;
  for (k = 0; k < (int) (sizeof sizes / sizeof sizes[0]); ++k) {
    int n = sizes[k];
    for (ext = 0; ext < 2; ++ext) {
      life_hash (n, ext, 0, 0, hfn);
      life_hash (n, ext, 1, 0, hfn);
      if (!ext) life_hash (n, ext, 3, 0, hfn);
      if (n >= 255) {
        /* down through the shrink points: a check happens whenever the count is a multiple of 256 */
        int tos[12], nt = 0;
        tos[nt++] = 0; tos[nt++] = 1; tos[nt++] = 255; tos[nt++] = 256; tos[nt++] = 257;
        if (n > 768) { tos[nt++] = 767; tos[nt++] = 768; tos[nt++] = 769; }
        if (n > 1024) { tos[nt++] = 1024; }
        if (n > 4096) { tos[nt++] = 3840; tos[nt++] = 4096; }
        for (j = 0; j < nt; ++j) if (tos[j] < n && (thorough || ext == (j & 1) || n == 1020 || n == 4076)) life_hash (n, ext, 2, tos[j], hfn);
        life_hash (n, ext, 4, n > 768 ? 768 : 0, hfn);
      }
    }
    if (n >= 1019 && n <= 4077) life_hash (n, k & 1, 0, 0, hfn_id);
  }
}

/* ------------------------------------------------------------------ sc_hash_array */
static void life_hash_array (int n, int how)
{
  const char *phase = how == 0 ? "insert+destroy" : how == 1 ? "insert+truncate+insert-10+destroy" : "insert+rip+reset";
  int i;
  begin ();
  {
    sc_hash_array_t *ha = sc_hash_array_new (sizeof (int), hfn, eqfn, NULL);
    for (i = 0; i < n; ++i) {
      int key = 5 * i + 1;
      size_t pos;
      int *p = (int *) sc_hash_array_insert_unique (ha, &key, &pos);
      if (p != NULL) *p = key;
    }
    if (how == 1) {
      sc_hash_array_truncate (ha);
      for (i = 0; i < 10; ++i) { int key = i; int *p = (int *) sc_hash_array_insert_unique (ha, &key, NULL); if (p != NULL) *p = key; }
    }
    if (how == 2) {
      sc_array_t rip;
      sc_hash_array_rip (ha, &rip);
      if ((int) rip.elem_count != n) printf ("NOTE sc_hash_array rip returned %d of %d elements\n", (int) rip.elem_count, n);
      sc_array_reset (&rip);
    }
    else sc_hash_array_destroy (ha);
  }
  end ("sc_hash_array", n, phase, 0);
}

/* ------------------------------------------------------------------ sc_keyvalue, sc_statistics */
static char **g_names;
static int g_nnames;
static void need_names (int n)
{
  int i;
  if (n <= g_nnames) return;
  g_names = (char **) realloc (g_names, sizeof (char *) * (size_t) n);
  for (i = g_nnames; i < n; ++i) { g_names[i] = (char *) malloc (16); snprintf (g_names[i], 16, "key%06d", i); }
  g_nnames = n;
}

static void life_keyvalue (int n, int how)
{
  const char *phase = how == 0 ? "set+destroy" : how == 1 ? "set+unset-all+destroy" : "set+overwrite+unset-odd+destroy";
  static int target;
  int i;
  need_names (n);
  begin ();
  {
    sc_keyvalue_t *kv = sc_keyvalue_new ();
    for (i = 0; i < n; ++i) {
      switch (i % 4) {
      case 0: sc_keyvalue_set_int (kv, g_names[i], i); break;
      case 1: sc_keyvalue_set_double (kv, g_names[i], 0.5 * i); break;
      case 2: sc_keyvalue_set_string (kv, g_names[i], "a string value"); break;
      default: sc_keyvalue_set_pointer (kv, g_names[i], &target); break;
      }
    }
    if (how == 1) for (i = 0; i < n; ++i) sc_keyvalue_unset (kv, g_names[i]);
    if (how == 2) {
      for (i = 0; i < n; i += 4) sc_keyvalue_set_int (kv, g_names[i], -i);
      for (i = 2; i < n; i += 4) sc_keyvalue_set_string (kv, g_names[i], "another");
      for (i = 1; i < n; i += 2) sc_keyvalue_unset (kv, g_names[i]);
    }
    sc_keyvalue_destroy (kv);
  }
  end ("sc_keyvalue", n, phase, 0);
}

static void life_statistics (int n)
{
  int i;
  need_names (n);
  begin ();
  {
    sc_statistics_t *st = sc_statistics_new (sc_MPI_COMM_NULL);
    for (i = 0; i < n; ++i) { if (i & 1) sc_statistics_add (st, g_names[i]); else sc_statistics_add_empty (st, g_names[i]); }
    for (i = 0; i < n; i += 3) sc_statistics_accumulate (st, g_names[i], (double) i);
    sc_statistics_compute (st);
    sc_statistics_destroy (st);
  }
  end ("sc_statistics", n, "add+accumulate+compute+destroy", 0);
}

/* ------------------------------------------------------------------ sc_array */
static void life_array (size_t es, int n)
{
  int i;
  begin ();
  {
    sc_array_t *a = sc_array_new (es), *b, *v, s;
    for (i = 0; i < n; ++i) memset (sc_array_push (a), i, es);
    b = sc_array_new_count (es, (size_t) n);
    sc_array_copy (b, a);
    /* down through every size class, then up again */
    for (i = n; i > 0; i = i / 2) { sc_array_resize (a, (size_t) i); sc_array_resize (a, (size_t) (i > 1 ? i - 1 : 0)); }
    sc_array_resize (a, 0);
    for (i = 1; i <= n; i = 2 * i + 1) sc_array_resize (a, (size_t) i);
    sc_array_resize (a, (size_t) n);
    v = n > 0 ? sc_array_new_view (b, (size_t) (n / 3), (size_t) (n - n / 3)) : NULL;
    sc_array_init_count (&s, es, (size_t) (n / 2));
    sc_array_truncate (&s);
    sc_array_resize (&s, (size_t) n + 1);
    sc_array_reset (&s);
    if (v != NULL) sc_array_destroy (v);
    sc_array_destroy (b);
    sc_array_destroy_null (&a);
  }
  end (es == 1 ? "sc_array[1-byte]" : es == 8 ? "sc_array[8-byte]" : "sc_array[24-byte]", n, "push+copy+resize-down-all-classes+resize-up+view+destroy", 0);
}

/* ------------------------------------------------------------------ sc_list, sc_mempool, sc_mstamp, sc_recycle_array */
static void life_list (int n, int ext)
{
  static int dummy;
  long pool = 0;
  int i;
  begin ();
  {
    sc_mempool_t *mp = ext ? sc_mempool_new (sizeof (sc_link_t)) : NULL;
    sc_list_t *l = sc_list_new (mp), m;
    for (i = 0; i < n; ++i) { if (i & 1) sc_list_append (l, &dummy); else sc_list_prepend (l, &dummy); }
    for (i = 0; i < n / 2; ++i) sc_list_pop (l);
    if (ext) {
      sc_list_init (&m, mp);
      for (i = 0; i < n; ++i) sc_list_append (&m, &dummy);
      sc_list_reset (&m);
    }
    sc_list_destroy (l);
    if (ext) { pool = (long) mp->elem_count; sc_mempool_destroy (mp); }
  }
  end (ext ? "sc_list[external-allocator]" : "sc_list", n, "append+pop-half+destroy", pool);
}

static void life_mempool (size_t es, int n, int how)
{
  const char *phase = how == 0 ? "alloc+free-all+destroy" : how == 1 ? "alloc+free-half+alloc+truncate+alloc+destroy" : how == 2 ? "alloc+destroy(items-outstanding)" : "zero_and_persist:alloc+free-all+alloc+free-all+destroy";
  char obj[48];
  void **items = (void **) malloc (sizeof (void *) * (size_t) (n + 1));
  int i;
  snprintf (obj, sizeof obj, "sc_mempool[%d-byte]", (int) es);
  begin ();
  {
    sc_mempool_t *mp = how == 3 ? sc_mempool_new_zero_and_persist (es) : sc_mempool_new (es);
    for (i = 0; i < n; ++i) items[i] = sc_mempool_alloc (mp);
    if (how == 0 || how == 3) for (i = 0; i < n; ++i) sc_mempool_free (mp, items[i]);
    if (how == 3) { for (i = 0; i < n; ++i) items[i] = sc_mempool_alloc (mp); for (i = n - 1; i >= 0; --i) sc_mempool_free (mp, items[i]); }
    if (how == 1) {
      for (i = 0; i < n; i += 2) sc_mempool_free (mp, items[i]);
      for (i = 0; i < n; i += 2) items[i] = sc_mempool_alloc (mp);
      sc_mempool_truncate (mp);
      for (i = 0; i < n / 2 + 1; ++i) items[i] = sc_mempool_alloc (mp);
      for (i = 0; i < n / 2 + 1; ++i) sc_mempool_free (mp, items[i]);
    }
    sc_mempool_destroy (mp);
  }
  end (obj, n, phase, 0);
  free (items);
}

static void life_mstamp (size_t unit, size_t es, int n)
{
  char obj[64];
  int i;
  snprintf (obj, sizeof obj, "sc_mstamp[unit-%d,elem-%d]", (int) unit, (int) es);
  begin ();
  {
    sc_mstamp_t ms;
    sc_mstamp_init (&ms, unit, es);
    for (i = 0; i < n; ++i) (void) sc_mstamp_alloc (&ms);
    sc_mstamp_truncate (&ms);
    for (i = 0; i < n / 2; ++i) (void) sc_mstamp_alloc (&ms);
    sc_mstamp_truncate (&ms);
    sc_mstamp_reset (&ms);
  }
  end (obj, n, "init+alloc+truncate+alloc-half+truncate+reset", 0);
}

static void life_recycle (int n)
{
  size_t *pos = (size_t *) malloc (sizeof (size_t) * (size_t) (n + 1));
  int i;
  begin ();
  {
    sc_recycle_array_t ra;
    sc_recycle_array_init (&ra, sizeof (double));
    for (i = 0; i < n; ++i) sc_recycle_array_insert (&ra, &pos[i]);
    for (i = 0; i < n; i += 2) sc_recycle_array_remove (&ra, pos[i]);
    for (i = 0; i < n; i += 4) sc_recycle_array_insert (&ra, &pos[i]);
    for (i = 1; i < n; i += 2) sc_recycle_array_remove (&ra, pos[i]);
    sc_recycle_array_reset (&ra);
  }
  end ("sc_recycle_array", n, "insert+remove-even+insert-quarter+remove-odd+reset", 0);
  free (pos);
}

static void life_avl (int n)
{
  int *keys = (int *) malloc (sizeof (int) * (size_t) (n + 1));
  int i;
  for (i = 0; i < n; ++i) keys[i] = (int) ((unsigned) i * 2654435761u >> 8);
  begin ();
  {
    avl_tree_t *t = avl_alloc_tree (cmpint, NULL);
    sc_array_t *arr = sc_array_new (sizeof (void *));
    for (i = 0; i < n; ++i) (void) avl_insert (t, &keys[i]);
    avl_to_array (t, arr);
    for (i = 0; i < n; i += 3) (void) avl_delete (t, &keys[i]);
    sc_array_destroy (arr);
    avl_free_tree (t);
  }
  end ("sc_avl", n, "alloc_tree+insert+to_array+delete-third+free_tree", 0);
  free (keys);
}

/* ------------------------------------------------------------------ sc_options (iniparser dictionary grows at 128, 256, ..) */
static void life_options (int n, const char *dir)
{
  char path[512];
  int *iv = (int *) calloc ((size_t) n + 1, sizeof (int));
  double *dv = (double *) calloc ((size_t) n + 1, sizeof (double));
  const char **sv = (const char **) calloc ((size_t) n + 1, sizeof (char *));
  char **names = (char **) malloc (sizeof (char *) * (size_t) (n + 1));
  char **argv = (char **) malloc (sizeof (char *) * (size_t) (2 * n + 3));
  char *vals = (char *) malloc (16 * (size_t) (n + 1));
  int i, argc = 0, r1, r2, r3;
  snprintf (path, sizeof path, "%s/c10_sized_options_%d.ini", dir, n);
  for (i = 0; i < n; ++i) { names[i] = (char *) malloc (16); snprintf (names[i], 16, "opt%05d", i); }
  argv[argc++] = (char *) "prog";
  for (i = 0; i < n; i += 2) {
    char *nm = (char *) malloc (24);
    snprintf (nm, 24, i % 5 == 1 ? "--%s=1" : "--%s", names[i]);       /* a bool takes an optional argument: --name=1 */
    argv[argc++] = nm;
    if (i % 5 > 1) { snprintf (vals + 16 * i, 16, i % 5 == 3 ? "2.5" : "%d", i); argv[argc++] = vals + 16 * i; }
  }
  argv[argc] = NULL;
  begin ();
  {
    sc_options_t *opt = sc_options_new ("prog");
    for (i = 0; i < n; ++i) {
      switch (i % 5) {
      case 0: sc_options_add_switch (opt, '\0', names[i], &iv[i], "a switch"); break;
      case 1: sc_options_add_bool (opt, '\0', names[i], &iv[i], 0, "a bool"); break;
      case 2: sc_options_add_int (opt, '\0', names[i], &iv[i], i, "an int"); break;
      case 3: sc_options_add_double (opt, '\0', names[i], &dv[i], 0.25 * i, "a double"); break;
      default: sc_options_add_string (opt, '\0', names[i], &sv[i], (i % 10 == 4) ? "default text" : NULL, "a string"); break;
      }
    }
    r1 = sc_options_parse (sc_package_id, SC_LP_SILENT, opt, argc, argv);
    r2 = sc_options_save (sc_package_id, SC_LP_SILENT, opt, path);
    r3 = sc_options_load (sc_package_id, SC_LP_SILENT, opt, path);
    sc_options_print_summary (sc_package_id, SC_LP_DEBUG, opt);
    sc_options_destroy (opt);
    if (r1 < 0 || r2 != 0 || r3 != 0) printf ("NOTE sc_options with %d options: parse %d save %d load %d\n", n, r1, r2, r3);
  }
  end ("sc_options", n, "add+parse+save+load+destroy", 0);
  remove (path);
  for (i = 1; i < argc; ++i) if (argv[i][0] == '-' && argv[i][1] == '-') free (argv[i]);
  for (i = 0; i < n; ++i) free (names[i]);
  free (names); free (argv); free (vals); free (iv); free (dv); free (sv);
}

/* ------------------------------------------------------------------ sc_io sinks and sources, codec */
static void life_io (int n, const char *dir)
{
  char path[512];
  char *data = (char *) malloc ((size_t) n + 64), *back = (char *) malloc ((size_t) n + 64);
  size_t got, gin, gout;
  int i;
  for (i = 0; i < n; ++i) data[i] = (char) rnd (7);
  snprintf (path, sizeof path, "%s/c10_sized_io_%d.bin", dir, n);
  begin ();
  {                             /* growing buffer sink (write and append), buffer source */
    sc_array_t *buf = sc_array_new (1);
    sc_io_sink_t *sink = sc_io_sink_new (SC_IO_TYPE_BUFFER, SC_IO_MODE_WRITE, SC_IO_ENCODE_NONE, buf);
    sc_io_source_t *src;
    size_t done = 0, chunk = 1;
    while (done < (size_t) n) { size_t c = chunk < (size_t) n - done ? chunk : (size_t) n - done; sc_io_sink_write (sink, data + done, c); done += c; chunk = 2 * chunk + 1; }
    sc_io_sink_align (sink, 32);
    sc_io_sink_complete (sink, &gin, &gout);
    sc_io_sink_destroy (sink);
    sink = sc_io_sink_new (SC_IO_TYPE_BUFFER, SC_IO_MODE_APPEND, SC_IO_ENCODE_NONE, buf);
    sc_io_sink_write (sink, data, (size_t) (n / 2));
    sc_io_sink_complete (sink, NULL, NULL);
    sc_io_sink_destroy (sink);
    src = sc_io_source_new (SC_IO_TYPE_BUFFER, SC_IO_ENCODE_NONE, buf);
    sc_io_source_read (src, back, (size_t) n, &got);
    sc_io_source_align (src, 32);
    sc_io_source_complete (src, NULL, NULL);
    sc_io_source_destroy (src);
    sc_array_destroy (buf);
  }
  end ("sc_io[buffer-sink-source]", n, "sink-write-growing+append+source-read+destroy", 0);
  begin ();
  {                             /* file sink, file source with mirror */
    sc_io_sink_t *sink = sc_io_sink_new (SC_IO_TYPE_FILENAME, SC_IO_MODE_WRITE, SC_IO_ENCODE_NONE, path);
    sc_io_source_t *src;
    if (sink != NULL) {
      sc_io_sink_write (sink, data, (size_t) n);
      sc_io_sink_complete (sink, NULL, NULL);
      sc_io_sink_destroy (sink);
      src = sc_io_source_new (SC_IO_TYPE_FILENAME, SC_IO_ENCODE_NONE, path);
      if (src != NULL) {
        sc_io_source_activate_mirror (src);
        for (i = 0; i < n; i += 1000) sc_io_source_read (src, back + i, (size_t) (n - i < 1000 ? n - i : 1000), &got);
        sc_io_source_read_mirror (src, back, (size_t) n, &got);
        sc_io_source_destroy (src);
      }
    }
  }
  end ("sc_io[file-sink-source-mirror]", n, "sink-write+source-read-with-mirror+read_mirror+destroy", 0);
  begin ();
  {                             /* file_save / file_load, codec on data of this size */
    sc_array_t *a = sc_array_new_count (1, (size_t) n), *b = sc_array_new (1), *code = sc_array_new (1), *out = sc_array_new (1);
    if (n > 0) memcpy (a->array, data, (size_t) n);
    if (sc_io_file_save (path, a) == 0) (void) sc_io_file_load (path, b);
    sc_io_encode (a, code);
    (void) sc_io_decode (code, out, 0, NULL);
    if (out->elem_count != (size_t) n) printf ("NOTE codec of %d bytes returned %d\n", n, (int) out->elem_count);
    sc_io_encode (a, NULL);      /* in place */
    (void) sc_io_decode (a, NULL, 0, NULL);
    sc_array_destroy (a); sc_array_destroy (b); sc_array_destroy (code); sc_array_destroy (out);
  }
  end ("sc_io[file_save-load-codec]", n, "save+load+encode+decode+in-place+destroy", 0);
  remove (path);
  free (data); free (back);
}

int main (int argc, char **argv)
{
  const char *dir = argc > 2 ? argv[2] : "/var/tmp";
  int thorough = argc > 3 && !strcmp (argv[3], "thorough");
  int i, k;
  if (argc > 1) rs += strtoul (argv[1], NULL, 10);
  sc_init (sc_MPI_COMM_NULL, 0, 0, NULL, SC_LP_SILENT);

  all_hash (thorough);
  {
    static const int ns[] = { 0, 1, 10, 1019, 1020, 1021, 4076, 4077, 16300 };
    for (k = 0; k < (int) (sizeof ns / sizeof ns[0]); ++k) for (i = 0; i < 3; ++i) life_hash_array (ns[k], i);
    for (k = 0; k < (int) (sizeof ns / sizeof ns[0]); ++k) for (i = 0; i < 3; ++i) life_keyvalue (ns[k], i);
    for (k = 2; k < (int) (sizeof ns / sizeof ns[0]) - (thorough ? 0 : 1); ++k) life_statistics (ns[k]);
  }
  {
    static const size_t es[] = { 1, 8, 24 };
    for (k = 0; k < 3; ++k) {
      life_array (es[k], 0);
      for (i = 1; i <= (thorough ? 1 << 18 : 1 << 16); i *= 2) { if (i > 1) life_array (es[k], i - 1); life_array (es[k], i); life_array (es[k], i + 1); }
      life_array (es[k], 1000 + (int) rnd (5000));
    }
  }
  {
    /* stamps of 4096 bytes: 170 links of 24 bytes, 512 items of 8, 102 of 40, one item of 4096 and of 5000 bytes */
    static const size_t es[] = { 8, 24, 40, 4096, 5000 };
    for (k = 0; k < 5; ++k) {
      int per = (int) (4096 / es[k] ? 4096 / es[k] : 1), m;
      for (m = 0; m <= 3; ++m) {
        static const int off[] = { -1, 0, 1 };
        for (i = 0; i < 3; ++i) {
          int n = m * per + off[i], how;
          if (n < 0) continue;
          for (how = 0; how < 4; ++how) life_mempool (es[k], n, how);
          life_mstamp (4096, es[k], n);
        }
      }
      life_mempool (es[k], 10 * per + (int) rnd (50), (int) rnd (4));
    }
    life_mstamp (4096, 0, 100);
    life_mstamp (100, 7, 1000);
    life_mstamp (0, 16, 50);
    for (k = 0; k < 2; ++k) { static const int ns[] = { 0, 1, 169, 170, 171, 340, 341, 342, 1700, 5000 }; for (i = 0; i < 10; ++i) life_list (ns[i], k); }
    { static const int ns[] = { 0, 1, 2, 63, 64, 65, 1000, 1024, 1025, 5000 }; for (i = 0; i < 10; ++i) { life_recycle (ns[i]); life_avl (ns[i]); } }
  }
  { static const int ns[] = { 1, 10, 127, 128, 129, 255, 256, 257, 600 }; for (i = 0; i < 9; ++i) life_options (ns[i], dir); }
  { static const int ns[] = { 0, 1, 255, 256, 257, 4095, 4096, 4097, 65535, 65536, 65537, 300000 }; for (i = 0; i < 12; ++i) life_io (ns[i], dir); }

  printf ("SIZED finalize 0 - %d 0 0\n", sc_finalize_noabort ());
  fflush (stdout);
  for (i = 0; i < g_nnames; ++i) free (g_names[i]);
  free (g_names);
  return 0;
}
