/* C18 harness: runs the real libsc helpers on the case file (stdin), one result per line,
   in the same textual format as the extracted model driver. */
#include <sc.h>
#include <sc_uint128.h>
#include <sc_search.h>
#include <sc_functions.h>
#include <inttypes.h>

static void pz (long long v) { if (v < 0) printf ("-%llx", (unsigned long long) (-(v + 1)) + 1ULL); else printf ("%llx", (unsigned long long) v); }
static void pu (uint64_t v) { printf ("%" PRIx64, v); }
static void p128 (const sc_uint128_t * r) { pu (r->high_bits); printf (" "); pu (r->low_bits); }

static long long parse (const char *s)
{
  int neg = (*s == '-');
  unsigned long long v = strtoull (neg ? s + 1 : s, NULL, 16);
  return neg ? (long long) (0ULL - v) : (long long) v;
}

static int64_t *g_arr;
static int cmp64 (const void *a, const void *b)
{
  int64_t x = *(const int64_t *) a, y = *(const int64_t *) b;
  return x < y ? -1 : x > y ? 1 : 0;
}

int main (void)
{
  static char line[1 << 20];
  while (fgets (line, sizeof line, stdin)) {
    char *tok[70000]; int n = 0;
    for (char *p = strtok (line, " \n"); p && n < 70000; p = strtok (NULL, " \n")) tok[n++] = p;
    if (n == 0) continue;
    const char *op = tok[0];
    long long a[8] = {0};
    for (int i = 1; i < n && i <= 8; ++i) a[i - 1] = parse (tok[i]);
    sc_uint128_t x, y, r;
    r.high_bits = 0x1111111111111111ULL; r.low_bits = 0x2222222222222222ULL;   /* junk: must not matter */
    sc_uint128_init (&x, (uint64_t) a[0], (uint64_t) a[1]);
    sc_uint128_init (&y, (uint64_t) a[2], (uint64_t) a[3]);
    if (!strcmp (op, "add")) { sc_uint128_add (&x, &y, &r); p128 (&r); }
    else if (!strcmp (op, "sub")) { sc_uint128_sub (&x, &y, &r); p128 (&r); }
    else if (!strcmp (op, "addi")) { sc_uint128_add_inplace (&x, &y); p128 (&x); }
    else if (!strcmp (op, "subi")) { sc_uint128_sub_inplace (&x, &y); p128 (&x); }
    else if (!strcmp (op, "or")) { sc_uint128_bitwise_or (&x, &y, &r); p128 (&r); }
    else if (!strcmp (op, "and")) { sc_uint128_bitwise_and (&x, &y, &r); p128 (&r); }
    else if (!strcmp (op, "ori")) { sc_uint128_bitwise_or_inplace (&x, &y); p128 (&x); }
    else if (!strcmp (op, "andi")) { sc_uint128_bitwise_and_inplace (&x, &y); p128 (&x); }
    /* "a == b is allowed": the same object for both arguments */
    else if (!strcmp (op, "addia")) { sc_uint128_add_inplace (&x, &x); p128 (&x); }
    else if (!strcmp (op, "subia")) { sc_uint128_sub_inplace (&x, &x); p128 (&x); }
    else if (!strcmp (op, "oria")) { sc_uint128_bitwise_or_inplace (&x, &x); p128 (&x); }
    else if (!strcmp (op, "andia")) { sc_uint128_bitwise_and_inplace (&x, &x); p128 (&x); }
    /* documented aliasing of the out-of-place functions */
    else if (!strcmp (op, "shrio")) { sc_uint128_shift_right (&x, (int) a[2], &x); p128 (&x); }
    else if (!strcmp (op, "shlio")) { sc_uint128_shift_left (&x, (int) a[2], &x); p128 (&x); }
    else if (!strcmp (op, "negio")) { sc_uint128_bitwise_neg (&x, &x); p128 (&x); }
    else if (!strcmp (op, "orra")) { sc_uint128_bitwise_or (&x, &y, &x); p128 (&x); }
    else if (!strcmp (op, "orrb")) { sc_uint128_bitwise_or (&x, &y, &y); p128 (&y); }
    else if (!strcmp (op, "orrab")) { sc_uint128_bitwise_or (&x, &x, &x); p128 (&x); }
    else if (!strcmp (op, "andra")) { sc_uint128_bitwise_and (&x, &y, &x); p128 (&x); }
    else if (!strcmp (op, "andrb")) { sc_uint128_bitwise_and (&x, &y, &y); p128 (&y); }
    else if (!strcmp (op, "andrab")) { sc_uint128_bitwise_and (&x, &x, &x); p128 (&x); }
    else if (!strcmp (op, "addab")) { sc_uint128_add (&x, &x, &r); p128 (&r); }
    else if (!strcmp (op, "subab")) { sc_uint128_sub (&x, &x, &r); p128 (&r); }
    else if (!strcmp (op, "neg")) { sc_uint128_bitwise_neg (&x, &r); p128 (&r); }
    else if (!strcmp (op, "shr")) { sc_uint128_shift_right (&x, (int) a[2], &r); p128 (&r); }
    else if (!strcmp (op, "shl")) { sc_uint128_shift_left (&x, (int) a[2], &r); p128 (&r); }
    else if (!strcmp (op, "chk")) { pz (sc_uint128_chk_bit (&x, (int) a[2])); }
    else if (!strcmp (op, "set")) { sc_uint128_set_bit (&x, (int) a[2]); p128 (&x); }
    else if (!strcmp (op, "cmp")) { pz (sc_uint128_compare (&x, &y)); }
    else if (!strcmp (op, "eq")) { pz (sc_uint128_is_equal (&x, &y)); }
    else if (!strcmp (op, "init")) { p128 (&x); }
    else if (!strcmp (op, "copy")) { sc_uint128_copy (&x, &r); p128 (&r); }
    else if (!strcmp (op, "bias")) { pz (sc_search_bias ((int) a[0], (int) a[1], (int) a[2], (int) a[3])); }
    else if (!strcmp (op, "lb")) {
      size_t m = (size_t) (n - 4);
      int64_t *arr = SC_ALLOC (int64_t, m + 1);
      for (size_t i = 0; i < m; ++i) arr[i] = parse (tok[4 + i]);
      pz (sc_search_lower_bound64 (a[0], arr, (size_t) a[2], (size_t) a[1]));
      SC_FREE (arr);
    }
    else if (!strcmp (op, "br")) {
      size_t m = (size_t) (n - 3);
      int64_t *arr = SC_ALLOC (int64_t, m + 1);
      int64_t key = a[0];
      for (size_t i = 0; i < m; ++i) arr[i] = parse (tok[3 + i]);
      pz ((long long) sc_bsearch_range (&key, arr, (size_t) a[1], sizeof (int64_t), cmp64));
      SC_FREE (arr);
    }
    else if (!strcmp (op, "pow")) { pz (sc_intpow ((int) a[0], (int) a[1])); }
    else if (!strcmp (op, "pow64")) { pz (sc_intpow64 ((int64_t) a[0], (int) a[1])); }
    else if (!strcmp (op, "pow64u")) { pu (sc_intpow64u ((uint64_t) a[0], (int) a[1])); }
    else if (!strcmp (op, "log2_8")) { pz (SC_LOG2_8 ((int) a[0])); }
    else if (!strcmp (op, "log2_16")) { pz (SC_LOG2_16 ((int) a[0])); }
    else if (!strcmp (op, "log2_32")) { pz (SC_LOG2_32 ((int) a[0])); }
    else if (!strcmp (op, "log2_32u")) { pz (SC_LOG2_32 ((unsigned) a[0])); }
    else if (!strcmp (op, "log2_64")) { pz (SC_LOG2_64 ((int64_t) a[0])); }
    else if (!strcmp (op, "log2_64u")) { pz (SC_LOG2_64 ((uint64_t) a[0])); }
    else if (!strcmp (op, "ru32")) { pz (SC_ROUNDUP2_32 ((int) a[0])); }
    else if (!strcmp (op, "ru64")) { pz ((long long) SC_ROUNDUP2_64 ((int64_t) a[0])); }
    else if (!strcmp (op, "min")) { pz (SC_MIN ((int) a[0], (int) a[1])); }
    else if (!strcmp (op, "max")) { pz (SC_MAX ((int) a[0], (int) a[1])); }
    else printf ("UNKNOWN_OP");
    printf ("\n");
  }
  return 0;
}
