/* C15 harness: sc_ranges_compute / sc_ranges_decode / sc_ranges_statistics / sc_ranges_adaptive of the freshly
   built libsc.  Cases on stdin (or argv[1]; under MPI every rank reads argv[1] and writes argv[2].<rank>), one per
   line, integers in hexadecimal (negative with '-'):
     C rank first last nr P v0 .. v(P-1)   -> "n lo0 hi0 .. lo(nr-1) hi(nr-1) E empties"   (compute + statistics count)
     T nr P v(0,0) .. v(P-1,P-1)           -> a P-rank run emulated in one process: sc_ranges_compute per rank, the
                                              maxima and the gather done here, sc_ranges_decode per rank:
                                              "maxpeers maxwin;n lo hi ..:R r..:S s..;..." (one ;-part per rank)
     D P M t(0,0,lo) t(0,0,hi) ..           -> sc_ranges_decode on a given table: ";R r..:S s.." per rank
     A nr P v(0,0) ..                       -> (MPI build, exactly P ranks) sc_ranges_adaptive + sc_ranges_decode for
                                              real; every rank writes "maxpeers maxwin;n lo hi ..:R ..:S ..:G table"
     S seed adv nr P v(0,0) ..              -> (compiled with -DC15_SIM against tools/simmpi) the same as A with P simulated
                                              ranks under the schedule (seed, adversary):
                                              "RUN rc=<simmpi code> mem=<sc_memory_status delta>" then one line
                                              "<rank>: <the A output of that rank>" per rank
     N seed adv nr P v(0,0) ..              -> (-DC15_SIM) the USE of the ranges by the notify algorithm: P simulated ranks call sc_notify_payload
                                              with type SC_NOTIFY_RANGES, num_ranges = nr, receivers of rank r = the j with v(r,j) != 0
                                              (self included if v(r,r) != 0), payload to j = r * 4096 + j:
                                              "RUN .." as for S, then per rank "<rank>: N s0 s1 ..:P p0 p1 .." (senders, their payloads)
   first/last of a T or A case are computed like sc_notify.c does (minimum / maximum peer, or P / -1). */
#include <sc.h>
#include <sc_ranges.h>
#include <sc_notify.h>
#include <stdio.h>
#include <stdlib.h>
#include <string.h>
#ifdef C15_SIM
#include <simmpi.h>
#endif

static double captured_nonpeer;
static int captured;

static void handler (FILE * s, const char *fn, int ln, int pkg, int cat, int prio, const char *msg)
{
  const char *p = strstr (msg, "nonpeer ");
  if (p != NULL) { captured_nonpeer = atof (p + 8); captured = 1; }
}

static long hx (const char *s)
{
  if (s[0] == '-') return -(long) strtoul (s + 1, NULL, 16);
  return (long) strtoul (s, NULL, 16);
}
static void ph (FILE * o, long v)
{
  if (v < 0) fprintf (o, "-%lx", (unsigned long) (-v)); else fprintf (o, "%lx", (unsigned long) v);
}

static void first_last (int P, const int *v, int rank, int *first, int *last)
{
  int j;
  *first = P; *last = -1;
  for (j = 0; j < P; j++) if (v[j] != 0 && j != rank) { if (j < *first) *first = j; if (j > *last) *last = j; }
}

static void print_decode (FILE * o, int P, int rank, int M, const int *table)
{
  int *recv = (int *) malloc (sizeof (int) * (size_t) (P + 1)), *send = (int *) malloc (sizeof (int) * (size_t) (P + 1));
  int nr = -7, ns = -7, i;
  sc_ranges_decode (P, rank, M, table, &nr, recv, &ns, send);
  fprintf (o, ":R");
  for (i = 0; i < nr; i++) { fputc (' ', o); ph (o, recv[i]); }
  fprintf (o, ":S");
  for (i = 0; i < ns; i++) { fputc (' ', o); ph (o, send[i]); }
  free (recv); free (send);
}

/* one rank's part of an A / S case: sc_ranges_adaptive on the world communicator, then sc_ranges_decode */
static void adaptive_rank (FILE * o, int nr, int P, int r, const long *vs)
{
  int *v = (int *) malloc (sizeof (int) * (size_t) (P + 1)), *ranges = (int *) malloc (sizeof (int) * 2 * (size_t) nr);
  int *table = NULL, io1, io2, n, i;
  for (i = 0; i < P; i++) v[i] = (int) vs[r * P + i];
  first_last (P, v, r, &io1, &io2);
  for (i = 0; i < 2 * nr; i++) ranges[i] = 12345;
  n = sc_ranges_adaptive (-1, sc_MPI_COMM_WORLD, v, &io1, &io2, nr, ranges, &table);
  ph (o, io1); fputc (' ', o); ph (o, io2); fputc (';', o); ph (o, n);
  for (i = 0; i < 2 * nr; i++) { fputc (' ', o); ph (o, ranges[i]); }
  print_decode (o, P, r, io2, table);
  fprintf (o, ":G");
  for (i = 0; i < 2 * io2 * P; i++) { fputc (' ', o); ph (o, table[i]); }
  fputc ('\n', o);
  SC_FREE (table);
  free (v); free (ranges);
}

#ifdef C15_SIM
typedef struct { int nr, P, notify; const long *vs; char **out; } simarg_t;

/* one rank's part of an N case: the ranges notify algorithm with num_ranges = nr */
static void notify_rank (FILE * o, int nr, int P, int r, const long *vs)
{
  sc_array_t *receivers = sc_array_new (sizeof (int)), *senders = sc_array_new (sizeof (int));
  sc_array_t *in_pay = sc_array_new (sizeof (int)), *out_pay = sc_array_new (sizeof (int));
  sc_notify_t *notify = sc_notify_new (sc_MPI_COMM_WORLD);
  size_t i;
  int j;
  for (j = 0; j < P; j++) if (vs[r * P + j] != 0) {
    *(int *) sc_array_push (receivers) = j;
    *(int *) sc_array_push (in_pay) = r * 4096 + j;
  }
  sc_notify_set_type (notify, SC_NOTIFY_RANGES);
  sc_notify_ranges_set_num_ranges (notify, nr);
  sc_notify_payload (receivers, senders, in_pay, out_pay, 1, notify);
  fprintf (o, "N");
  for (i = 0; i < senders->elem_count; i++) { fputc (' ', o); ph (o, *(int *) sc_array_index (senders, i)); }
  fprintf (o, ":P");
  for (i = 0; i < out_pay->elem_count; i++) { fputc (' ', o); ph (o, *(int *) sc_array_index (out_pay, i)); }
  fputc ('\n', o);
  sc_notify_destroy (notify);
  sc_array_destroy (receivers); sc_array_destroy (senders); sc_array_destroy (in_pay); sc_array_destroy (out_pay);
}

static void sim_rank (int rank, int size, void *varg)
{
  simarg_t *a = (simarg_t *) varg;
  size_t len = 0;
  FILE *m = open_memstream (&a->out[rank], &len);
  if (a->notify) notify_rank (m, a->nr, a->P, rank, a->vs); else adaptive_rank (m, a->nr, a->P, rank, a->vs);
  fclose (m);
}

int main (void)
{
  char *line = NULL; size_t cap = 0;
  sc_init (sc_MPI_COMM_NULL, 0, 0, NULL, SC_LP_SILENT);
  sc_set_abort_handler (simmpi_abort_handler);
  while (getline (&line, &cap, stdin) > 0) {
    char *save = NULL, *tok = strtok_r (line, " \n\r", &save);
    long *a; size_t na = 0, ca = 64;
    simmpi_opts o; simmpi_report rep; simarg_t sa;
    int rc, r, mem0;
    if (tok == NULL || (tok[0] != 'S' && tok[0] != 'N')) continue;
    sa.notify = (tok[0] == 'N');
    a = (long *) malloc (ca * sizeof (long));
    while ((tok = strtok_r (NULL, " \n\r", &save)) != NULL) {
      if (na == ca) { ca *= 2; a = (long *) realloc (a, ca * sizeof (long)); }
      a[na++] = hx (tok);
    }
    sa.nr = (int) a[2]; sa.P = (int) a[3]; sa.vs = a + 4;
    sa.out = (char **) calloc ((size_t) sa.P, sizeof (char *));
    simmpi_opts_default (&o);
    o.nranks = sa.P; o.seed = (unsigned long) a[0]; o.adversary = (int) a[1];
    mem0 = sc_memory_status (-1) + sc_memory_status (sc_package_id);
    rc = simmpi_run (&o, sim_rank, &sa, &rep);
    printf ("RUN rc=%d mem=%d", rc, sc_memory_status (-1) + sc_memory_status (sc_package_id) - mem0);
    if (rc) { char *p; for (p = rep.text; *p; ++p) if (*p == '\n') *p = '~'; printf (" %s", rep.text); }
    printf ("\n");
    for (r = 0; r < sa.P; r++) { printf ("%d: %s", r, sa.out[r] ? sa.out[r] : "none\n"); free (sa.out[r]); }
    simmpi_report_free (&rep);
    free (sa.out); free (a);
  }
  fflush (stdout);
  return 0;
}
#else

int main (int argc, char **argv)
{
  FILE *in = stdin, *o = stdout;
  char *line = NULL; size_t cap = 0;
  int mpirank = 0, mpisize = 1;
#ifdef SC_ENABLE_MPI
  if (sc_MPI_Init (&argc, &argv) != sc_MPI_SUCCESS) return 4;
  sc_MPI_Comm_rank (sc_MPI_COMM_WORLD, &mpirank);
  sc_MPI_Comm_size (sc_MPI_COMM_WORLD, &mpisize);
#endif
  if (argc > 1) { in = fopen (argv[1], "r"); if (in == NULL) { perror (argv[1]); return 2; } }
  if (argc > 2) { char path[4096]; snprintf (path, sizeof path, "%s.%d", argv[2], mpirank); o = fopen (path, "w"); if (o == NULL) return 2; }
  sc_set_log_defaults (stderr, handler, SC_LP_ESSENTIAL);
  while (getline (&line, &cap, in) > 0) {
    char *save = NULL, *tok = strtok_r (line, " \n\r", &save);
    long *a; size_t na = 0, ca = 64;
    char op;
    if (tok == NULL) continue;
    op = tok[0];
    a = (long *) malloc (ca * sizeof (long));
    while ((tok = strtok_r (NULL, " \n\r", &save)) != NULL) {
      if (na == ca) { ca *= 2; a = (long *) realloc (a, ca * sizeof (long)); }
      a[na++] = hx (tok);
    }
    if (op == 'C') {
      int rank = (int) a[0], first = (int) a[1], last = (int) a[2], nr = (int) a[3], P = (int) a[4], i, n;
      int *v = (int *) malloc (sizeof (int) * (size_t) (P + 1)), *r = (int *) malloc (sizeof (int) * 2 * (size_t) nr);
      for (i = 0; i < P; i++) v[i] = (int) a[5 + i];
      for (i = 0; i < 2 * nr; i++) r[i] = 12345;
      n = sc_ranges_compute (-1, P, v, rank, first, last, nr, r);
      ph (o, n);
      for (i = 0; i < 2 * nr; i++) { fputc (' ', o); ph (o, r[i]); }
      captured = 0;
      sc_ranges_statistics (-1, SC_LP_ESSENTIAL, sc_MPI_COMM_SELF, P, v, rank, nr, r);
      fprintf (o, " E ");
      if (captured) ph (o, (long) (captured_nonpeer + 0.5)); else fprintf (o, "none");
      fputc ('\n', o);
      free (v); free (r);
    }
    else if (op == 'T' || op == 'A') {
      int nr = (int) a[0], P = (int) a[1], r, i;
      if (op == 'T') {
        int *ranges = (int *) malloc (sizeof (int) * 2 * (size_t) nr * (size_t) P), *n = (int *) malloc (sizeof (int) * (size_t) P);
        int *table, maxpeers = 0, maxwin = 0;
        for (r = 0; r < P; r++) {
          int *v = (int *) malloc (sizeof (int) * (size_t) (P + 1)), first, last, cnt = 0;
          for (i = 0; i < P; i++) { v[i] = (int) a[2 + r * P + i]; cnt += (v[i] > 0 && i != r); }
          first_last (P, v, r, &first, &last);
          n[r] = sc_ranges_compute (-1, P, v, r, first, last, nr, ranges + 2 * nr * r);
          if (cnt > maxpeers) maxpeers = cnt;
          if (n[r] > maxwin) maxwin = n[r];
          free (v);
        }
        table = (int *) malloc (sizeof (int) * (2 * (size_t) maxwin * (size_t) P + 1));
        for (r = 0; r < P; r++) memcpy (table + 2 * maxwin * r, ranges + 2 * nr * r, sizeof (int) * 2 * (size_t) maxwin);
        ph (o, maxpeers); fputc (' ', o); ph (o, maxwin);
        for (r = 0; r < P; r++) {
          fputc (';', o); ph (o, n[r]);
          for (i = 0; i < 2 * nr; i++) { fputc (' ', o); ph (o, ranges[2 * nr * r + i]); }
          print_decode (o, P, r, maxwin, table);
        }
        fputc ('\n', o);
        free (ranges); free (n); free (table);
      }
      else {
#ifdef SC_ENABLE_MPI
        if (P != mpisize) { fprintf (stderr, "c15_harness: case for %d ranks in a run with %d\n", P, mpisize); return 3; }
#endif
        adaptive_rank (o, nr, P, mpirank, a + 2);
      }
    }
    else if (op == 'D') {
      int P = (int) a[0], M = (int) a[1], r;
      int *table = (int *) malloc (sizeof (int) * (2 * (size_t) M * (size_t) P + 1));
      size_t i;
      for (i = 0; i < 2 * (size_t) M * (size_t) P; i++) table[i] = (int) a[2 + i];
      for (r = 0; r < P; r++) { fputc (';', o); print_decode (o, P, r, M, table); }
      fputc ('\n', o);
      free (table);
    }
    else { fprintf (stderr, "c15_harness: unknown case '%c'\n", op); return 2; }
    fflush (o);                 /* a crash in a later case must not swallow the output of this one */
    free (a);
  }
  fflush (o);
  if (sc_memory_status (-1) != 0) { fprintf (stderr, "c15_harness: memory imbalance\n"); return 6; }
#ifdef SC_ENABLE_MPI
  sc_MPI_Finalize ();
#endif
  return 0;
}
#endif
