/* C04 harness: runs sc_allgather (and the subgroup routine) of the real libsc on the simulated MPI.
   stdin: one run per line:  <P> <seed> <adversary> <blocksize> <dataseed> <mode>
     mode 0: sc_allgather on the world; mode 1: sc_allgather_recursive on a subgroup [base, base+g) given as
     two further numbers <base> <g> (ranks outside the group do nothing);
     mode 2: a HISTORY on one communicator, no barrier between the calls: <base> <g> are ignored, then <ncalls> and per call
     <entry> <blocksize> <base> <g>  (entry 0 sc_allgather, 1 sc_allgather_recursive, 2 sc_allgather_alltoall on [base, base+g));
     the blocks of call k come from data seed dseed + 7919 * k; OUT is the concatenation of the receive buffers of all calls
     (each blocksize * P bytes, preset to 0xEE).
   stdout per run:  RUN <i> rc=<code> steps=<n>
                    OUT <rank> <hex of recvbuf>        (one per rank)
                    TRACE-BEGIN / trace lines / TRACE-END
                    END <i> mem=<sc_memory_status> */
#include <sc.h>
#include <sc_allgather.h>
#include <simmpi.h>

#define MAXCALLS 8
typedef struct { int bs; unsigned dseed; int mode, base, g; unsigned char **out;
                 int ncalls, ce[MAXCALLS], cbs[MAXCALLS], cbase[MAXCALLS], cg[MAXCALLS]; size_t total; } arg_t;

static unsigned char blk_byte (unsigned dseed, int rank, int k)
{
  unsigned x = dseed * 2654435761u + (unsigned) rank * 40503u + (unsigned) k * 9176u;
  x ^= x >> 13; x *= 0x5bd1e995u; x ^= x >> 15;
  return (unsigned char) (x & 0xff);
}

/* sc_allgather with send and receive datatypes of (possibly) different element size and equal total length, chosen from the
   data seed: the block of bs bytes is described as bs/ts items on the send and bs/tr items on the receive side */
static void top_call (unsigned char *send, unsigned char *recv, int bs, unsigned dseed)
{
  static const int tsz[4] = { 1, 2, 4, 8 };
  sc_MPI_Datatype ty[4];
  int is = (int) (dseed % 4), ir = (int) ((dseed / 4) % 4);
  ty[0] = sc_MPI_BYTE; ty[1] = sc_MPI_SHORT; ty[2] = sc_MPI_INT; ty[3] = sc_MPI_DOUBLE;
  while (bs % tsz[is] != 0) --is;
  while (bs % tsz[ir] != 0) --ir;
  sc_allgather (send, bs / tsz[is], ty[is], recv, bs / tsz[ir], ty[ir], sc_MPI_COMM_WORLD);
}

static void history_main (int rank, int size, arg_t *a)
{
  unsigned char *all = SC_ALLOC (unsigned char, a->total + 1);
  unsigned char *recv = all;
  memset (all, 0xEE, a->total + 1);
  for (int c = 0; c < a->ncalls; ++c) {
    int bs = a->cbs[c], base = a->cbase[c], g = a->cg[c];
    unsigned ds = a->dseed + 7919u * (unsigned) c;
    unsigned char *send = SC_ALLOC (unsigned char, bs + 1);
    for (int k = 0; k < bs; ++k) send[k] = blk_byte (ds, rank, k);
    if (a->ce[c] == 0) {
      top_call (send, recv, bs, ds);
    }
    else if (rank >= base && rank < base + g) {
      memcpy (recv + (size_t) rank * bs, send, bs);
      if (a->ce[c] == 1)
        sc_allgather_recursive (sc_MPI_COMM_WORLD, (char *) recv + (size_t) base * bs, bs, g, rank - base, rank);
      else
        sc_allgather_alltoall (sc_MPI_COMM_WORLD, (char *) recv + (size_t) base * bs, bs, g, rank - base, rank);
    }
    SC_FREE (send);
    recv += (size_t) bs * size;
  }
  a->out[rank] = all;
}

static void rank_main (int rank, int size, void *varg)
{
  arg_t *a = (arg_t *) varg;
  if (a->mode == 2) { history_main (rank, size, a); return; }
  int bs = a->bs;
  unsigned char *send = SC_ALLOC (unsigned char, bs + 1);
  unsigned char *recv = SC_ALLOC (unsigned char, (size_t) bs * size + 1);
  memset (recv, 0xEE, (size_t) bs * size + 1);
  for (int k = 0; k < bs; ++k) send[k] = blk_byte (a->dseed, rank, k);
  if (a->mode == 0) {
    top_call (send, recv, bs, a->dseed);
  }
  else if (rank >= a->base && rank < a->base + a->g) {
    memcpy (recv + (size_t) rank * bs, send, bs);
    sc_allgather_recursive (sc_MPI_COMM_WORLD, (char *) recv + (size_t) a->base * bs, bs, a->g, rank - a->base, rank);
  }
  a->out[rank] = recv;
  SC_FREE (send);
}

int main (void)
{
  char line[2048], tpath[256];
  int run = 0;
  sc_init (sc_MPI_COMM_NULL, 0, 0, NULL, SC_LP_SILENT);
  sc_set_abort_handler (simmpi_abort_handler);
  snprintf (tpath, sizeof tpath, "%s/trace.%d.jsonl", getenv ("VERIF_SCRATCH") ? getenv ("VERIF_SCRATCH") : "/var/tmp", (int) getpid ());
  while (fgets (line, sizeof line, stdin)) {
    int P, adv, bs, mode, base = 0, g = 0; unsigned long seed; unsigned dseed;
    int n = sscanf (line, "%d %lu %d %d %u %d %d %d", &P, &seed, &adv, &bs, &dseed, &mode, &base, &g);
    if (n < 6) continue;
    arg_t a; memset (&a, 0, sizeof a); a.bs = bs; a.dseed = dseed; a.mode = mode; a.base = base; a.g = g;
    a.total = (size_t) bs * P;
    if (mode == 2) {
      /* skip the 8 leading fields, then <ncalls> and 4 numbers per call */
      char *p = line; int f = 0;
      while (f < 8 && *p) { while (*p == ' ') ++p; while (*p && *p != ' ' && *p != '\n') ++p; ++f; }
      a.ncalls = (int) strtol (p, &p, 10);
      if (n < 8 || a.ncalls < 1 || a.ncalls > MAXCALLS) continue;
      a.total = 0;
      for (int c = 0; c < a.ncalls; ++c) {
        a.ce[c] = (int) strtol (p, &p, 10); a.cbs[c] = (int) strtol (p, &p, 10);
        a.cbase[c] = (int) strtol (p, &p, 10); a.cg[c] = (int) strtol (p, &p, 10);
        a.total += (size_t) a.cbs[c] * P;
      }
    }
    a.out = (unsigned char **) calloc ((size_t) P, sizeof (unsigned char *));
    int mem0 = (sc_memory_status (-1) + sc_memory_status (sc_package_id));
    simmpi_opts o; simmpi_report rep;
    simmpi_opts_default (&o);
    o.nranks = P; o.seed = seed; o.adversary = adv; o.trace_path = tpath;
    int rc = simmpi_run (&o, rank_main, &a, &rep);
    printf ("RUN %d rc=%d steps=%ld\n", run, rc, rep.steps);
    if (rc) { char *t = rep.text; for (char *p = t; *p; ++p) if (*p == '\n') *p = '~'; printf ("REPORT %s\n", t); }
    for (int r = 0; r < P; ++r) {
      printf ("OUT %d ", r);
      if (a.out[r]) { for (size_t k = 0; k < a.total; ++k) printf ("%02x", a.out[r][k]); if (a.total == 0) printf ("-"); SC_FREE (a.out[r]); }
      else printf ("none");
      printf ("\n");
    }
    printf ("TRACE-BEGIN\n");
    FILE *f = fopen (tpath, "r");
    if (f) { char buf[65536]; size_t k; while ((k = fread (buf, 1, sizeof buf, f)) > 0) fwrite (buf, 1, k, stdout); fclose (f); }
    printf ("TRACE-END\n");
    printf ("END %d mem=%d\n", run, (sc_memory_status (-1) + sc_memory_status (sc_package_id)) - mem0);
    simmpi_report_free (&rep);
    free (a.out);
    ++run;
  }
  remove (tpath);
  return 0;
}
