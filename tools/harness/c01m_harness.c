/* C01/C02 harness for the STATIC sc_notify_merge of /repo's working tree: sc_notify.c is included into this
   translation unit (found through -I<repo>/src), so the function compiled here is the one in the tree.
   stdin, one case per line:   merge <npay> | <ints of input> | <ints of second>      (hex, negative with '-')
   stdout, one line per case:  the ints pushed to the output array, space separated ("-" when empty)          */
#include <sc.h>
#include "sc_notify.c"

static long parse (const char *s)
{
  int neg = (*s == '-');
  unsigned long v = strtoul (neg ? s + 1 : s, NULL, 16);
  return neg ? -(long) v : (long) v;
}
static void pz (long v) { if (v < 0) printf ("-%lx", (unsigned long) (-v)); else printf ("%lx", (unsigned long) v); }

static sc_array_t *read_ints (char *s)
{
  sc_array_t *a = sc_array_new (sizeof (int));
  for (char *p = strtok (s, " \n"); p; p = strtok (NULL, " \n")) *(int *) sc_array_push (a) = (int) parse (p);
  return a;
}

int main (void)
{
  static char line[1 << 20];
  sc_init (sc_MPI_COMM_NULL, 0, 0, NULL, SC_LP_SILENT);
  while (fgets (line, sizeof line, stdin)) {
    char *b1 = strchr (line, '|');
    if (!b1) continue;
    char *b2 = strchr (b1 + 1, '|');
    if (!b2) continue;
    *b1 = 0; *b2 = 0;
    char op[32]; char ns[32];
    if (sscanf (line, "%31s %31s", op, ns) != 2 || strcmp (op, "merge")) { printf ("BAD\n"); continue; }
    int npay = (int) parse (ns);
    sc_array_t *input = read_ints (b1 + 1);
    sc_array_t *second = read_ints (b2 + 1);
    sc_array_t *output = sc_array_new (sizeof (int));
    sc_notify_merge (output, input, second, npay);
    if (output->elem_count == 0) printf ("-");
    for (size_t i = 0; i < output->elem_count; ++i) { if (i) printf (" "); pz (((int *) output->array)[i]); }
    printf ("\n");
    sc_array_destroy (input); sc_array_destroy (second); sc_array_destroy (output);
  }
  fflush (stdout);
  return 0;
}
