/* C01/C02 harness: the notify operations of the real libsc on the simulated MPI.
   stdin per run:
     header: <P> <seed> <adversary> <type> <ntop> <nint> <nbot> <nranges> <ncalls> <sorted> <sep_senders> <paymode> <paysize>
             <sep_payload> <threshold> <api> <superseed> <barrier> [<reuse>]
       type 0..8 (sc_notify_type_t order: allgather binary nary pex pcx rsx nbx ranges superset)
       paymode 0 none, 1 fixed-size item per receiver (paysize bytes), 2 variable slices (paysize = item size)
       sep_senders / sep_payload: 1 = separate output arrays, 0 = in place (NULL output argument)
       api 0: sc_notify_payload/payloadv with a notify object; 1: legacy sc_notify (binary), 2: sc_notify_allgather,
           3: sc_notify_ext; 4: sc_notify_nary
       barrier 1: MPI_Barrier between consecutive calls
       hist 1 (optional 20th field, default 0; api 0 only): HISTORY on ONE notify object.  Every call c is preceded by one line
             `H <ops>` that all ranks apply to the object before the call (the header's type/widths/ranges are NOT applied; the object
             starts as sc_notify_new leaves it).  ops: `T t` sc_notify_set_type, `W a b c` sc_notify_nary_set_widths,
             `R n` sc_notify_ranges_set_num_ranges, `E n` sc_notify_set_eager_threshold, `S k` sc_notify_superset_set_callback
             (function k % 2, ctx = k: the superset pattern of the round is salted with the ctx the callback RECEIVES),
             `N` destroy the object and create a new one.  After the ops every rank reports what the getters say:
             CFG <call> <rank> <type> <eager_threshold> <x> <y> <z>   (nary: the widths; ranges: num_ranges 0 0; else 0 0 0)
       reuse 0 (default): fresh output arrays for every call; 1: the caller's output arrays (senders, out_payload, out_offsets)
             are created once and reused, unreset, for all calls of the case (a time loop); 2: as 1 and filled with junk
             elements before the first call
     then for call c = 0..ncalls-1 and rank r = 0..P-1 one line: <n> <rcv_1> .. <rcv_n> [<len_1> .. <len_n> for paymode 2]
   Payload bytes are a fixed function of (call, sender, receiver, index) so that the oracle can recompute them.
   stdout: OUT <call> <rank> <nsenders> <s_1> ... | <payload hex or -> | <offsets or ->    */
#include <sc.h>
#include <sc_notify.h>
#include <simmpi.h>
#include <stdint.h>

typedef struct { int n; int *rcv; int *len; } item_t;
typedef struct {
  int P, type, ntop, nint, nbot, nranges, ncalls, sorted, sep_senders, paymode, paysize, sep_payload, api, barrier, reuse, hist;
  char **ops;                   /* [call], hist only */
  long threshold; unsigned superseed;
  item_t *items;                /* [call][rank] */
  char *outbuf; size_t outlen, outcap;
  int curcall[1024];
} arg_t;

static arg_t *G;

static unsigned char pay_byte (int call, int s, int r, int k)
{
  unsigned x = (unsigned) call * 2654435761u + (unsigned) s * 40503u + (unsigned) r * 2246822519u + (unsigned) k * 9176u + 12345u;
  x ^= x >> 13; x *= 0x5bd1e995u; x ^= x >> 15;
  return (unsigned char) (x & 0xff);
}

static void emit (arg_t * a, const char *s, size_t l)
{
  if (a->outlen + l + 1 > a->outcap) { a->outcap = 2 * (a->outcap + l + 1); a->outbuf = (char *) realloc (a->outbuf, a->outcap); }
  memcpy (a->outbuf + a->outlen, s, l); a->outlen += l; a->outbuf[a->outlen] = 0;
}

/* superset pattern: rank p additionally contacts q iff sup (call, p, q); symmetric knowledge through shared memory */
static int sup_salt (arg_t * a, int salt, int call, int p, int q)
{
  unsigned x = a->superseed + (unsigned) salt * 15485863u + (unsigned) call * 7919u + (unsigned) p * 104729u + (unsigned) q * 1299709u;
  x ^= x >> 11; x *= 0x9e3779b1u; x ^= x >> 14;
  return (x % 4u) == 0;
}
static int sup (arg_t * a, int call, int p, int q) { return sup_salt (a, 0, call, p, q); }
static int listed (item_t * it, int q) { for (int i = 0; i < it->n; ++i) if (it->rcv[i] == q) return 1; return 0; }

static void compute_superset (sc_array_t * receivers, sc_array_t * extra_receivers, sc_array_t * super_senders, sc_notify_t * notify, void *ctx)
{
  arg_t *a = G;
  int me = simmpi_current_rank ();
  int call = a->curcall[me];
  item_t *mine = &a->items[(size_t) call * a->P + me];
  for (int q = 0; q < a->P; ++q) {
    if (!listed (mine, q) && sup (a, call, me, q)) *(int *) sc_array_push (extra_receivers) = q;
    item_t *his = &a->items[(size_t) call * a->P + q];
    if (listed (his, me) || sup (a, call, q, me)) *(int *) sc_array_push (super_senders) = q;
  }
}

/* history mode: two callback functions (so that a replaced function pointer is observable); the pattern depends on the ctx received */
static void compute_superset_h (sc_array_t * receivers, sc_array_t * extra_receivers, sc_array_t * super_senders, sc_notify_t * notify, void *ctx)
{
  arg_t *a = G;
  int salt = (int) (intptr_t) ctx;
  int me = simmpi_current_rank ();
  int call = a->curcall[me];
  item_t *mine = &a->items[(size_t) call * a->P + me];
  for (int q = 0; q < a->P; ++q) {
    if (!listed (mine, q) && sup_salt (a, salt, call, me, q)) *(int *) sc_array_push (extra_receivers) = q;
    item_t *his = &a->items[(size_t) call * a->P + q];
    if (listed (his, me) || sup_salt (a, salt, call, q, me)) *(int *) sc_array_push (super_senders) = q;
  }
}
static void compute_superset_h1 (sc_array_t * receivers, sc_array_t * extra_receivers, sc_array_t * super_senders, sc_notify_t * notify, void *ctx)
{
  /* same pattern as compute_superset_h, entries pushed in descending order (the callback's contract names sets, not orders) */
  arg_t *a = G;
  int salt = (int) (intptr_t) ctx;
  int me = simmpi_current_rank ();
  int call = a->curcall[me];
  item_t *mine = &a->items[(size_t) call * a->P + me];
  for (int q = a->P - 1; q >= 0; --q) {
    if (!listed (mine, q) && sup_salt (a, salt, call, me, q)) *(int *) sc_array_push (extra_receivers) = q;
    item_t *his = &a->items[(size_t) call * a->P + q];
    if (listed (his, me) || sup_salt (a, salt, call, q, me)) *(int *) sc_array_push (super_senders) = q;
  }
}

static void apply_ops (arg_t * a, sc_notify_t ** pn, const char *ops)
{
  const char *p = ops;
  char op; int n = 0, x, y, z;
  while (sscanf (p, " %c%n", &op, &n) == 1) {
    p += n;
    switch (op) {
    case 'H': break;
    case 'T': if (sscanf (p, "%d%n", &x, &n) != 1) return; p += n; sc_notify_set_type (*pn, (sc_notify_type_t) x); break;
    case 'W': if (sscanf (p, "%d %d %d%n", &x, &y, &z, &n) != 3) return; p += n; sc_notify_nary_set_widths (*pn, x, y, z); break;
    case 'R': if (sscanf (p, "%d%n", &x, &n) != 1) return; p += n; sc_notify_ranges_set_num_ranges (*pn, x); break;
    case 'E': if (sscanf (p, "%d%n", &x, &n) != 1) return; p += n; sc_notify_set_eager_threshold (*pn, (size_t) x); break;
    case 'S': if (sscanf (p, "%d%n", &x, &n) != 1) return; p += n;
      sc_notify_superset_set_callback (*pn, (x % 2) ? compute_superset_h1 : compute_superset_h, (void *) (intptr_t) x); break;
    case 'N': sc_notify_destroy (*pn); *pn = sc_notify_new (sc_MPI_COMM_WORLD); break;
    default: return;
    }
  }
}

static void rank_main (int rank, int size, void *varg)
{
  arg_t *a = (arg_t *) varg;
  char line[256];
  sc_notify_t *notify = NULL;
  if (a->api == 0) {
    sc_notify_eager_threshold_default = (size_t) a->threshold;
    notify = sc_notify_new (sc_MPI_COMM_WORLD);
    if (!a->hist) sc_notify_set_type (notify, (sc_notify_type_t) a->type);
    if (!a->hist && a->type == SC_NOTIFY_NARY) sc_notify_nary_set_widths (notify, a->ntop, a->nint, a->nbot);
    if (!a->hist && a->type == SC_NOTIFY_RANGES) sc_notify_ranges_set_num_ranges (notify, a->nranges);
    if (!a->hist && a->type == SC_NOTIFY_SUPERSET) sc_notify_superset_set_callback (notify, compute_superset, NULL);
  }
  /* output arrays owned by the caller and kept over all calls of the case (reuse != 0) */
  sc_array_t *keep_senders = NULL, *keep_out_pay = NULL, *keep_out_off = NULL;
  if (a->reuse && a->api != 1 && a->api != 2) {
    size_t junk = a->reuse == 2 ? 3 : 0;
    if (a->sep_senders) { keep_senders = sc_array_new_count (sizeof (int), junk); if (junk) memset (keep_senders->array, 0x5a, junk * sizeof (int)); }
    if (a->paymode && a->sep_payload) {
      keep_out_pay = sc_array_new_count ((size_t) a->paysize, junk); if (junk) memset (keep_out_pay->array, 0x5b, junk * (size_t) a->paysize);
      if (a->paymode == 2) { keep_out_off = sc_array_new_count (sizeof (int), junk); if (junk) memset (keep_out_off->array, 0x5c, junk * sizeof (int)); }
    }
  }
  for (int c = 0; c < a->ncalls; ++c) {
    item_t *it = &a->items[(size_t) c * a->P + rank];
    a->curcall[rank] = c;
    if (a->hist && notify) {
      int t, x = 0, y = 0, z = 0;
      if (a->ops && a->ops[c]) apply_ops (a, &notify, a->ops[c]);
      t = (int) sc_notify_get_type (notify);
      if (t == SC_NOTIFY_NARY) sc_notify_nary_get_widths (notify, &x, &y, &z);
      if (t == SC_NOTIFY_RANGES) x = sc_notify_ranges_get_num_ranges (notify);
      int l = snprintf (line, sizeof line, "CFG %d %d %d %ld %d %d %d\n", c, rank, t, (long) sc_notify_get_eager_threshold (notify), x, y, z);
      emit (a, line, (size_t) l);
    }
    sc_array_t *receivers = sc_array_new_count (sizeof (int), (size_t) it->n);
    sc_array_t *senders = a->sep_senders ? (keep_senders ? keep_senders : sc_array_new (sizeof (int))) : NULL;
    sc_array_t *in_pay = NULL, *out_pay = NULL, *in_off = NULL, *out_off = NULL;
    if (it->n > 0) memcpy (receivers->array, it->rcv, it->n * sizeof (int));
    if (a->paymode == 1) {
      in_pay = sc_array_new_count ((size_t) a->paysize, (size_t) it->n);
      for (int i = 0; i < it->n; ++i) for (int k = 0; k < a->paysize; ++k) in_pay->array[(size_t) i * a->paysize + k] = (char) pay_byte (c, rank, it->rcv[i], k);
      if (a->sep_payload) out_pay = keep_out_pay ? keep_out_pay : sc_array_new ((size_t) a->paysize);
    }
    else if (a->paymode == 2) {
      int tot = 0;
      in_off = sc_array_new_count (sizeof (int), (size_t) it->n + 1);
      for (int i = 0; i < it->n; ++i) { ((int *) in_off->array)[i] = tot; tot += it->len[i]; }
      ((int *) in_off->array)[it->n] = tot;
      in_pay = sc_array_new_count ((size_t) a->paysize, (size_t) tot);
      for (int i = 0; i < it->n; ++i) {
        int o = ((int *) in_off->array)[i];
        for (int k = 0; k < it->len[i] * a->paysize; ++k) in_pay->array[(size_t) o * a->paysize + k] = (char) pay_byte (c, rank, it->rcv[i], k);
      }
      if (a->sep_payload) { out_pay = keep_out_pay ? keep_out_pay : sc_array_new ((size_t) a->paysize); out_off = keep_out_off ? keep_out_off : sc_array_new (sizeof (int)); }
    }
    if (a->api == 0) {
      if (a->paymode == 2) sc_notify_payloadv (receivers, senders, in_pay, out_pay, in_off, out_off, a->sorted, notify);
      else sc_notify_payload (receivers, senders, in_pay, out_pay, a->sorted, notify);
    }
    else if (a->api == 1 || a->api == 2) {
      int ns = -1; int *sn = SC_ALLOC (int, size + 1);
      if (a->api == 1) sc_notify ((int *) receivers->array, it->n, sn, &ns, sc_MPI_COMM_WORLD);
      else sc_notify_allgather ((int *) receivers->array, it->n, sn, &ns, sc_MPI_COMM_WORLD);
      if (!senders) senders = sc_array_new (sizeof (int));
      sc_array_resize (senders, (size_t) (ns < 0 ? 0 : ns));
      if (ns > 0) memcpy (senders->array, sn, ns * sizeof (int));
      SC_FREE (sn);
    }
    else if (a->api == 3) sc_notify_ext (receivers, senders, in_pay, out_pay, sc_MPI_COMM_WORLD);
    else sc_notify_nary (receivers, senders, in_pay, out_pay, sc_MPI_COMM_WORLD);
    {
      sc_array_t *S = senders ? senders : receivers;
      sc_array_t *Pay = a->paymode ? (out_pay ? out_pay : in_pay) : NULL;
      sc_array_t *Off = a->paymode == 2 ? (out_off ? out_off : in_off) : NULL;
      int l = snprintf (line, sizeof line, "OUT %d %d %d", c, rank, (int) S->elem_count); emit (a, line, (size_t) l);
      for (size_t i = 0; i < S->elem_count; ++i) { l = snprintf (line, sizeof line, " %d", ((int *) S->array)[i]); emit (a, line, (size_t) l); }
      emit (a, " | ", 3);
      if (Pay && Pay->elem_count * Pay->elem_size > 0) {
        size_t nb = Pay->elem_count * Pay->elem_size;
        char *hx = (char *) malloc (2 * nb + 1);
        for (size_t k = 0; k < nb; ++k) snprintf (hx + 2 * k, 3, "%02x", (unsigned char) Pay->array[k]);
        emit (a, hx, 2 * nb); free (hx);
      }
      else emit (a, "-", 1);
      l = snprintf (line, sizeof line, " | %d ", Pay ? (int) Pay->elem_count : -1); emit (a, line, (size_t) l);
      if (Off) for (size_t i = 0; i < Off->elem_count; ++i) { l = snprintf (line, sizeof line, "%d,", ((int *) Off->array)[i]); emit (a, line, (size_t) l); }
      else emit (a, "-", 1);
      emit (a, "\n", 1);
    }
    sc_array_destroy (receivers);
    if (senders && senders != keep_senders) sc_array_destroy (senders);
    if (in_pay) sc_array_destroy (in_pay);
    if (out_pay && out_pay != keep_out_pay) sc_array_destroy (out_pay);
    if (in_off) sc_array_destroy (in_off);
    if (out_off && out_off != keep_out_off) sc_array_destroy (out_off);
    if (a->barrier && c + 1 < a->ncalls) sc_MPI_Barrier (sc_MPI_COMM_WORLD);
  }
  if (keep_senders) sc_array_destroy (keep_senders);
  if (keep_out_pay) sc_array_destroy (keep_out_pay);
  if (keep_out_off) sc_array_destroy (keep_out_off);
  if (notify) sc_notify_destroy (notify);
}

int main (void)
{
  static char line[1 << 20];
  char tpath[256];
  int run = 0;
  int want_trace = getenv ("VERIF_TRACE") != NULL;
  sc_init (sc_MPI_COMM_NULL, 0, 0, NULL, SC_LP_SILENT);
  sc_set_abort_handler (simmpi_abort_handler);
  snprintf (tpath, sizeof tpath, "%s/trace.%d.jsonl", getenv ("VERIF_SCRATCH") ? getenv ("VERIF_SCRATCH") : "/var/tmp", (int) getpid ());
  while (fgets (line, sizeof line, stdin)) {
    arg_t a; int adv; unsigned long seed;
    memset (&a, 0, sizeof a);
    if (sscanf (line, "%d %lu %d %d %d %d %d %d %d %d %d %d %d %d %ld %d %u %d %d %d", &a.P, &seed, &adv, &a.type, &a.ntop, &a.nint, &a.nbot, &a.nranges,
                &a.ncalls, &a.sorted, &a.sep_senders, &a.paymode, &a.paysize, &a.sep_payload, &a.threshold, &a.api, &a.superseed, &a.barrier, &a.reuse, &a.hist) < 18) continue;
    if (a.api != 0) a.hist = 0;
    size_t nit = (size_t) a.ncalls * a.P;
    a.items = (item_t *) calloc (nit + 1, sizeof (item_t));
    if (a.hist) a.ops = (char **) calloc ((size_t) a.ncalls + 1, sizeof (char *));
    for (size_t k = 0; k < nit; ++k) {
      if (!fgets (line, sizeof line, stdin)) break;
      if (a.hist && k % (size_t) a.P == 0) {      /* the ops line in front of every call */
        a.ops[k / (size_t) a.P] = strdup (line);
        if (!fgets (line, sizeof line, stdin)) break;
      }
      char *p = strtok (line, " \n");
      int n = atoi (p);
      a.items[k].n = n;
      a.items[k].rcv = (int *) calloc ((size_t) n + 1, sizeof (int));
      a.items[k].len = (int *) calloc ((size_t) n + 1, sizeof (int));
      for (int j = 0; j < n; ++j) { p = strtok (NULL, " \n"); a.items[k].rcv[j] = atoi (p); }
      if (a.paymode == 2) for (int j = 0; j < n; ++j) { p = strtok (NULL, " \n"); a.items[k].len[j] = atoi (p); }
    }
    G = &a;
    size_t saved_thr = sc_notify_eager_threshold_default;
    int mem0 = (sc_memory_status (-1) + sc_memory_status (sc_package_id));
    simmpi_opts o; simmpi_report rep;
    simmpi_opts_default (&o);
    o.nranks = a.P; o.seed = seed; o.adversary = adv; o.trace_path = want_trace ? tpath : NULL;
    fprintf (stderr, "CASE %d\n", run); fflush (stderr);   /* lets the check attribute a sanitizer report to its case */
    int rc = simmpi_run (&o, rank_main, &a, &rep);
    sc_notify_eager_threshold_default = saved_thr;
    printf ("RUN %d rc=%d steps=%ld\n", run, rc, rep.steps);
    if (rc) { char *t = rep.text; for (char *p = t; *p; ++p) if (*p == '\n') *p = '~'; printf ("REPORT %s\n", t); }
    if (a.outbuf) fputs (a.outbuf, stdout);
    if (want_trace) {
      printf ("TRACE-BEGIN\n");
      FILE *f = fopen (tpath, "r");
      if (f) { char buf[65536]; size_t k; while ((k = fread (buf, 1, sizeof buf, f)) > 0) fwrite (buf, 1, k, stdout); fclose (f); }
      printf ("TRACE-END\n");
    }
    printf ("END %d mem=%d\n", run, rc ? 0 : (sc_memory_status (-1) + sc_memory_status (sc_package_id)) - mem0);
    simmpi_report_free (&rep);
    for (size_t k = 0; k < nit; ++k) { free (a.items[k].rcv); free (a.items[k].len); }
    if (a.ops) { for (int k = 0; k < a.ncalls; ++k) free (a.ops[k]); free (a.ops); }
    free (a.items); free (a.outbuf);
    ++run;
    fflush (stdout);
  }
  remove (tpath);
  return 0;
}
