/* C13 harness: sc_stats_compute of the real libsc on the simulated MPI.
   stdin per run:  header  <P> <seed> <adversary> <nvars> <rounds> [<kind of round 0> <kind of round 1> ...]
       kind 0 (default): the round ends with sc_stats_compute, kind 1: with sc_stats_compute1
     then for each round, each rank, each variable one line:  <mode> <n> <v1> ... <vn>
       mode 0: sc_stats_init + n x sc_stats_accumulate;  mode 1: sc_stats_set1 (v1);  mode 2: leave the variable as it is;
       mode 3: sc_stats_reset (st, 0) + n x sc_stats_accumulate (sc_stats_init in the first round);
       mode 4: sc_stats_init_ext (copy = 1, group = var, prio = round) + n x accumulate (an owned name is released by sc_stats_reset (st, 1) first);
       mode 5: sc_stats_reset (st, 1) + n x accumulate (sc_stats_init in the first round);
       mode 6: sc_stats_set1_ext (v1, copy = 1, group = var, prio = round) (an owned name is released first);
       mode 7: n x sc_stats_accumulate on the variable as it is (the generator uses it only while the variable is dirty)
     values are decimal doubles.  At the end every rank calls sc_stats_reset (st, 1) so that owned names are freed.
   stdout: OUT <round> <rank> <var> dirty count sum sumsq min max min_at max_at average variance standev variance_mean standev_mean
               owned hasname group prio
           (doubles as hex bit patterns; owned = variable_owned != NULL, hasname = variable != NULL) */
#include <sc.h>
#include <sc_statistics.h>
#include <simmpi.h>
#include <inttypes.h>

#define MAXV 8
typedef struct { int mode, n; double *v; } item_t;
typedef struct { int nvars, rounds, P; int kinds[64]; item_t *items; /* [round][rank][var] */ char *outbuf; size_t outlen, outcap; } arg_t;

static uint64_t bits (double d) { uint64_t u; memcpy (&u, &d, 8); return u; }
static void emit (arg_t * a, const char *s)
{
  size_t l = strlen (s);
  if (a->outlen + l + 1 > a->outcap) { a->outcap = 2 * (a->outcap + l + 1); a->outbuf = (char *) realloc (a->outbuf, a->outcap); }
  memcpy (a->outbuf + a->outlen, s, l + 1); a->outlen += l;
}

static void rank_main (int rank, int size, void *varg)
{
  arg_t *a = (arg_t *) varg;
  sc_statinfo_t st[MAXV];
  char line[512];
  memset (st, 0, sizeof st);
  for (int rd = 0; rd < a->rounds; ++rd) {
    for (int i = 0; i < a->nvars; ++i) {
      item_t *it = &a->items[((size_t) rd * a->P + rank) * a->nvars + i];
      /* a user who owns a copied name releases it before the name is set anew (sc_stats_init / set1 overwrite the pointer) */
      if ((it->mode == 0 || it->mode == 1) && st[i].variable_owned != NULL) sc_stats_reset (&st[i], 1);
      if (it->mode == 0) { sc_stats_init (&st[i], "v"); for (int k = 0; k < it->n; ++k) sc_stats_accumulate (&st[i], it->v[k]); }
      else if (it->mode == 1) sc_stats_set1 (&st[i], it->v[0], "v");
      else if (it->mode == 3 || it->mode == 5) {
        /* refill through reset: "Variables are zeroed. They can be set again by set1 or accumulate" - like mode 0
           for a variable that was initialised in an earlier round (the first round initialises instead) */
        if (rd == 0) sc_stats_init (&st[i], "v"); else sc_stats_reset (&st[i], it->mode == 5);
        for (int k = 0; k < it->n; ++k) sc_stats_accumulate (&st[i], it->v[k]);
      }
      else if (it->mode == 4 || it->mode == 6) {
        if (st[i].variable_owned != NULL) sc_stats_reset (&st[i], 1);
        if (it->mode == 4) { sc_stats_init_ext (&st[i], "w", 1, i, rd); for (int k = 0; k < it->n; ++k) sc_stats_accumulate (&st[i], it->v[k]); }
        else sc_stats_set1_ext (&st[i], it->v[0], "w", 1, i, rd);
      }
      else if (it->mode == 7) { for (int k = 0; k < it->n; ++k) sc_stats_accumulate (&st[i], it->v[k]); }
    }
    if (a->kinds[rd]) sc_stats_compute1 (sc_MPI_COMM_WORLD, a->nvars, st);
    else sc_stats_compute (sc_MPI_COMM_WORLD, a->nvars, st);
    for (int i = 0; i < a->nvars; ++i) {
      snprintf (line, sizeof line, "OUT %d %d %d %d %ld %" PRIx64 " %" PRIx64 " %" PRIx64 " %" PRIx64 " %d %d %" PRIx64 " %" PRIx64 " %" PRIx64 " %" PRIx64 " %" PRIx64 " %d %d %d %d\n",
                rd, rank, i, st[i].dirty, st[i].count, bits (st[i].sum_values), bits (st[i].sum_squares), bits (st[i].min), bits (st[i].max),
                st[i].min_at_rank, st[i].max_at_rank, bits (st[i].average), bits (st[i].variance), bits (st[i].standev),
                bits (st[i].variance_mean), bits (st[i].standev_mean),
                st[i].variable_owned != NULL, st[i].variable != NULL, st[i].group, st[i].prio);
      emit (a, line);
    }
  }
  for (int i = 0; i < a->nvars; ++i) if (st[i].variable_owned != NULL) sc_stats_reset (&st[i], 1);
}

int main (void)
{
  static char line[1 << 16];
  char tpath[256];
  int run = 0;
  sc_init (sc_MPI_COMM_NULL, 0, 0, NULL, SC_LP_SILENT);
  sc_set_abort_handler (simmpi_abort_handler);
  snprintf (tpath, sizeof tpath, "%s/trace.%d.jsonl", getenv ("VERIF_SCRATCH") ? getenv ("VERIF_SCRATCH") : "/var/tmp", (int) getpid ());
  while (fgets (line, sizeof line, stdin)) {
    int P, adv; unsigned long seed; arg_t a;
    memset (&a, 0, sizeof a);
    int pos = 0;
    if (sscanf (line, "%d %lu %d %d %d%n", &P, &seed, &adv, &a.nvars, &a.rounds, &pos) < 5) continue;
    a.P = P;
    if (a.rounds > 64) a.rounds = 64;
    for (int rd = 0; rd < a.rounds; ++rd) { int kd = 0, adv2 = 0; if (sscanf (line + pos, "%d%n", &kd, &adv2) == 1) { a.kinds[rd] = kd; pos += adv2; } }
    size_t nit = (size_t) a.rounds * P * a.nvars;
    a.items = (item_t *) calloc (nit + 1, sizeof (item_t));
    for (size_t k = 0; k < nit; ++k) {
      if (!fgets (line, sizeof line, stdin)) break;
      char *p = strtok (line, " \n");
      a.items[k].mode = atoi (p); p = strtok (NULL, " \n"); a.items[k].n = atoi (p);
      a.items[k].v = (double *) calloc ((size_t) a.items[k].n + 1, sizeof (double));
      for (int j = 0; j < a.items[k].n; ++j) { p = strtok (NULL, " \n"); a.items[k].v[j] = strtod (p, NULL); }
    }
    int mem0 = (sc_memory_status (-1) + sc_memory_status (sc_package_id));
    simmpi_opts o; simmpi_report rep;
    simmpi_opts_default (&o);
    o.nranks = P; o.seed = seed; o.adversary = adv; o.trace_path = tpath;
    int rc = simmpi_run (&o, rank_main, &a, &rep);
    printf ("RUN %d rc=%d steps=%ld\n", run, rc, rep.steps);
    if (rc) { char *t = rep.text; for (char *p = t; *p; ++p) if (*p == '\n') *p = '~'; printf ("REPORT %s\n", t); }
    if (a.outbuf) fputs (a.outbuf, stdout);
    printf ("TRACE-BEGIN\n");
    FILE *f = fopen (tpath, "r");
    if (f) { char buf[65536]; size_t k; while ((k = fread (buf, 1, sizeof buf, f)) > 0) fwrite (buf, 1, k, stdout); fclose (f); }
    printf ("TRACE-END\n");
    printf ("END %d mem=%d\n", run, (sc_memory_status (-1) + sc_memory_status (sc_package_id)) - mem0);
    simmpi_report_free (&rep);
    for (size_t k = 0; k < nit; ++k) free (a.items[k].v);
    free (a.items); free (a.outbuf);
    ++run;
  }
  remove (tpath);
  return 0;
}
