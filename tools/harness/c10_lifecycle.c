/* C10 lifecycle monitor: create ... destroy sequences of library objects of several modules; after each one the status
   of the libsc package and of the default package must be where it started, and sc_finalize_noabort must report 0.
   Output: "LIFE <name> <status difference of the libsc package> <status difference of the default package>".
   This is monitoring of the implementation (the module models C08/C09/C11/C17 carry the proofs), not a proof. */
#include <sc.h>
#include <sc_containers.h>
#include <sc_keyvalue.h>
#include <sc_options.h>
#include <sc_io.h>
#include <sc_refcount.h>
#include <sc_statistics.h>

static unsigned long rs = 12345;
static unsigned rnd (unsigned n) { rs = rs * 6364136223846793005UL + 1442695040888963407UL; return (unsigned) ((rs >> 33) % n); }

static unsigned hfn (const void *v, const void *u) { return (unsigned) (*(const int *) v * 2654435761u); }
static int eqfn (const void *a, const void *b, const void *u) { return *(const int *) a == *(const int *) b; }

static int b0, d0;
static void begin (void) { b0 = sc_memory_status (sc_package_id); d0 = sc_memory_status (-1); }
static void end (const char *name)
{
  printf ("LIFE %s %d %d\n", name, sc_memory_status (sc_package_id) - b0, sc_memory_status (-1) - d0);
  fflush (stdout);              /* a leak report at exit ends the process without flushing stdio */
}

int main (int argc, char **argv)
{
  int round, i;
  if (argc > 1) rs += strtoul (argv[1], NULL, 10);
  sc_init (sc_MPI_COMM_NULL, 0, 0, NULL, SC_LP_SILENT);
  for (round = 0; round < 6; ++round) {
    int n = (int) rnd (300) + (round == 0 ? 0 : 1);
    {                           /* sc_array: owner, views, copies */
      sc_array_t *a, *b, *v;
      begin ();
      a = sc_array_new (sizeof (int));
      for (i = 0; i < n; ++i) *(int *) sc_array_push (a) = i;
      b = sc_array_new_count (sizeof (int), (size_t) rnd (50));
      sc_array_copy (b, a);
      v = sc_array_new_view (a, 0, a->elem_count / 2);
      sc_array_resize (a, a->elem_count);       /* no change */
      sc_array_destroy (v);
      sc_array_resize (b, (size_t) rnd (10));
      sc_array_destroy (b);
      sc_array_destroy_null (&a);
      end ("array");
    }
    {                           /* list with its own and with a shared allocator */
      sc_list_t *l;
      sc_mempool_t *mp;
      static int dummy;
      begin ();
      l = sc_list_new (NULL);
      for (i = 0; i < n; ++i) sc_list_append (l, &dummy);
      for (i = 0; i < n / 2; ++i) sc_list_pop (l);
      sc_list_destroy (l);
      mp = sc_mempool_new (sizeof (sc_link_t));
      l = sc_list_new (mp);
      for (i = 0; i < n; ++i) sc_list_prepend (l, &dummy);
      sc_list_destroy (l);
      sc_mempool_destroy (mp);
      end ("list");
    }
    {                           /* hash table over keys stored in an array */
      sc_hash_t *h;
      int *keys = SC_ALLOC (int, n + 1);
      begin ();
      h = sc_hash_new (hfn, eqfn, NULL, NULL);
      for (i = 0; i < n; ++i) { keys[i] = (int) rnd (200); sc_hash_insert_unique (h, &keys[i], NULL); }
      for (i = 0; i < n; i += 3) sc_hash_remove (h, &keys[i], NULL);
      sc_hash_destroy (h);
      end ("hash");
      SC_FREE (keys);
    }
    {                           /* hash array */
      sc_hash_array_t *ha;
      begin ();
      ha = sc_hash_array_new (sizeof (int), hfn, eqfn, NULL);
      for (i = 0; i < n; ++i) {
        int k = (int) rnd (100);
        size_t pos;
        int *p = (int *) sc_hash_array_insert_unique (ha, &k, &pos);
        if (p != NULL) *p = k;
      }
      sc_hash_array_destroy (ha);
      end ("hash_array");
    }
    {                           /* mempool and mstamp */
      sc_mempool_t *mp;
      sc_mstamp_t ms;
      void **items = SC_ALLOC (void *, n + 1);
      begin ();
      mp = sc_mempool_new (24);
      for (i = 0; i < n; ++i) items[i] = sc_mempool_alloc (mp);
      for (i = 0; i < n; i += 2) sc_mempool_free (mp, items[i]);
      for (i = 0; i < n; i += 2) items[i] = sc_mempool_alloc (mp);
      for (i = 0; i < n; ++i) sc_mempool_free (mp, items[i]);
      sc_mempool_destroy (mp);
      sc_mstamp_init (&ms, 4096, 40);
      for (i = 0; i < n; ++i) sc_mstamp_alloc (&ms);
      sc_mstamp_truncate (&ms);
      for (i = 0; i < n / 3; ++i) sc_mstamp_alloc (&ms);
      sc_mstamp_reset (&ms);
      end ("mempool");
      SC_FREE (items);
    }
    {                           /* recycle array */
      sc_recycle_array_t ra;
      size_t pos[64];
      int m = n > 64 ? 64 : n;
      begin ();
      sc_recycle_array_init (&ra, sizeof (double));
      for (i = 0; i < m; ++i) sc_recycle_array_insert (&ra, &pos[i]);
      for (i = 0; i < m; i += 2) sc_recycle_array_remove (&ra, pos[i]);
      for (i = 0; i < m; i += 2) sc_recycle_array_insert (&ra, &pos[i]);
      sc_recycle_array_reset (&ra);
      end ("recycle_array");
    }
    {                           /* key-value */
      sc_keyvalue_t *kv;
      begin ();
      kv = sc_keyvalue_new ();
      sc_keyvalue_set_int (kv, "a", n);
      sc_keyvalue_set_string (kv, "b", "text");
      sc_keyvalue_set_double (kv, "c", 1.5);
      sc_keyvalue_set_int (kv, "a", n + 1);
      sc_keyvalue_unset (kv, "b");
      sc_keyvalue_destroy (kv);
      end ("keyvalue");
    }
    {                           /* options: success and error path of parse */
      sc_options_t *opt;
      int iv; const char *sv;
      char a0[] = "prog", a1[] = "-i", a2[] = "7", a3[] = "--str", a4[] = "hello", a5[] = "--nosuch";
      char *good[] = { a0, a1, a2, a3, a4, NULL };
      char *bad[] = { a0, a5, NULL };
      begin ();
      opt = sc_options_new ("prog");
      sc_options_add_int (opt, 'i', "int", &iv, 3, "an int");
      sc_options_add_string (opt, 's', "str", &sv, "dflt", "a string");
      sc_options_parse (sc_package_id, SC_LP_SILENT, opt, 5, good);
      sc_options_parse (sc_package_id, SC_LP_SILENT, opt, 2, bad);
      sc_options_destroy (opt);
      end ("options");
    }
    {                           /* buffer sink and source */
      sc_array_t *buf;
      sc_io_sink_t *sink;
      sc_io_source_t *src;
      char data[100], back[100];
      size_t got;
      begin ();
      buf = sc_array_new (1);
      sink = sc_io_sink_new (SC_IO_TYPE_BUFFER, SC_IO_MODE_WRITE, SC_IO_ENCODE_NONE, buf);
      memset (data, 7, sizeof data);
      for (i = 0; i < n % 20; ++i) sc_io_sink_write (sink, data, (size_t) rnd (100));
      sc_io_sink_complete (sink, NULL, NULL);
      sc_io_sink_destroy (sink);
      src = sc_io_source_new (SC_IO_TYPE_BUFFER, SC_IO_ENCODE_NONE, buf);
      sc_io_source_read (src, back, 50, &got);
      sc_io_source_destroy (src);
      sc_array_destroy (buf);
      end ("io_buffer");
    }
    {                           /* reference counter and strings */
      sc_refcount_t *rc;
      char *s;
      begin ();
      rc = sc_refcount_new (sc_package_id);
      sc_refcount_ref (rc);
      sc_refcount_unref (rc);
      if (sc_refcount_unref (rc)) sc_refcount_destroy (rc);
      s = SC_STRDUP ("some text");
      s = SC_REALLOC (s, char, 100);
      s = SC_REALLOC (s, char, 3);
      SC_FREE (s);
      s = SC_REALLOC (NULL, char, 0);
      s = SC_REALLOC (s, char, 0);
      end ("refcount_strings");
    }
    {                           /* codec: encode, decode_info, decode on valid, truncated and garbage text (error paths must
                                   give everything back: the caller destroys only what it created) */
      sc_array_t *data, *code, *out;
      size_t len, k, osz; char fmt;
      begin ();
      data = sc_array_new_count (1, (size_t) n);
      for (i = 0; i < n; ++i) data->array[i] = (char) rnd (256);
      code = sc_array_new (1);
      sc_io_encode (data, code);
      out = sc_array_new (1);
      (void) sc_io_decode_info (code, &osz, &fmt, NULL);
      (void) sc_io_decode (code, out, 0, NULL);
      /* every prefix length 0..8 and a few longer ones, NUL terminated, and the same without terminator */
      for (k = 0; k <= code->elem_count + 1; k = k < 9 ? k + 1 : k + 1 + rnd (40)) {
        sc_array_t *cut = sc_array_new_count (1, k + 1);
        len = k < code->elem_count ? k : code->elem_count;
        if (len) memcpy (cut->array, code->array, len);
        for (i = (int) len; i < (int) k; ++i) cut->array[i] = 'A';
        cut->array[k] = '\0';
        (void) sc_io_decode_info (cut, &osz, &fmt, NULL);
        (void) sc_io_decode (cut, out, round & 1 ? 0 : 5, NULL);
        if (k > 2) { cut->array[rnd ((unsigned) k)] ^= (char) (1 + rnd (255)); (void) sc_io_decode (cut, out, 0, NULL); }
        cut->array[k] = 'B';      /* not terminated */
        (void) sc_io_decode (cut, out, 0, NULL);
        (void) sc_io_decode (cut, NULL, 0, NULL);        /* in place */
        sc_array_destroy (cut);
      }
      sc_array_destroy (out);
      sc_array_destroy (code);
      sc_array_destroy (data);
      end ("codec");
    }
    {                           /* statistics object */
      sc_statistics_t *st;
      begin ();
      st = sc_statistics_new (sc_MPI_COMM_NULL);
      sc_statistics_add (st, "x");
      sc_statistics_add_empty (st, "y");
      sc_statistics_accumulate (st, "x", 1.0);
      sc_statistics_accumulate (st, "y", 2.0);
      sc_statistics_destroy (st);
      end ("statistics");
    }
  }
  printf ("LIFE finalize %d 0\n", sc_finalize_noabort ());
  fflush (stdout);
  return 0;
}
