/* C19 harness: drives the log filter of the freshly built libsc through its public API and records
   every handler invocation.  Custom handlers are installed with sc_set_log_defaults /
   sc_package_register / sc_init; the built-in handler is observed through the streams it prints
   to (memory streams standing in for stdout, the log stream and the trace file).

   usage: c19_harness [casefile [outfile]]      (stdin/stdout by default; under MPI every rank
          reads casefile and writes outfile.<rank>)
   One scenario per line: operations separated by ';'.  Output: one line per scenario, the
   observed events "k,h,s,p,c,q,m" of each operation, operations separated by '|'.
     D s h t     sc_set_log_defaults (s: 0 NULL, 2 log stream; h: 0 NULL, k custom handler k; t)
     R h t       sc_package_register -> event 5,0,0,id,0,0,0
     U id        sc_package_unregister          V id t   sc_package_set_verbosity
     I c h t     sc_init (c: 0 sc_MPI_COMM_NULL, 1 sc_MPI_COMM_WORLD) -> its messages, then event 5,0,0,sc_package_id,0,0,0
     F           sc_finalize_noabort
     T f p       sc_trace_file = (f ? trace stream : NULL); sc_trace_prio = p
     L p c q m   sc_log        Lv p c q m   sc_logf      G p c q m  SC_GEN_LOG     Gf p c q m  SC_GEN_LOGF
     W p b       sweep: sc_log for categories -1..3 x priorities -2..11, message numbers b, b+1, ...
     Wv p b      the same sweep through sc_logf (any package id: sc_logv maps it like sc_log does)
   Before every scenario but the first the library is reset (sc_finalize_noabort, default log settings). */
#include <sc.h>
#include <stdio.h>
#include <stdlib.h>
#include <string.h>
#include <ctype.h>
#include <unistd.h>
#include <signal.h>

#define BUILTIN 99
typedef struct { long k, h, s, p, c, q, m; } ev_t;
static ev_t *evs; static size_t nev, aev;
static FILE *out;

typedef struct { FILE *f; char *buf; size_t len, pos; int id; } cap_t;
static cap_t capS = { NULL, NULL, 0, 0, 1 }, capL = { NULL, NULL, 0, 0, 2 }, capT = { NULL, NULL, 0, 0, 3 };

static void push (long k, long h, long s, long p, long c, long q, long m)
{
  if (nev == aev) { aev = aev ? 2 * aev : 1024; evs = (ev_t *) realloc (evs, aev * sizeof (ev_t)); }
  evs[nev].k = k; evs[nev].h = h; evs[nev].s = s; evs[nev].p = p; evs[nev].c = c; evs[nev].q = q; evs[nev].m = m; nev++;
}

static long msg_id (const char *msg)
{
  if (msg[0] == 'M' && (isdigit ((unsigned char) msg[1]) || msg[1] == '-')) return atol (msg + 1);
  if (!strncmp (msg, "This is", 7)) return -1;
  if (!strncmp (msg, "CPP ", 4)) return -2;
  if (!strncmp (msg, "CPPFLAGS ", 9)) return -3;
  if (!strncmp (msg, "CC ", 3)) return -4;
  if (!strncmp (msg, "CFLAGS ", 7)) return -5;
  if (!strncmp (msg, "LDFLAGS ", 8)) return -6;
  if (!strncmp (msg, "LIBS ", 5)) return -7;
  if (!strncmp (msg, "Invalid package id", 18)) return -8;
  return -99;
}

static void cap_open (cap_t * c)
{
  c->buf = NULL; c->len = 0; c->pos = 0;
  c->f = open_memstream (&c->buf, &c->len);
  if (c->f == NULL) { perror ("open_memstream"); exit (3); }
}

/* parse what the built-in handler printed since the last call: one event per line */
static void cap_drain (cap_t * c, int closed)
{
  if (c->f == NULL && !closed) return;
  if (!closed) fflush (c->f);
  while (c->pos < c->len) {
    char *p = c->buf + c->pos, *e = memchr (p, '\n', c->len - c->pos);
    size_t n = e ? (size_t) (e - p) : c->len - c->pos;
    char line[512];
    long wp = 0, wi = 0, tr = 0;
    char *q;
    if (n >= sizeof line) n = sizeof line - 1;
    memcpy (line, p, n); line[n] = 0;
    c->pos += (e ? (size_t) (e - p) + 1 : c->len - c->pos);
    q = line;
    if (q[0] == '[') {
      char *r = strstr (q, "] ");
      if (r != NULL) {
        char *t = q + 1;
        *r = 0;
        while (*t) {
          char *u = t; int num = 1;
          while (*u && *u != ' ') { if (!(isdigit ((unsigned char) *u) || (u == t && *u == '-'))) num = 0; u++; }
          if (u > t) { if (num) wi = 1; else wp = 1; }
          t = *u ? u + 1 : u;
        }
        q = r + 2;
        while (*q == ' ') q++;
      }
    }
    { /* "file:line " prefix of TRACE messages */
      char *col = strchr (q, ':'), *sp = strchr (q, ' ');
      if (col != NULL && sp != NULL && col < sp && isdigit ((unsigned char) col[1])) {
        char *d = col + 1; while (isdigit ((unsigned char) *d)) d++;
        if (d == sp) { tr = 1; q = sp + 1; }
      }
    }
    push (0, BUILTIN, c->id, wp, wi, tr, msg_id (q));
  }
}

/* libsc reports a fatal condition with printf (captured above) and abort (): show that text on stderr,
   so that the check can say where the process ended */
static void on_abort (int sig)
{
  static const char pre[] = "c19_harness: abort (); last text on stdout: ";
  (void) sig;
  signal (SIGABRT, SIG_DFL);
  if (capS.f != NULL) {
    fflush (capS.f);
    if (capS.buf != NULL && capS.len > capS.pos) {
      if (write (2, pre, sizeof pre - 1) < 0 || write (2, capS.buf + capS.pos, capS.len - capS.pos) < 0) return;
    }
  }
}

static void drain_all (void) { cap_drain (&capT, 0); cap_drain (&capL, 0); cap_drain (&capS, 0); }

static long stream_id (FILE * f)
{
  if (f == stdout) return 1;
  if (f == capL.f) return 2;
  if (f == capT.f && f != NULL) return 3;
  return 9;
}

static void custom (int hid, FILE * s, int pkg, int cat, int prio, const char *msg)
{
  drain_all ();
  push (0, hid, stream_id (s), pkg, cat, prio, msg_id (msg));
}
#define HANDLER(k) static void h##k (FILE * s, const char *fn, int ln, int pkg, int cat, int prio, const char *msg) \
  { custom (k, s, pkg, cat, prio, msg); }
HANDLER (1) HANDLER (2) HANDLER (3) HANDLER (4) HANDLER (5)
static sc_log_handler_t handler_of (long k)
{
  switch (k) { case 0: return NULL; case 1: return h1; case 2: return h2; case 3: return h3; case 4: return h4; default: return h5; }
}

static char names[4096][12];
static int nnames;

static void flush_group (int first)
{
  size_t i;
  drain_all ();
  if (!first) fputc ('|', out);
  for (i = 0; i < nev; i++)
    fprintf (out, "%s%ld,%ld,%ld,%ld,%ld,%ld,%ld", i ? " " : "", evs[i].k, evs[i].h, evs[i].s, evs[i].p, evs[i].c, evs[i].q, evs[i].m);
  nev = 0;
}

static void do_log (int p, int c, int q, long m)
{
  char msg[40];
  snprintf (msg, sizeof msg, "M%ld\n", m);
  sc_log ("fn.c", 7, p, c, q, msg);
}

static void reset_library (void)
{
  drain_all (); nev = 0;
  if (sc_trace_file != NULL) sc_trace_file = NULL;
  sc_finalize_noabort ();
  sc_set_log_defaults (NULL, NULL, SC_LP_DEFAULT);
  sc_trace_prio = SC_LP_STATISTICS;
  /* fresh capture streams */
  if (capS.f) { fclose (capS.f); free (capS.buf); }
  if (capL.f) { fclose (capL.f); free (capL.buf); }
  if (capT.f) { fclose (capT.f); free (capT.buf); }
  cap_open (&capS); cap_open (&capL); cap_open (&capT);
  stdout = capS.f;
  nnames = 0;
}

static void run_scenario (char *line)
{
  char *save1 = NULL, *opx;
  int first = 1;
  for (opx = strtok_r (line, ";", &save1); opx != NULL; opx = strtok_r (NULL, ";", &save1)) {
    char name[8] = "";
    long a[5] = { 0, 0, 0, 0, 0 };
    int n = sscanf (opx, " %7s %ld %ld %ld %ld %ld", name, &a[0], &a[1], &a[2], &a[3], &a[4]);
    if (n < 1) continue;
    if (!strcmp (name, "D")) sc_set_log_defaults (a[0] == 2 ? capL.f : NULL, handler_of (a[1]), (int) a[2]);
    else if (!strcmp (name, "R")) {
      int id;
      snprintf (names[nnames], sizeof names[0], "pk%d", nnames);
      id = sc_package_register (handler_of (a[0]), (int) a[1], names[nnames], "full name");
      nnames++;
      drain_all ();
      push (5, 0, 0, id, 0, 0, 0);
    }
    else if (!strcmp (name, "U")) sc_package_unregister ((int) a[0]);
    else if (!strcmp (name, "V")) sc_package_set_verbosity ((int) a[0], (int) a[1]);
    else if (!strcmp (name, "I")) {
      sc_init (a[0] ? sc_MPI_COMM_WORLD : sc_MPI_COMM_NULL, 0, 0, handler_of (a[1]), (int) a[2]);
      drain_all ();
      push (5, 0, 0, sc_package_id, 0, 0, 0);
    }
    else if (!strcmp (name, "F")) {
      int had = (sc_trace_file != NULL && sc_trace_file == capT.f);
      drain_all ();
      sc_finalize_noabort ();
      if (had && sc_trace_file == NULL) {      /* libsc closed the trace stream */
        capT.f = NULL; cap_drain (&capT, 1); free (capT.buf); cap_open (&capT);
      }
    }
    else if (!strcmp (name, "T")) { sc_trace_file = a[0] ? capT.f : NULL; sc_trace_prio = (int) a[1]; }
    else if (!strcmp (name, "L")) do_log ((int) a[0], (int) a[1], (int) a[2], a[3]);
    else if (!strcmp (name, "Lv")) sc_logf ("fn.c", 7, (int) a[0], (int) a[1], (int) a[2], "M%ld\n", a[3]);
    else if (!strcmp (name, "G")) { char msg[40]; snprintf (msg, sizeof msg, "M%ld\n", a[3]); SC_GEN_LOG ((int) a[0], (int) a[1], (int) a[2], msg); }
    else if (!strcmp (name, "Gf")) SC_GEN_LOGF ((int) a[0], (int) a[1], (int) a[2], "M%ld\n", a[3]);
    else if (!strcmp (name, "W")) {
      int c, q; long m = a[1];
      for (c = -1; c <= 3; c++) for (q = -2; q <= 11; q++) do_log ((int) a[0], c, q, m++);
    }
    else if (!strcmp (name, "Wv")) {
      int c, q; long m = a[1];
      for (c = -1; c <= 3; c++) for (q = -2; q <= 11; q++) sc_logf ("fn.c", 7, (int) a[0], c, q, "M%ld\n", m++);
    }
    else { fprintf (stderr, "c19_harness: unknown operation '%s'\n", name); exit (2); }
    flush_group (first);
    first = 0;
  }
  fputc ('\n', out);
  fflush (out);                 /* a crash in a later scenario must not lose this line */
}

int main (int argc, char **argv)
{
  FILE *in = stdin;
  char *line = NULL; size_t cap = 0;
  int rank = 0, nscen = 0;
#ifdef SC_ENABLE_MPI
  if (sc_MPI_Init (&argc, &argv) != sc_MPI_SUCCESS) return 4;
  sc_MPI_Comm_rank (sc_MPI_COMM_WORLD, &rank);
#endif
  unsetenv ("SC_TRACE_FILE");
  signal (SIGABRT, on_abort);
  if (argc > 1) { in = fopen (argv[1], "r"); if (in == NULL) { perror (argv[1]); return 2; } }
  if (argc > 2) {
    char path[4096];
    snprintf (path, sizeof path, "%s.%d", argv[2], rank);
    out = fopen (path, "w");
  }
  else out = fdopen (dup (1), "w");
  if (out == NULL) { perror ("output"); return 2; }
  cap_open (&capS); cap_open (&capL); cap_open (&capT);
  stdout = capS.f;               /* glibc: stdout is an assignable FILE * */
  while (getline (&line, &cap, in) > 0) {
    size_t l = strlen (line);
    while (l && (line[l - 1] == '\n' || line[l - 1] == '\r')) line[--l] = 0;
    if (l == 0) continue;
    if (nscen++) reset_library ();
    run_scenario (line);
  }
  fflush (out);
  reset_library ();
  fclose (out);
#ifdef SC_ENABLE_MPI
  sc_MPI_Finalize ();
#endif
  return 0;
}
