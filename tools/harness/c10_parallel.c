/* C10 parallel lifecycle harness: the parallel algorithms of the real libsc on the simulated MPI, with the allocation
   ledger read at barriers before and after EVERY library call.

   The simulated ranks are coroutines of one process: libsc's counters are shared by all ranks.  Protocol of one run
   (case) with operations op_0 .. op_{n-1}, on every rank:
       for k = 0 .. n:   Barrier;  reading R_k := (sc_memory_status (sc_package_id), sc_memory_status (-1));  Barrier;
                         if k < n: create the inputs of op_k, call the library, look at the outputs, destroy outputs and inputs
   Between the two barriers around a reading no rank runs anything but the reading itself, so all ranks read the same
   numbers, and R_{k+1} - R_k is what op_k left behind on all ranks together after every caller destroyed what it held:
   the ledger of C10 demands 0.  The harness prints the readings; the verdict is formed by checks/C10.py.

   Attribution of a leak to a rank: malloc/free/realloc are wrapped at link time (-Wl,--wrap=...).  A block obtained while
   a rank is inside op_k is remembered with (rank, k, size); blocks that survive the run and carry the two bookkeeping
   words of sc_malloc_aligned (((char **) ptr)[-1] = raw block, ((size_t *) ptr)[-2] = size, raw block of
   16 + size + 8 bytes: the layout proved in coq/C10) are printed as LEAK lines.  This is diagnosis only; the verdict
   uses the counters.

   stdin:  CASE <P> <seed> <adversary> <ppn> <noncontig> <nops>      then nops operations, one line each:
     N <type> <api> <paymode> <paysize> <sorted> <sep_senders> <sep_payload> <ntop> <nint> <nbot> <nranges> <threshold> <superseed> <stats>
         followed by P lines  <n> <rcv_1> .. <rcv_n> [<len_1> .. <len_n> for paymode 2]     (receivers of rank 0, 1, ..)
         type 0..8 allgather binary nary pex pcx rsx nbx ranges superset; api 0 notify object (sc_notify_payload / payloadv),
         1 sc_notify, 2 sc_notify_allgather, 3 sc_notify_ext, 4 sc_notify_nary; paymode 0 none 1 fixed items 2 variable slices;
         stats 1: an sc_statistics_t is attached to the notify object (sc_notify_set_stats), computed and destroyed afterwards
     G <blocksize> <dataseed> <mode>            mode 0 sc_allgather, 1 sc_allgather_recursive, 2 sc_allgather_alltoall (whole world)
     R <op> <dtype> <count> <target|-1> <dataseed>     op 0 MIN 1 MAX 2 SUM 3 custom; target -1: sc_allreduce[_custom]
     S <size> <cmpid> <dataseed> <keyrange> <n_0> .. <n_{P-1}>       sc_psort
     T <nvars> <kind> <dataseed> <mode>         mode 0: sc_statinfo_t array (set1 / accumulate / copied names) + sc_stats_compute (kind 0) or
                                                sc_stats_compute1 (kind 1); mode 1: sc_statistics_t object new/add/accumulate/compute/destroy
     M <flavour> <dtype> <count> <ppn_attach> <dup> <dataseed>       sc_shmem: dup, attach, set_type, malloc, allgather, prefix, memcpy, write, free, detach
     A <num_ranges> <package -1|0> <dataseed> <density> <global>     sc_ranges_adaptive (+ sc_ranges_decode when global = 1)
   stdout per case:   RUN <i> rc=<simmpi code> steps=<n> P=<P> nops=<n>
                      REPORT <text>                     when the run did not end normally
                      R <i> <k> <lib> <def> <agree>     reading k as seen by rank 0; agree = 1 when all ranks read the same
                      LEAK <i> <k> rank=<r> size=<s>    a surviving libsc block obtained by rank r inside op_k
                      BAD <i> <k> rank=<r> <text>       a result of op_k that is wrong on its face (sanity only, e.g. number of senders)
                      END <i>
   at the end:        FINAL finalize=<sc_finalize_noabort ()> lib=<status before finalize> def=<..> */
#include <sc.h>
#include <sc_allgather.h>
#include <sc_reduce.h>
#include <sc_notify.h>
#include <sc_sort.h>
#include <sc_statistics.h>
#include <sc_shmem.h>
#include <sc_ranges.h>
#include <simmpi.h>
#include <signal.h>
#include <unistd.h>
#include <inttypes.h>

#define MAXP 64
#define RUN_SECONDS 40
static void on_alarm (int sig) { static const char m[] = "\nHANG\n"; (void) sig; if (write (1, m, sizeof m - 1) < 0) { } _exit (3); }

/* ------------------------------------------------------------------ block tracking (diagnosis only) */
typedef struct { void *p; size_t n; int rank, op; } blk_t;
static blk_t *g_blk;
static size_t g_nblk, g_cblk;
static int g_incall[MAXP];       /* op index + 1 while the rank is inside an operation */
static int g_busy;               /* guards against recursion through the table's own realloc */

void *__real_malloc (size_t);
void __real_free (void *);
void *__real_realloc (void *, size_t);

static void blk_forget (void *p)
{
  for (size_t i = g_nblk; i > 0; --i) if (g_blk[i - 1].p == p) { g_blk[i - 1] = g_blk[--g_nblk]; return; }
}

void *__wrap_malloc (size_t n)
{
  void *p = __real_malloc (n);
  int r;
  if (p != NULL && !g_busy && (r = simmpi_current_rank ()) >= 0 && r < MAXP && g_incall[r]) {
    g_busy = 1;
    if (g_nblk == g_cblk) { g_cblk = 2 * g_cblk + 256; g_blk = (blk_t *) __real_realloc (g_blk, g_cblk * sizeof (blk_t)); }
    g_blk[g_nblk].p = p; g_blk[g_nblk].n = n; g_blk[g_nblk].rank = r; g_blk[g_nblk].op = g_incall[r] - 1; ++g_nblk;
    g_busy = 0;
  }
  return p;
}

void __wrap_free (void *p)
{
  if (p != NULL && g_nblk) blk_forget (p);
  __real_free (p);
}

void *__wrap_realloc (void *p, size_t n)
{
  if (p != NULL && g_nblk) blk_forget (p);
  return __real_realloc (p, n);
}

/* does the raw block carry the bookkeeping words of sc_malloc_aligned (SC_MEMALIGN_BYTES = 8)? */
__attribute__ ((no_sanitize ("address", "undefined")))
static long blk_is_libsc (const blk_t * b)
{
  uintptr_t raw = (uintptr_t) b->p, u = (raw + 16 + 7) & ~(uintptr_t) 7;
  if (b->n < 24 || u + (b->n - 24) >= raw + b->n) return -1;
  if (((uintptr_t *) u)[-1] != raw || ((size_t *) u)[-2] != b->n - 24) return -1;
  return (long) (b->n - 24);
}

/* ------------------------------------------------------------------ operations */
typedef struct { int n; int *rcv; int *len; } item_t;
typedef struct
{
  char kind; char *line;
  /* N */ int type, api, paymode, paysize, sorted, sep_senders, sep_payload, ntop, nint, nbot, nranges, stats; long threshold; unsigned superseed; item_t *items;
  /* G R S T M A */ int a[8]; unsigned dseed; int counts[MAXP];
} op_t;
typedef struct { int P, nops, id; op_t *ops; int *rlib, *rdef; char *outbuf; size_t outlen, outcap; int curop[MAXP]; } case_t;
static case_t *G;

static void emitf (case_t * c, const char *fmt, ...)
{
  char line[1024];
  va_list ap;
  va_start (ap, fmt);
  int l = vsnprintf (line, sizeof line, fmt, ap);
  va_end (ap);
  if (l < 0) return;
  if ((size_t) l >= sizeof line) l = (int) sizeof line - 1;
  if (c->outlen + (size_t) l + 1 > c->outcap) { c->outcap = 2 * (c->outcap + (size_t) l + 1); c->outbuf = (char *) realloc (c->outbuf, c->outcap); }
  memcpy (c->outbuf + c->outlen, line, (size_t) l); c->outlen += (size_t) l; c->outbuf[c->outlen] = 0;
}

static unsigned mix (unsigned a, unsigned b, unsigned c)
{
  unsigned x = a * 2654435761u + b * 40503u + c * 9176u + 12345u;
  x ^= x >> 13; x *= 0x5bd1e995u; x ^= x >> 15; x *= 0x85ebca6bu; x ^= x >> 16;
  return x;
}

/* ---- notify */
static int sup (op_t * o, int p, int q)
{
  unsigned x = o->superseed + (unsigned) p * 104729u + (unsigned) q * 1299709u;
  x ^= x >> 11; x *= 0x9e3779b1u; x ^= x >> 14;
  return (x % 4u) == 0;
}
static int listed (item_t * it, int q) { for (int i = 0; i < it->n; ++i) if (it->rcv[i] == q) return 1; return 0; }

static void compute_superset (sc_array_t * receivers, sc_array_t * extra_receivers, sc_array_t * super_senders, sc_notify_t * notify, void *ctx)
{
  case_t *c = G;
  int me = simmpi_current_rank ();
  op_t *o = &c->ops[c->curop[me]];
  item_t *mine = &o->items[me];
  for (int q = 0; q < c->P; ++q) {
    if (!listed (mine, q) && sup (o, me, q)) *(int *) sc_array_push (extra_receivers) = q;
    if (listed (&o->items[q], me) || sup (o, q, me)) *(int *) sc_array_push (super_senders) = q;
  }
}

static void op_notify (case_t * c, int k, int rank, int size)
{
  op_t *o = &c->ops[k];
  item_t *it = &o->items[rank];
  sc_notify_t *notify = NULL;
  sc_statistics_t *stats = NULL;
  size_t saved_thr = sc_notify_eager_threshold_default;
  int expect = 0;
  for (int q = 0; q < size; ++q) expect += listed (&o->items[q], rank);
  if (o->api == 0) {
    sc_notify_eager_threshold_default = (size_t) o->threshold;
    notify = sc_notify_new (sc_MPI_COMM_WORLD);
    sc_notify_set_type (notify, (sc_notify_type_t) o->type);
    if (o->type == SC_NOTIFY_NARY) sc_notify_nary_set_widths (notify, o->ntop, o->nint, o->nbot);
    if (o->type == SC_NOTIFY_RANGES) sc_notify_ranges_set_num_ranges (notify, o->nranges);
    if (o->type == SC_NOTIFY_SUPERSET) sc_notify_superset_set_callback (notify, compute_superset, NULL);
    if (o->stats) { stats = sc_statistics_new (sc_MPI_COMM_WORLD); sc_notify_set_stats (notify, stats); }
  }
  sc_array_t *receivers = sc_array_new_count (sizeof (int), (size_t) it->n);
  sc_array_t *senders = o->sep_senders ? sc_array_new (sizeof (int)) : NULL;
  sc_array_t *in_pay = NULL, *out_pay = NULL, *in_off = NULL, *out_off = NULL;
  if (it->n > 0) memcpy (receivers->array, it->rcv, (size_t) it->n * sizeof (int));
  if (o->paymode == 1) {
    in_pay = sc_array_new_count ((size_t) o->paysize, (size_t) it->n);
    for (size_t b = 0; b < (size_t) it->n * (size_t) o->paysize; ++b) in_pay->array[b] = (char) (mix (o->superseed, (unsigned) rank, (unsigned) b) & 0xff);
    if (o->sep_payload) out_pay = sc_array_new ((size_t) o->paysize);
  }
  else if (o->paymode == 2) {
    int tot = 0;
    in_off = sc_array_new_count (sizeof (int), (size_t) it->n + 1);
    for (int i = 0; i < it->n; ++i) { ((int *) in_off->array)[i] = tot; tot += it->len[i]; }
    ((int *) in_off->array)[it->n] = tot;
    in_pay = sc_array_new_count ((size_t) o->paysize, (size_t) tot);
    for (size_t b = 0; b < (size_t) tot * (size_t) o->paysize; ++b) in_pay->array[b] = (char) (mix (o->superseed, (unsigned) rank, (unsigned) b) & 0xff);
    if (o->sep_payload) { out_pay = sc_array_new ((size_t) o->paysize); out_off = sc_array_new (sizeof (int)); }
  }
  int ns = -1;
  if (o->api == 0) {
    if (o->paymode == 2) sc_notify_payloadv (receivers, senders, in_pay, out_pay, in_off, out_off, o->sorted, notify);
    else sc_notify_payload (receivers, senders, in_pay, out_pay, o->sorted, notify);
    ns = (int) (senders ? senders : receivers)->elem_count;
  }
  else if (o->api == 1 || o->api == 2) {
    int *sn = SC_ALLOC (int, size + 1);
    if (o->api == 1) sc_notify ((int *) receivers->array, it->n, sn, &ns, sc_MPI_COMM_WORLD);
    else sc_notify_allgather ((int *) receivers->array, it->n, sn, &ns, sc_MPI_COMM_WORLD);
    SC_FREE (sn);
  }
  else {
    if (o->api == 3) sc_notify_ext (receivers, senders, in_pay, out_pay, sc_MPI_COMM_WORLD);
    else sc_notify_nary (receivers, senders, in_pay, out_pay, sc_MPI_COMM_WORLD);
    ns = (int) (senders ? senders : receivers)->elem_count;
  }
  if (ns != expect) emitf (c, "BAD %d %d rank=%d number of senders %d, the pattern has %d\n", c->id, k, rank, ns, expect);
  sc_array_destroy (receivers);
  if (senders) sc_array_destroy (senders);
  if (in_pay) sc_array_destroy (in_pay);
  if (out_pay) sc_array_destroy (out_pay);
  if (in_off) sc_array_destroy (in_off);
  if (out_off) sc_array_destroy (out_off);
  if (stats) { sc_statistics_compute (stats); sc_statistics_destroy (stats); }
  if (notify) sc_notify_destroy (notify);
  sc_notify_eager_threshold_default = saved_thr;
}

/* ---- allgather */
static void op_allgather (case_t * c, int k, int rank, int size)
{
  op_t *o = &c->ops[k];
  int bs = o->a[0], mode = o->a[1];
  unsigned char *send = SC_ALLOC (unsigned char, bs + 1);
  unsigned char *recv = SC_ALLOC (unsigned char, (size_t) bs * size + 1);
  memset (recv, 0xEE, (size_t) bs * size + 1);
  for (int j = 0; j < bs; ++j) send[j] = (unsigned char) (mix (o->dseed, (unsigned) rank, (unsigned) j) & 0xff);
  if (mode == 0) {
    static const int tsz[4] = { 1, 2, 4, 8 };
    sc_MPI_Datatype ty[4];
    int is = (int) (o->dseed % 4), ir = (int) ((o->dseed / 4) % 4);
    ty[0] = sc_MPI_BYTE; ty[1] = sc_MPI_SHORT; ty[2] = sc_MPI_INT; ty[3] = sc_MPI_DOUBLE;
    while (bs % tsz[is] != 0) --is;
    while (bs % tsz[ir] != 0) --ir;
    sc_allgather (send, bs / tsz[is], ty[is], recv, bs / tsz[ir], ty[ir], sc_MPI_COMM_WORLD);
  }
  else {
    memcpy (recv + (size_t) rank * bs, send, (size_t) bs);
    if (mode == 1) sc_allgather_recursive (sc_MPI_COMM_WORLD, (char *) recv, bs, size, rank, rank);
    else sc_allgather_alltoall (sc_MPI_COMM_WORLD, (char *) recv, bs, size, rank, rank);
  }
  for (int q = 0; q < size; ++q) for (int j = 0; j < bs; ++j)
    if (recv[(size_t) q * bs + j] != (unsigned char) (mix (o->dseed, (unsigned) q, (unsigned) j) & 0xff)) { emitf (c, "BAD %d %d rank=%d block of rank %d differs\n", c->id, k, rank, q); q = size; break; }
  SC_FREE (send);
  SC_FREE (recv);
}

/* ---- reduce */
static void comp (void *sv, void *rv, int n, sc_MPI_Datatype t)
{
  unsigned *s = (unsigned *) sv, *r = (unsigned *) rv;
  for (int i = 0; i + 1 < n; i += 2) { unsigned a = r[i], b = r[i + 1], cc = s[i], d = s[i + 1]; r[i] = a * cc; r[i + 1] = a * d + b; }
}

static void op_reduce (case_t * c, int k, int rank, int size)
{
  static const size_t szs[] = { 4, 4, 8, 4, 8, 1, 2, 8, 8 };
  sc_MPI_Datatype dts[] = { sc_MPI_INT, sc_MPI_UNSIGNED, sc_MPI_LONG, sc_MPI_FLOAT, sc_MPI_DOUBLE, sc_MPI_CHAR, sc_MPI_SHORT, sc_MPI_UNSIGNED_LONG, sc_MPI_LONG_LONG_INT };
  sc_MPI_Op ops[] = { sc_MPI_MIN, sc_MPI_MAX, sc_MPI_SUM };
  op_t *o = &c->ops[k];
  int op = o->a[0], dt = o->a[1], count = o->a[2], target = o->a[3];
  if (op == 3) dt = 1;
  size_t esz = szs[dt], bytes = esz * (size_t) count;
  unsigned char *in = SC_ALLOC (unsigned char, bytes + 8), *out = SC_ALLOC (unsigned char, bytes + 8);
  memset (out, 0xEE, bytes + 8);
  for (int j = 0; j < count; ++j) {
    unsigned v = mix (o->dseed, (unsigned) rank, (unsigned) j) % 1000u;      /* small: no signed overflow in SUM */
    unsigned char *e = in + (size_t) j * esz;
    switch (dt) {
    case 0: { int x = (int) v - 500; memcpy (e, &x, 4); break; }
    case 1: { unsigned x = op == 3 ? mix (o->dseed, (unsigned) rank, (unsigned) j + 77u) : v; memcpy (e, &x, 4); break; }
    case 2: { long x = (long) v - 500; memcpy (e, &x, 8); break; }
    case 3: { float x = 0.25f * (float) v; memcpy (e, &x, 4); break; }
    case 4: { double x = 0.125 * (double) v - 60.; memcpy (e, &x, 8); break; }
    case 5: { char x = (char) (v % 12u); memcpy (e, &x, 1); break; }
    case 6: { short x = (short) ((int) v - 500); memcpy (e, &x, 2); break; }
    case 7: { unsigned long x = v; memcpy (e, &x, 8); break; }
    default: { long long x = (long long) v - 500; memcpy (e, &x, 8); break; }
    }
  }
  if (op < 3) {
    if (target < 0) sc_allreduce (in, out, count, dts[dt], ops[op], sc_MPI_COMM_WORLD);
    else sc_reduce (in, out, count, dts[dt], ops[op], target, sc_MPI_COMM_WORLD);
  }
  else {
    if (target < 0) sc_allreduce_custom (in, out, count, dts[dt], comp, sc_MPI_COMM_WORLD);
    else sc_reduce_custom (in, out, count, dts[dt], comp, target, sc_MPI_COMM_WORLD);
  }
  SC_FREE (in);
  SC_FREE (out);
}

/* ---- psort */
static size_t g_size;
static unsigned ukey (const void *p) { unsigned kk; memcpy (&kk, p, 4); return kk; }
static int cmp_u (const void *a, const void *b) { unsigned x = ukey (a), y = ukey (b); return x < y ? -1 : x > y; }
static int cmp_s (const void *a, const void *b) { int x = (int) ukey (a), y = (int) ukey (b); return x < y ? -1 : x > y; }
static int cmp_d (const void *a, const void *b) { unsigned x = ukey (a), y = ukey (b); return x > y ? -1 : x < y; }
static int cmp_m (const void *a, const void *b) { unsigned x = ukey (a) % 5, y = ukey (b) % 5; return (int) x - (int) y; }
static int cmp_b (const void *a, const void *b) { return memcmp (a, b, g_size); }
static int (*cmps[]) (const void *, const void *) = { cmp_u, cmp_s, cmp_d, cmp_m, cmp_b };

static void op_psort (case_t * c, int k, int rank, int size)
{
  op_t *o = &c->ops[k];
  int esz = o->a[0], cmpid = o->a[1];
  unsigned keyrange = (unsigned) o->a[2];
  size_t *nmemb = SC_ALLOC (size_t, size);
  unsigned off = 0;
  for (int q = 0; q < size; ++q) { nmemb[q] = (size_t) o->counts[q]; if (q < rank) off += (unsigned) o->counts[q]; }
  int n = o->counts[rank];
  unsigned char *base = SC_ALLOC (unsigned char, (size_t) n * esz + 1);
  for (int i = 0; i < n; ++i) {
    unsigned char *e = base + (size_t) i * esz;
    unsigned key = mix (o->dseed, off + (unsigned) i, 0) % keyrange;
    if (cmpid == 1) key = (unsigned) ((int) key - (int) (keyrange / 2));
    memcpy (e, &key, 4);
    for (int j = 4; j < esz; ++j) e[j] = (unsigned char) (mix (o->dseed, off + (unsigned) i, (unsigned) j) & 0xff);
  }
  g_size = (size_t) esz;          /* the same for all ranks of the operation */
  sc_psort (sc_MPI_COMM_WORLD, base, nmemb, (size_t) esz, cmps[cmpid]);
  for (int i = 0; i + 1 < n; ++i) if (cmps[cmpid] (base + (size_t) i * esz, base + (size_t) (i + 1) * esz) > 0) { emitf (c, "BAD %d %d rank=%d local part not sorted at %d\n", c->id, k, rank, i); break; }
  SC_FREE (base);
  SC_FREE (nmemb);
}

/* ---- statistics */
static void op_stats (case_t * c, int k, int rank, int size)
{
  op_t *o = &c->ops[k];
  int nvars = o->a[0], kind = o->a[1], mode = o->a[2];
  if (mode == 0) {
    sc_statinfo_t st[8];
    memset (st, 0, sizeof st);
    for (int i = 0; i < nvars; ++i) {
      unsigned h = mix (o->dseed, (unsigned) rank, (unsigned) i);
      int how = (int) (mix (o->dseed, 991u, (unsigned) i) % 4u);      /* the same on all ranks: names and groups must agree */
      int cnt = (int) (h % 4u);
      if (how == 0) sc_stats_set1 (&st[i], 1. + (double) (h % 97u), "a");
      else if (how == 1) { sc_stats_init (&st[i], "b"); for (int j = 0; j < cnt; ++j) sc_stats_accumulate (&st[i], 0.5 * (double) (mix (h, (unsigned) j, 3u) % 41u)); }
      else if (how == 2) { sc_stats_init_ext (&st[i], "copied name", 1, i, 2); for (int j = 0; j < cnt; ++j) sc_stats_accumulate (&st[i], (double) (mix (h, (unsigned) j, 5u) % 9u)); }
      else sc_stats_set1_ext (&st[i], 2. + (double) (h % 5u), "another copied name", 1, i, 1);
    }
    if (kind) sc_stats_compute1 (sc_MPI_COMM_WORLD, nvars, st);
    else sc_stats_compute (sc_MPI_COMM_WORLD, nvars, st);
    for (int i = 0; i < nvars; ++i) if (st[i].variable_owned != NULL) sc_stats_reset (&st[i], 1);
  }
  else {
    char name[32];
    sc_statistics_t *stats = sc_statistics_new (sc_MPI_COMM_WORLD);
    for (int i = 0; i < nvars; ++i) {
      unsigned h = mix (o->dseed, (unsigned) rank, (unsigned) i);
      snprintf (name, sizeof name, "var%d", i);
      if (mix (o->dseed, 17u, (unsigned) i) % 2u) sc_statistics_add (stats, name);
      else sc_statistics_add_empty (stats, name);
      if (!sc_statistics_has (stats, name)) emitf (c, "BAD %d %d rank=%d variable %s not found after add\n", c->id, k, rank, name);
      for (int j = 0; j < (int) (h % 3u) + 1; ++j) sc_statistics_accumulate (stats, name, (double) (mix (h, (unsigned) j, 1u) % 50u));
    }
    sc_statistics_compute (stats);
    if (kind) sc_statistics_print (stats, sc_package_id, SC_LP_DEBUG, 1, 1);
    sc_statistics_destroy (stats);
  }
}

/* ---- shared memory arrays */
static void op_shmem (case_t * c, int k, int rank, int size)
{
  static const int tsize[8] = { 1, 2, 2, 4, 4, 8, 8, 8 };
  sc_MPI_Datatype tys[8] = { sc_MPI_CHAR, sc_MPI_SHORT, sc_MPI_UNSIGNED_SHORT, sc_MPI_INT, sc_MPI_UNSIGNED, sc_MPI_LONG, sc_MPI_UNSIGNED_LONG, sc_MPI_LONG_LONG_INT };
  op_t *o = &c->ops[k];
  int flavour = o->a[0], dtype = o->a[1], cnt = o->a[2], ppn_attach = o->a[3], dup = o->a[4], mpiret;
  const int ts = tsize[dtype];
  const size_t nA = (size_t) size * cnt * ts;
  sc_MPI_Comm comm, ocomm;
  char *mine = SC_ALLOC (char, (size_t) cnt * ts + 1);
  for (int j = 0; j < cnt; ++j) {       /* small items: the prefix sums of the signed types do not overflow (little endian) */
    uint64_t x = mix (o->dseed, (unsigned) rank, (unsigned) j) % (ts == 1 ? 12u : 1000u);
    memcpy (mine + (size_t) j * ts, &x, (size_t) ts);
  }
  mpiret = sc_MPI_Comm_dup (sc_MPI_COMM_WORLD, &comm); SC_CHECK_MPI (mpiret);
  if (ppn_attach >= 0) sc_mpi_comm_attach_node_comms (comm, ppn_attach);
  sc_shmem_set_type (comm, (sc_shmem_type_t) flavour);
  ocomm = comm;
  if (dup) { mpiret = sc_MPI_Comm_dup (ocomm, &comm); SC_CHECK_MPI (mpiret); }
  char *A = (char *) sc_shmem_malloc (sc_package_id, (size_t) ts, (size_t) size * cnt, comm);
  sc_shmem_allgather (mine, cnt, tys[dtype], A, cnt, tys[dtype], comm);
  char *B = (char *) sc_shmem_malloc (-1, (size_t) ts, (size_t) (size + 1) * cnt, comm);
  sc_shmem_prefix (mine, B, cnt, tys[dtype], sc_MPI_SUM, comm);
  char *C = (char *) sc_shmem_malloc (sc_package_id, (size_t) ts, (size_t) size * cnt, comm);
  sc_shmem_memcpy (C, A, nA, comm);
  mpiret = sc_MPI_Barrier (comm); SC_CHECK_MPI (mpiret);
  if (sc_shmem_write_start (C, comm)) memset (C, rank, nA);
  sc_shmem_write_end (C, comm);
  sc_shmem_free (sc_package_id, C, comm);
  sc_shmem_free (-1, B, comm);
  sc_shmem_free (sc_package_id, A, comm);
  if (dup) { mpiret = sc_MPI_Comm_free (&comm); SC_CHECK_MPI (mpiret); comm = ocomm; }
  if (ppn_attach >= 0) sc_mpi_comm_detach_node_comms (comm);      /* detach what was attached (a detach in a process that never attached anything is an MPI error: invalid keyval) */
  mpiret = sc_MPI_Comm_free (&comm); SC_CHECK_MPI (mpiret);
  SC_FREE (mine);
}

/* ---- ranges */
static void op_ranges (case_t * c, int k, int rank, int size)
{
  op_t *o = &c->ops[k];
  int num_ranges = o->a[0], pkg = o->a[1] ? sc_package_id : -1, dens = o->a[2], wantglobal = o->a[3];
  int *procs = SC_ALLOC (int, size + 1), *ranges = SC_ALLOC (int, 2 * num_ranges + 2), *global = NULL;
  int first = size, last = -1, npeers = 0;
  for (int q = 0; q < size; ++q) {
    procs[q] = (int) (mix (o->dseed, (unsigned) rank, (unsigned) q) % 100u) < dens ? 1 + (int) (mix (o->dseed, 5u, (unsigned) q) % 3u) : 0;
    if (procs[q] && q != rank) { if (first == size) first = q; last = q; ++npeers; }
  }
  int io1 = first, io2 = last;
  int nwin = sc_ranges_adaptive (pkg, sc_MPI_COMM_WORLD, procs, &io1, &io2, num_ranges, ranges, wantglobal ? &global : NULL);
  if (nwin < 0 || nwin > num_ranges || io2 > num_ranges || io1 < npeers) emitf (c, "BAD %d %d rank=%d sc_ranges_adaptive returned %d (max peers %d, max ranges %d)\n", c->id, k, rank, nwin, io1, io2);
  if (wantglobal) {
    int nr = 0, nsd = 0;
    int *rr = SC_ALLOC (int, size + 1), *sr = SC_ALLOC (int, size + 1);
    sc_ranges_decode (size, rank, io2, global, &nr, rr, &nsd, sr);
    if (nr < npeers) emitf (c, "BAD %d %d rank=%d sc_ranges_decode gives %d receivers for %d peers\n", c->id, k, rank, nr, npeers);
    SC_FREE (rr);
    SC_FREE (sr);
    SC_FREE (global);
  }
  SC_FREE (procs);
  SC_FREE (ranges);
}

static void rank_main (int rank, int size, void *varg)
{
  case_t *c = (case_t *) varg;
  int mpiret;
  for (int k = 0; k <= c->nops; ++k) {
    mpiret = sc_MPI_Barrier (sc_MPI_COMM_WORLD); SC_CHECK_MPI (mpiret);
    c->rlib[(size_t) k * size + rank] = sc_memory_status (sc_package_id);
    c->rdef[(size_t) k * size + rank] = sc_memory_status (-1);
    mpiret = sc_MPI_Barrier (sc_MPI_COMM_WORLD); SC_CHECK_MPI (mpiret);
    if (k == c->nops) break;
    c->curop[rank] = k;
    g_incall[rank] = k + 1;
    switch (c->ops[k].kind) {
    case 'N': op_notify (c, k, rank, size); break;
    case 'G': op_allgather (c, k, rank, size); break;
    case 'R': op_reduce (c, k, rank, size); break;
    case 'S': op_psort (c, k, rank, size); break;
    case 'T': op_stats (c, k, rank, size); break;
    case 'M': op_shmem (c, k, rank, size); break;
    case 'A': op_ranges (c, k, rank, size); break;
    default: break;
    }
    g_incall[rank] = 0;
  }
}

static int read_ints (char *s, int *dst, int max)
{
  int n = 0;
  for (char *p = strtok (s, " \n"); p != NULL && n < max; p = strtok (NULL, " \n")) dst[n++] = atoi (p);
  return n;
}

int main (void)
{
  static char line[1 << 16];
  int run = 0, allok = 1;
  sc_init (sc_MPI_COMM_NULL, 0, 0, NULL, SC_LP_SILENT);
  sc_set_abort_handler (simmpi_abort_handler);
  signal (SIGALRM, on_alarm);
  while (fgets (line, sizeof line, stdin)) {
    case_t c; int adv, ppn, noncontig; unsigned long seed;
    memset (&c, 0, sizeof c);
    if (sscanf (line, "CASE %d %lu %d %d %d %d", &c.P, &seed, &adv, &ppn, &noncontig, &c.nops) < 6) continue;
    if (c.P < 1 || c.P > MAXP || c.nops < 0) continue;
    c.id = run;
    c.ops = (op_t *) calloc ((size_t) c.nops + 1, sizeof (op_t));
    int okparse = 1;
    for (int k = 0; k < c.nops && okparse; ++k) {
      op_t *o = &c.ops[k];
      if (!fgets (line, sizeof line, stdin)) { okparse = 0; break; }
      o->kind = line[0];
      o->line = strdup (line);
      if (o->kind == 'N') {
        if (sscanf (line + 1, "%d %d %d %d %d %d %d %d %d %d %d %ld %u %d", &o->type, &o->api, &o->paymode, &o->paysize, &o->sorted, &o->sep_senders, &o->sep_payload,
                    &o->ntop, &o->nint, &o->nbot, &o->nranges, &o->threshold, &o->superseed, &o->stats) < 14) okparse = 0;
        o->items = (item_t *) calloc ((size_t) c.P + 1, sizeof (item_t));
        for (int r = 0; r < c.P && okparse; ++r) {
          if (!fgets (line, sizeof line, stdin)) { okparse = 0; break; }
          char *p = strtok (line, " \n");
          int n = p ? atoi (p) : 0;
          o->items[r].n = n;
          o->items[r].rcv = (int *) calloc ((size_t) n + 1, sizeof (int));
          o->items[r].len = (int *) calloc ((size_t) n + 1, sizeof (int));
          for (int j = 0; j < n; ++j) { p = strtok (NULL, " \n"); o->items[r].rcv[j] = p ? atoi (p) : 0; }
          if (o->paymode == 2) for (int j = 0; j < n; ++j) { p = strtok (NULL, " \n"); o->items[r].len[j] = p ? atoi (p) : 0; }
        }
      }
      else if (o->kind == 'S') {
        int v[4 + MAXP];
        int n = read_ints (line + 1, v, 4 + MAXP);
        if (n < 4 + c.P) okparse = 0;
        o->a[0] = v[0]; o->a[1] = v[1]; o->dseed = (unsigned) v[2]; o->a[2] = v[3];
        for (int q = 0; q < c.P; ++q) o->counts[q] = v[4 + q];
      }
      else {
        int v[8];
        int n = read_ints (line + 1, v, 8), need = 0, ds = 0;
        memset (o->a, 0, sizeof o->a);
        switch (o->kind) {
        case 'G': need = 3; o->a[0] = v[0]; ds = v[1]; o->a[1] = v[2]; break;
        case 'R': need = 5; o->a[0] = v[0]; o->a[1] = v[1]; o->a[2] = v[2]; o->a[3] = v[3]; ds = v[4]; break;
        case 'T': need = 4; o->a[0] = v[0] > 8 ? 8 : v[0]; o->a[1] = v[1]; ds = v[2]; o->a[2] = v[3]; break;
        case 'M': need = 6; o->a[0] = v[0]; o->a[1] = v[1]; o->a[2] = v[2]; o->a[3] = v[3]; o->a[4] = v[4]; ds = v[5]; break;
        case 'A': need = 5; o->a[0] = v[0]; o->a[1] = v[1]; ds = v[2]; o->a[2] = v[3]; o->a[3] = v[4]; break;
        default: okparse = 0; break;
        }
        if (n < need) okparse = 0;
        o->dseed = (unsigned) ds;
        if (o->kind == 'M' && (o->a[0] < 0 || o->a[0] >= (int) SC_SHMEM_NUM_TYPES)) o->a[0] = 0;
      }
    }
    if (!okparse) { printf ("RUN %d rc=-1 steps=0 P=%d nops=%d\nEND %d\n", run, c.P, c.nops, run); ++run; continue; }
    c.rlib = (int *) calloc ((size_t) (c.nops + 1) * c.P, sizeof (int));
    c.rdef = (int *) calloc ((size_t) (c.nops + 1) * c.P, sizeof (int));
    G = &c;
    memset (g_incall, 0, sizeof g_incall);
    simmpi_opts o; simmpi_report rep;
    simmpi_opts_default (&o);
    o.nranks = c.P; o.seed = seed; o.adversary = adv; o.ppn = ppn; o.noncontig_nodes = noncontig;
    fprintf (stderr, "CASE %d\n", run); fflush (stderr);
    fflush (stdout);
    alarm (RUN_SECONDS);
    int rc = simmpi_run (&o, rank_main, &c, &rep);
    alarm (0);
    memset (g_incall, 0, sizeof g_incall);
    printf ("RUN %d rc=%d steps=%ld P=%d nops=%d\n", run, rc, rep.steps, c.P, c.nops);
    if (rc) { char *t = rep.text; for (char *p = t; *p; ++p) if (*p == '\n') *p = '~'; printf ("REPORT %s\n", t); allok = 0; }
    else {
      for (int k = 0; k <= c.nops; ++k) {
        int agree = 1;
        for (int r = 1; r < c.P; ++r) if (c.rlib[(size_t) k * c.P + r] != c.rlib[(size_t) k * c.P] || c.rdef[(size_t) k * c.P + r] != c.rdef[(size_t) k * c.P]) agree = 0;
        printf ("R %d %d %d %d %d\n", run, k, c.rlib[(size_t) k * c.P], c.rdef[(size_t) k * c.P], agree);
      }
      for (size_t i = 0; i < g_nblk; ++i) {
        long s = blk_is_libsc (&g_blk[i]);
        if (s >= 0) printf ("LEAK %d %d rank=%d size=%ld\n", run, g_blk[i].op, g_blk[i].rank, s);
      }
    }
    if (c.outbuf) fputs (c.outbuf, stdout);
    printf ("END %d\n", run);
    fflush (stdout);
    g_nblk = 0;
    simmpi_report_free (&rep);
    for (int k = 0; k < c.nops; ++k) {
      op_t *op = &c.ops[k];
      if (op->items) { for (int r = 0; r < c.P; ++r) { free (op->items[r].rcv); free (op->items[r].len); } free (op->items); }
      free (op->line);
    }
    free (c.ops); free (c.rlib); free (c.rdef); free (c.outbuf);
    ++run;
  }
  {
    int lib = sc_memory_status (sc_package_id), def = sc_memory_status (-1);
    int fin = allok ? sc_finalize_noabort () : -1;      /* after an abandoned run the coroutines' blocks are lost by construction */
    printf ("FINAL finalize=%d lib=%d def=%d\n", fin, lib, def);
  }
  return 0;
}
