/* C09 harness: drives the real libsc containers with the operation histories of the case file (stdin) and prints
   one result line per case in the same format as the extracted model driver (tools/ocaml/c09_driver.ml).
   Inside one result, text after " | " is information only.  Pointers are never printed. */
#include <sc.h>
#include <sc_containers.h>
#include <sc_keyvalue.h>
#include <sc_avl.h>
#include <sc_unique_counter.h>
#include <signal.h>
#include <unistd.h>

/* every case runs under a wall-clock limit: a history that sends libsc into an endless loop must not hang the check */
static void on_alarm (int sig) { static const char m[] = "CASE_TIMEOUT\n"; (void) sig; if (write (2, m, sizeof m - 1) < 0) {} _exit (4); }

/* ---------- output buffer ---------- */
static char *ob; static size_t on, oc;
static void oput (const char *fmt, ...)
{
  va_list ap; int k;
  if (oc - on < 256) { oc = oc ? 2 * oc : (1 << 16); ob = (char *) realloc (ob, oc); }
  for (;;) {
    va_start (ap, fmt); k = vsnprintf (ob + on, oc - on, fmt, ap); va_end (ap);
    if ((size_t) k < oc - on) { on += (size_t) k; return; }
    oc = 2 * oc + (size_t) k; ob = (char *) realloc (ob, oc);
  }
}
static void osep (void) { oput (" ; "); }

/* ---------- parsing ---------- */
typedef struct { char op; int n; unsigned long a[4]; } opr_t;
static int parse_op (char *tok, opr_t * o)
{
  char *p = tok;
  o->op = *p++; o->n = 0;
  while (*p == ',' && o->n < 4) { ++p; o->a[o->n++] = strtoul (p, &p, 16); }
  return 1;
}

/* ---------- hash table ---------- */
typedef struct { unsigned id, tag; } hkey_t;
static unsigned g_hm, g_ha, g_hb;
static int g_user_cookie;
static unsigned hfn (const void *v, const void *u)
{
  const hkey_t *k = (const hkey_t *) v; unsigned x;
  if (u != (const void *) &g_user_cookie) { printf ("BAD_USER_DATA\n"); exit (3); }
  x = g_hm ? k->id % g_hm : k->id;
  return x * g_ha + g_hb;
}
static int eqfn (const void *a, const void *b, const void *u)
{
  if (u != (const void *) &g_user_cookie) { printf ("BAD_USER_DATA\n"); exit (3); }
  return ((const hkey_t *) a)->id == ((const hkey_t *) b)->id;
}
static int g_visit, g_limit, g_print;
static int visit_fn (void **v, const void *u)
{
  const hkey_t *k = (const hkey_t *) *v;
  ++g_visit;
  if (g_print) oput (" %x.%x", k->id, k->tag);
  return g_limit == 0 || g_visit < g_limit;
}

static void run_hash (unsigned long *par, int npar, char **ops, int nops)
{
  int own = (int) par[0], i;
  sc_mempool_t *ext = NULL;
  sc_hash_t *hash;
  hkey_t *arena = SC_ALLOC (hkey_t, nops + 1);
  int unlinked = 0;
  g_hm = (unsigned) par[1]; g_ha = (unsigned) par[2]; g_hb = (unsigned) par[3];
  if (!own) ext = sc_mempool_new (sizeof (sc_link_t));
  hash = sc_hash_new (hfn, eqfn, &g_user_cookie, ext);
  for (i = 0; i < nops; ++i) {
    opr_t o; hkey_t *k = &arena[i]; void **found = NULL; void *rfound = NULL; int r;
    parse_op (ops[i], &o);
    k->id = (unsigned) o.a[0]; k->tag = (unsigned) o.a[1];
    if (i) osep ();
    switch (o.op) {
    case 'i':
      r = sc_hash_insert_unique (hash, k, &found);
      oput ("i %d %x %x %zx", r, ((hkey_t *) *found)->id, ((hkey_t *) *found)->tag, hash->elem_count); break;
    case 'I':
      r = sc_hash_insert_unique (hash, k, NULL); oput ("I %d %zx", r, hash->elem_count); break;
    case 'l':
      r = sc_hash_lookup (hash, k, &found);
      if (r) oput ("l 1 %x %x", ((hkey_t *) *found)->id, ((hkey_t *) *found)->tag); else oput ("l 0"); break;
    case 'L':
      r = sc_hash_lookup (hash, k, NULL); oput ("L %d", r); break;
    case 'r':
      r = sc_hash_remove (hash, k, &rfound);
      if (r) oput ("r 1 %x %x %zx", ((hkey_t *) rfound)->id, ((hkey_t *) rfound)->tag, hash->elem_count);
      else oput ("r 0 %zx", hash->elem_count);
      break;
    case 'R':
      r = sc_hash_remove (hash, k, NULL); oput ("R %d %zx", r, hash->elem_count); break;
    case 'a':
      r = sc_hash_lookup (hash, k, &found);
      if (r) *found = k;                     /* documented override through **found */
      oput ("a %d", r); break;
    case 'f': case 's':
      g_limit = o.op == 'f' ? 0 : (o.a[0] ? (int) o.a[0] : 1);
      g_visit = 0; g_print = 0; sc_hash_foreach (hash, visit_fn);
      oput ("%c %x", o.op, g_visit);
      g_visit = 0; g_print = 1; sc_hash_foreach (hash, visit_fn);
      break;
    case 't': sc_hash_truncate (hash); oput ("t %zx", hash->elem_count); break;
    case 'u': sc_hash_unlink (hash); unlinked = 1; oput ("u %zx", hash->elem_count); break;
    case 'c':
      oput ("c %zx | %zx %zx %zx %zx", hash->elem_count, hash->slots->elem_count, hash->resize_checks,
            hash->resize_actions, hash->allocator->elem_count); break;
    default: oput ("UNKNOWN_OP");
    }
  }
  sc_hash_destroy (hash);
  if (ext != NULL) {
    if (!unlinked && ext->elem_count != 0) { osep (); oput ("EXTERNAL_ALLOCATOR_NOT_EMPTY %zx", ext->elem_count); }
    sc_mempool_destroy (ext);
  }
  SC_FREE (arena);
}

/* ---------- pools ---------- */
typedef struct { unsigned char *p; int val; int written; } live_t;
static int check_fill (const unsigned char *p, size_t n, int *val)
{
  size_t j;
  for (j = 1; j < n; ++j) if (p[j] != p[0]) return 0;
  *val = n ? p[0] : 0;
  return 1;
}

static void run_pool (unsigned long *par, int npar, char **ops, int nops)
{
  int kind = (int) par[0], i; size_t esz = par[1], unit = par[2];
  sc_mstamp_t mst; sc_mempool_t *mp = NULL;
  live_t *live = SC_ALLOC (live_t, nops + 1); int nlive = 0;
  unsigned char **seen = SC_ALLOC (unsigned char *, nops + 1); int nseen = 0;
  size_t count = 0;
  if (kind == 0) sc_mstamp_init (&mst, unit, esz);
  else mp = kind == 1 ? sc_mempool_new (esz) : sc_mempool_new_zero_and_persist (esz);
  for (i = 0; i < nops; ++i) {
    opr_t o; int j, k;
    parse_op (ops[i], &o);
    if (i) osep ();
    switch (o.op) {
    case 'a': {
      unsigned char *p = (unsigned char *) (kind == 0 ? sc_mstamp_alloc (&mst) : sc_mempool_alloc (mp));
      int distinct = 1, was = 0, id = -1, val = 0;
      ++count;
      if (p == NULL) { --count; oput ("a null"); break; }
      /* distinct from every live item: byte ranges must not overlap */
      for (j = 0; j < nlive; ++j)
        if (p < live[j].p + esz && live[j].p < p + esz) distinct = 0;
      for (j = 0; j < nseen; ++j) if (seen[j] == p) { was = 1; id = j; }
      if (!was) { id = nseen; seen[nseen++] = p; }
      if (kind == 2) {
        if (!check_fill (p, esz, &val)) oput ("a %d %zx corrupt | %d %x", distinct, mp->elem_count, was, id);
        else oput ("a %d %zx %x | %d %x", distinct, mp->elem_count, val, was, id);
      }
      else {
        oput ("a %d %zx - | %d %x", distinct, kind == 0 ? count : mp->elem_count, was, id);
      }
      live[nlive].p = p; live[nlive].val = val; live[nlive].written = (kind == 2); ++nlive;
      break; }
    case 'f':
      k = (int) o.a[0];
      sc_mempool_free (mp, live[k].p);
      memmove (live + k, live + k + 1, sizeof (live_t) * (size_t) (nlive - k - 1)); --nlive;
      oput ("f %zx", mp->elem_count); break;
    case 'w':
      k = (int) o.a[0]; memset (live[k].p, (int) o.a[1], esz); live[k].val = (int) o.a[1]; live[k].written = 1;
      oput ("w"); break;
    case 'r': {
      int val = 0; k = (int) o.a[0];
      if (!live[k].written) { oput ("r unwritten"); break; }
      if (check_fill (live[k].p, esz, &val)) oput ("r %x", val); else oput ("r corrupt");
      break; }
    case 't':
      if (kind == 0) { sc_mstamp_truncate (&mst); count = 0; oput ("t 0"); }
      else { sc_mempool_truncate (mp); oput ("t %zx", mp->elem_count); }
      nlive = 0; nseen = 0; break;
    case 'c': {
      int ok = 1, val;
      for (j = 0; j < nlive; ++j)
        if (live[j].written && (!check_fill (live[j].p, esz, &val) || val != live[j].val)) ok = 0;
      oput ("c %zx %d | %zx %zx", kind == 0 ? count : mp->elem_count, ok,
            kind == 0 ? mst.per_stamp : mp->mstamp.per_stamp, kind == 0 ? mst.remember.elem_count : mp->mstamp.remember.elem_count);
      break; }
    default: oput ("UNKNOWN_OP");
    }
  }
  if (kind == 0) sc_mstamp_reset (&mst); else sc_mempool_destroy (mp);
  SC_FREE (live); SC_FREE (seen);
}

/* ---------- unique counter ---------- */
static void run_uc (unsigned long *par, int npar, char **ops, int nops)
{
  int start = (int) (long) par[0], i, j, nlive = 0;
  int **live = SC_ALLOC (int *, nops + 1);
  sc_unique_counter_t *uc = sc_unique_counter_new (start);
  for (i = 0; i < nops; ++i) {
    opr_t o; int k;
    parse_op (ops[i], &o);
    if (i) osep ();
    switch (o.op) {
    case 'a': live[nlive] = sc_unique_counter_add (uc);
      if (*live[nlive] < 0) oput ("a -%x", -(unsigned) *live[nlive]); else oput ("a %x", *live[nlive]);
      ++nlive; break;
    case 'r': k = (int) o.a[0]; sc_unique_counter_release (uc, live[k]);
      memmove (live + k, live + k + 1, sizeof (int *) * (size_t) (nlive - k - 1)); --nlive; oput ("r"); break;
    case 'v': oput ("v");
      for (j = 0; j < nlive; ++j) { if (*live[j] < 0) oput (" -%x", -(unsigned) *live[j]); else oput (" %x", *live[j]); }
      break;
    default: oput ("UNKNOWN_OP");
    }
  }
  while (nlive > 0) sc_unique_counter_release (uc, live[--nlive]);
  sc_unique_counter_destroy (uc);
  SC_FREE (live);
}

/* ---------- linked list ---------- */
static void run_list (unsigned long *par, int npar, char **ops, int nops)
{
  int own = (int) par[0], pre = (int) par[1], i, j, unlinked = 0;
  sc_mempool_t *ext = NULL; void **held = NULL;
  sc_list_t *list, stat;
  if (!own) {
    ext = sc_mempool_new (sizeof (sc_link_t));
    held = SC_ALLOC (void *, pre + 1);
    for (j = 0; j < pre; ++j) { held[j] = sc_mempool_alloc (ext); memset (held[j], 0x5a, sizeof (sc_link_t)); }
    list = &stat; sc_list_init (list, ext);
  }
  else list = sc_list_new (NULL);
  for (i = 0; i < nops; ++i) {
    opr_t o; sc_link_t *lk; size_t ret = 0; size_t n;
    parse_op (ops[i], &o);
    if (i) osep ();
    switch (o.op) {
    case 'p': sc_list_prepend (list, (void *) (size_t) o.a[0]); break;
    case 'q': sc_list_append (list, (void *) (size_t) o.a[0]); break;
    case 'n': for (lk = list->first, n = 0; n < o.a[0]; ++n) lk = lk->next;
      sc_list_insert (list, lk, (void *) (size_t) o.a[1]); break;
    case 'm': for (lk = list->first, n = 0; n < o.a[0]; ++n) lk = lk->next;
      ret = (size_t) sc_list_remove (list, lk); break;
    case 'o': ret = (size_t) ((o.n && o.a[0]) ? sc_list_remove (list, NULL) : sc_list_pop (list)); break;
    case 'x': sc_list_reset (list); break;
    case 'u': sc_list_unlink (list); unlinked = 1; break;
    case 'd':
      for (lk = list->first, n = 0; lk != NULL; lk = lk->next) ++n;
      oput ("d %zx", n);
      for (lk = list->first; lk != NULL; lk = lk->next) oput (" %zx", (size_t) lk->data);
      continue;
    default: oput ("UNKNOWN_OP"); continue;
    }
    oput ("%c %zx %zx", o.op, ret, list->elem_count);
    if (list->first) oput (" %zx", (size_t) list->first->data); else oput (" -");
    if (list->last) oput (" %zx", (size_t) list->last->data); else oput (" -");
    oput (" | %zx", list->allocator->elem_count);
  }
  if (own) {
    sc_list_destroy (list);
  }
  else {
    int ok = 1; unsigned char *q;
    sc_list_reset (list);
    /* the items held by the other user of the allocator must be untouched */
    for (j = 0; j < pre; ++j) { size_t z; q = (unsigned char *) held[j]; for (z = 0; z < sizeof (sc_link_t); ++z) if (q[z] != 0x5a) ok = 0; }
    if (!ok) { osep (); oput ("FOREIGN_ITEM_CLOBBERED"); }
    if (!unlinked && ext->elem_count != (size_t) pre) { osep (); oput ("EXTERNAL_ALLOCATOR_COUNT %zx", ext->elem_count); }
    sc_mempool_destroy (ext); SC_FREE (held);
  }
}

int main (void)
{
  char *line = NULL; size_t cap = 0; ssize_t len;
  unsigned limit = getenv ("C09_CASE_TIMEOUT") ? (unsigned) atoi (getenv ("C09_CASE_TIMEOUT")) : 30;
  signal (SIGALRM, on_alarm);
  while ((len = getline (&line, &cap, stdin)) > 0) {
    char *bar = strchr (line, '|'), *p; char **ops; int nops = 0, npar = 0, maxops; unsigned long par[8]; char *cname;
    int before;
    if (bar == NULL) { if (len > 1) printf ("BAD_CASE\n"); continue; }
    *bar = '\0';
    cname = strtok (line, " \n");
    while ((p = strtok (NULL, " \n")) != NULL && npar < 8) {
      par[npar++] = (*p == '-') ? (unsigned long) (-(long) strtoul (p + 1, NULL, 16)) : strtoul (p, NULL, 16);
    }
    maxops = (int) (len / 2) + 2;
    ops = (char **) malloc (sizeof (char *) * (size_t) maxops);
    for (p = strtok (bar + 1, " \n"); p != NULL; p = strtok (NULL, " \n")) ops[nops++] = p;
    on = 0; oput ("%s", "");
    alarm (limit);
    before = sc_memory_status (-1);
    if (cname == NULL) oput ("BAD_CASE");
    else if (!strcmp (cname, "hash")) run_hash (par, npar, ops, nops);
    else if (!strcmp (cname, "pool")) run_pool (par, npar, ops, nops);
    else if (!strcmp (cname, "uc")) run_uc (par, npar, ops, nops);
    else if (!strcmp (cname, "list")) run_list (par, npar, ops, nops);
    else oput ("UNKNOWN_CONTAINER");
    if (nops) osep ();
    oput ("E %x", (unsigned) (sc_memory_status (-1) - before));
    alarm (0);
    fwrite (ob, 1, on, stdout); fputc ('\n', stdout); fflush (stdout);
    free (ops);
  }
  free (line); free (ob);
  return 0;
}
