/* C09 harness: drives the real libsc containers with the operation histories of the case file (stdin) and prints
   one result line per case in the same format as the extracted model driver (tools/ocaml/c09_driver.ml).
   Inside one result, text after " | " is information only.  Pointers are never printed. */
#include <sc.h>
#include <sc_containers.h>
#include <sc_keyvalue.h>
#include <sc_avl.h>
#include <sc_unique_counter.h>
#include <signal.h>
#include <unistd.h>

/* every case runs under a wall-clock limit: a history that sends libsc into an endless loop must not hang the check */
static void on_alarm (int sig) { static const char m[] = "CASE_TIMEOUT\n"; (void) sig; if (write (2, m, sizeof m - 1) < 0) {} _exit (4); }

/* ---------- output buffer ---------- */
static char *ob; static size_t on, oc;
static void oput (const char *fmt, ...)
{
  va_list ap; int k;
  if (oc - on < 256) { oc = oc ? 2 * oc : (1 << 16); ob = (char *) realloc (ob, oc); }
  for (;;) {
    va_start (ap, fmt); k = vsnprintf (ob + on, oc - on, fmt, ap); va_end (ap);
    if ((size_t) k < oc - on) { on += (size_t) k; return; }
    oc = 2 * oc + (size_t) k; ob = (char *) realloc (ob, oc);
  }
}
static void osep (void) { oput (" ; "); }

/* ---------- parsing ---------- */
typedef struct { char op; int n; unsigned long a[6]; } opr_t;
static int parse_op (char *tok, opr_t * o)
{
  char *p = tok;
  o->op = *p++; o->n = 0;
  while (*p == ',' && o->n < 6) { ++p; o->a[o->n++] = strtoul (p, &p, 16); }
  { int z_; for (z_ = o->n; z_ < 6; ++z_) o->a[z_] = 0; }
  return 1;
}

/* ---------- hash table ---------- */
typedef struct { unsigned id, tag; } hkey_t;
static unsigned g_hm, g_ha, g_hb;
static int g_user_cookie;
static unsigned hfn (const void *v, const void *u)
{
  const hkey_t *k = (const hkey_t *) v; unsigned x;
  if (u != (const void *) &g_user_cookie) { printf ("BAD_USER_DATA\n"); exit (3); }
  x = g_hm ? k->id % g_hm : k->id;
  return x * g_ha + g_hb;
}
static int eqfn (const void *a, const void *b, const void *u)
{
  if (u != (const void *) &g_user_cookie) { printf ("BAD_USER_DATA\n"); exit (3); }
  return ((const hkey_t *) a)->id == ((const hkey_t *) b)->id;
}
static int g_visit, g_limit, g_print;
static int visit_fn (void **v, const void *u)
{
  const hkey_t *k = (const hkey_t *) *v;
  ++g_visit;
  if (g_print) oput (" %x.%x", k->id, k->tag);
  return g_limit == 0 || g_visit < g_limit;
}

static void run_hash (unsigned long *par, int npar, char **ops, int nops)
{
  int own = (int) par[0], i;
  sc_mempool_t *ext = NULL;
  sc_hash_t *hash;
  hkey_t *arena = SC_ALLOC (hkey_t, nops + 1);
  int unlinked = 0;
  g_hm = (unsigned) par[1]; g_ha = (unsigned) par[2]; g_hb = (unsigned) par[3];
  if (!own) ext = sc_mempool_new (sizeof (sc_link_t));
  hash = sc_hash_new (hfn, eqfn, &g_user_cookie, ext);
  for (i = 0; i < nops; ++i) {
    opr_t o; hkey_t *k = &arena[i]; void **found = NULL; void *rfound = NULL; int r;
    parse_op (ops[i], &o);
    k->id = (unsigned) o.a[0]; k->tag = (unsigned) o.a[1];
    if (i) osep ();
    switch (o.op) {
    case 'i':
      r = sc_hash_insert_unique (hash, k, &found);
      oput ("i %d %x %x %zx", r, ((hkey_t *) *found)->id, ((hkey_t *) *found)->tag, hash->elem_count); break;
    case 'I':
      r = sc_hash_insert_unique (hash, k, NULL); oput ("I %d %zx", r, hash->elem_count); break;
    case 'l':
      r = sc_hash_lookup (hash, k, &found);
      if (r) oput ("l 1 %x %x", ((hkey_t *) *found)->id, ((hkey_t *) *found)->tag); else oput ("l 0"); break;
    case 'L':
      r = sc_hash_lookup (hash, k, NULL); oput ("L %d", r); break;
    case 'r':
      r = sc_hash_remove (hash, k, &rfound);
      if (r) oput ("r 1 %x %x %zx", ((hkey_t *) rfound)->id, ((hkey_t *) rfound)->tag, hash->elem_count);
      else oput ("r 0 %zx", hash->elem_count);
      break;
    case 'R':
      r = sc_hash_remove (hash, k, NULL); oput ("R %d %zx", r, hash->elem_count); break;
    case 'a':
      r = sc_hash_lookup (hash, k, &found);
      if (r) *found = k;                     /* documented override through **found */
      oput ("a %d", r); break;
    case 'f': case 's':
      g_limit = o.op == 'f' ? 0 : (o.a[0] ? (int) o.a[0] : 1);
      g_visit = 0; g_print = 0; sc_hash_foreach (hash, visit_fn);
      oput ("%c %x", o.op, g_visit);
      g_visit = 0; g_print = 1; sc_hash_foreach (hash, visit_fn);
      break;
    case 't': sc_hash_truncate (hash); oput ("t %zx", hash->elem_count); break;
    case 'u': sc_hash_unlink (hash); unlinked = 1; oput ("u %zx", hash->elem_count); break;
    case 'c':
      oput ("c %zx | %zx %zx %zx %zx", hash->elem_count, hash->slots->elem_count, hash->resize_checks,
            hash->resize_actions, hash->allocator->elem_count); break;
    default: oput ("UNKNOWN_OP");
    }
  }
  sc_hash_destroy (hash);
  if (ext != NULL) {
    if (!unlinked && ext->elem_count != 0) { osep (); oput ("EXTERNAL_ALLOCATOR_NOT_EMPTY %zx", ext->elem_count); }
    sc_mempool_destroy (ext);
  }
  SC_FREE (arena);
}

/* ---------- pools ---------- */
typedef struct { unsigned char *p; int val; int written; } live_t;
static int check_fill (const unsigned char *p, size_t n, int *val)
{
  size_t j;
  for (j = 1; j < n; ++j) if (p[j] != p[0]) return 0;
  *val = n ? p[0] : 0;
  return 1;
}

static void run_pool (unsigned long *par, int npar, char **ops, int nops)
{
  int kind = (int) par[0], i; size_t esz = par[1], unit = par[2];
  sc_mstamp_t mst; sc_mempool_t *mp = NULL;
  live_t *live = SC_ALLOC (live_t, nops + 1); int nlive = 0;
  unsigned char **seen = SC_ALLOC (unsigned char *, nops + 1); int nseen = 0;
  size_t count = 0;
  if (kind == 0) sc_mstamp_init (&mst, unit, esz);
  else mp = kind == 1 ? sc_mempool_new (esz) : sc_mempool_new_zero_and_persist (esz);
  for (i = 0; i < nops; ++i) {
    opr_t o; int j, k;
    parse_op (ops[i], &o);
    if (i) osep ();
    switch (o.op) {
    case 'a': {
      unsigned char *p = (unsigned char *) (kind == 0 ? sc_mstamp_alloc (&mst) : sc_mempool_alloc (mp));
      int distinct = 1, was = 0, id = -1, val = 0;
      ++count;
      if (p == NULL) { --count; oput ("a null"); break; }
      /* distinct from every live item: byte ranges must not overlap */
      for (j = 0; j < nlive; ++j)
        if (p < live[j].p + esz && live[j].p < p + esz) distinct = 0;
      for (j = 0; j < nseen; ++j) if (seen[j] == p) { was = 1; id = j; }
      if (!was) { id = nseen; seen[nseen++] = p; }
      if (kind == 2) {
        if (!check_fill (p, esz, &val)) oput ("a %d %zx corrupt | %d %x", distinct, mp->elem_count, was, id);
        else oput ("a %d %zx %x | %d %x", distinct, mp->elem_count, val, was, id);
      }
      else {
        oput ("a %d %zx - | %d %x", distinct, kind == 0 ? count : mp->elem_count, was, id);
      }
      live[nlive].p = p; live[nlive].val = val; live[nlive].written = (kind == 2); ++nlive;
      break; }
    case 'f':
      k = (int) o.a[0];
      sc_mempool_free (mp, live[k].p);
      memmove (live + k, live + k + 1, sizeof (live_t) * (size_t) (nlive - k - 1)); --nlive;
      oput ("f %zx", mp->elem_count); break;
    case 'w':
      k = (int) o.a[0]; memset (live[k].p, (int) o.a[1], esz); live[k].val = (int) o.a[1]; live[k].written = 1;
      oput ("w"); break;
    case 'r': {
      int val = 0; k = (int) o.a[0];
      if (!live[k].written) { oput ("r unwritten"); break; }
      if (check_fill (live[k].p, esz, &val)) oput ("r %x", val); else oput ("r corrupt");
      break; }
    case 't':
      if (kind == 0) { sc_mstamp_truncate (&mst); count = 0; oput ("t 0"); }
      else { sc_mempool_truncate (mp); oput ("t %zx", mp->elem_count); }
      nlive = 0; nseen = 0; break;
    case 'c': {
      int ok = 1, val;
      for (j = 0; j < nlive; ++j)
        if (live[j].written && (!check_fill (live[j].p, esz, &val) || val != live[j].val)) ok = 0;
      oput ("c %zx %d | %zx %zx", kind == 0 ? count : mp->elem_count, ok,
            kind == 0 ? mst.per_stamp : mp->mstamp.per_stamp, kind == 0 ? mst.remember.elem_count : mp->mstamp.remember.elem_count);
      break; }
    default: oput ("UNKNOWN_OP");
    }
  }
  if (kind == 0) sc_mstamp_reset (&mst); else sc_mempool_destroy (mp);
  SC_FREE (live); SC_FREE (seen);
}

/* ---------- unique counter ---------- */
static void run_uc (unsigned long *par, int npar, char **ops, int nops)
{
  int start = (int) (long) par[0], i, j, nlive = 0;
  int **live = SC_ALLOC (int *, nops + 1);
  sc_unique_counter_t *uc = sc_unique_counter_new (start);
  for (i = 0; i < nops; ++i) {
    opr_t o; int k;
    parse_op (ops[i], &o);
    if (i) osep ();
    switch (o.op) {
    case 'a': live[nlive] = sc_unique_counter_add (uc);
      if (*live[nlive] < 0) oput ("a -%x", -(unsigned) *live[nlive]); else oput ("a %x", *live[nlive]);
      ++nlive; break;
    case 'r': k = (int) o.a[0]; sc_unique_counter_release (uc, live[k]);
      memmove (live + k, live + k + 1, sizeof (int *) * (size_t) (nlive - k - 1)); --nlive; oput ("r"); break;
    case 'v': oput ("v");
      for (j = 0; j < nlive; ++j) { if (*live[j] < 0) oput (" -%x", -(unsigned) *live[j]); else oput (" %x", *live[j]); }
      break;
    default: oput ("UNKNOWN_OP");
    }
  }
  while (nlive > 0) sc_unique_counter_release (uc, live[--nlive]);
  sc_unique_counter_destroy (uc);
  SC_FREE (live);
}

/* ---------- linked list ---------- */
static void run_list (unsigned long *par, int npar, char **ops, int nops)
{
  int own = (int) par[0], pre = (int) par[1], i, j, unlinked = 0;
  sc_mempool_t *ext = NULL; void **held = NULL;
  sc_list_t *list, stat;
  if (!own) {
    ext = sc_mempool_new (sizeof (sc_link_t));
    held = SC_ALLOC (void *, pre + 1);
    for (j = 0; j < pre; ++j) { held[j] = sc_mempool_alloc (ext); memset (held[j], 0x5a, sizeof (sc_link_t)); }
    list = &stat; sc_list_init (list, ext);
  }
  else list = sc_list_new (NULL);
  for (i = 0; i < nops; ++i) {
    opr_t o; sc_link_t *lk; size_t ret = 0; size_t n;
    parse_op (ops[i], &o);
    if (i) osep ();
    switch (o.op) {
    case 'p': sc_list_prepend (list, (void *) (size_t) o.a[0]); break;
    case 'q': sc_list_append (list, (void *) (size_t) o.a[0]); break;
    case 'n': for (lk = list->first, n = 0; n < o.a[0]; ++n) lk = lk->next;
      sc_list_insert (list, lk, (void *) (size_t) o.a[1]); break;
    case 'm': for (lk = list->first, n = 0; n < o.a[0]; ++n) lk = lk->next;
      ret = (size_t) sc_list_remove (list, lk); break;
    case 'o': ret = (size_t) ((o.n && o.a[0]) ? sc_list_remove (list, NULL) : sc_list_pop (list)); break;
    case 'x': sc_list_reset (list); break;
    case 'u': sc_list_unlink (list); unlinked = 1; break;
    case 'd':
      for (lk = list->first, n = 0; lk != NULL; lk = lk->next) ++n;
      oput ("d %zx", n);
      for (lk = list->first; lk != NULL; lk = lk->next) oput (" %zx", (size_t) lk->data);
      continue;
    default: oput ("UNKNOWN_OP"); continue;
    }
    oput ("%c %zx %zx", o.op, ret, list->elem_count);
    if (list->first) oput (" %zx", (size_t) list->first->data); else oput (" -");
    if (list->last) oput (" %zx", (size_t) list->last->data); else oput (" -");
    oput (" | %zx", list->allocator->elem_count);
  }
  if (own) {
    sc_list_destroy (list);
  }
  else {
    int ok = 1; unsigned char *q;
    sc_list_reset (list);
    /* the items held by the other user of the allocator must be untouched */
    for (j = 0; j < pre; ++j) { size_t z; q = (unsigned char *) held[j]; for (z = 0; z < sizeof (sc_link_t); ++z) if (q[z] != 0x5a) ok = 0; }
    if (!ok) { osep (); oput ("FOREIGN_ITEM_CLOBBERED"); }
    if (!unlinked && ext->elem_count != (size_t) pre) { osep (); oput ("EXTERNAL_ALLOCATOR_COUNT %zx", ext->elem_count); }
    sc_mempool_destroy (ext); SC_FREE (held);
  }
}


/* ---------- hash array ---------- */
static int g_ha_n; static size_t *g_ha_pos;
static int ha_visit_fn (void **v, const void *u)
{
  if (u != (const void *) &g_user_cookie) { printf ("BAD_USER_DATA\n"); exit (3); }
  g_ha_pos[g_ha_n++] = (size_t) *v;
  return 1;
}

static void run_harr (unsigned long *par, int npar, char **ops, int nops)
{
  int rip = (int) par[0], i;
  sc_hash_array_t *ha;
  g_hm = (unsigned) par[1]; g_ha = (unsigned) par[2]; g_hb = (unsigned) par[3];
  ha = sc_hash_array_new (sizeof (hkey_t), hfn, eqfn, &g_user_cookie);
  g_ha_pos = SC_ALLOC (size_t, nops + 1);
  for (i = 0; i < nops; ++i) {
    opr_t o; hkey_t k, *np; size_t pos = (size_t) -7, z; int r;
    parse_op (ops[i], &o);
    k.id = (unsigned) o.a[0]; k.tag = (unsigned) o.a[1];
    if (i) osep ();
    switch (o.op) {
    case 'i':
      np = (hkey_t *) sc_hash_array_insert_unique (ha, &k, &pos);
      if (np != NULL) {
        /* the new element is the last array slot */
        int ok = (np == (hkey_t *) sc_array_index (&ha->a, ha->a.elem_count - 1)) && pos == ha->a.elem_count - 1;
        *np = k;
        oput ("i 1 %zx %zx %zx %d", pos, ha->a.elem_count, ha->h->elem_count, ok);
      }
      else oput ("i 0 %zx %zx %zx 1", pos, ha->a.elem_count, ha->h->elem_count);
      break;
    case 'I':
      np = (hkey_t *) sc_hash_array_insert_unique (ha, &k, NULL);
      if (np != NULL) *np = k;
      oput ("I %d %zx %zx", np != NULL, ha->a.elem_count, ha->h->elem_count); break;
    case 'l':
      r = sc_hash_array_lookup (ha, &k, &pos);
      if (r) oput ("l 1 %zx", pos); else oput ("l 0"); break;
    case 'L':
      r = sc_hash_array_lookup (ha, &k, NULL); oput ("L %d", r); break;
    case 'f':
      g_ha_n = 0; sc_hash_array_foreach (ha, ha_visit_fn);
      oput ("f %x", g_ha_n);
      for (r = 0; r < g_ha_n; ++r) oput (" %zx", g_ha_pos[r]);
      break;
    case 'v': oput ("v %d", sc_hash_array_is_valid (ha)); break;
    case 'd':
      oput ("d %zx", ha->a.elem_count);
      for (z = 0; z < ha->a.elem_count; ++z) { np = (hkey_t *) sc_array_index (&ha->a, z); oput (" %x.%x", np->id, np->tag); }
      break;
    case 't': sc_hash_array_truncate (ha); oput ("t %zx %zx", ha->a.elem_count, ha->h->elem_count); break;
    case 'c':
      oput ("c %zx %zx | %zx %zx %zx", ha->a.elem_count, ha->h->elem_count, ha->h->slots->elem_count,
            ha->h->resize_checks, ha->h->resize_actions); break;
    default: oput ("UNKNOWN_OP");
    }
  }
  if (rip) {
    sc_array_t arr; size_t z; hkey_t *np;
    sc_hash_array_rip (ha, &arr);
    osep (); oput ("R %zx", arr.elem_count);
    for (z = 0; z < arr.elem_count; ++z) { np = (hkey_t *) sc_array_index (&arr, z); oput (" %x.%x", np->id, np->tag); }
    sc_array_reset (&arr);
  }
  else sc_hash_array_destroy (ha);
  SC_FREE (g_ha_pos);
}

/* ---------- recycle array ---------- */
static void run_rec (unsigned long *par, int npar, char **ops, int nops)
{
  size_t esz = par[0]; int i, j, k, nlive = 0;
  sc_recycle_array_t ra;
  size_t *lpos = SC_ALLOC (size_t, nops + 1); int *lval = SC_ALLOC (int, nops + 1);
  sc_recycle_array_init (&ra, esz);
  for (i = 0; i < nops; ++i) {
    opr_t o; size_t pos = (size_t) -7; unsigned char *p; int val, ok, distinct;
    parse_op (ops[i], &o);
    if (i) osep ();
    switch (o.op) {
    case 'i':
      if (o.n > 1 && o.a[1]) { p = (unsigned char *) sc_recycle_array_insert (&ra, NULL); pos = (size_t) (p - (unsigned char *) ra.a.array) / esz; }
      else p = (unsigned char *) sc_recycle_array_insert (&ra, &pos);
      ok = pos < ra.a.elem_count && p == (unsigned char *) sc_array_index (&ra.a, pos);
      distinct = 1;
      for (j = 0; j < nlive; ++j) if (lpos[j] == pos) distinct = 0;
      memset (p, (int) o.a[0], esz);
      lpos[nlive] = pos; lval[nlive] = (int) o.a[0]; ++nlive;
      oput ("i %d %d %zx | %zx %zx %zx", distinct, ok, ra.elem_count, pos, ra.a.elem_count, ra.f.elem_count);
      break;
    case 'r':
      k = (int) o.a[0]; pos = lpos[k];
      p = (unsigned char *) sc_recycle_array_remove (&ra, pos);
      ok = p == (unsigned char *) sc_array_index (&ra.a, pos);
      if (check_fill (p, esz, &val)) oput ("r %x %d %zx | %zx", val, ok, ra.elem_count, pos);
      else oput ("r corrupt %d %zx | %zx", ok, ra.elem_count, pos);
      memmove (lpos + k, lpos + k + 1, sizeof (size_t) * (size_t) (nlive - k - 1));
      memmove (lval + k, lval + k + 1, sizeof (int) * (size_t) (nlive - k - 1)); --nlive;
      break;
    case 'w':
      k = (int) o.a[0]; memset (sc_array_index (&ra.a, lpos[k]), (int) o.a[1], esz); lval[k] = (int) o.a[1]; oput ("w"); break;
    case 'g':
      k = (int) o.a[0];
      if (check_fill ((unsigned char *) sc_array_index (&ra.a, lpos[k]), esz, &val)) oput ("g %x", val); else oput ("g corrupt");
      break;
    case 'c':
      ok = 1;
      for (j = 0; j < nlive; ++j)
        if (!check_fill ((unsigned char *) sc_array_index (&ra.a, lpos[j]), esz, &val) || val != lval[j]) ok = 0;
      oput ("c %zx %zx %zx %d", ra.elem_count, ra.a.elem_count, ra.f.elem_count, ok); break;
    case 'x': sc_recycle_array_reset (&ra); nlive = 0; oput ("x %zx", ra.elem_count); break;
    default: oput ("UNKNOWN_OP");
    }
  }
  sc_recycle_array_reset (&ra);
  SC_FREE (lpos); SC_FREE (lval);
}

/* ---------- key-value store ---------- */
struct kv_peek { sc_hash_t *hash; sc_mempool_t *value_allocator; };   /* layout of the opaque struct sc_keyvalue */
#define KV_NSTR 16
static const char *g_kv_strs[KV_NSTR] = { "s0", "s1", "s2", "s3", "s4", "s5", "s6", "s7", "s8", "s9", "sa", "sb", "sc", "sd", "se", "sf" };
static int kv_str_index (const char *s) { int j; for (j = 0; j < KV_NSTR; ++j) if (s == g_kv_strs[j]) return j; return -1; }
static char **g_kv_keys; static int g_kv_nkeys;
static const char *kv_key (int withtype, int ty, unsigned id)
{
  /* a fresh copy per call: keys must be compared by content, never by pointer */
  char *b = (char *) malloc (24);
  if (withtype) snprintf (b, 24, "%c:k%x", "?igsp"[ty], id); else snprintf (b, 24, "k%x", id);
  g_kv_keys[g_kv_nkeys++] = b;
  return b;
}
static int kv_visit (const char *key, const sc_keyvalue_entry_type_t type, void *entry, const void *u)
{
  if (u != (const void *) &g_user_cookie) { printf ("BAD_USER_DATA\n"); exit (3); }
  ++g_visit;
  if (!g_print) return 1;
  switch (type) {
  case SC_KEYVALUE_ENTRY_INT: oput (" %s:1:%x", key + 1, (unsigned) *(int *) entry); break;
  case SC_KEYVALUE_ENTRY_DOUBLE: oput (" %s:2:%x", key + 1, (unsigned) (int) (*(double *) entry * 2.)); break;
  case SC_KEYVALUE_ENTRY_STRING: oput (" %s:3:%x", key + 1, (unsigned) kv_str_index (*(const char **) entry)); break;
  case SC_KEYVALUE_ENTRY_POINTER: oput (" %s:4:%x", key + 1, (unsigned) (size_t) *(void **) entry); break;
  default: oput (" %s:BADTYPE", key + 1);
  }
  return 1;
}
static sc_keyvalue_t *kv_build (int n, const char **k, int *v)
{
  /* type pattern of the argument list: int, double, string, pointer, int, string; a NULL key ends the list */
  return sc_keyvalue_newf (0, n > 0 ? k[0] : NULL, v[0], n > 1 ? k[1] : NULL, v[1] * .5, n > 2 ? k[2] : NULL, g_kv_strs[v[2] % KV_NSTR],
                           n > 3 ? k[3] : NULL, (void *) (size_t) v[3], n > 4 ? k[4] : NULL, v[4], n > 5 ? k[5] : NULL, g_kv_strs[v[5] % KV_NSTR], NULL);
}

static void run_kv (unsigned long *par, int npar, char **ops, int nops)
{
  int i, first = 0; sc_keyvalue_t *kv; struct kv_peek *pk;
  const char *pkeys[6]; int pvals[6] = { 0, 0, 0, 0, 0, 0 };
  g_kv_keys = (char **) malloc (sizeof (char *) * (size_t) (2 * nops + 8)); g_kv_nkeys = 0;
  /* leading P operations are the arguments of sc_keyvalue_newf */
  while (first < nops && first < 6 && ops[first][0] == 'P') {
    opr_t o; parse_op (ops[first], &o);
    pkeys[first] = kv_key (1, (int) o.a[0], (unsigned) o.a[1]); pvals[first] = (int) o.a[2]; ++first;
  }
  kv = first ? kv_build (first, pkeys, pvals) : sc_keyvalue_new ();
  pk = (struct kv_peek *) kv;
  for (i = 0; i < first; ++i) { if (i) osep (); oput ("P"); }
  for (i = first; i < nops; ++i) {
    opr_t o; int ty, st, res; unsigned id; const char *key, *sres;
    parse_op (ops[i], &o);
    if (i) osep ();
    switch (o.op) {
    case 'S':
      ty = (int) o.a[0]; id = (unsigned) o.a[1]; key = kv_key (0, 0, id);
      if (ty == 1) sc_keyvalue_set_int (kv, key, (int) o.a[2]);
      else if (ty == 2) sc_keyvalue_set_double (kv, key, (int) o.a[2] * .5);
      else if (ty == 3) sc_keyvalue_set_string (kv, key, g_kv_strs[o.a[2] % KV_NSTR]);
      else sc_keyvalue_set_pointer (kv, key, (void *) (size_t) o.a[2]);
      oput ("S"); break;
    case 'G':
      ty = (int) o.a[0]; id = (unsigned) o.a[1]; key = kv_key (0, 0, id);
      if (ty == 1) oput ("G %x", (unsigned) sc_keyvalue_get_int (kv, key, (int) o.a[2]));
      else if (ty == 2) oput ("G %x", (unsigned) (int) (sc_keyvalue_get_double (kv, key, (int) o.a[2] * .5) * 2.));
      else if (ty == 3) { sres = sc_keyvalue_get_string (kv, key, g_kv_strs[o.a[2] % KV_NSTR]); oput ("G %x", (unsigned) kv_str_index (sres)); }
      else oput ("G %x", (unsigned) (size_t) sc_keyvalue_get_pointer (kv, key, (void *) (size_t) o.a[2]));
      break;
    case 'K':
      id = (unsigned) o.a[0]; st = (int) o.a[1]; key = kv_key (0, 0, id);
      res = sc_keyvalue_get_int_check (kv, key, &st); oput ("K %x %x", (unsigned) res, (unsigned) st); break;
    case 'E': oput ("E %x", (unsigned) sc_keyvalue_exists (kv, kv_key (0, 0, (unsigned) o.a[0]))); break;
    case 'U': oput ("U %x", (unsigned) sc_keyvalue_unset (kv, kv_key (0, 0, (unsigned) o.a[0]))); break;
    case 'F':
      g_visit = 0; g_print = 0; sc_keyvalue_foreach (kv, kv_visit, &g_user_cookie);
      oput ("F %x", g_visit);
      g_print = 1; sc_keyvalue_foreach (kv, kv_visit, &g_user_cookie); break;
    case 'C':
      oput ("C %zx %zx | %zx %zx %zx", pk->hash->elem_count, pk->value_allocator->elem_count, pk->hash->slots->elem_count,
            pk->hash->resize_checks, pk->hash->resize_actions); break;
    default: oput ("UNKNOWN_OP");
    }
  }
  sc_keyvalue_destroy (kv);
  while (g_kv_nkeys > 0) free (g_kv_keys[--g_kv_nkeys]);
  free (g_kv_keys);
}

/* ---------- AVL tree ---------- */
typedef struct { int key; unsigned tag; } aitem_t;
static int g_avl_mode, g_avl_freed;
static int avl_cmp_fn (const void *a, const void *b)
{
  int x = ((const aitem_t *) a)->key, y = ((const aitem_t *) b)->key;
  switch (g_avl_mode) {
  case 1: return y - x;                                    /* descending */
  case 2: return (x >> 2) - (y >> 2);                      /* classes of four keys are equal */
  case 3: return x < y ? -1 : x > y;                       /* -1 / 0 / 1 */
  default: return x - y;
  }
}
static void avl_free_fn (void *item) { (void) item; ++g_avl_freed; }
static void avl_visit_fn (void *item, void *data)
{
  const aitem_t *it = (const aitem_t *) item; ++*(int *) data;
  if (g_print) oput (" %x.%x", (unsigned) it->key, it->tag);
}
/* structural self-check of the real tree: stored counts, parent pointers, search order, prev/next against in-order */
static long g_chk_budget;
static unsigned avl_chk (avl_tree_t * t, avl_node_t * n, avl_node_t * parent, avl_node_t ** last, int *ok, int *height)
{
  unsigned cl, cr; int hl = 0, hr = 0;
  if (n == NULL) { *height = 0; return 0; }
  if (--g_chk_budget < 0) { *ok = 0; *height = 0; return 0; }      /* shared subtrees or a cycle: not a tree */
  if (n->parent != parent) *ok = 0;
  cl = avl_chk (t, n->left, n, last, ok, &hl);
  if (n->prev != *last) *ok = 0;
  if (*last != NULL && (*last)->next != n) *ok = 0;
  if (*last == NULL && t->head != n) *ok = 0;
  if (t->cmp != NULL && *last != NULL && t->cmp ((*last)->item, n->item) >= 0) *ok = 0;
  *last = n;
  cr = avl_chk (t, n->right, n, last, ok, &hr);
  if (n->count != cl + cr + 1) *ok = 0;
  *height = 1 + (hl > hr ? hl : hr);
  return cl + cr + 1;
}

/* avl_clear_tree forgets the nodes without freeing them: the caller collects them first (head/next list) and frees them himself */
static void avl_clear_and_free_nodes (avl_tree_t * tree)
{
  avl_node_t *node, *next, *first = tree->head;
  avl_clear_tree (tree);
  for (node = first; node != NULL; node = next) { next = node->next; SC_FREE (node); }
}

static void run_avl (unsigned long *par, int npar, char **ops, int nops)
{
  int i, withfree = (int) par[1], expect_freed = 0;
  aitem_t *arena = SC_ALLOC (aitem_t, nops + 1);
  avl_node_t **det = SC_ALLOC (avl_node_t *, nops + 1); int ndet = 0;
  avl_tree_t *tree;
  g_avl_mode = (int) par[0]; g_avl_freed = 0;
  tree = avl_alloc_tree (avl_cmp_fn, withfree ? avl_free_fn : NULL);
  for (i = 0; i < nops; ++i) {
    opr_t o; aitem_t *k = &arena[i], *it; avl_node_t *node; int r, n;
    parse_op (ops[i], &o);
    k->key = (int) o.a[0]; k->tag = (unsigned) o.a[1];
    if (i) osep ();
    switch (o.op) {
    case 'i':
      node = avl_insert (tree, k);
      oput ("i %d %x", node != NULL, avl_count (tree));
      if (node != NULL && node->item != (void *) k) oput (" WRONG_NODE");
      break;
    case 'd':
      it = (aitem_t *) avl_delete (tree, k);
      if (it != NULL) oput ("d 1 %x.%x %x", (unsigned) it->key, it->tag, avl_count (tree)); else oput ("d 0 %x", avl_count (tree));
      break;
    case 's':
      node = avl_search (tree, k);
      if (node != NULL) { it = (aitem_t *) node->item; oput ("s 1 %x.%x", (unsigned) it->key, it->tag); } else oput ("s 0");
      break;
    case 'n':
      node = NULL; r = avl_search_closest (tree, k, &node);
      if (node != NULL) { it = (aitem_t *) node->item; oput ("n | %s %x.%x", r < 0 ? "-1" : r > 0 ? "1" : "0", (unsigned) it->key, it->tag); } else oput ("n | none");
      break;
    case 'a':
      node = avl_at (tree, (unsigned) o.a[0]);
      if (node != NULL) { it = (aitem_t *) node->item; oput ("a %x.%x", (unsigned) it->key, it->tag); } else oput ("a -");
      break;
    case 'x':
      node = avl_search (tree, k);
      if (node != NULL) oput ("x %x", avl_index (node)); else oput ("x -");
      break;
    case 'c': {
      int ok = 1, h = 0; avl_node_t *last = NULL;
      unsigned sz = (g_chk_budget = 2L * nops + 16, avl_chk (tree, tree->top, NULL, &last, &ok, &h));
      if (tree->tail != last) ok = 0;
      if (tree->top == NULL && tree->head != NULL) ok = 0;
      oput ("c %x %d | %x %x", avl_count (tree), ok && sz == avl_count (tree), tree->top ? (unsigned) ((aitem_t *) tree->top->item)->key : 0u, h);
      break; }
    case 'f':
      n = 0; g_print = 0; avl_foreach (tree, avl_visit_fn, &n); oput ("f %x", n);
      n = 0; g_print = 1; avl_foreach (tree, avl_visit_fn, &n); break;
    case 'A': {
      sc_array_t *arr = sc_array_new (sizeof (void *)); size_t z;
      avl_to_array (tree, arr); oput ("A %zx", arr->elem_count);
      for (z = 0; z < arr->elem_count; ++z) { it = *(aitem_t **) sc_array_index (arr, z); oput (" %x.%x", (unsigned) it->key, it->tag); }
      sc_array_destroy (arr); break; }
    case 't':
      for (n = 0, node = tree->head; node != NULL; node = node->next) ++n;
      oput ("t %x", n);
      for (node = tree->head; node != NULL; node = node->next) { it = (aitem_t *) node->item; oput (" %x.%x", (unsigned) it->key, it->tag); }
      break;
    case 'b':
      for (n = 0, node = tree->tail; node != NULL; node = node->prev) ++n;
      oput ("b %x", n);
      for (node = tree->tail; node != NULL; node = node->prev) { it = (aitem_t *) node->item; oput (" %x.%x", (unsigned) it->key, it->tag); }
      break;
    case 'e':
      oput ("e");
      if (tree->head) { it = (aitem_t *) tree->head->item; oput (" %x.%x", (unsigned) it->key, it->tag); } else oput (" -");
      if (tree->tail) { it = (aitem_t *) tree->tail->item; oput (" %x.%x", (unsigned) it->key, it->tag); } else oput (" -");
      break;
    case 'z': avl_free_nodes (tree); oput ("z %x", avl_count (tree)); break;
    case 'y': avl_clear_and_free_nodes (tree); oput ("y %x", avl_count (tree)); break;
    case 'U':                      /* avl_unlink_node: the node object stays with the caller, freeitem is not called */
      node = avl_search (tree, k);
      if (node != NULL) { it = (aitem_t *) node->item; avl_unlink_node (tree, node); det[ndet++] = node; oput ("U 1 %x.%x %x", (unsigned) it->key, it->tag, avl_count (tree)); }
      else oput ("U 0 %x", avl_count (tree));
      break;
    case 'R':                      /* the kept object a[0] gets the new item (key a[1], tag a[2]) and is inserted again */
      if (o.a[0] >= (unsigned long) ndet) { oput ("R -"); break; }
      node = det[o.a[0]];
      k->key = (int) o.a[1]; k->tag = (unsigned) o.a[2];
      if (o.a[3]) avl_init_node (node, k); else node->item = k;
      if (avl_insert_node (tree, node) != NULL) {
        memmove (det + o.a[0], det + o.a[0] + 1, sizeof (avl_node_t *) * (size_t) (ndet - (int) o.a[0] - 1)); --ndet;
        oput ("R 1 %x", avl_count (tree));
      }
      else oput ("R 0 %x", avl_count (tree));
      break;
    default: oput ("UNKNOWN_OP");
    }
  }
  (void) expect_freed;
  while (ndet > 0) SC_FREE (det[--ndet]);
  SC_FREE (det);
  avl_free_tree (tree);
  osep (); oput ("Z %x", withfree ? g_avl_freed : 0);
  SC_FREE (arena);
}

/* ---------- AVL tree as a sequence: the caller chooses the position (avl_insert_before / _after / _top, avl_delete_node) ---------- */
static void run_aseq (unsigned long *par, int npar, char **ops, int nops)
{
  int i, withfree = (int) par[0];
  aitem_t *arena = SC_ALLOC (aitem_t, nops + 1);
  avl_node_t **det = SC_ALLOC (avl_node_t *, nops + 1); int ndet = 0;
  avl_tree_t *tree;
  g_avl_freed = 0;
  tree = avl_alloc_tree (NULL, withfree ? avl_free_fn : NULL);     /* no compare function: never called on these paths */
  for (i = 0; i < nops; ++i) {
    opr_t o; aitem_t *k = &arena[i], *it; avl_node_t *node, *nn, *res; int n;
    parse_op (ops[i], &o);
    k->key = (int) o.a[1]; k->tag = (unsigned) o.a[2];
    if (i) osep ();
    switch (o.op) {
    case 'P': case 'N':
      node = avl_at (tree, (unsigned) o.a[0]);
      if (o.a[3]) { nn = SC_ALLOC (avl_node_t, 1); memset (nn, 0x5a, sizeof (avl_node_t)); nn->item = k; }   /* filled in by hand: stale everything */
      else nn = avl_init_node (SC_ALLOC (avl_node_t, 1), k);
      res = o.op == 'P' ? avl_insert_before (tree, node, nn) : avl_insert_after (tree, node, nn);
      oput ("%c %x", o.op, avl_count (tree));
      if (res != nn || nn->item != (void *) k) oput (" WRONG_NODE");
      break;
    case 'D':
      node = avl_at (tree, (unsigned) o.a[0]);
      it = (aitem_t *) avl_delete_node (tree, node);
      if (it != NULL) oput ("D 1 %x.%x %x", (unsigned) it->key, it->tag, avl_count (tree)); else oput ("D 0 %x", avl_count (tree));
      break;
    case 'a':
      node = avl_at (tree, (unsigned) o.a[0]);
      if (node != NULL) { it = (aitem_t *) node->item; oput ("a %x.%x", (unsigned) it->key, it->tag); } else oput ("a -");
      break;
    case 'x':
      node = avl_at (tree, (unsigned) o.a[0]);
      if (node != NULL) oput ("x %x", avl_index (node)); else oput ("x -");
      break;
    case 'c': {
      int ok = 1, h = 0; avl_node_t *last = NULL;
      unsigned sz = (g_chk_budget = 2L * nops + 16, avl_chk (tree, tree->top, NULL, &last, &ok, &h));
      if (tree->tail != last) ok = 0;
      if (tree->top == NULL && tree->head != NULL) ok = 0;
      oput ("c %x %d | %x %x", avl_count (tree), ok && sz == avl_count (tree), tree->top ? (unsigned) ((aitem_t *) tree->top->item)->key : 0u, h);
      break; }
    case 'f':
      n = 0; g_print = 0; avl_foreach (tree, avl_visit_fn, &n); oput ("f %x", n);
      n = 0; g_print = 1; avl_foreach (tree, avl_visit_fn, &n); break;
    case 't':
      for (n = 0, node = tree->head; node != NULL; node = node->next) ++n;
      oput ("t %x", n);
      for (node = tree->head; node != NULL; node = node->next) { it = (aitem_t *) node->item; oput (" %x.%x", (unsigned) it->key, it->tag); }
      break;
    case 'b':
      for (n = 0, node = tree->tail; node != NULL; node = node->prev) ++n;
      oput ("b %x", n);
      for (node = tree->tail; node != NULL; node = node->prev) { it = (aitem_t *) node->item; oput (" %x.%x", (unsigned) it->key, it->tag); }
      break;
    case 'e':
      oput ("e");
      if (tree->head) { it = (aitem_t *) tree->head->item; oput (" %x.%x", (unsigned) it->key, it->tag); } else oput (" -");
      if (tree->tail) { it = (aitem_t *) tree->tail->item; oput (" %x.%x", (unsigned) it->key, it->tag); } else oput (" -");
      break;
    case 'z': avl_free_nodes (tree); oput ("z %x", avl_count (tree)); break;
    case 'y': avl_clear_and_free_nodes (tree); oput ("y %x", avl_count (tree)); break;
    case 'K':                      /* avl_unlink_node (avl_at (u)): the object (with its left / right / count as they are) stays with the caller */
      node = avl_at (tree, (unsigned) o.a[0]);
      if (node != NULL) { it = (aitem_t *) node->item; avl_unlink_node (tree, node); det[ndet++] = node; oput ("K 1 %x.%x %x", (unsigned) it->key, it->tag, avl_count (tree)); }
      else oput ("K 0 %x", avl_count (tree));
      break;
    case 'Q': case 'W':            /* kept object a[1] gets the item (a[2], a[3]) and is linked before / after avl_at (a[0]) */
      if (o.a[1] >= (unsigned long) ndet) { oput ("%c -", o.op); break; }
      nn = det[o.a[1]];
      memmove (det + o.a[1], det + o.a[1] + 1, sizeof (avl_node_t *) * (size_t) (ndet - (int) o.a[1] - 1)); --ndet;
      k->key = (int) o.a[2]; k->tag = (unsigned) o.a[3];
      if (o.a[4]) avl_init_node (nn, k); else nn->item = k;
      node = avl_at (tree, (unsigned) o.a[0]);
      res = o.op == 'Q' ? avl_insert_before (tree, node, nn) : avl_insert_after (tree, node, nn);
      oput ("%c %x", o.op, avl_count (tree));
      if (res != nn) oput (" WRONG_NODE");
      break;
    default: oput ("UNKNOWN_OP");
    }
  }
  while (ndet > 0) SC_FREE (det[--ndet]);
  SC_FREE (det);
  avl_free_tree (tree);
  osep (); oput ("Z %x", withfree ? g_avl_freed : 0);
  SC_FREE (arena);
}

/* ---------- two lists (and a third user holding items) on one allocator ---------- */
static void run_mlist (unsigned long *par, int npar, char **ops, int nops)
{
  int pre = (int) par[0], i, j, unlinked = 0, ok = 1;
  sc_mempool_t *ext = sc_mempool_new (sizeof (sc_link_t));
  void **held = SC_ALLOC (void *, pre + 1);
  sc_list_t stat[2];
  for (j = 0; j < pre; ++j) { held[j] = sc_mempool_alloc (ext); memset (held[j], 0x5a, sizeof (sc_link_t)); }
  sc_list_init (&stat[0], ext); sc_list_init (&stat[1], ext);
  for (i = 0; i < nops; ++i) {
    opr_t o; sc_link_t *lk; size_t ret = 0; size_t n; sc_list_t *list;
    parse_op (ops[i], &o);
    list = &stat[o.a[0] ? 1 : 0];
    if (i) osep ();
    switch (o.op) {
    case 'p': sc_list_prepend (list, (void *) (size_t) o.a[1]); break;
    case 'q': sc_list_append (list, (void *) (size_t) o.a[1]); break;
    case 'n': for (lk = list->first, n = 0; n < o.a[1]; ++n) lk = lk->next;
      sc_list_insert (list, lk, (void *) (size_t) o.a[2]); break;
    case 'm': for (lk = list->first, n = 0; n < o.a[1]; ++n) lk = lk->next;
      ret = (size_t) sc_list_remove (list, lk); break;
    case 'o': ret = (size_t) ((o.n > 1 && o.a[1]) ? sc_list_remove (list, NULL) : sc_list_pop (list)); break;
    case 'x': sc_list_reset (list); break;
    case 'u': sc_list_unlink (list); unlinked = 1; break;
    case 'd':
      for (lk = list->first, n = 0; lk != NULL; lk = lk->next) ++n;
      oput ("d %zx", n);
      for (lk = list->first; lk != NULL; lk = lk->next) oput (" %zx", (size_t) lk->data);
      continue;
    default: oput ("UNKNOWN_OP"); continue;
    }
    oput ("%c %zx %zx", o.op, ret, list->elem_count);
    if (list->first) oput (" %zx", (size_t) list->first->data); else oput (" -");
    if (list->last) oput (" %zx", (size_t) list->last->data); else oput (" -");
    oput (" | %zx", ext->elem_count);
  }
  if (!unlinked && ext->elem_count != (size_t) pre + stat[0].elem_count + stat[1].elem_count) {
    osep (); oput ("ALLOCATOR_COUNT %zx IS_NOT_THE_SUM %zx", ext->elem_count, (size_t) pre + stat[0].elem_count + stat[1].elem_count);
  }
  sc_list_reset (&stat[0]); sc_list_reset (&stat[1]);
  for (j = 0; j < pre; ++j) { size_t z; unsigned char *q = (unsigned char *) held[j]; for (z = 0; z < sizeof (sc_link_t); ++z) if (q[z] != 0x5a) ok = 0; }
  if (!ok) { osep (); oput ("FOREIGN_ITEM_CLOBBERED"); }
  if (!unlinked && ext->elem_count != (size_t) pre) { osep (); oput ("EXTERNAL_ALLOCATOR_COUNT %zx", ext->elem_count); }
  sc_mempool_destroy (ext); SC_FREE (held);
}

int main (void)
{
  char *line = NULL; size_t cap = 0; ssize_t len;
  unsigned limit = getenv ("C09_CASE_TIMEOUT") ? (unsigned) atoi (getenv ("C09_CASE_TIMEOUT")) : 30;
  signal (SIGALRM, on_alarm);
  while ((len = getline (&line, &cap, stdin)) > 0) {
    char *bar = strchr (line, '|'), *p; char **ops; int nops = 0, npar = 0, maxops; unsigned long par[8]; char *cname;
    int before;
    if (bar == NULL) { if (len > 1) printf ("BAD_CASE\n"); continue; }
    *bar = '\0';
    cname = strtok (line, " \n");
    while ((p = strtok (NULL, " \n")) != NULL && npar < 8) {
      par[npar++] = (*p == '-') ? (unsigned long) (-(long) strtoul (p + 1, NULL, 16)) : strtoul (p, NULL, 16);
    }
    maxops = (int) (len / 2) + 2;
    ops = (char **) malloc (sizeof (char *) * (size_t) maxops);
    for (p = strtok (bar + 1, " \n"); p != NULL; p = strtok (NULL, " \n")) ops[nops++] = p;
    on = 0; oput ("%s", "");
    alarm (limit);
    before = sc_memory_status (-1);
    if (cname == NULL) oput ("BAD_CASE");
    else if (!strcmp (cname, "hash")) run_hash (par, npar, ops, nops);
    else if (!strcmp (cname, "pool")) run_pool (par, npar, ops, nops);
    else if (!strcmp (cname, "uc")) run_uc (par, npar, ops, nops);
    else if (!strcmp (cname, "list")) run_list (par, npar, ops, nops);
    else if (!strcmp (cname, "harr")) run_harr (par, npar, ops, nops);
    else if (!strcmp (cname, "rec")) run_rec (par, npar, ops, nops);
    else if (!strcmp (cname, "kv")) run_kv (par, npar, ops, nops);
    else if (!strcmp (cname, "avl")) run_avl (par, npar, ops, nops);
    else if (!strcmp (cname, "aseq")) run_aseq (par, npar, ops, nops);
    else if (!strcmp (cname, "mlist")) run_mlist (par, npar, ops, nops);
    else oput ("UNKNOWN_CONTAINER");
    if (nops) osep ();
    oput ("E %x", (unsigned) (sc_memory_status (-1) - before));
    alarm (0);
    fwrite (ob, 1, on, stdout); fputc ('\n', stdout); fflush (stdout);
    free (ops);
  }
  free (line); free (ob);
  return 0;
}
