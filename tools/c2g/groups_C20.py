"""Translator groups of property C20.

ApiC20    - the declared public API versus the symbols of the freshly built library, per build
            configuration, as Gallina string lists (coq/Gen/ApiC20.v).  `declared` comes from clang's
            JSON AST of every header the CMake install rule installs (top-level FunctionDecl / extern
            VarDecl located in that header, no body, not static, not produced by a macro expansion),
            parsed with the configuration's own sc_config.h; `defined` from `nm` of the library built
            from /repo's working tree (plus the symbols the link line's system libraries export, for
            the third-party declarations of sc_builtin/getopt.h); `known` from known_findings.d/C20.txt.
AccessC20 - the configuration accessors of sc_notify.c / sc_options.c translated to Gallina
            (coq/Gen/AccessC20.v): struct fields and output arguments become explicit values.
"""
import os, re, json, subprocess, glob, hashlib, sys
from concurrent.futures import ThreadPoolExecutor

CONFIGS = [  # name, build_variant arguments, strip SC_ENABLE_PTHREAD from sc_config.h
    ("serial", dict(mpi="off", zlib=True, debug=False), False),
    ("nozlib", dict(mpi="off", zlib=False, debug=False), False),
    ("debug", dict(mpi="off", zlib=True, debug=True), False),
    ("ompi", dict(mpi="ompi", zlib=True, debug=False), False),
    ("ompi_full", dict(mpi="ompi", zlib=True, debug=False,
                       config_defs=("SC_ENABLE_MPIIO", "SC_ENABLE_MPICOMMSHARED", "SC_ENABLE_MPIWINSHARED", "SC_ENABLE_MPITHREAD")), False),
    ("nopthread", dict(mpi="off", zlib=True, debug=False), True),
]


def installed_headers(REPO, incdir):
    """Headers installed by the top-level CMakeLists.txt: install(DIRECTORY <dirs> ... FILES_MATCHING PATTERN "*.h").
    Returns [(path, name relative to the include directory)]."""
    top = open(os.path.join(REPO, "CMakeLists.txt")).read()
    out = []
    found = False
    for m in re.finditer(r"install\s*\(\s*DIRECTORY(.*?)\)", top, re.S):
        body = m.group(1)
        pm = re.search(r'FILES_MATCHING\s+PATTERN\s+"([^"]+)"', body)
        if not pm or "INCLUDE" not in body:
            continue
        found = True
        pat = pm.group(1)
        dirs = body.split("TYPE")[0].split()
        for d in dirs:
            d = d.replace("${PROJECT_SOURCE_DIR}", REPO).replace("${PROJECT_BINARY_DIR}/include", incdir).replace("${CMAKE_CURRENT_SOURCE_DIR}", REPO)
            if "${" in d:
                raise ValueError("install rule: cannot resolve " + d)
            d = d.rstrip("/")
            for root, _dirs, files in sorted(os.walk(d)):
                for f in sorted(files):
                    if re.fullmatch(pat.replace(".", r"\.").replace("*", ".*"), f):
                        p = os.path.join(root, f)
                        out.append((p, os.path.relpath(p, d)))
    if not found:
        raise ValueError("no header install rule found in CMakeLists.txt")
    return out


def _loc_update(l, cur):
    if "spellingLoc" in l:
        _loc_update(l["spellingLoc"], cur)
        _loc_update(l["expansionLoc"], cur)
        return
    if "file" in l:
        cur[0] = l["file"]


def extract_decls(cc_args, hdrs):
    """Declarations located in the installed headers when ONE translation unit including all of them (sc.h first)
    is parsed.  hdrs = [(path, relname)].  Returns (functions, variables, macro_made) as [(name, relname)], error."""
    rels = [r for _, r in hdrs]
    order = [r for r in rels if r == "sc.h"] + [r for r in rels if r != "sc.h"]
    src = "".join("#include <%s>\n" % r for r in order)
    p = subprocess.run(["clang", "-x", "c", "-fsyntax-only", "-w"] + cc_args + ["-Xclang", "-ast-dump=json", "-"],
                       input=src.encode(), stdout=subprocess.PIPE, stderr=subprocess.PIPE)
    if p.returncode != 0:
        return [], [], [], p.stderr.decode()[-800:]
    tu = json.loads(p.stdout.decode())
    cur = [None]
    funs, vars_, macro = [], [], []
    byreal = dict((os.path.realpath(pth), rel) for pth, rel in hdrs)
    realcache = {}

    def walk(n, top):
        ismacro = False
        if "loc" in n:
            ismacro = "expansionLoc" in n["loc"]
            _loc_update(n["loc"], cur)
        myfile = cur[0]
        if "range" in n:
            _loc_update(n["range"]["begin"], cur)
            _loc_update(n["range"]["end"], cur)
        if top and myfile and not n.get("isImplicit"):
            if myfile not in realcache:
                realcache[myfile] = os.path.realpath(myfile)
            rel = byreal.get(realcache[myfile])
            k = n.get("kind")
            if rel is not None and k == "FunctionDecl":
                has_body = any(c.get("kind") == "CompoundStmt" for c in n.get("inner", []))
                if not has_body and n.get("storageClass") != "static":
                    (macro if ismacro else funs).append((n["name"], rel))
            elif rel is not None and k == "VarDecl" and n.get("storageClass") == "extern":
                (macro if ismacro else vars_).append((n["name"], rel))
        for c in n.get("inner", []):
            if isinstance(c, dict):
                walk(c, False)
    for c in tu.get("inner", []):
        walk(c, True)
    return funs, vars_, macro, None


def standalone_check(cc_args, relname):
    """does `#include <relname>` compile on its own?  Returns None, or 'needs-sc.h', or the error text."""
    def tryit(src):
        p = subprocess.run(["clang", "-x", "c", "-fsyntax-only", "-w"] + cc_args + ["-"], input=src.encode(),
                           stdout=subprocess.PIPE, stderr=subprocess.PIPE)
        return p.returncode, p.stderr.decode()[-500:]
    rc, err = tryit("#include <%s>\n" % relname)
    if rc == 0:
        return None
    rc2, err2 = tryit("#include <sc.h>\n#include <%s>\n" % relname)
    return "needs-sc.h" if rc2 == 0 else err


def nm_defined(paths):
    funs, objs = set(), set()
    for p in paths:
        out = subprocess.run(["nm", "--defined-only", "-g", p], stdout=subprocess.PIPE, stderr=subprocess.DEVNULL).stdout.decode()
        for l in out.split("\n"):
            w = l.split()
            if len(w) == 3:
                if w[1] in "TWi":
                    funs.add(w[2])
                elif w[1] in "DBRCVGSu":
                    objs.add(w[2])
    return funs, objs


_syscache = {}


def system_exports(cc, ldflags):
    """dynamic symbols exported by the shared libraries named on the link line (and libc)"""
    key = (cc, tuple(ldflags))
    if key in _syscache:
        return _syscache[key]
    libs = ["c"] + [f[2:] for f in ldflags if f.startswith("-l")]
    if cc == "mpicc":
        link = subprocess.run(["mpicc", "--showme:link"], stdout=subprocess.PIPE).stdout.decode().split()
        libs += [f[2:] for f in link if f.startswith("-l")]
        ldirs = [f[2:] for f in link if f.startswith("-L")]
    else:
        ldirs = []
    syms = {}
    for l in dict.fromkeys(libs):
        path = None
        for d in ldirs:
            c = os.path.join(d, "lib%s.so" % l)
            if os.path.exists(c):
                path = c
        if path is None:
            for name in ("lib%s.so.6" % l, "lib%s.so" % l, "lib%s.so.1" % l, "lib%s.so.0" % l):
                c = subprocess.run(["gcc", "-print-file-name=" + name], stdout=subprocess.PIPE).stdout.decode().strip()
                if os.path.isabs(c) and os.path.exists(c):
                    path = c
                    break
        if path is None:
            continue
        out = subprocess.run(["nm", "-D", "--defined-only", os.path.realpath(path)], stdout=subprocess.PIPE, stderr=subprocess.DEVNULL).stdout.decode()
        for ln in out.split("\n"):
            w = ln.split()
            if len(w) == 3 and w[1] in "TWiDBRVu":
                syms.setdefault(w[2].split("@")[0], "lib" + l)
    _syscache[key] = syms
    return syms


def known_undefined(VERIF, cfgname):
    kn = []
    p = os.path.join(VERIF, "known_findings.d", "C20.txt")
    if os.path.exists(p):
        for l in open(p):
            m = re.match(r"finding:\s+property=C20\s+key=undefined:(\S+)\s+--", l.strip())
            if m:
                sym, _, only = m.group(1).partition("@")
                if not only or cfgname in only.split(","):
                    kn.append(sym)
    return sorted(set(kn))


def build_config(vlib, scratch, name, kw, nopthread):
    """library of one configuration + objects of the sources vlib leaves out (sc_v4l2.c)"""
    kw = dict(kw, san=False, opt="-O0")
    if nopthread:
        orig = vlib.make_config_h

        def patched(dst, *a, **k):
            orig(dst, *a, **k)
            s = open(dst).read()
            s = re.sub(r"^#define SC_ENABLE_PTHREAD\b.*$", "/* #undef SC_ENABLE_PTHREAD */", s, flags=re.M)
            open(dst, "w").write(s)
        vlib.make_config_h = patched
        try:
            v = vlib.build_variant(scratch, cdefs=("C20_NOPTHREAD_VARIANT",), **kw)
        finally:
            vlib.make_config_h = orig
    else:
        v = vlib.build_variant(scratch, **kw)
    extra = []
    for s in vlib.repo_sources():
        if s in vlib.SKIP_SOURCES:
            o = os.path.join(v.dir, "obj", "c20_" + s.replace("/", "_")[:-2] + ".o")
            if not os.path.exists(o):
                p = subprocess.run([v.cc] + v.cflags + ["-w", "-c", os.path.join(vlib.REPO, s), "-o", o], stdout=subprocess.PIPE, stderr=subprocess.STDOUT)
                if p.returncode != 0:
                    raise vlib.BuildError("%s does not compile in configuration %s: %s" % (s, name, p.stdout.decode()[-1500:]))
            extra.append(o)
    return v, extra


def survey(vlib, scratch, REPO, only=None):
    """[(cfgname, dict(declared=[(name, header)], declared_vars=..., defined=set, defined_objs=set, system=dict, macro_made=[], errors=[], variant, headers))]"""
    res = []
    for name, kw, nopt in CONFIGS:
        if only and name not in only:
            continue
        v, extra = build_config(vlib, scratch, name, kw, nopt)
        incdir = os.path.join(v.dir, "inc")
        hdrs = installed_headers(REPO, incdir)
        # parse with exactly the include directories an installed tree offers: the installed headers live in one
        # directory; here that is /repo/src plus the directory of the generated sc_config.h
        cc_args = ["-I" + incdir, "-I" + os.path.join(REPO, "src")]
        if v.cc == "mpicc":
            cc_args += subprocess.run(["mpicc", "--showme:compile"], stdout=subprocess.PIPE).stdout.decode().split()
        declared, dvars, macro, err = extract_decls(cc_args, hdrs)
        errors = [("<all installed headers>", err)] if err else []
        with ThreadPoolExecutor(max_workers=vlib.NCPU) as ex:
            alone = list(ex.map(lambda h: standalone_check(cc_args, h[1]), hdrs))
        needs_sc = [rel for (_, rel), r in zip(hdrs, alone) if r == "needs-sc.h"]
        errors += [(rel, r) for (_, rel), r in zip(hdrs, alone) if r not in (None, "needs-sc.h")]
        dfun, dobj = nm_defined([v.lib] + extra)
        res.append((name, dict(declared=declared, declared_vars=dvars, macro_made=macro, errors=errors, needs_sc=needs_sc, defined=dfun, defined_objs=dobj,
                               system=system_exports(v.cc, v.ldflags), variant=v, extra=extra, headers=hdrs)))
    return res


def coq_list(names, indent="  "):
    names = list(names)
    if not names:
        return "[]"
    lines, cur = [], ""
    for n in names:
        item = '"%s"' % n
        if len(cur) + len(item) > 110:
            lines.append(cur)
            cur = ""
        cur += item + "; "
    lines.append(cur)
    body = ("\n" + indent).join(lines).rstrip().rstrip(";")
    return "[" + body + "]"


def register(GROUPS, c2g, incs, REPO, HERE, STRUCTS, Group):
    import vlib
    VERIF = vlib.VERIF

    # ------------------------------------------------------------------------------------------
    def gen_api(tmp):
        g = Group("ApiC20")
        scratch = getattr(gen_api, "scratch", None) or tmp
        sv = survey(vlib, scratch, REPO)
        gen_api.last_survey = sv
        t = "From Coq Require Import String.\nLocal Open Scope string_scope.\n\n"
        t += "(* one entry per build configuration: (name, declared functions and extern objects of the installed headers,\n"
        t += "   symbols defined by the built library or exported by the link line's system libraries,\n"
        t += "   names recorded as declared-but-undefined in known_findings.d/C20.txt) *)\n"
        names = []
        for name, d in sv:
            if d["errors"]:
                raise c2g.Unsupported("installed header %s does not parse on its own in configuration %s: %s" % (d["errors"][0][0], name, d["errors"][0][1][-300:]))
            decl = sorted(set(x for x, _ in d["declared"]) | set(x for x, _ in d["declared_vars"]))
            sysn = sorted(x for x in decl if x not in d["defined"] and x not in d["defined_objs"] and x in d["system"])
            defd = sorted(d["defined"] | d["defined_objs"])
            known = known_undefined(VERIF, name)
            t += "Definition declared_%s : list string :=\n  %s.\n" % (name, coq_list(decl))
            t += "Definition defined_%s : list string :=\n  %s.\n" % (name, coq_list(defd))
            t += "Definition system_%s : list string :=\n  %s.\n" % (name, coq_list(sysn))
            t += "Definition known_%s : list string :=\n  %s.\n\n" % (name, coq_list(known))
            names.append(name)
        t += "Definition configs : list (string * list string * list string * list string) :=\n  [%s].\n" % ";\n   ".join(
            '("%s", declared_%s, (defined_%s ++ system_%s)%%list, known_%s)' % (n, n, n, n, n) for n in names)
        t += "\n(* headers the install rule installs (relative to the include directory) *)\n"
        t += "Definition installed_headers : list string :=\n  %s.\n" % coq_list(sorted(set(rel for _, d in sv for _, rel in d["headers"])))
        g.add(t, dict(name="configs", configs=names))
        files = [os.path.join(REPO, "CMakeLists.txt"), os.path.join(REPO, "src", "CMakeLists.txt")]
        return g, files

    GROUPS["ApiC20"] = gen_api

    # ------------------------------------------------------------------------------------------
    class AccT(c2g.Translator):
        """accessor functions: every location read is a parameter, every location written an output"""

        def __init__(self, consts):
            super().__init__()
            self.free_as_params = True
            self.consts = consts

        def lvalue_key(self, n):
            n = c2g.skip_parens(n)
            if n.get("kind") == "UnaryOperator" and n.get("opcode") == "*":
                base = c2g.skip_parens(n["inner"][0])
                while base.get("kind") in ("ImplicitCastExpr", "CStyleCastExpr"):
                    base = c2g.skip_parens(base["inner"][0])
                if base.get("kind") == "DeclRefExpr":
                    return base["referencedDecl"]["name"] + "_deref"
            return super().lvalue_key(n)

        ENUM_TYPEDEFS = ("sc_shmem_type_t", "sc_notify_type_t")

        def expr(self, n, env):
            if n.get("kind") in ("ImplicitCastExpr", "CStyleCastExpr") and n.get("castKind") == "IntegralCast" and \
                    (c2g.strip_quals(c2g.tystr(n)) in self.ENUM_TYPEDEFS or c2g.strip_quals(c2g.tystr(n["inner"][0])) in self.ENUM_TYPEDEFS):
                # enumeration typedefs are unsigned int / int sized; values of the enumeration are unchanged by the conversion
                return self.expr(n["inner"][0], env)
            if n.get("kind") == "DeclRefExpr":
                rd = n["referencedDecl"]
                if rd.get("kind") == "EnumConstantDecl" or rd.get("name") in self.consts:
                    if rd["name"] not in self.consts:
                        raise c2g.Unsupported("constant %s" % rd["name"])
                    return c2g.lit(self.consts[rd["name"]])
            return super().expr(n, env)

    def translate_acc(fn, consts, gname=None):
        T = AccT(consts)
        T.fname = fn["name"]
        T.gname = gname or fn["name"]
        body = [c for c in fn["inner"] if c.get("kind") == "CompoundStmt"][0]
        if c2g.body_uses_loops(body):
            raise c2g.Unsupported("loop in accessor " + fn["name"])
        acc, decl = set(), set()
        T.assigned(body, acc, decl)
        order_seen = []

        def scan(n):          # outputs in the order of their first assignment in the source
            if isinstance(n, dict):
                if n.get("kind") == "BinaryOperator" and n.get("opcode") == "=":
                    try:
                        k = T.resolve_alias(T.lvalue_key(n["inner"][0]))
                        if k not in order_seen:
                            order_seen.append(k)
                    except c2g.Unsupported:
                        pass
                for c in n.get("inner", []):
                    scan(c)
        scan(body)
        outs = sorted((T.resolve_alias(x) for x in acc if x not in decl),
                      key=lambda x: order_seen.index(x) if x in order_seen else 999)
        rett = c2g.strip_quals(fn["type"]["qualType"].split("(")[0])
        has_ret = rett != "void"
        env = {}

        def result(e, e2):
            parts = ([e.z()] if has_ret and e is not None else (["0"] if has_ret else [])) + [T.lookup(e2, o) for o in outs]
            return parts[0] if len(parts) == 1 else ("(%s)" % ", ".join(parts) if parts else "tt")
        K = dict(fin=lambda e2: result(None, e2), ret=lambda e, e2: result(e, e2), brk=None, cont=None)
        text = T.stmts(list(body.get("inner", [])), env, K)
        # parameters: C parameters first (in declaration order), then the fields read
        cparams = [p["name"] for p in fn.get("inner", []) if p.get("kind") == "ParmVarDecl" and p.get("name")]
        order = lambda x: (0, cparams.index(x)) if x in cparams else ((1, cparams.index(x[:-6]) if x[:-6] in cparams else 99) if x.endswith("_deref") else (2, T.params.index(x)))
        params = sorted(T.params, key=order)
        out = "Definition %s %s :=\n%s.\n" % (T.gname, " ".join("(%s : Z)" % p for p in params), text)
        return out, dict(name=T.gname, cname=fn["name"], params=params, outputs=(["ret"] if has_ret else []) + outs, fuel=False)

    def compile_consts(tmp, names, header):
        """values of enum constants / macros, evaluated by the compiler on the real headers"""
        src = os.path.join(tmp, "c20_consts.c")
        exe = os.path.join(tmp, "c20_consts")
        with open(src, "w") as f:
            f.write("#include <stdio.h>\n#include <%s>\nint main (void) {\n" % header)
            for n in names:
                f.write('  printf ("%s %%ld\\n", (long) (%s));\n' % (n, n))
            f.write("  return 0;\n}\n")
        p = subprocess.run(["gcc", "-w"] + ["-I" + i for i in incs(tmp)] + [src, "-o", exe], stdout=subprocess.PIPE, stderr=subprocess.STDOUT)
        if p.returncode != 0:
            raise c2g.Unsupported("constants of %s do not compile: %s" % (header, p.stdout.decode()[-400:]))
        out = subprocess.run([exe], stdout=subprocess.PIPE).stdout.decode()
        return dict((l.split()[0], int(l.split()[1])) for l in out.strip().split("\n"))

    def scalar_init(objs, name):
        v = c2g.find_var(objs, name)
        init = [c for c in v.get("inner", []) if isinstance(c, dict) and c.get("kind") != "FullComment"][-1]
        init = c2g.skip_parens(init)
        while init.get("kind") in ("ImplicitCastExpr", "CStyleCastExpr"):
            init = c2g.skip_parens(init["inner"][0])
        if init.get("kind") == "UnaryOperator" and init.get("opcode") == "-":
            return -int(c2g.skip_parens(init["inner"][0])["value"])
        if "value" in init:
            return int(init["value"])
        raise c2g.Unsupported("initialiser of %s is not a literal" % name)

    def gen_access(tmp):
        g = Group("AccessC20")
        f = os.path.join(REPO, "src", "sc_notify.c")
        tnames = ["SC_NOTIFY_DEFAULT", "SC_NOTIFY_ALLGATHER", "SC_NOTIFY_BINARY", "SC_NOTIFY_NARY", "SC_NOTIFY_PEX", "SC_NOTIFY_PCX",
                  "SC_NOTIFY_RSX", "SC_NOTIFY_NBX", "SC_NOTIFY_RANGES", "SC_NOTIFY_SUPERSET", "SC_NOTIFY_NUM_TYPES"]
        consts = compile_consts(tmp, tnames, "sc_notify.h")
        sconsts = compile_consts(tmp, ["SC_SHMEM_BASIC", "SC_SHMEM_PRESCAN", "SC_SHMEM_NUM_TYPES", "SC_SHMEM_NOT_SET"], "sc_shmem.h")
        for k, v in list(consts.items()) + list(sconsts.items()):
            g.add("Definition c20_%s : Z := %s.\n" % (k, c2g.lit(v).z()), dict(name="c20_" + k, fuel=False, params=[]))
        objs = c2g.clang_ast(f, "sc_notify_", incs(tmp))
        for name in ["sc_notify_type_default", "sc_notify_eager_threshold_default", "sc_notify_nary_ntop_default",
                     "sc_notify_nary_nint_default", "sc_notify_nary_nbot_default", "sc_notify_ranges_num_ranges_default"]:
            d = [o for o in objs if o.get("kind") == "VarDecl" and o.get("name") == name and
                 any(isinstance(c, dict) and c.get("kind") not in ("FullComment",) for c in o.get("inner", []))]
            if not d:
                raise c2g.Unsupported("no initialised definition of " + name)
            init = [c for c in d[-1]["inner"] if isinstance(c, dict) and c.get("kind") != "FullComment"][-1]
            init = c2g.skip_parens(init)
            while init.get("kind") in ("ImplicitCastExpr", "CStyleCastExpr"):
                init = c2g.skip_parens(init["inner"][0])
            if init.get("kind") == "DeclRefExpr":
                val = consts[init["referencedDecl"]["name"]]
            else:
                val = int(init["value"])
            g.add("Definition init_%s : Z := %s.\n" % (name, c2g.lit(val).z()), dict(name="init_" + name, fuel=False, params=[]))
        for fn in ["sc_notify_get_comm", "sc_notify_get_type", "sc_notify_get_eager_threshold", "sc_notify_set_eager_threshold",
                   "sc_notify_set_stats", "sc_notify_get_stats", "sc_notify_nary_get_widths", "sc_notify_nary_set_widths",
                   "sc_notify_ranges_get_num_ranges", "sc_notify_ranges_set_num_ranges", "sc_notify_ranges_get_package_id",
                   "sc_notify_ranges_set_package_id", "sc_notify_superset_set_callback", "sc_notify_superset_get_callback"]:
            t, i = translate_acc(c2g.find_function(objs, fn), consts)
            g.add(t, i)
        f2 = os.path.join(REPO, "src", "sc_options.c")
        objs2 = c2g.clang_ast(f2, "sc_options_s", incs(tmp))
        oc = {"sc_options_space_type": scalar_init(objs2, "sc_options_space_type"), "sc_options_space_help": scalar_init(objs2, "sc_options_space_help")}
        t, i = translate_acc(c2g.find_function(objs2, "sc_options_set_spacing"), oc)
        g.add(t, i)
        f3 = os.path.join(REPO, "src", "sc_shmem.c")
        objs3 = c2g.clang_ast(f3, "sc_shmem_", incs(tmp))
        dv = c2g.find_var(objs3, "sc_shmem_default_type")
        init = [c for c in dv.get("inner", []) if isinstance(c, dict) and c.get("kind") != "FullComment"][-1]
        init = c2g.skip_parens(init)
        while init.get("kind") in ("ImplicitCastExpr", "CStyleCastExpr", "ConstantExpr"):
            init = c2g.skip_parens(init["inner"][0])
        if init.get("kind") == "DeclRefExpr" and init["referencedDecl"]["name"] in sconsts:
            dval = sconsts[init["referencedDecl"]["name"]]
        elif "value" in init:
            dval = int(init["value"])
        else:
            raise c2g.Unsupported("initialiser of sc_shmem_default_type")
        g.add("Definition init_sc_shmem_default_type : Z := %s.\n" % c2g.lit(dval).z(), dict(name="init_sc_shmem_default_type", fuel=False, params=[]))
        for fn in ["sc_shmem_get_type", "sc_shmem_set_type"]:      # serial configuration
            t, i = translate_acc(c2g.find_function(objs3, fn), sconsts, gname=fn + "_serial")
            g.add(t, i)
        return g, [f, f2, f3]

    GROUPS["AccessC20"] = gen_access

    # ------------------------------------------------------------------------------------------
    # UseC20: (a) the places that write the configuration fields OUTSIDE the setters - sc_notify_new, sc_notify_set_type,
    # sc_notify_nary_init, sc_notify_ranges_init - as slices (calls become ghost outputs: was it called, with which
    # arguments), (b) a census of EVERY store into / address taken of a configuration field and every call of a writer
    # in sc_notify.c, of the spacing fields in sc_options.c and of the attribute calls in sc_shmem.c (MPI configuration).
    # A new writer of a configuration field (a round that re-initialises, a lazy initialisation) changes the census and the
    # theorem C20_gen_writers no longer holds, before any input is run.
    import slicelib as sl
    import copy as _copy

    ENUM_TYPEDEFS = ("sc_shmem_type_t", "sc_notify_type_t")

    def make_slice_class(consts):
        class AccSliceT(sl.SliceT):
            def expr(self, n, env):
                if n.get("kind") in ("ImplicitCastExpr", "CStyleCastExpr") and n.get("castKind") == "IntegralCast" and \
                        (c2g.strip_quals(c2g.tystr(n)) in ENUM_TYPEDEFS or c2g.strip_quals(c2g.tystr(n["inner"][0])) in ENUM_TYPEDEFS):
                    return self.expr(n["inner"][0], env)
                if n.get("kind") == "DeclRefExpr":
                    rd = n["referencedDecl"]
                    if rd.get("kind") == "EnumConstantDecl":
                        if rd["name"] not in consts:
                            raise c2g.Unsupported("constant %s" % rd["name"])
                        return c2g.lit(consts[rd["name"]])
                return super().expr(n, env)
        return AccSliceT

    def unchain(stmts):
        """a = b = e;  ->  b = e; a = b;   (same stores, same order of evaluation)"""
        out = []
        for st in stmts:
            if st.get("kind") == "BinaryOperator" and st.get("opcode") == "=":
                r = c2g.skip_parens(st["inner"][1])
                if r.get("kind") == "BinaryOperator" and r.get("opcode") == "=":
                    ilhs = r["inner"][0]
                    out += unchain([r])
                    rv = dict(kind="ImplicitCastExpr", castKind="LValueToRValue", type=ilhs.get("type"), inner=[ilhs])
                    out.append(dict(st, inner=[st["inner"][0], rv]))
                    continue
            out.append(st)
        return out

    def slice_fn(objs, consts, name, outputs, want, **kw):
        fn = c2g.find_function(objs, name)
        body = unchain([c for c in fn["inner"] if c.get("kind") == "CompoundStmt"][0].get("inner", []))
        orig = sl.SliceT
        sl.SliceT = make_slice_class(consts)
        try:
            # `want` documents the free variables expected today; the theorems C20_gen_* apply the definitions by position, so a
            # renamed local variable is harmless and a NEW free variable changes the arity (the proofs fail)
            return sl.emit_block(body, "slice_" + name, outputs, name, **kw)
        finally:
            sl.SliceT = orig

    ASSIGN_OPS = ("=", "+=", "-=", "*=", "/=", "%=", "&=", "|=", "^=", "<<=", ">>=")

    def strip_casts(n):
        n = c2g.skip_parens(n)
        while n.get("kind") in ("ImplicitCastExpr", "CStyleCastExpr"):
            n = c2g.skip_parens(n["inner"][0])
        return n

    def type_text(n):
        t = n.get("type", {})
        return (t.get("qualType", "") + " | " + t.get("desugaredQualType", ""))

    def member_path(n, rec_re):
        """n (casts stripped) is a member chain rooted in an object of the record type: the dotted path, else None"""
        n = strip_casts(n)
        path = []
        while n.get("kind") == "MemberExpr":
            path.insert(0, n.get("name"))
            base = strip_casts(n["inner"][0])
            if re.search(rec_re, type_text(base)):
                return ".".join(path)
            n = base
        if n.get("kind") == "ArraySubscriptExpr":
            return member_path(n["inner"][0], rec_re)
        return None

    def census(objs, cfile, rec_re, config_fields, watch_calls, name_filter, tmp, extra_cc=()):
        """[(function, 'store:<path>' | 'addr:<path>' | 'call:<callee>')] over every function defined in cfile"""
        text = open(cfile).read()
        res = []
        seen_fns = set()

        def visit(fname, n):
            if not isinstance(n, dict):
                return
            k = n.get("kind")
            if k in ("BinaryOperator", "CompoundAssignOperator") and n.get("opcode") in ASSIGN_OPS:
                lhs = strip_casts(n["inner"][0])
                pth = member_path(lhs, rec_re)
                if pth is not None:
                    res.append((fname, "store:" + pth))
                elif lhs.get("kind") == "UnaryOperator" and lhs.get("opcode") == "*" and re.search(rec_re, type_text(strip_casts(lhs["inner"][0]))):
                    res.append((fname, "store:*"))
            if k == "UnaryOperator" and n.get("opcode") in ("++", "--"):
                pth = member_path(n["inner"][0], rec_re)
                if pth is not None:
                    res.append((fname, "store:" + pth))
            if k == "UnaryOperator" and n.get("opcode") == "&":
                pth = member_path(n["inner"][0], rec_re)
                if pth is not None and pth.split(".")[0] in config_fields:
                    res.append((fname, "addr:" + pth))
            if k == "CallExpr":
                callee = strip_casts(n["inner"][0]).get("referencedDecl", {}).get("name")
                if callee in watch_calls:
                    res.append((fname, "call:" + callee))
                if callee in ("memset", "memcpy", "memmove", "__builtin_memset", "__builtin_memcpy", "__builtin_memmove", "bzero") and len(n["inner"]) > 1:
                    a0 = strip_casts(n["inner"][1])
                    if re.search(rec_re, type_text(a0)) and a0.get("kind") != "UnaryOperator":
                        res.append((fname, "addr:*"))
            for c in n.get("inner", []):
                visit(fname, c)
        def take(objs_):
            for o in objs_:
                if o.get("kind") == "FunctionDecl" and o.get("name") not in seen_fns and any(c.get("kind") == "CompoundStmt" for c in o.get("inner", [])):
                    seen_fns.add(o["name"])
                    for c in o["inner"]:
                        if c.get("kind") == "CompoundStmt":
                            visit(o["name"], c)
        take(objs)
        # completeness of the function list: every function of the object file is in the census or comes from a header
        ofile = os.path.join(tmp, "c20_census_%s.o" % os.path.basename(cfile))
        pr = subprocess.run(["gcc", "-O0", "-w", "-c"] + ["-I" + i for i in incs(tmp)] + list(extra_cc) + [cfile, "-o", ofile], stdout=subprocess.PIPE, stderr=subprocess.STDOUT)
        if pr.returncode != 0:
            raise c2g.Unsupported("census: %s does not compile: %s" % (cfile, pr.stdout.decode()[-300:]))
        for ln in subprocess.run(["nm", ofile], stdout=subprocess.PIPE).stdout.decode().split("\n"):
            w = ln.split()
            if len(w) == 3 and w[1] in "tT" and w[2] not in seen_fns and re.search(r"^%s\s*\(" % re.escape(w[2]), text, re.M):
                take(c2g.clang_ast(cfile, w[2], incs(tmp)))       # a function of this file whose name the filter does not match
                if w[2] not in seen_fns:
                    raise c2g.Unsupported("census: function %s of %s is not covered" % (w[2], os.path.basename(cfile)))
        out = []
        for x in res:
            if x not in out:
                out.append(x)
        return sorted(out)

    def coq_pairs(name, pairs, comment):
        t = "(* %s *)\nDefinition %s : list (string * string) :=\n  [" % (comment, name)
        t += ";\n   ".join('("%s"%%string, "%s"%%string)' % p for p in pairs)
        return t + "].\n"

    def gen_use(tmp):
        g = Group("UseC20")
        g.add("From Coq Require Import String.\n", dict(name="_imports", fuel=False, params=[]))
        f = os.path.join(REPO, "src", "sc_notify.c")
        tnames = ["SC_NOTIFY_DEFAULT", "SC_NOTIFY_ALLGATHER", "SC_NOTIFY_BINARY", "SC_NOTIFY_NARY", "SC_NOTIFY_PEX", "SC_NOTIFY_PCX",
                  "SC_NOTIFY_RSX", "SC_NOTIFY_NBX", "SC_NOTIFY_RANGES", "SC_NOTIFY_SUPERSET", "SC_NOTIFY_NUM_TYPES"]
        consts = compile_consts(tmp, tnames, "sc_notify.h")
        objs = c2g.clang_ast(f, "sc_notify", incs(tmp))
        for name, outs, want, kw in [
            ("sc_notify_ranges_init", ["notify_data_ranges_num_ranges", "notify_data_ranges_package_id"],
             ["sc_notify_ranges_num_ranges_default", "sc_package_id"], {}),
            ("sc_notify_nary_init", ["notify_data_nary_mpicomm", "notify_data_nary_mpisize", "notify_data_nary_mpirank", "*ghosts"],
             ["sc_notify_get_comm_ret", "sc_MPI_Comm_size_ret", "mpisize", "sc_MPI_Comm_rank_ret", "mpirank", "notify",
              "sc_notify_nary_ntop_default", "sc_notify_nary_nint_default", "sc_notify_nary_nbot_default"],
             dict(effects=("sc_MPI_Comm_size", "sc_MPI_Comm_rank", "sc_notify_nary_set_widths"), symbolic_calls=("sc_notify_get_comm",))),
            ("sc_notify_set_type", ["notify_type", "ret", "*ghosts"],
             ["sc_notify_get_type_ret", "in_type", "sc_notify_type_default", "notify", "notify_type"],
             dict(ret="ret", effects=("sc_notify_ranges_init", "sc_notify_nary_init"), effect_called=True, symbolic_calls=("sc_notify_get_type",))),
            ("sc_notify_new", ["ret", "notify_mpicomm", "notify_type", "notify_eager_threshold", "*ghosts"],
             ["sc_calloc_ret", "comm", "sc_notify_eager_threshold_default", "sc_notify_type_default"],
             dict(ret="ret", effects=("sc_notify_set_type",), drop_calls=("sc_flops_start_nopapi",), symbolic_calls=("sc_calloc",)))]:
            t, i = slice_fn(objs, consts, name, outs, want, **kw)
            g.add(t, i)
        WRITERS = ("sc_notify_set_type", "sc_notify_nary_init", "sc_notify_ranges_init", "sc_notify_set_eager_threshold", "sc_notify_set_stats",
                   "sc_notify_nary_set_widths", "sc_notify_ranges_set_num_ranges", "sc_notify_ranges_set_package_id", "sc_notify_superset_set_callback")
        cz = census(objs, f, r"\bsc_notify_t\b|\bstruct sc_notify_s\b|\bstruct sc_notify\b", ("mpicomm", "type", "eager_threshold", "stats", "data"), WRITERS, "sc_notify", tmp)
        g.add(coq_pairs("c20_notify_writers", cz, "sc_notify.c: every store into a field of a controller (store:<path>), every address taken of a configuration field "
                        "(addr:<path>; the timing record `flop` is not configuration) and every call of a function that writes configuration (call:<callee>), by function"),
              dict(name="c20_notify_writers", fuel=False, params=[]))
        f2 = os.path.join(REPO, "src", "sc_options.c")
        objs2 = c2g.clang_ast(f2, "sc_options", incs(tmp))
        cz2 = [x for x in census(objs2, f2, r"\bsc_options_t\b|\bstruct sc_options\b", ("space_type", "space_help"), ("sc_options_set_spacing",), "sc_options", tmp)
               if x[1].split(":", 1)[1].split(".")[0] in ("space_type", "space_help", "sc_options_set_spacing", "*")]
        g.add(coq_pairs("c20_spacing_writers", cz2, "sc_options.c: stores into / addresses of the two spacing fields and calls of sc_options_set_spacing"),
              dict(name="c20_spacing_writers", fuel=False, params=[]))
        # sc_shmem.c in the MPI configuration: who sets or deletes the communicator attribute, who calls the setter
        f3 = os.path.join(REPO, "src", "sc_shmem.c")
        mtmp = os.path.join(tmp, "c20_mpi_inc")
        os.makedirs(os.path.join(mtmp, "inc"), exist_ok=True)
        vlib.make_config_h(os.path.join(mtmp, "inc", "sc_config.h"), "ompi", True, False, ())
        mflags = [x[2:] for x in subprocess.run(["mpicc", "--showme:compile"], stdout=subprocess.PIPE).stdout.decode().split() if x.startswith("-I")]
        minc = [os.path.join(mtmp, "inc")] + [i for i in incs(tmp) if i != os.path.join(tmp, "inc")] + mflags
        objs3 = c2g.clang_ast(f3, "sc_shmem", minc)
        calls = []

        def cv(fname, n):
            if isinstance(n, dict):
                if n.get("kind") == "CallExpr":
                    cal = strip_casts(n["inner"][0]).get("referencedDecl", {}).get("name")
                    if cal in ("sc_shmem_set_type", "MPI_Comm_set_attr", "MPI_Comm_delete_attr", "MPI_Attr_put", "MPI_Attr_delete", "PMPI_Comm_set_attr", "PMPI_Comm_delete_attr"):
                        if (fname, "call:" + cal) not in calls:
                            calls.append((fname, "call:" + cal))
                for c in n.get("inner", []):
                    cv(fname, c)
        nfun = 0
        for o in objs3:
            if o.get("kind") == "FunctionDecl" and any(c.get("kind") == "CompoundStmt" for c in o.get("inner", [])):
                nfun += 1
                cv(o["name"], o)
        if nfun < 10:
            raise c2g.Unsupported("census of sc_shmem.c (MPI configuration): only %d functions parsed" % nfun)
        g.add(coq_pairs("c20_shmem_writers", sorted(calls), "sc_shmem.c with SC_ENABLE_MPI: calls that set or delete the communicator attribute, calls of sc_shmem_set_type"),
              dict(name="c20_shmem_writers", fuel=False, params=[]))
        return g, [f, f2, f3]

    GROUPS["UseC20"] = gen_use
