"""Translator groups of property C20.

ApiC20    - the declared public API versus the symbols of the freshly built library, per build
            configuration, as Gallina string lists (coq/Gen/ApiC20.v).  `declared` comes from clang's
            JSON AST of every header the CMake install rule installs (top-level FunctionDecl / extern
            VarDecl located in that header, no body, not static, not produced by a macro expansion),
            parsed with the configuration's own sc_config.h; `defined` from `nm` of the library built
            from /repo's working tree (plus the symbols the link line's system libraries export, for
            the third-party declarations of sc_builtin/getopt.h); `known` from known_findings.d/C20.txt.
AccessC20 - the configuration accessors of sc_notify.c / sc_options.c translated to Gallina
            (coq/Gen/AccessC20.v): struct fields and output arguments become explicit values.
"""
import os, re, json, subprocess, glob, hashlib, sys
from concurrent.futures import ThreadPoolExecutor

CONFIGS = [  # name, build_variant arguments, strip SC_ENABLE_PTHREAD from sc_config.h
    ("serial", dict(mpi="off", zlib=True, debug=False), False),
    ("nozlib", dict(mpi="off", zlib=False, debug=False), False),
    ("debug", dict(mpi="off", zlib=True, debug=True), False),
    ("ompi", dict(mpi="ompi", zlib=True, debug=False), False),
    ("ompi_full", dict(mpi="ompi", zlib=True, debug=False,
                       config_defs=("SC_ENABLE_MPIIO", "SC_ENABLE_MPICOMMSHARED", "SC_ENABLE_MPIWINSHARED", "SC_ENABLE_MPITHREAD")), False),
    ("nopthread", dict(mpi="off", zlib=True, debug=False), True),
]


def installed_headers(REPO, incdir):
    """Headers installed by the top-level CMakeLists.txt: install(DIRECTORY <dirs> ... FILES_MATCHING PATTERN "*.h").
    Returns [(path, name relative to the include directory)]."""
    top = open(os.path.join(REPO, "CMakeLists.txt")).read()
    out = []
    found = False
    for m in re.finditer(r"install\s*\(\s*DIRECTORY(.*?)\)", top, re.S):
        body = m.group(1)
        pm = re.search(r'FILES_MATCHING\s+PATTERN\s+"([^"]+)"', body)
        if not pm or "INCLUDE" not in body:
            continue
        found = True
        pat = pm.group(1)
        dirs = body.split("TYPE")[0].split()
        for d in dirs:
            d = d.replace("${PROJECT_SOURCE_DIR}", REPO).replace("${PROJECT_BINARY_DIR}/include", incdir).replace("${CMAKE_CURRENT_SOURCE_DIR}", REPO)
            if "${" in d:
                raise ValueError("install rule: cannot resolve " + d)
            d = d.rstrip("/")
            for root, _dirs, files in sorted(os.walk(d)):
                for f in sorted(files):
                    if re.fullmatch(pat.replace(".", r"\.").replace("*", ".*"), f):
                        p = os.path.join(root, f)
                        out.append((p, os.path.relpath(p, d)))
    if not found:
        raise ValueError("no header install rule found in CMakeLists.txt")
    return out


def _loc_update(l, cur):
    if "spellingLoc" in l:
        _loc_update(l["spellingLoc"], cur)
        _loc_update(l["expansionLoc"], cur)
        return
    if "file" in l:
        cur[0] = l["file"]


def extract_decls(cc_args, hdrs):
    """Declarations located in the installed headers when ONE translation unit including all of them (sc.h first)
    is parsed.  hdrs = [(path, relname)].  Returns (functions, variables, macro_made) as [(name, relname)], error."""
    rels = [r for _, r in hdrs]
    order = [r for r in rels if r == "sc.h"] + [r for r in rels if r != "sc.h"]
    src = "".join("#include <%s>\n" % r for r in order)
    p = subprocess.run(["clang", "-x", "c", "-fsyntax-only", "-w"] + cc_args + ["-Xclang", "-ast-dump=json", "-"],
                       input=src.encode(), stdout=subprocess.PIPE, stderr=subprocess.PIPE)
    if p.returncode != 0:
        return [], [], [], p.stderr.decode()[-800:]
    tu = json.loads(p.stdout.decode())
    cur = [None]
    funs, vars_, macro = [], [], []
    byreal = dict((os.path.realpath(pth), rel) for pth, rel in hdrs)
    realcache = {}

    def walk(n, top):
        ismacro = False
        if "loc" in n:
            ismacro = "expansionLoc" in n["loc"]
            _loc_update(n["loc"], cur)
        myfile = cur[0]
        if "range" in n:
            _loc_update(n["range"]["begin"], cur)
            _loc_update(n["range"]["end"], cur)
        if top and myfile and not n.get("isImplicit"):
            if myfile not in realcache:
                realcache[myfile] = os.path.realpath(myfile)
            rel = byreal.get(realcache[myfile])
            k = n.get("kind")
            if rel is not None and k == "FunctionDecl":
                has_body = any(c.get("kind") == "CompoundStmt" for c in n.get("inner", []))
                if not has_body and n.get("storageClass") != "static":
                    (macro if ismacro else funs).append((n["name"], rel))
            elif rel is not None and k == "VarDecl" and n.get("storageClass") == "extern":
                (macro if ismacro else vars_).append((n["name"], rel))
        for c in n.get("inner", []):
            if isinstance(c, dict):
                walk(c, False)
    for c in tu.get("inner", []):
        walk(c, True)
    return funs, vars_, macro, None


def standalone_check(cc_args, relname):
    """does `#include <relname>` compile on its own?  Returns None, or 'needs-sc.h', or the error text."""
    def tryit(src):
        p = subprocess.run(["clang", "-x", "c", "-fsyntax-only", "-w"] + cc_args + ["-"], input=src.encode(),
                           stdout=subprocess.PIPE, stderr=subprocess.PIPE)
        return p.returncode, p.stderr.decode()[-500:]
    rc, err = tryit("#include <%s>\n" % relname)
    if rc == 0:
        return None
    rc2, err2 = tryit("#include <sc.h>\n#include <%s>\n" % relname)
    return "needs-sc.h" if rc2 == 0 else err


def nm_defined(paths):
    funs, objs = set(), set()
    for p in paths:
        out = subprocess.run(["nm", "--defined-only", "-g", p], stdout=subprocess.PIPE, stderr=subprocess.DEVNULL).stdout.decode()
        for l in out.split("\n"):
            w = l.split()
            if len(w) == 3:
                if w[1] in "TWi":
                    funs.add(w[2])
                elif w[1] in "DBRCVGSu":
                    objs.add(w[2])
    return funs, objs


_syscache = {}


def system_exports(cc, ldflags):
    """dynamic symbols exported by the shared libraries named on the link line (and libc)"""
    key = (cc, tuple(ldflags))
    if key in _syscache:
        return _syscache[key]
    libs = ["c"] + [f[2:] for f in ldflags if f.startswith("-l")]
    if cc == "mpicc":
        link = subprocess.run(["mpicc", "--showme:link"], stdout=subprocess.PIPE).stdout.decode().split()
        libs += [f[2:] for f in link if f.startswith("-l")]
        ldirs = [f[2:] for f in link if f.startswith("-L")]
    else:
        ldirs = []
    syms = {}
    for l in dict.fromkeys(libs):
        path = None
        for d in ldirs:
            c = os.path.join(d, "lib%s.so" % l)
            if os.path.exists(c):
                path = c
        if path is None:
            for name in ("lib%s.so.6" % l, "lib%s.so" % l, "lib%s.so.1" % l, "lib%s.so.0" % l):
                c = subprocess.run(["gcc", "-print-file-name=" + name], stdout=subprocess.PIPE).stdout.decode().strip()
                if os.path.isabs(c) and os.path.exists(c):
                    path = c
                    break
        if path is None:
            continue
        out = subprocess.run(["nm", "-D", "--defined-only", os.path.realpath(path)], stdout=subprocess.PIPE, stderr=subprocess.DEVNULL).stdout.decode()
        for ln in out.split("\n"):
            w = ln.split()
            if len(w) == 3 and w[1] in "TWiDBRVu":
                syms.setdefault(w[2].split("@")[0], "lib" + l)
    _syscache[key] = syms
    return syms


def known_undefined(VERIF, cfgname):
    kn = []
    p = os.path.join(VERIF, "known_findings.d", "C20.txt")
    if os.path.exists(p):
        for l in open(p):
            m = re.match(r"finding:\s+property=C20\s+key=undefined:(\S+)\s+--", l.strip())
            if m:
                sym, _, only = m.group(1).partition("@")
                if not only or cfgname in only.split(","):
                    kn.append(sym)
    return sorted(set(kn))


def build_config(vlib, scratch, name, kw, nopthread):
    """library of one configuration + objects of the sources vlib leaves out (sc_v4l2.c)"""
    kw = dict(kw, san=False, opt="-O0")
    if nopthread:
        orig = vlib.make_config_h

        def patched(dst, *a, **k):
            orig(dst, *a, **k)
            s = open(dst).read()
            s = re.sub(r"^#define SC_ENABLE_PTHREAD\b.*$", "/* #undef SC_ENABLE_PTHREAD */", s, flags=re.M)
            open(dst, "w").write(s)
        vlib.make_config_h = patched
        try:
            v = vlib.build_variant(scratch, cdefs=("C20_NOPTHREAD_VARIANT",), **kw)
        finally:
            vlib.make_config_h = orig
    else:
        v = vlib.build_variant(scratch, **kw)
    extra = []
    for s in vlib.repo_sources():
        if s in vlib.SKIP_SOURCES:
            o = os.path.join(v.dir, "obj", "c20_" + s.replace("/", "_")[:-2] + ".o")
            if not os.path.exists(o):
                p = subprocess.run([v.cc] + v.cflags + ["-w", "-c", os.path.join(vlib.REPO, s), "-o", o], stdout=subprocess.PIPE, stderr=subprocess.STDOUT)
                if p.returncode != 0:
                    raise vlib.BuildError("%s does not compile in configuration %s: %s" % (s, name, p.stdout.decode()[-1500:]))
            extra.append(o)
    return v, extra


def survey(vlib, scratch, REPO, only=None):
    """[(cfgname, dict(declared=[(name, header)], declared_vars=..., defined=set, defined_objs=set, system=dict, macro_made=[], errors=[], variant, headers))]"""
    res = []
    for name, kw, nopt in CONFIGS:
        if only and name not in only:
            continue
        v, extra = build_config(vlib, scratch, name, kw, nopt)
        incdir = os.path.join(v.dir, "inc")
        hdrs = installed_headers(REPO, incdir)
        # parse with exactly the include directories an installed tree offers: the installed headers live in one
        # directory; here that is /repo/src plus the directory of the generated sc_config.h
        cc_args = ["-I" + incdir, "-I" + os.path.join(REPO, "src")]
        if v.cc == "mpicc":
            cc_args += subprocess.run(["mpicc", "--showme:compile"], stdout=subprocess.PIPE).stdout.decode().split()
        declared, dvars, macro, err = extract_decls(cc_args, hdrs)
        errors = [("<all installed headers>", err)] if err else []
        with ThreadPoolExecutor(max_workers=vlib.NCPU) as ex:
            alone = list(ex.map(lambda h: standalone_check(cc_args, h[1]), hdrs))
        needs_sc = [rel for (_, rel), r in zip(hdrs, alone) if r == "needs-sc.h"]
        errors += [(rel, r) for (_, rel), r in zip(hdrs, alone) if r not in (None, "needs-sc.h")]
        dfun, dobj = nm_defined([v.lib] + extra)
        res.append((name, dict(declared=declared, declared_vars=dvars, macro_made=macro, errors=errors, needs_sc=needs_sc, defined=dfun, defined_objs=dobj,
                               system=system_exports(v.cc, v.ldflags), variant=v, extra=extra, headers=hdrs)))
    return res


def coq_list(names, indent="  "):
    names = list(names)
    if not names:
        return "[]"
    lines, cur = [], ""
    for n in names:
        item = '"%s"' % n
        if len(cur) + len(item) > 110:
            lines.append(cur)
            cur = ""
        cur += item + "; "
    lines.append(cur)
    body = ("\n" + indent).join(lines).rstrip().rstrip(";")
    return "[" + body + "]"


def register(GROUPS, c2g, incs, REPO, HERE, STRUCTS, Group):
    import vlib
    VERIF = vlib.VERIF

    # ------------------------------------------------------------------------------------------
    def gen_api(tmp):
        g = Group("ApiC20")
        scratch = getattr(gen_api, "scratch", None) or tmp
        sv = survey(vlib, scratch, REPO)
        gen_api.last_survey = sv
        t = "From Coq Require Import String.\nLocal Open Scope string_scope.\n\n"
        t += "(* one entry per build configuration: (name, declared functions and extern objects of the installed headers,\n"
        t += "   symbols defined by the built library or exported by the link line's system libraries,\n"
        t += "   names recorded as declared-but-undefined in known_findings.d/C20.txt) *)\n"
        names = []
        for name, d in sv:
            if d["errors"]:
                raise c2g.Unsupported("installed header %s does not parse on its own in configuration %s: %s" % (d["errors"][0][0], name, d["errors"][0][1][-300:]))
            decl = sorted(set(x for x, _ in d["declared"]) | set(x for x, _ in d["declared_vars"]))
            sysn = sorted(x for x in decl if x not in d["defined"] and x not in d["defined_objs"] and x in d["system"])
            defd = sorted(d["defined"] | d["defined_objs"])
            known = known_undefined(VERIF, name)
            t += "Definition declared_%s : list string :=\n  %s.\n" % (name, coq_list(decl))
            t += "Definition defined_%s : list string :=\n  %s.\n" % (name, coq_list(defd))
            t += "Definition system_%s : list string :=\n  %s.\n" % (name, coq_list(sysn))
            t += "Definition known_%s : list string :=\n  %s.\n\n" % (name, coq_list(known))
            names.append(name)
        t += "Definition configs : list (string * list string * list string * list string) :=\n  [%s].\n" % ";\n   ".join(
            '("%s", declared_%s, (defined_%s ++ system_%s)%%list, known_%s)' % (n, n, n, n, n) for n in names)
        t += "\n(* headers the install rule installs (relative to the include directory) *)\n"
        t += "Definition installed_headers : list string :=\n  %s.\n" % coq_list(sorted(set(rel for _, d in sv for _, rel in d["headers"])))
        g.add(t, dict(name="configs", configs=names))
        files = [os.path.join(REPO, "CMakeLists.txt"), os.path.join(REPO, "src", "CMakeLists.txt")]
        return g, files

    GROUPS["ApiC20"] = gen_api

    # ------------------------------------------------------------------------------------------
    class AccT(c2g.Translator):
        """accessor functions: every location read is a parameter, every location written an output"""

        def __init__(self, consts):
            super().__init__()
            self.free_as_params = True
            self.consts = consts

        def lvalue_key(self, n):
            n = c2g.skip_parens(n)
            if n.get("kind") == "UnaryOperator" and n.get("opcode") == "*":
                base = c2g.skip_parens(n["inner"][0])
                while base.get("kind") in ("ImplicitCastExpr", "CStyleCastExpr"):
                    base = c2g.skip_parens(base["inner"][0])
                if base.get("kind") == "DeclRefExpr":
                    return base["referencedDecl"]["name"] + "_deref"
            return super().lvalue_key(n)

        ENUM_TYPEDEFS = ("sc_shmem_type_t", "sc_notify_type_t")

        def expr(self, n, env):
            if n.get("kind") in ("ImplicitCastExpr", "CStyleCastExpr") and n.get("castKind") == "IntegralCast" and \
                    (c2g.strip_quals(c2g.tystr(n)) in self.ENUM_TYPEDEFS or c2g.strip_quals(c2g.tystr(n["inner"][0])) in self.ENUM_TYPEDEFS):
                # enumeration typedefs are unsigned int / int sized; values of the enumeration are unchanged by the conversion
                return self.expr(n["inner"][0], env)
            if n.get("kind") == "DeclRefExpr":
                rd = n["referencedDecl"]
                if rd.get("kind") == "EnumConstantDecl" or rd.get("name") in self.consts:
                    if rd["name"] not in self.consts:
                        raise c2g.Unsupported("constant %s" % rd["name"])
                    return c2g.lit(self.consts[rd["name"]])
            return super().expr(n, env)

    def translate_acc(fn, consts, gname=None):
        T = AccT(consts)
        T.fname = fn["name"]
        T.gname = gname or fn["name"]
        body = [c for c in fn["inner"] if c.get("kind") == "CompoundStmt"][0]
        if c2g.body_uses_loops(body):
            raise c2g.Unsupported("loop in accessor " + fn["name"])
        acc, decl = set(), set()
        T.assigned(body, acc, decl)
        order_seen = []

        def scan(n):          # outputs in the order of their first assignment in the source
            if isinstance(n, dict):
                if n.get("kind") == "BinaryOperator" and n.get("opcode") == "=":
                    try:
                        k = T.resolve_alias(T.lvalue_key(n["inner"][0]))
                        if k not in order_seen:
                            order_seen.append(k)
                    except c2g.Unsupported:
                        pass
                for c in n.get("inner", []):
                    scan(c)
        scan(body)
        outs = sorted((T.resolve_alias(x) for x in acc if x not in decl),
                      key=lambda x: order_seen.index(x) if x in order_seen else 999)
        rett = c2g.strip_quals(fn["type"]["qualType"].split("(")[0])
        has_ret = rett != "void"
        env = {}

        def result(e, e2):
            parts = ([e.z()] if has_ret and e is not None else (["0"] if has_ret else [])) + [T.lookup(e2, o) for o in outs]
            return parts[0] if len(parts) == 1 else ("(%s)" % ", ".join(parts) if parts else "tt")
        K = dict(fin=lambda e2: result(None, e2), ret=lambda e, e2: result(e, e2), brk=None, cont=None)
        text = T.stmts(list(body.get("inner", [])), env, K)
        # parameters: C parameters first (in declaration order), then the fields read
        cparams = [p["name"] for p in fn.get("inner", []) if p.get("kind") == "ParmVarDecl" and p.get("name")]
        order = lambda x: (0, cparams.index(x)) if x in cparams else ((1, cparams.index(x[:-6]) if x[:-6] in cparams else 99) if x.endswith("_deref") else (2, T.params.index(x)))
        params = sorted(T.params, key=order)
        out = "Definition %s %s :=\n%s.\n" % (T.gname, " ".join("(%s : Z)" % p for p in params), text)
        return out, dict(name=T.gname, cname=fn["name"], params=params, outputs=(["ret"] if has_ret else []) + outs, fuel=False)

    def compile_consts(tmp, names, header):
        """values of enum constants / macros, evaluated by the compiler on the real headers"""
        src = os.path.join(tmp, "c20_consts.c")
        exe = os.path.join(tmp, "c20_consts")
        with open(src, "w") as f:
            f.write("#include <stdio.h>\n#include <%s>\nint main (void) {\n" % header)
            for n in names:
                f.write('  printf ("%s %%ld\\n", (long) (%s));\n' % (n, n))
            f.write("  return 0;\n}\n")
        p = subprocess.run(["gcc", "-w"] + ["-I" + i for i in incs(tmp)] + [src, "-o", exe], stdout=subprocess.PIPE, stderr=subprocess.STDOUT)
        if p.returncode != 0:
            raise c2g.Unsupported("constants of %s do not compile: %s" % (header, p.stdout.decode()[-400:]))
        out = subprocess.run([exe], stdout=subprocess.PIPE).stdout.decode()
        return dict((l.split()[0], int(l.split()[1])) for l in out.strip().split("\n"))

    def scalar_init(objs, name):
        v = c2g.find_var(objs, name)
        init = [c for c in v.get("inner", []) if isinstance(c, dict) and c.get("kind") != "FullComment"][-1]
        init = c2g.skip_parens(init)
        while init.get("kind") in ("ImplicitCastExpr", "CStyleCastExpr"):
            init = c2g.skip_parens(init["inner"][0])
        if init.get("kind") == "UnaryOperator" and init.get("opcode") == "-":
            return -int(c2g.skip_parens(init["inner"][0])["value"])
        if "value" in init:
            return int(init["value"])
        raise c2g.Unsupported("initialiser of %s is not a literal" % name)

    def gen_access(tmp):
        g = Group("AccessC20")
        f = os.path.join(REPO, "src", "sc_notify.c")
        tnames = ["SC_NOTIFY_DEFAULT", "SC_NOTIFY_ALLGATHER", "SC_NOTIFY_BINARY", "SC_NOTIFY_NARY", "SC_NOTIFY_PEX", "SC_NOTIFY_PCX",
                  "SC_NOTIFY_RSX", "SC_NOTIFY_NBX", "SC_NOTIFY_RANGES", "SC_NOTIFY_SUPERSET", "SC_NOTIFY_NUM_TYPES"]
        consts = compile_consts(tmp, tnames, "sc_notify.h")
        sconsts = compile_consts(tmp, ["SC_SHMEM_BASIC", "SC_SHMEM_PRESCAN", "SC_SHMEM_NUM_TYPES", "SC_SHMEM_NOT_SET"], "sc_shmem.h")
        for k, v in list(consts.items()) + list(sconsts.items()):
            g.add("Definition c20_%s : Z := %s.\n" % (k, c2g.lit(v).z()), dict(name="c20_" + k, fuel=False, params=[]))
        objs = c2g.clang_ast(f, "sc_notify_", incs(tmp))
        for name in ["sc_notify_type_default", "sc_notify_eager_threshold_default", "sc_notify_nary_ntop_default",
                     "sc_notify_nary_nint_default", "sc_notify_nary_nbot_default", "sc_notify_ranges_num_ranges_default"]:
            d = [o for o in objs if o.get("kind") == "VarDecl" and o.get("name") == name and
                 any(isinstance(c, dict) and c.get("kind") not in ("FullComment",) for c in o.get("inner", []))]
            if not d:
                raise c2g.Unsupported("no initialised definition of " + name)
            init = [c for c in d[-1]["inner"] if isinstance(c, dict) and c.get("kind") != "FullComment"][-1]
            init = c2g.skip_parens(init)
            while init.get("kind") in ("ImplicitCastExpr", "CStyleCastExpr"):
                init = c2g.skip_parens(init["inner"][0])
            if init.get("kind") == "DeclRefExpr":
                val = consts[init["referencedDecl"]["name"]]
            else:
                val = int(init["value"])
            g.add("Definition init_%s : Z := %s.\n" % (name, c2g.lit(val).z()), dict(name="init_" + name, fuel=False, params=[]))
        for fn in ["sc_notify_get_comm", "sc_notify_get_type", "sc_notify_get_eager_threshold", "sc_notify_set_eager_threshold",
                   "sc_notify_set_stats", "sc_notify_get_stats", "sc_notify_nary_get_widths", "sc_notify_nary_set_widths",
                   "sc_notify_ranges_get_num_ranges", "sc_notify_ranges_set_num_ranges", "sc_notify_ranges_get_package_id",
                   "sc_notify_ranges_set_package_id", "sc_notify_superset_set_callback", "sc_notify_superset_get_callback"]:
            t, i = translate_acc(c2g.find_function(objs, fn), consts)
            g.add(t, i)
        f2 = os.path.join(REPO, "src", "sc_options.c")
        objs2 = c2g.clang_ast(f2, "sc_options_s", incs(tmp))
        oc = {"sc_options_space_type": scalar_init(objs2, "sc_options_space_type"), "sc_options_space_help": scalar_init(objs2, "sc_options_space_help")}
        t, i = translate_acc(c2g.find_function(objs2, "sc_options_set_spacing"), oc)
        g.add(t, i)
        f3 = os.path.join(REPO, "src", "sc_shmem.c")
        objs3 = c2g.clang_ast(f3, "sc_shmem_", incs(tmp))
        for fn in ["sc_shmem_get_type", "sc_shmem_set_type"]:      # serial configuration
            t, i = translate_acc(c2g.find_function(objs3, fn), sconsts, gname=fn + "_serial")
            g.add(t, i)
        return g, [f, f2, f3]

    GROUPS["AccessC20"] = gen_access
