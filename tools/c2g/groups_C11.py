"""Translator group of C11 (tie T1): `IoC11` (coq/Gen/IoC11.v), regenerated from /repo/src/sc_io.c on every run.

Expression / statement slices of the sinks and sources (anchored on the source text or on the AST shape, never on line
numbers):
  sc_io_sink_write     sink_new_count (the rounding up to whole elements), sink_view_check (the unconditional size check
                       against SC_ARRAY_BYTE_ALLOC), sink_buffer_advance, sink_counters
  sc_io_sink_complete / sc_io_source_complete   sink_again / source_again: the tests that return SC_IO_ERROR_AGAIN
  sc_io_sink_align / sc_io_source_align         sink_align_fill / source_align_fill: (align - out % align) % align
  sc_io_source_read    source_avail (bytes left in the buffer, 0 if it has shrunk), source_take (SC_MIN), source_short
                       (the exact-request test), source_counters
  sc_io_file_load      load_bwins (window), load_start, load_room (first resize), load_request, load_last (end-of-file test),
                       load_final (last resize), load_next
coq/C11/IoGen.v proves that the hand-written model (IoModel.v) computes exactly these."""
import os, re


def register(GROUPS, c2g, incs, REPO, HERE, STRUCTS, Group):
    import slicelib as sl

    def gen_io(tmp):
        g = Group("IoC11")
        f = os.path.join(REPO, "src", "sc_io.c")
        src = open(f).read()
        cache = {}

        def fn(name):
            if name not in cache:
                objs = c2g.clang_ast(f, name, incs(tmp))
                cands = [o for o in objs if o.get("kind") == "FunctionDecl" and o.get("name") == name
                         and any(c.get("kind") == "CompoundStmt" for c in o.get("inner", []))]
                if len(cands) != 1:
                    raise c2g.Unsupported("%d definitions of %s" % (len(cands), name))
                cache[name] = cands[0]
            return cache[name]

        def block(cfn, begin, end, gname, outputs, want, **kw):
            st = c2g.select_between(fn(cfn), src, begin, end)
            t, i = sl.emit_block(st, gname, outputs, cfn, want_params=want, **kw)
            g.add(t, i)

        def guard(cfn, must_ref, enum, gname, want):
            """the condition of the only `if` of cfn that mentions all of must_ref and whose branch returns `enum`"""
            ifs = sl.find_nodes(fn(cfn), lambda n: n.get("kind") == "IfStmt" and set(must_ref) <= sl.refs(n["inner"][0])
                                and sl.returns_enum(n["inner"][1], enum) and
                                not sl.find_nodes(n["inner"][1], lambda m: m.get("kind") == "IfStmt" and set(must_ref) <= sl.refs(m["inner"][0])))
            if len(ifs) != 1:
                raise c2g.Unsupported("%s: %d guards on %s returning %s" % (cfn, len(ifs), ",".join(must_ref), enum))
            t, i = sl.emit_cond(ifs[0]["inner"][0], gname, cfn + "/guard", want_params=want)
            g.add(t, i)

        def only_call(cfn, callee, occurrence=0, count=1):
            calls = sl.find_nodes(fn(cfn), lambda n: n.get("kind") == "CallExpr" and sl.callee_name(n) == callee)
            if len(calls) != count:
                raise c2g.Unsupported("%s: %d calls of %s, expected %d" % (cfn, len(calls), callee, count))
            return calls[occurrence]

        # ---- sc_io_sink_write (buffer branch)
        block("sc_io_sink_write", r"elem_size = sink->buffer->elem_size;", r"sc_array_resize \(sink->buffer, new_count\);",
              "sink_new_count", ["new_count"], ["sink_buffer_elem_size", "sink_buffer_bytes", "bytes_avail"])
        guard("sc_io_sink_write", ("new_count", "elem_size"), "SC_IO_ERROR_FATAL", "sink_view_check",
              ["new_count", "elem_size", "sink_buffer_byte_alloc"])
        block("sc_io_sink_write", r"sink->buffer_bytes \+= bytes_avail;", r"else if \(sink->iotype == SC_IO_TYPE_FILENAME",
              "sink_buffer_advance", ["sink_buffer_bytes", "bytes_out"], ["sink_buffer_bytes", "bytes_avail"], init={"bytes_out": "0"})
        block("sc_io_sink_write", r"sink->bytes_in \+= bytes_avail;", r"/\* success! \*/",
              "sink_counters", ["sink_bytes_in", "sink_bytes_out"], ["sink_bytes_in", "sink_bytes_out", "bytes_avail", "bytes_out"])
        # ---- the AGAIN tests
        guard("sc_io_sink_complete", ("sink",), "SC_IO_ERROR_AGAIN", "sink_again", ["sink_buffer_bytes", "sink_buffer_elem_size"])
        guard("sc_io_source_complete", ("source",), "SC_IO_ERROR_AGAIN", "source_again", ["source_buffer_bytes", "source_buffer_elem_size"])
        # ---- alignment fill
        for cfn, gname, want in (("sc_io_sink_align", "sink_align_fill", ["bytes_align", "sink_bytes_out"]),
                                 ("sc_io_source_align", "source_align_fill", ["bytes_align", "source_bytes_out"])):
            t, i = c2g.translate_slice(fn(cfn), "fill_bytes", gname)
            if sorted(i["params"]) != sorted(want):
                raise c2g.Unsupported("%s: free variables %s" % (cfn, i["params"]))
            g.add(t, i)
        # the fill is what is written / skipped: third argument of sc_io_sink_write / sc_io_source_read
        t, i = sl.emit_expr(only_call("sc_io_sink_align", "sc_io_sink_write")["inner"][3], "sink_align_request", "sc_io_sink_align/request", want_params=["fill_bytes"])
        g.add(t, i)
        t, i = sl.emit_expr(only_call("sc_io_source_align", "sc_io_source_read")["inner"][3], "source_align_request", "sc_io_source_align/request", want_params=["fill_bytes"])
        g.add(t, i)
        # ---- sc_io_source_read (buffer branch and the common tail)
        block("sc_io_source_read", r"bbytes_out = source->buffer->elem_count \* source->buffer->elem_size;", r"/\* check for end of input and read if data is available \*/",
              "source_avail", ["bbytes_out"], ["source_buffer_elem_count", "source_buffer_elem_size", "source_buffer_bytes"])
        block("sc_io_source_read", r"bbytes_out = SC_MIN \(bbytes_out, bytes_avail\);", r"SC_ASSERT \(bbytes_out > 0\);",
              "source_take", ["bbytes_out"], ["bbytes_out", "bytes_avail"])
        guard("sc_io_source_read", ("bytes_out", "bbytes_out", "bytes_avail"), "SC_IO_ERROR_FATAL", "source_short",
              ["bytes_out", "bbytes_out", "bytes_avail"])
        block("sc_io_source_read", r"source->bytes_in \+= bbytes_out;", r"/\* success! \*/",
              "source_counters", ["source_bytes_in", "source_bytes_out"], ["source_bytes_in", "source_bytes_out", "bbytes_out"])
        # ---- sc_io_file_load: the window loop
        F = fn("sc_io_file_load")
        t, i = c2g.translate_slice(F, "bwins", "load_bwins")
        if i["params"]:
            raise c2g.Unsupported("sc_io_file_load: bwins is not a constant")
        g.add(t, i)
        block("sc_io_file_load", r"^\s*bpos = 0;", r"for \(i = 0;; \+\+i\)", "load_start", ["bpos"], [])
        r1 = only_call("sc_io_file_load", "sc_array_resize", 0, 2)
        t, i = sl.emit_expr(r1["inner"][2], "load_room", "sc_io_file_load/room", want_params=["bpos", "bwins"])
        g.add(t, i)
        rd = only_call("sc_io_file_load", "sc_io_source_read")
        t, i = sl.emit_expr(rd["inner"][3], "load_request", "sc_io_file_load/request", want_params=["bwins"])
        g.add(t, i)
        # position handed to sc_array_index = where the window is read to
        ix = only_call("sc_io_file_load", "sc_array_index")
        t, i = sl.emit_expr(ix["inner"][2], "load_target", "sc_io_file_load/target", want_params=["bpos"])
        g.add(t, i)
        last = sl.find_nodes(F, lambda n: n.get("kind") == "IfStmt" and {"bout", "bwins"} <= sl.refs(n["inner"][0])
                             and sl.find_nodes(n["inner"][1], lambda m: m.get("kind") == "BreakStmt"))
        if len(last) != 1:
            raise c2g.Unsupported("sc_io_file_load: %d end-of-file tests" % len(last))
        t, i = sl.emit_cond(last[0]["inner"][0], "load_last", "sc_io_file_load/last", want_params=["bout", "bwins"])
        g.add(t, i)
        r2 = only_call("sc_io_file_load", "sc_array_resize", 1, 2)
        a2 = sl.strip(r2["inner"][2])
        if a2.get("kind") != "CompoundAssignOperator":
            raise c2g.Unsupported("sc_io_file_load: the final resize is not `bpos += bout`")
        t, i = sl.emit_block([a2], "load_final", ["bpos"], "sc_io_file_load/final", want_params=["bpos", "bout"])
        g.add(t, i)
        block("sc_io_file_load", r"^\s*bpos \+= bwins;", r"^  \}", "load_next", ["bpos"], ["bpos", "bwins"])
        return g, [f]

    GROUPS["IoC11"] = gen_io
