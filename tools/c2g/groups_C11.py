"""Translator group of C11 (tie T1): `IoC11` (coq/Gen/IoC11.v), regenerated from /repo/src/sc_io.c on every run.

Expression / statement slices of the sinks and sources (anchored on the source text or on the AST shape, never on line
numbers):
  sc_io_sink_write     sink_new_count (the rounding up to whole elements), sink_view_check (the unconditional size check
                       against SC_ARRAY_BYTE_ALLOC), sink_buffer_advance, sink_counters
  sc_io_sink_complete / sc_io_source_complete   sink_again / source_again: the tests that return SC_IO_ERROR_AGAIN
  sc_io_sink_align / sc_io_source_align         sink_align_fill / source_align_fill: (align - out % align) % align
  sc_io_source_read    source_avail (bytes left in the buffer, 0 if it has shrunk), source_take (SC_MIN), source_short
                       (the exact-request test), source_counters
  sc_io_file_load      load_bwins (window), load_start, load_room (first resize), load_request, load_last (end-of-file test),
                       load_final (last resize), load_next
coq/C11/IoGen.v proves that the hand-written model (IoModel.v) computes exactly these.

WHOLE-BODY slices (io_<function>): the complete bodies of sc_io_sink_new / _write / _complete / _align / _destroy / _destroy_null,
sc_io_source_new / _read / _complete / _align / _activate_mirror / _read_mirror / _destroy / _destroy_null, file_return,
sc_io_file_save and the three parts of sc_io_file_load (statements in front of the loop, the loop body, statements behind the loop),
translated with class IoT below: every call (sc_array_resize, memcpy, stdio, the sc_io functions among themselves, sc_calloc / sc_free)
is an EFFECT - the outputs <callee>_called / <callee>_arg<i> say whether and with which arguments it happens on the path taken, its
result is the parameter <callee>_ret - and the fields of the sink / source / array are locations (inputs = parameters of the same
name, outputs = their values when the function returns).  coq/C11/IoWhole.v proves the model's functions EQUAL to the reading of
these outputs (which array operation a call is, what a counter holds afterwards).  The enumerators are the constants io_<name>,
printed by a C program compiled against the same headers."""
import os, re
import json, subprocess


# ==============================================================================================================
# translator add-on of the whole-body slices
# ==============================================================================================================
def str_code(s):
    b = s.encode()
    return sum(v << (8 * i) for i, v in enumerate(b))


ENUMT = ("sc_io_type_t", "sc_io_mode_t", "sc_io_encode_t", "sc_io_error_t")


def make_io(c2g, sl):
    E = c2g.E

    class LazyE(E):
        """the result of an effect call: the parameter <callee>_ret comes into being only if the value is used"""
        def __init__(self, thunk):
            self.thunk, self.kind, self.atomic, self._t = thunk, "Z", True, None

        @property
        def text(self):
            if self._t is None:
                self._t = self.thunk()
            return self._t


    class IoT(sl.SliceT):
        """SliceT with the documented additions of the whole-body slices of sc_io.c:
           * EFFECT CALLS INSIDE EXPRESSIONS: `x = f (..) || y`, `if (f (..))`, `return f (..)`, `if ((p = f (..)) == NULL)`,
             `r = !(s->e = f (..)) || g (..)` are evaluated in C's order: operands left to right, the right operand of `||` / `&&`
             only if the left one does not decide (the continuation is duplicated into both arms, so a call that is skipped leaves
             its ghost outputs at 0); an assignment used as an expression stores and yields the stored value;
           * a value of the enumeration types sc_io_type_t / mode / encode / error is the integer it denotes, an enumerator is the
             constant io_<name> (emitted with its value, taken from the enum declaration of sc_io.h in the same AST);
           * `va_arg (ap, T)` is the parameter va_arg<k> (k-th in source order): the next variadic argument, whatever it is;
           * a string literal is the number whose little-endian bytes are its characters ("wb" = 0x6277);
           * a function returns through `ret`; outputs on a path that returns early are the values at that point."""
        ret_void = property(lambda self: False, lambda self, v: None)
        used_enums = None

        def __init__(self, **kw):
            super().__init__(**kw)
            self.subst = {}
            self.nva = {}

        # ---- expressions
        def expr(self, n, env):
            if id(n) in self.subst:
                return self.subst[id(n)]
            k = n.get("kind")
            if k in ("ImplicitCastExpr", "CStyleCastExpr") and n.get("castKind") == "IntegralCast":
                inner = n["inner"][0]
                for t_ in (inner.get("type", {}), n.get("type", {})):
                    q = c2g.strip_quals(t_.get("qualType", ""))
                    if q in ENUMT or (t_.get("desugaredQualType") or q).startswith("enum "):
                        return self.expr(inner, env)
            if k == "StringLiteral":
                return c2g.lit(str_code(json.loads(n["value"])))
            if k == "DeclRefExpr" and n.get("referencedDecl", {}).get("kind") == "EnumConstantDecl":
                if IoT.used_enums is not None:
                    IoT.used_enums.add(n["referencedDecl"]["name"])
                return E("io_%s" % n["referencedDecl"]["name"], "Z", True)
            if k == "VAArgExpr":
                if id(n) not in self.nva:
                    self.nva[id(n)] = len(self.nva) + 1
                return E(self.lookup(env, "va_arg%d" % self.nva[id(n)]), "Z", True)
            return super().expr(n, env)

        def has_call(self, n):
            return bool(sl.find_nodes(n, lambda m: m.get("kind") == "CallExpr" and id(m) in self.ghost_of))

        def has_effect(self, n):
            """an expression that contains an effect call or an assignment"""
            return self.has_call(n) or bool(sl.find_nodes(n, lambda m: m.get("kind") == "CompoundAssignOperator" or
                                                          m.get("kind") == "BinaryOperator" and m.get("opcode") == "="))

        def do_call(self, call, env, k):
            name = sl.callee_name(call)
            pre = self.ghost_of[id(call)]
            args = call["inner"][1:]

            def go(i, env_i, vals):
                if i == len(args):
                    pairs = []
                    if self.effect_called:
                        pairs.append((pre + "_called", E("1", "Z", True)))
                    for j, a in enumerate(args):
                        if self.arg_is_ghost(name, j, a):
                            pairs.append(("%s_arg%d" % (pre, j), vals[j]))
                    env1 = dict(env_i)
                    txt = ""
                    for key, e in pairs:
                        v = self.fresh(key)
                        txt += "let %s := %s in\n" % (v, e.z())
                        env1[key] = v
                    for o in self.clobbers.get(name, ()):
                        env1.pop(o, None)
                    for a in args:
                        o = self.addr_of_var(a)
                        if o == "?":
                            raise c2g.Unsupported("address of a non-variable passed to %s in %s" % (name, self.fname))
                        if o is not None:
                            env1.pop(o, None)
                    return txt + k(LazyE(lambda: self.lookup(env1, pre + "_ret")), env1)
                a = args[i]
                if not self.arg_is_ghost(name, i, a):
                    return go(i + 1, env_i, vals + [None])
                return self.eff_expr(a, env_i, lambda v, e2: go(i + 1, e2, vals + [v]))
            return go(0, env, [])

        def eff_expr(self, n, env, k):
            """translate expression n whose evaluation has effects; k (value, env) -> text is the continuation"""
            if not self.has_effect(n):
                self.subst.pop(id(n), None)        # a value kept from another path of the duplicated continuation is stale
                return k(self.expr(n, env), env)
            kd = n.get("kind")
            if kd == "CallExpr" and id(n) in self.ghost_of:
                return self.do_call(n, env, k)
            if kd == "BinaryOperator" and n.get("opcode") == "=":
                key = self.resolve_alias(self.lvalue_key(n["inner"][0]))

                def store(v, e2):
                    nm = self.fresh(key)
                    e3 = dict(e2)
                    e3[key] = nm
                    return "let %s := %s in\n%s" % (nm, v.z(), k(E(nm, "Z", True), e3))
                return self.eff_expr(n["inner"][1], env, store)
            if kd == "CompoundAssignOperator" and not self.has_effect(n["inner"][0]) and not self.has_effect(n["inner"][1]):
                # `x op= e` used as a value: c2g's statement rule, then the stored value
                key = self.resolve_alias(self.lvalue_key(n["inner"][0]))
                return c2g.Translator.stmts(self, [n], env, dict(fin=lambda e2: k(E(e2[key], "Z", True), e2)))
            if kd == "BinaryOperator" and n.get("opcode") in ("||", "&&") and self.has_effect(n["inner"][1]):
                isor = n["opcode"] == "||"

                def left(a, e2):
                    short = k(E("true" if isor else "false", "bool", True), dict(e2))
                    full = self.eff_expr(n["inner"][1], dict(e2), lambda b, e3: k(E(b.b(), "bool", True), e3))
                    return "(if %s then\n%s\nelse\n%s)" % (a.b(), short if isor else full, full if isor else short)
                return self.eff_expr(n["inner"][0], env, left)
            if kd == "ConditionalOperator" and (self.has_effect(n["inner"][1]) or self.has_effect(n["inner"][2])):
                raise c2g.Unsupported("effect inside an arm of ?: in %s" % self.fname)
            children = [c for c in n.get("inner", []) if isinstance(c, dict) and "kind" in c]

            def go(i, env_i):
                if i == len(children):
                    v = self.expr(n, env_i)
                    for c_ in children:
                        self.subst.pop(id(c_), None)
                    return k(v, env_i)
                c = children[i]

                def keep(v, e2):
                    self.subst[id(c)] = v
                    return go(i + 1, e2)
                return self.eff_expr(c, env_i, keep)
            return go(0, env)

        def assigned(self, s, acc, declared):
            """also the locations assigned INSIDE expressions (`r = !(s->e = f (..)) || g (..)`): without them the merge of the two
            arms of an `if` would drop the store"""
            super().assigned(s, acc, declared)

            def f(n):
                if n.get("kind") == "CompoundAssignOperator" or n.get("kind") == "BinaryOperator" and n.get("opcode") == "=" or \
                        n.get("kind") == "UnaryOperator" and n.get("opcode") in ("++", "--"):
                    try:
                        key = self.resolve_alias(self.lvalue_key(n["inner"][0]))
                    except c2g.Unsupported:
                        return
                    if key not in declared:
                        acc.add(key)
            sl.walk(s, f)

        # ---- statements
        def stmts(self, ss, env, K):
            if ss:
                s, rest = ss[0], list(ss[1:])
                k = s.get("kind")
                if not self.is_abort(s):
                    if k == "IfStmt" and self.has_effect(s["inner"][0]):
                        A = [s["inner"][1]]
                        B = [s["inner"][2]] if len(s["inner"]) > 2 else []
                        return self.eff_expr(s["inner"][0], env, lambda c, e2: "(if %s then\n%s\nelse\n%s)" % (
                            c.b(), self.stmts(A + rest, dict(e2), K), self.stmts(B + rest, dict(e2), K)))
                    if k == "ReturnStmt":
                        inner = [c for c in s.get("inner", []) if isinstance(c, dict)]
                        if inner and self.has_effect(inner[0]):
                            if K.get("ret") is None:
                                raise c2g.Unsupported("return statement inside a slice of %s" % self.fname)
                            return self.eff_expr(inner[0], env, lambda v, e2: K["ret"](v, e2))
                    if k == "BinaryOperator" and s.get("opcode") == "=" and self.has_effect(s["inner"][1]):
                        return self.eff_expr(s, env, lambda v, e2: self.stmts(rest, e2, K))
                    if k in ("CallExpr", "ParenExpr", "ImplicitCastExpr") and sl.strip(s).get("kind") == "CallExpr" and id(sl.strip(s)) in self.ghost_of:
                        return self.eff_expr(sl.strip(s), env, lambda v, e2: self.stmts(rest, e2, K))
                    if k == "DeclStmt" and len(s.get("inner", [])) == 1:
                        d = s["inner"][0]
                        init = [c for c in d.get("inner", []) if isinstance(c, dict) and "kind" in c]
                        if init and self.has_effect(init[0]):
                            def bind(v, e2):
                                nm = self.fresh(d["name"])
                                e3 = dict(e2)
                                e3[d["name"]] = nm
                                return "let %s := %s in\n%s" % (nm, v.z(), self.stmts(rest, e3, K))
                            return self.eff_expr(init[0], env, bind)
            return super().stmts(ss, env, K)


    def emit_io(stmts, gname, outputs, fname, params=(), init=None, ret=None, comment="", want_params=None, loop_body=False, **kw):
        """sl.emit_block for IoT, without loops; loop_body: the statements are the body of a loop - falling off the end / `continue`
        deliver `stop` = 0, `break` delivers `stop` = 1, `return e` delivers `stop` = 2 and ret = e (ret = 0 otherwise)."""
        T = IoT(**kw)
        T.fname, T.gname = fname, gname
        T.free_as_params = True
        T.fun_params = []
        T.extra = []
        T.scan(stmts)
        env = dict((p, p) for p in params)
        T.params = list(params)
        for g in T.ghosts:
            env[g] = "0"
        for k_, v_ in (init or {}).items():
            env[k_] = v_
        outs = []
        for o in outputs:
            outs += T.ghosts if o == "*ghosts" else [o]
        if any(c2g.body_uses_loops(x) for x in stmts):
            raise c2g.Unsupported("%s: loop inside a whole-body slice" % fname)

        def tup(e2, rv=None):
            parts = []
            for o in outs:
                if o == ret:
                    if rv is None:
                        raise c2g.Unsupported("%s: falls off the end without a return value" % fname)
                    parts.append(rv.z())
                else:
                    parts.append(T.lookup(e2, o))
            return parts[0] if len(parts) == 1 else "(%s)" % ", ".join(parts)
        K = dict(fin=lambda e2: tup(e2), ret=(lambda e, e2: tup(e2, e)) if ret else None, brk=None, cont=None)
        if loop_body:
            zero = E("0", "Z", True)
            env["stop"] = "0"
            K["fin"] = K["cont"] = lambda e2: tup(dict(e2, stop="0"), zero)
            K["brk"] = lambda e2: tup(dict(e2, stop="1"), zero)
            K["ret"] = lambda e, e2: tup(dict(e2, stop="2"), e)
        text = T.stmts(list(stmts), env, K)
        if T.uses_word or T.extra or T.fun_params:
            raise c2g.Unsupported("%s: memory read inside a whole-body slice" % fname)
        plist = " ".join("(%s : Z)" % p for p in T.params)
        if want_params is not None and sorted(T.params) != sorted(want_params):
            raise c2g.Unsupported("%s: free variables %s, expected %s" % (fname, sorted(T.params), sorted(want_params)))
        out = ""
        if comment:
            out += "(* %s *)\n" % comment.replace("*)", "* )").replace("(*", "( *")
        out += "Definition %s %s :=\n%s.\n" % (gname, plist, text)
        return out, dict(name=gname, cname=fname, params=list(T.params), outputs=outs, fuel=False)
    return IoT, emit_io


def register(GROUPS, c2g, incs, REPO, HERE, STRUCTS, Group):
    import slicelib as sl

    def gen_io(tmp):
        g = Group("IoC11")
        f = os.path.join(REPO, "src", "sc_io.c")
        src = open(f).read()
        cache = {}

        def fn(name):
            if name not in cache:
                objs = c2g.clang_ast(f, name, incs(tmp))
                cands = [o for o in objs if o.get("kind") == "FunctionDecl" and o.get("name") == name
                         and any(c.get("kind") == "CompoundStmt" for c in o.get("inner", []))]
                if len(cands) != 1:
                    raise c2g.Unsupported("%d definitions of %s" % (len(cands), name))
                cache[name] = cands[0]
            return cache[name]

        def block(cfn, begin, end, gname, outputs, want, **kw):
            st = c2g.select_between(fn(cfn), src, begin, end)
            t, i = sl.emit_block(st, gname, outputs, cfn, want_params=want, **kw)
            g.add(t, i)

        def guard(cfn, must_ref, enum, gname, want):
            """the condition of the only `if` of cfn that mentions all of must_ref and whose branch returns `enum`"""
            ifs = sl.find_nodes(fn(cfn), lambda n: n.get("kind") == "IfStmt" and set(must_ref) <= sl.refs(n["inner"][0])
                                and sl.returns_enum(n["inner"][1], enum) and
                                not sl.find_nodes(n["inner"][1], lambda m: m.get("kind") == "IfStmt" and set(must_ref) <= sl.refs(m["inner"][0])))
            if len(ifs) != 1:
                raise c2g.Unsupported("%s: %d guards on %s returning %s" % (cfn, len(ifs), ",".join(must_ref), enum))
            t, i = sl.emit_cond(ifs[0]["inner"][0], gname, cfn + "/guard", want_params=want)
            g.add(t, i)

        def only_call(cfn, callee, occurrence=0, count=1):
            calls = sl.find_nodes(fn(cfn), lambda n: n.get("kind") == "CallExpr" and sl.callee_name(n) == callee)
            if len(calls) != count:
                raise c2g.Unsupported("%s: %d calls of %s, expected %d" % (cfn, len(calls), callee, count))
            return calls[occurrence]

        # ---- sc_io_sink_write (buffer branch)
        block("sc_io_sink_write", r"elem_size = sink->buffer->elem_size;", r"sc_array_resize \(sink->buffer, new_count\);",
              "sink_new_count", ["new_count"], ["sink_buffer_elem_size", "sink_buffer_bytes", "bytes_avail"])
        guard("sc_io_sink_write", ("new_count", "elem_size"), "SC_IO_ERROR_FATAL", "sink_view_check",
              ["new_count", "elem_size", "sink_buffer_byte_alloc"])
        block("sc_io_sink_write", r"sink->buffer_bytes \+= bytes_avail;", r"else if \(sink->iotype == SC_IO_TYPE_FILENAME",
              "sink_buffer_advance", ["sink_buffer_bytes", "bytes_out"], ["sink_buffer_bytes", "bytes_avail"], init={"bytes_out": "0"})
        block("sc_io_sink_write", r"sink->bytes_in \+= bytes_avail;", r"/\* success! \*/",
              "sink_counters", ["sink_bytes_in", "sink_bytes_out"], ["sink_bytes_in", "sink_bytes_out", "bytes_avail", "bytes_out"])
        # ---- the AGAIN tests
        guard("sc_io_sink_complete", ("sink",), "SC_IO_ERROR_AGAIN", "sink_again", ["sink_buffer_bytes", "sink_buffer_elem_size"])
        guard("sc_io_source_complete", ("source",), "SC_IO_ERROR_AGAIN", "source_again", ["source_buffer_bytes", "source_buffer_elem_size"])
        # ---- alignment fill
        for cfn, gname, want in (("sc_io_sink_align", "sink_align_fill", ["bytes_align", "sink_bytes_out"]),
                                 ("sc_io_source_align", "source_align_fill", ["bytes_align", "source_bytes_out"])):
            t, i = c2g.translate_slice(fn(cfn), "fill_bytes", gname)
            if sorted(i["params"]) != sorted(want):
                raise c2g.Unsupported("%s: free variables %s" % (cfn, i["params"]))
            g.add(t, i)
        # the fill is what is written / skipped: third argument of sc_io_sink_write / sc_io_source_read
        t, i = sl.emit_expr(only_call("sc_io_sink_align", "sc_io_sink_write")["inner"][3], "sink_align_request", "sc_io_sink_align/request", want_params=["fill_bytes"])
        g.add(t, i)
        t, i = sl.emit_expr(only_call("sc_io_source_align", "sc_io_source_read")["inner"][3], "source_align_request", "sc_io_source_align/request", want_params=["fill_bytes"])
        g.add(t, i)
        # ---- sc_io_source_read (buffer branch and the common tail)
        block("sc_io_source_read", r"bbytes_out = source->buffer->elem_count \* source->buffer->elem_size;", r"/\* check for end of input and read if data is available \*/",
              "source_avail", ["bbytes_out"], ["source_buffer_elem_count", "source_buffer_elem_size", "source_buffer_bytes"])
        block("sc_io_source_read", r"bbytes_out = SC_MIN \(bbytes_out, bytes_avail\);", r"SC_ASSERT \(bbytes_out > 0\);",
              "source_take", ["bbytes_out"], ["bbytes_out", "bytes_avail"])
        guard("sc_io_source_read", ("bytes_out", "bbytes_out", "bytes_avail"), "SC_IO_ERROR_FATAL", "source_short",
              ["bytes_out", "bbytes_out", "bytes_avail"])
        block("sc_io_source_read", r"source->bytes_in \+= bbytes_out;", r"/\* success! \*/",
              "source_counters", ["source_bytes_in", "source_bytes_out"], ["source_bytes_in", "source_bytes_out", "bbytes_out"])
        # ---- sc_io_file_load: the window loop
        F = fn("sc_io_file_load")
        t, i = c2g.translate_slice(F, "bwins", "load_bwins")
        if i["params"]:
            raise c2g.Unsupported("sc_io_file_load: bwins is not a constant")
        g.add(t, i)
        block("sc_io_file_load", r"^\s*bpos = 0;", r"for \(i = 0;; \+\+i\)", "load_start", ["bpos"], [])
        r1 = only_call("sc_io_file_load", "sc_array_resize", 0, 2)
        t, i = sl.emit_expr(r1["inner"][2], "load_room", "sc_io_file_load/room", want_params=["bpos", "bwins"])
        g.add(t, i)
        rd = only_call("sc_io_file_load", "sc_io_source_read")
        t, i = sl.emit_expr(rd["inner"][3], "load_request", "sc_io_file_load/request", want_params=["bwins"])
        g.add(t, i)
        # position handed to sc_array_index = where the window is read to
        ix = only_call("sc_io_file_load", "sc_array_index")
        t, i = sl.emit_expr(ix["inner"][2], "load_target", "sc_io_file_load/target", want_params=["bpos"])
        g.add(t, i)
        last = sl.find_nodes(F, lambda n: n.get("kind") == "IfStmt" and {"bout", "bwins"} <= sl.refs(n["inner"][0])
                             and sl.find_nodes(n["inner"][1], lambda m: m.get("kind") == "BreakStmt"))
        if len(last) != 1:
            raise c2g.Unsupported("sc_io_file_load: %d end-of-file tests" % len(last))
        t, i = sl.emit_cond(last[0]["inner"][0], "load_last", "sc_io_file_load/last", want_params=["bout", "bwins"])
        g.add(t, i)
        r2 = only_call("sc_io_file_load", "sc_array_resize", 1, 2)
        a2 = sl.strip(r2["inner"][2])
        if a2.get("kind") != "CompoundAssignOperator":
            raise c2g.Unsupported("sc_io_file_load: the final resize is not `bpos += bout`")
        t, i = sl.emit_block([a2], "load_final", ["bpos"], "sc_io_file_load/final", want_params=["bpos", "bout"])
        g.add(t, i)
        block("sc_io_file_load", r"^\s*bpos \+= bwins;", r"^  \}", "load_next", ["bpos"], ["bpos", "bwins"])

        # ============================================================================================================
        # whole-body slices (class IoT): every function of the sinks and sources, calls as effects
        # ============================================================================================================
        IoT, emit_io = make_io(c2g, sl)
        IoT.used_enums = set()
        EFF = ("sc_array_resize", "memcpy", "fwrite", "fflush", "fclose", "fopen", "ferror", "fread", "feof", "fseek",
               "sc_io_sink_write", "sc_io_sink_complete", "sc_io_sink_destroy", "sc_io_source_read", "sc_io_source_complete",
               "sc_io_source_destroy", "sc_calloc", "sc_free", "sc_array_new", "sc_array_destroy", "sc_io_sink_new", "sc_io_source_new",
               "sc_io_sink_destroy_null", "sc_io_source_destroy_null", "file_return")
        KW = dict(effects=EFF, effect_called=True, drop_calls=("sc_logf", "sc_log", "__builtin_va_start", "__builtin_va_end"),
                  effect_skip_args={"sc_calloc": (0,), "sc_free": (0,)}, symbolic_calls=("sc_array_index",))
        Z0 = lambda *fs: dict((x, "0") for x in fs)      # SC_ALLOC_ZERO: every field of the fresh object is 0

        def stmts_of(cfn):
            return [c for c in fn(cfn)["inner"] if c.get("kind") == "CompoundStmt"][0].get("inner", [])
        WHOLE = [
            ("sc_io_sink_new", "io_sink_new",
             ["ret", "sink_iotype", "sink_mode", "sink_encode", "sink_buffer", "sink_buffer_bytes", "sink_file", "sink_bytes_in", "sink_bytes_out", "*ghosts"],
             Z0("sink_iotype", "sink_mode", "sink_encode", "sink_buffer", "sink_buffer_bytes", "sink_file", "sink_bytes_in", "sink_bytes_out", "sink_is_eof"),
             ["iotype", "iomode", "ioencode", "va_arg1", "va_arg2", "va_arg3", "sink_buffer_elem_count", "sink_buffer_elem_size", "sizeof_sc_io_sink_t",
              "sc_calloc_ret", "fopen_ret", "ferror_ret"]),
            ("sc_io_sink_write", "io_sink_write", ["ret", "sink_buffer_bytes", "sink_bytes_in", "sink_bytes_out", "*ghosts"], {},
             ["sink_iotype", "sink_buffer", "sink_buffer_elem_size", "sink_buffer_byte_alloc", "sink_buffer_array", "sink_buffer_bytes", "sink_bytes_in",
              "sink_bytes_out", "sink_file", "data", "bytes_avail", "fwrite_ret"]),
            ("sc_io_sink_complete", "io_sink_complete", ["ret", "bytes_in_deref", "bytes_out_deref", "sink_bytes_in", "sink_bytes_out", "*ghosts"], {},
             ["sink_iotype", "sink_buffer_elem_size", "sink_buffer_bytes", "sink_bytes_in", "sink_bytes_out", "sink_file", "bytes_in", "bytes_out",
              "bytes_in_deref", "bytes_out_deref", "fflush_ret"]),
            ("sc_io_sink_align", "io_sink_align", ["ret", "*ghosts"], {}, ["sink", "sink_bytes_out", "bytes_align", "sc_calloc_ret", "sc_io_sink_write_ret"]),
            ("sc_io_sink_destroy", "io_sink_destroy", ["ret", "*ghosts"], {}, ["sink", "sink_iotype", "sink_file", "sc_io_sink_complete_ret", "fclose_ret"]),
            ("sc_io_sink_destroy_null", "io_sink_destroy_null", ["ret", "sink_deref", "*ghosts"], {}, ["sink_deref", "sc_io_sink_destroy_ret"]),
            ("sc_io_source_new", "io_source_new",
             ["ret", "source_iotype", "source_encode", "source_buffer", "source_buffer_bytes", "source_file", "source_bytes_in", "source_bytes_out",
              "source_is_eof", "source_mirror", "source_mirror_buffer", "*ghosts"],
             Z0("source_iotype", "source_encode", "source_buffer", "source_buffer_bytes", "source_file", "source_bytes_in", "source_bytes_out",
                "source_is_eof", "source_mirror", "source_mirror_buffer"),
             ["iotype", "ioencode", "va_arg1", "va_arg2", "va_arg3", "sizeof_sc_io_source_t", "sc_calloc_ret", "fopen_ret", "ferror_ret"]),
            ("sc_io_source_read", "io_source_read",
             ["ret", "bytes_out_deref", "source_buffer_bytes", "source_bytes_in", "source_bytes_out", "source_is_eof", "*ghosts"], {},
             ["source_iotype", "source_buffer_elem_count", "source_buffer_elem_size", "source_buffer_array", "source_buffer_bytes", "source_bytes_in",
              "source_bytes_out", "source_is_eof", "source_file", "source_mirror", "data", "bytes_avail", "bytes_out", "bytes_out_deref",
              "fread_ret", "feof_ret", "ferror_ret", "sc_io_sink_write_ret", "fseek_ret"]),
            ("sc_io_source_complete", "io_source_complete", ["ret", "bytes_in_deref", "bytes_out_deref", "source_bytes_in", "source_bytes_out", "*ghosts"], {},
             ["source_iotype", "source_buffer_elem_size", "source_buffer_bytes", "source_bytes_in", "source_bytes_out", "source_mirror", "bytes_in", "bytes_out",
              "bytes_in_deref", "bytes_out_deref", "sc_io_sink_complete_ret"]),
            ("sc_io_source_align", "io_source_align", ["ret", "*ghosts"], {}, ["source", "source_bytes_out", "bytes_align", "sc_io_source_read_ret"]),
            ("sc_io_source_activate_mirror", "io_source_activate_mirror", ["ret", "source_mirror_buffer", "source_mirror", "*ghosts"], {},
             ["source_iotype", "source_mirror_buffer", "source_mirror", "sc_array_new_ret", "sc_io_sink_new_ret"]),
            ("sc_io_source_read_mirror", "io_source_read_mirror", ["ret", "*ghosts"], {},
             ["source_mirror_buffer", "data", "bytes_avail", "bytes_out", "sc_io_source_new_ret", "sc_io_source_read_ret", "sc_io_source_destroy_ret"]),
            ("sc_io_source_destroy", "io_source_destroy", ["ret", "*ghosts"], {},
             ["source", "source_iotype", "source_file", "source_mirror", "source_mirror_buffer", "sc_io_source_complete_ret", "sc_io_sink_destroy_ret", "fclose_ret"]),
            ("sc_io_source_destroy_null", "io_source_destroy_null", ["ret", "source_deref", "*ghosts"], {}, ["source_deref", "sc_io_source_destroy_ret"]),
            ("file_return", "io_file_return", ["ret", "*ghosts"], {}, ["retval", "sink", "source", "sc_io_sink_destroy_ret", "sc_io_source_destroy_ret"]),
            ("sc_io_file_save", "io_file_save", ["ret", "*ghosts"], {},
             ["filename", "buffer_array", "buffer_elem_count", "sink", "sc_io_sink_new_ret", "sc_io_sink_write_ret", "sc_io_sink_destroy_null_ret",
              "file_return_ret", "file_return2_ret", "file_return3_ret", "file_return4_ret"]),
        ]
        for cfn, gname, outs, init, params in WHOLE:
            t, i = emit_io(stmts_of(cfn), gname, outs, cfn, params=tuple(params), want_params=params, ret="ret", init=init,
                           comment="%s, whole body: returns (%s, <effects in source order>)" % (cfn, ", ".join(o for o in outs if o != "*ghosts")), **KW)
            t = t.replace("<effects in source order>", ", ".join(o for o in i["outputs"] if o not in outs), 1)
            g.add(t, i)
        # sc_io_file_load: the statements in front of the loop, the loop body, the statements behind the loop
        LB = stmts_of("sc_io_file_load")
        loops = [k for k, s_ in enumerate(LB) if s_.get("kind") == "ForStmt"]
        if len(loops) != 1:
            raise c2g.Unsupported("sc_io_file_load: %d for loops" % len(loops))
        LP = LB[loops[0]]
        heads = LP["inner"][:-1]
        # for (i = 0;; ++i): no condition, the counter i is not used by the body
        if len(LP["inner"]) != 5 or heads[1] or heads[2] or "i" in sl.refs(LP["inner"][-1]):
            raise c2g.Unsupported("sc_io_file_load: the loop is not `for (i = 0;; ++i)` with a body that ignores i")
        for part, st, outs, params, kw in (
                ("open", LB[:loops[0]], ["ret", "stop", "sink", "source", "bpos", "bwins", "*ghosts"], ["filename", "sc_io_source_new_ret", "file_return_ret"], dict(loop_body=True)),
                ("body", [LP["inner"][-1]], ["ret", "stop", "bpos", "*ghosts"],
                 ["buffer", "sink", "source", "bpos", "bwins", "bout", "sc_array_index_ret", "sc_io_source_read_ret", "file_return_ret"], dict(loop_body=True)),
                ("close", LB[loops[0] + 1:], ["ret", "*ghosts"],
                 ["sink", "source", "sc_io_source_destroy_null_ret", "file_return_ret", "file_return2_ret"], {})):
            t, i = emit_io(st, "io_file_load_" + part, outs, "sc_io_file_load", params=tuple(params), want_params=params, ret="ret",
                           comment="sc_io_file_load, %s: returns (%s, <effects in source order>); stop = 0 fell through / next pass, 1 break, 2 returned ret; "
                                   "`bout` and a pointer variable whose address was handed to a callee hold what the callee left there"
                                   % ({"open": "statements in front of the loop", "body": "one pass of the loop body", "close": "statements behind the loop"}[part],
                                      ", ".join(o for o in outs if o != "*ghosts")), **dict(KW, **kw))
            t = t.replace("<effects in source order>", ", ".join(o for o in i["outputs"] if o not in outs), 1)
            g.add(t, i)
        # the enumerators, printed by a program compiled against the same headers
        names = sorted(IoT.used_enums | {"SC_IO_TYPE_BUFFER", "SC_IO_TYPE_FILENAME", "SC_IO_TYPE_FILEFILE", "SC_IO_MODE_WRITE", "SC_IO_MODE_APPEND",
                                         "SC_IO_ENCODE_NONE", "SC_IO_ERROR_NONE", "SC_IO_ERROR_FATAL", "SC_IO_ERROR_AGAIN"})
        prog = "#include <sc.h>\n#include <sc_io.h>\n#include <stdio.h>\nint main (void) {\n"
        for x in names:
            prog += '  printf ("Definition io_%s : Z := %%lld.\\n", (long long) (%s));\n' % (x, x)
        for x in ("rb", "wb", "ab"):
            prog += '  printf ("Definition io_str_%s : Z := %d.\\n");\n' % (x, str_code(x))
        prog += '  printf ("Definition io_SEEK_CUR : Z := %lld.\\n", (long long) SEEK_CUR);\n  return 0;\n}\n'
        cpath = os.path.join(tmp, "io_c11_consts.c")
        open(cpath, "w").write(prog)
        exe = os.path.join(tmp, "io_c11_consts")
        p = subprocess.run(["gcc", "-w"] + ["-I" + i_ for i_ in incs(tmp)] + [cpath, "-o", exe], stdout=subprocess.PIPE, stderr=subprocess.STDOUT)
        if p.returncode != 0:
            raise c2g.Unsupported("constants program of IoC11 does not compile: " + p.stdout.decode()[-400:])
        out = subprocess.run([exe], stdout=subprocess.PIPE).stdout.decode()
        # constants first: the definitions above refer to them
        g.text = out + "\n" + g.text
        g.infos.append(dict(name="consts_IoC11", lines=out.count("\n")))
        return g, [f, os.path.join(REPO, "src", "sc_io.h")]

    GROUPS["IoC11"] = gen_io
