"""Translator group of C03 (tie T1): `ReduceC03` (coq/Gen/ReduceC03.v), regenerated from /repo/src/sc_reduce.c on every run.
sc_search_bias is the generated function of Gen/Search.v, sc_log2_lookup_table the generated table of Gen/Macros.v.

  sc_reduce_recursive    rec_target (orig_target, doall, working target), rec_myrank, rec_is_leaf (level == 0), rec_is_a2a
                         (level <= SC_REDUCE_ALLTOALL_LEVEL), rec_peer_higher (peer = bias (.., branch ^ 1, ..), higher = bias (.., level - 1,
                         branch / 2, ..)), rec_is_higher / rec_peer_exists* / rec_lower_rank / rec_send_back (the tests), rec_combine (operand
                         order of reduce_fn and the copy), rec_recurse (arguments of the recursive call), rec_msg1..4 ((peer, tag) of the
                         Recv / Send calls), rec_a2a_args
  sc_reduce_alltoall     a2a_target, a2a_myrank, a2a_collects (doall || target == myrank), a2a_allcount (1 << level), a2a_requests,
                         a2a_peer, a2a_is_self / a2a_peer_exists / a2a_sends_too, a2a_recv / a2a_send / a2a_send_target ((buffer offset,
                         peer, tag)), a2a_self_slot, a2a_outer_cond / a2a_inner_cond, a2a_peer2, a2a_peer2_exists, a2a_combine (the two slot
                         offsets `((2 * i + 1) << shift) * datasize`, `((2 * i) << shift) * datasize` handed to reduce_fn)
  sc_reduce_custom_dispatch   dispatch_maxlevel (SC_LOG2_32 (mpisize - 1) + 1), dispatch_args
  sc_reduce_max / _min / _sum   reduce_<op>_types: the dispatch table (datatype -> bytes, signed, floating) of the if chain, and the
                         element operation of every integer branch (reduce_<op>_<ctype>)
  WHOLE BUFFERS (C03 part 2 / 3):
  sc_reduce_recursive    rec_combine_args (reduce_fn with all four arguments: the two buffers, count, datatype; the copy), rec_recurse_bufs /
                         rec_a2a_bufs (data, count, datatype handed to the next level), rec_peerdata_bytes (SC_ALLOC (char, datasize)),
                         rec_msg1..4_buf / _count / _type (buffer, item count and datatype of every Recv / Send); `no_writes`: data, count, datatype, reduce_fn and
                         the tree position are not assigned anywhere in the function
  sc_reduce_alltoall     a2a_post_body: the WHOLE body of the posting loop (memcpy of the own contribution; Irecv / Isend with buffer, bytes,
                         datatype, peer, tag, communicator and request slot; sc_MPI_REQUEST_NULL in the unused slots rrequest[i] / srequest[i]),
                         a2a_post_cond / _init / _next (the loop header), a2a_request_bytes, a2a_wait_recvs (Waitall (allcount, rrequest)),
                         a2a_finish (if (doall) Waitall (allcount, srequest); memcpy (data, alldata, datasize); the two frees),
                         a2a_combine_args (reduce_fn with all four arguments), a2a_send_whole (the Send of a rank that does not collect)
  sc_reduce_custom_dispatch   dispatch_copy (memcpy (recvbuf, sendbuf, sendcount * sizeof)), dispatch_bufs
  sc_reduce / sc_allreduce / sc_reduce_custom / sc_allreduce_custom / sc_reduce_dispatch   entry_*: the arguments handed down (target -1 for
                         the allreduce variants); reduce_op_table: the kernel chosen for each operation
  Add-on of this file (trusted with the translator): `a = b = v;` at statement level is read as `b = v; a = b;` (unchain).
coq/C03/ReduceGen.v proves that the hand-written per-rank model (ReduceModel.v) computes exactly these."""
import os, re

# canonical numbering of the datatype names in the generated tables
DT_NAMES = ["sc_MPI_CHAR", "sc_MPI_BYTE", "sc_MPI_SHORT", "sc_MPI_UNSIGNED_SHORT", "sc_MPI_INT", "sc_MPI_UNSIGNED", "sc_MPI_LONG",
            "sc_MPI_UNSIGNED_LONG", "sc_MPI_LONG_LONG_INT", "sc_MPI_FLOAT", "sc_MPI_DOUBLE", "sc_MPI_LONG_DOUBLE"]
CT = {"char": ("char", 1, 1, 0), "signed char": ("char", 1, 1, 0), "short": ("short", 2, 1, 0), "unsigned short": ("ushort", 2, 0, 0),
      "int": ("int", 4, 1, 0), "unsigned int": ("unsigned", 4, 0, 0), "long": ("long", 8, 1, 0), "unsigned long": ("ulong", 8, 0, 0),
      "long long": ("longlong", 8, 1, 0), "float": ("float", 4, 1, 1), "double": ("double", 8, 1, 1), "long double": ("longdouble", 16, 1, 1)}


def register(GROUPS, c2g, incs, REPO, HERE, STRUCTS, Group):
    import slicelib as sl

    def gen_reduce(tmp):
        g = Group("ReduceC03")
        g.text += "From ScV Require Import Gen.Search Gen.Macros.   (* sc_search_bias, sc_log2_lookup_table: generated from sc_search.c / sc.c *)\n\n"
        f = os.path.join(REPO, "src", "sc_reduce.c")
        src = open(f).read()
        cache = {}
        KW = dict(known_funcs={"sc_search_bias": ("sc_search_bias", False)}, enum_params=True, symbolic_calls=("sc_mpi_sizeof",),
                  tables={"sc_log2_lookup_table"})

        def fn(name):
            if name not in cache:
                cache[name] = c2g.find_function(c2g.clang_ast(f, name, incs(tmp)), name)
            return cache[name]

        def one(lst, what):
            if len(lst) != 1:
                raise c2g.Unsupported("%s: %d candidates" % (what, len(lst)))
            return lst[0]

        def block(cfn, begin, end, gname, outputs, want, occurrence=0, params=None, **kw):
            st = c2g.select_between(fn(cfn), src, begin, end, occurrence=occurrence)
            k2 = dict(KW)
            k2.update(kw)
            t, i = sl.emit_block(st, gname, outputs, cfn, want_params=want, params=tuple(params if params is not None else want), **k2)
            g.add(t, i)

        def cond(node, gname, cfn, want):
            t, i = sl.emit_cond(node, gname, cfn, params=tuple(want), want_params=want, **KW)
            g.add(t, i)

        def ifs(cfn, refs_exact, inside=None):
            return [n for n in sl.find_nodes(inside or fn(cfn), lambda n: n.get("kind") == "IfStmt" and sl.refs(n["inner"][0]) == set(refs_exact))]

        def call_stmts(root, callees):
            """statements `x = f (..)` or `f (..)` for f in callees, in source order"""
            out = []

            def f_(n):
                if n.get("kind") == "BinaryOperator" and n.get("opcode") == "=" and sl.callee_name(sl.strip(n["inner"][1])) in callees:
                    out.append(n)
            sl.walk(root, f_)
            return out

        def msg(stmt, gname, cfn, params):
            """(peer, tag) of an MPI point-to-point call: arguments 3 and 4"""
            call = sl.strip(stmt["inner"][1])
            for k_, suffix in ((3, "peer"), (4, "tag")):
                t, i = sl.emit_expr(call["inner"][1 + k_], "%s_%s" % (gname, suffix), cfn, params=tuple(params), want_params=list(params), **KW)
                g.add(t, i)

        # ================= sc_reduce_recursive
        R = "sc_reduce_recursive"
        F = fn(R)
        block(R, r"orig_target = target;", r"SC_ASSERT \(0 <= target && target < groupsize\);", "rec_target", ["orig_target", "doall", "target"], ["target"])
        block(R, r"myrank = sc_search_bias \(maxlevel, level, branch, target\);", r"SC_ASSERT \(0 <= myrank && myrank < groupsize\);", "rec_myrank",
              ["myrank"], ["maxlevel", "level", "branch", "target"])
        cond(one(ifs(R, ("level",))[:1], "rec: leaf test")["inner"][0], "rec_is_leaf", R, ["level"])
        lv = ifs(R, ("level",))
        if len(lv) != 2:
            raise c2g.Unsupported("sc_reduce_recursive: %d tests on level" % len(lv))
        cond(lv[1]["inner"][0], "rec_is_a2a", R, ["level"])
        a2 = one(sl.find_nodes(lv[1]["inner"][1], lambda n: n.get("kind") == "CallExpr" and sl.callee_name(n) == "sc_reduce_alltoall"), "rec: alltoall call")
        t, i = sl.emit_block([a2], "rec_a2a_args", ["*ghosts"], R, params=("groupsize", "orig_target", "maxlevel", "level", "branch"),
                             want_params=["groupsize", "orig_target", "maxlevel", "level", "branch"], effects=("sc_reduce_alltoall",),
                             effect_skip_args={"sc_reduce_alltoall": (0, 1, 2, 3, 9)}, **KW)
        g.add(t, i)
        block(R, r"peer = sc_search_bias \(maxlevel, level, branch \^ 0x01, target\);", r"if \(myrank == higher\) \{", "rec_peer_higher",
              ["peer", "higher"], ["maxlevel", "level", "branch", "target"])
        hi = one(ifs(R, ("myrank", "higher")), "rec: higher test")
        cond(hi["inner"][0], "rec_is_higher", R, ["myrank", "higher"])
        pe = ifs(R, ("peer", "groupsize"))
        if len(pe) != 2:
            raise c2g.Unsupported("sc_reduce_recursive: %d tests peer < groupsize" % len(pe))
        cond(pe[0]["inner"][0], "rec_peer_exists1", R, ["peer", "groupsize"])
        cond(pe[1]["inner"][0], "rec_peer_exists2", R, ["peer", "groupsize"])
        lo = one(ifs(R, ("myrank", "peer")), "rec: rank order test")
        cond(lo["inner"][0], "rec_lower_rank", R, ["myrank", "peer"])
        t, i = sl.emit_block([lo], "rec_combine", ["*ghosts"], R, params=("myrank", "peer", "data", "peerdata", "datasize"),
                             want_params=["myrank", "peer", "data", "peerdata", "datasize"], effects=("reduce_fn", "memcpy"), effect_called=True,
                             effect_skip_args={"reduce_fn": (2, 3)}, **KW)
        g.add(t, i)
        sb = one(ifs(R, ("doall", "peer", "groupsize")), "rec: send back test")
        cond(sb["inner"][0], "rec_send_back", R, ["doall", "peer", "groupsize"])
        rc = one(sl.find_nodes(hi["inner"][1], lambda n: n.get("kind") == "CallExpr" and sl.callee_name(n) == "sc_reduce_recursive"), "rec: recursive call")
        t, i = sl.emit_block([rc], "rec_recurse", ["*ghosts"], R, params=("groupsize", "orig_target", "maxlevel", "level", "branch"),
                             want_params=["groupsize", "orig_target", "maxlevel", "level", "branch"], effects=("sc_reduce_recursive",),
                             effect_skip_args={"sc_reduce_recursive": (0, 1, 2, 3, 9)}, **KW)
        g.add(t, i)
        P2P = ("sc_MPI_Recv", "sc_MPI_Send", "MPI_Recv", "MPI_Send")
        ms = call_stmts(F, P2P)
        F0, ms0 = F, ms
        kinds = [sl.callee_name(sl.strip(m["inner"][1])).replace("sc_", "") for m in ms]
        if kinds != ["MPI_Recv", "MPI_Send", "MPI_Send", "MPI_Recv"]:
            raise c2g.Unsupported("sc_reduce_recursive: point-to-point calls %s" % kinds)
        for k_, m in enumerate(ms):
            msg(m, "rec_msg%d" % (k_ + 1), R, ("peer", "SC_TAG_REDUCE"))
        ds = one(call_stmts(F, ()) or [n for n in sl.find_nodes(F, lambda n: n.get("kind") == "BinaryOperator" and n.get("opcode") == "=" and
                                                               sl.strip(n["inner"][0]).get("referencedDecl", {}).get("name") == "datasize")], "rec: datasize")
        t, i = sl.emit_block([ds], "rec_datasize", ["datasize"], R, params=("count", "sc_mpi_sizeof_ret"), want_params=["count", "sc_mpi_sizeof_ret"], **KW)
        g.add(t, i)

        # ---- WHOLE BUFFERS: reduce_fn with all four arguments; what is handed on to the next level; sizes and buffers of the messages
        def no_writes(cfn, names):
            """none of the variables is assigned, incremented or has its address taken anywhere in the function"""
            bad = []

            def f_(n):
                k_ = n.get("kind")
                tgt = None
                if k_ in ("BinaryOperator", "CompoundAssignOperator") and (n.get("opcode") or "").endswith("=") and n.get("opcode") not in ("==", "!=", "<=", ">="):
                    tgt = sl.strip(n["inner"][0])
                elif k_ == "UnaryOperator" and n.get("opcode") in ("++", "--", "&"):
                    tgt = sl.strip(n["inner"][0])
                if tgt is not None and tgt.get("kind") == "DeclRefExpr" and tgt["referencedDecl"]["name"] in names:
                    bad.append(tgt["referencedDecl"]["name"])
            sl.walk(fn(cfn), f_)
            if bad:
                raise c2g.Unsupported("%s: %s is modified inside the function" % (cfn, ", ".join(sorted(set(bad)))))
        no_writes(R, ("data", "count", "datatype", "reduce_fn", "groupsize", "maxlevel", "level", "branch"))
        WB = ["myrank", "peer", "data", "peerdata", "datasize", "count", "datatype"]
        t, i = sl.emit_block([lo], "rec_combine_args", ["*ghosts"], R, params=tuple(WB), want_params=WB, effects=("reduce_fn", "memcpy"), effect_called=True, **KW)
        g.add(t, i)
        for node_, nm_, cal_ in ((rc, "rec_recurse_bufs", "sc_reduce_recursive"), (a2, "rec_a2a_bufs", "sc_reduce_alltoall")):
            t, i = sl.emit_block([node_], nm_, ["*ghosts"], R, params=("data", "count", "datatype"), want_params=["data", "count", "datatype"],
                                 effects=(cal_,), effect_skip_args={cal_: (0, 4, 5, 6, 7, 8, 9)}, **KW)
            g.add(t, i)
        pa = call_stmts(F0, ("sc_malloc",))
        if len(pa) != 1:
            raise c2g.Unsupported("sc_reduce_recursive: %d allocations" % len(pa))
        t, i = sl.emit_expr(sl.strip(pa[0]["inner"][1])["inner"][2], "rec_peerdata_bytes", R, params=("datasize",), want_params=["datasize"], **KW)
        g.add(t, i)
        for k_, m in enumerate(ms0):
            call = sl.strip(m["inner"][1])
            t, i = sl.emit_expr(call["inner"][1], "rec_msg%d_buf" % (k_ + 1), R, params=("data", "peerdata"), want_params=["data", "peerdata"], **KW)
            g.add(t, i)
            # the messages carry `count` items of `datatype` (since the repair of F-C03e; before: datasize bytes through an int)
            t, i = sl.emit_expr(call["inner"][2], "rec_msg%d_count" % (k_ + 1), R, params=("count",), want_params=["count"], **KW)
            g.add(t, i)
            t, i = sl.emit_expr(call["inner"][3], "rec_msg%d_type" % (k_ + 1), R, params=("datatype",), want_params=["datatype"], **KW)
            g.add(t, i)

        # ================= sc_reduce_alltoall
        A = "sc_reduce_alltoall"
        F = fn(A)
        block(A, r"doall = 0;", r"SC_ASSERT \(0 <= target && target < groupsize\);", "a2a_target", ["doall", "target"], ["target"])
        block(A, r"myrank = sc_search_bias \(maxlevel, level, branch, target\);", r"SC_ASSERT \(0 <= myrank && myrank < groupsize\);", "a2a_myrank",
              ["myrank"], ["maxlevel", "level", "branch", "target"])
        co = one(ifs(A, ("doall", "target", "myrank")), "a2a: collect test")
        cond(co["inner"][0], "a2a_collects", A, ["doall", "target", "myrank"])
        block(A, r"allcount = 1 << level;", r"alldata = SC_ALLOC", "a2a_allcount", ["allcount"], ["level"])
        al = [n for n in call_stmts(F, ("sc_malloc",))]
        if len(al) != 2:
            raise c2g.Unsupported("sc_reduce_alltoall: %d allocations" % len(al))
        t, i = sl.emit_expr(sl.strip(al[0]["inner"][1])["inner"][2], "a2a_alldata_bytes", A, params=("allcount", "datasize"), want_params=["allcount", "datasize"], **KW)
        g.add(t, i)
        block(A, r"rrequest = request;", r"for \(i = 0; i < allcount; \+\+i\) \{", "a2a_requests", ["rrequest", "srequest"], ["request", "allcount"],
              elem_ptr_types=("sc_MPI_Request *", "int *"))
        block(A, r"peer = sc_search_bias \(maxlevel, level, i, target\);", r"/\* communicate with existing peers \*/", "a2a_peer", ["peer"],
              ["maxlevel", "level", "i", "target"])
        cond(one(ifs(A, ("peer", "myrank")), "a2a: self test")["inner"][0], "a2a_is_self", A, ["peer", "myrank"])
        cond(one(ifs(A, ("peer", "groupsize")), "a2a: peer test")["inner"][0], "a2a_peer_exists", A, ["peer", "groupsize"])
        da = ifs(A, ("doall",))
        if len(da) != 2:
            raise c2g.Unsupported("sc_reduce_alltoall: %d tests on doall" % len(da))
        cond(da[0]["inner"][0], "a2a_sends_too", A, ["doall"])
        cond(da[1]["inner"][0], "a2a_waits_sends", A, ["doall"])
        PP = ("sc_MPI_Irecv", "sc_MPI_Isend", "sc_MPI_Send", "MPI_Irecv", "MPI_Isend", "MPI_Send")
        ms = call_stmts(F, PP)
        kinds = [sl.callee_name(sl.strip(m["inner"][1])).replace("sc_", "") for m in ms]
        if kinds != ["MPI_Irecv", "MPI_Isend", "MPI_Send"]:
            raise c2g.Unsupported("sc_reduce_alltoall: point-to-point calls %s" % kinds)
        msg(ms[0], "a2a_recv", A, ("peer", "target", "SC_TAG_REDUCE"))
        msg(ms[1], "a2a_send", A, ("peer", "target", "SC_TAG_REDUCE"))
        msg(ms[2], "a2a_send_target", A, ("peer", "target", "SC_TAG_REDUCE"))
        rb = sl.strip(sl.strip(ms[0]["inner"][1])["inner"][1])
        if rb.get("kind") != "BinaryOperator" or rb.get("opcode") != "+":
            raise c2g.Unsupported("sc_reduce_alltoall: receive buffer is not alldata + offset")
        t, i = sl.emit_expr(rb["inner"][1], "a2a_recv_offset", A, params=("i", "datasize"), want_params=["i", "datasize"], **KW)
        g.add(t, i)
        mc = sl.find_nodes(F, lambda n: n.get("kind") == "CallExpr" and sl.callee_name(n) == "memcpy")
        if len(mc) != 2:
            raise c2g.Unsupported("sc_reduce_alltoall: %d memcpy calls" % len(mc))
        d0 = sl.strip(mc[0]["inner"][1])
        if d0.get("kind") != "BinaryOperator" or d0.get("opcode") != "+":
            raise c2g.Unsupported("sc_reduce_alltoall: own slot is not alldata + offset")
        t, i = sl.emit_expr(d0["inner"][1], "a2a_self_offset", A, params=("i", "datasize"), want_params=["i", "datasize"], **KW)
        g.add(t, i)
        # the combination loops
        outer = one([n for n in sl.find_nodes(F, lambda n: n.get("kind") == "ForStmt" and "shift" in sl.refs(n["inner"][3] if n["inner"][3].get("kind") else {}))], "a2a: outer loop")
        cond(outer["inner"][2], "a2a_outer_cond", A, ["l"])
        inner = one([n for n in sl.find_nodes(outer["inner"][-1], lambda n: n.get("kind") == "ForStmt")], "a2a: inner loop")
        cond(inner["inner"][2], "a2a_inner_cond", A, ["i", "l"])
        init = outer["inner"][0]
        parts = []

        def commas(n):
            n = c2g.skip_parens(n)
            if n.get("kind") == "BinaryOperator" and n.get("opcode") == ",":
                commas(n["inner"][0])
                commas(n["inner"][1])
            else:
                parts.append(n)
        commas(init)
        t, i = sl.emit_block(parts, "a2a_outer_init", ["shift", "l"], A, params=("level",), want_params=["level"], **KW)
        g.add(t, i)
        parts = []
        commas(outer["inner"][3])
        t, i = sl.emit_block(parts, "a2a_outer_next", ["shift", "l"], A, params=("shift", "l"), want_params=["shift", "l"], **KW)
        g.add(t, i)
        block(A, r"peer2 = sc_search_bias \(maxlevel, l \+ 1, 2 \* i \+ 1, target\);", r"SC_ASSERT \(peer < peer2\);", "a2a_peer2", ["peer2"],
              ["maxlevel", "l", "i", "target"])
        p2 = one(ifs(A, ("peer2", "groupsize")), "a2a: peer2 test")
        cond(p2["inner"][0], "a2a_peer2_exists", A, ["peer2", "groupsize"])
        rf = one(sl.find_nodes(p2["inner"][1], lambda n: n.get("kind") == "CallExpr" and sl.callee_name(n) == "reduce_fn"), "a2a: reduce_fn call")
        for k_, nm in ((0, "a2a_combine_send_offset"), (1, "a2a_combine_recv_offset")):
            a = sl.strip(rf["inner"][1 + k_])
            if a.get("kind") != "BinaryOperator" or a.get("opcode") != "+" or sl.strip(a["inner"][0]).get("referencedDecl", {}).get("name") != "alldata":
                raise c2g.Unsupported("sc_reduce_alltoall: reduce_fn operand is not alldata + offset")
            t, i = sl.emit_expr(a["inner"][1], nm, A, params=("i", "shift", "datasize"), want_params=["i", "shift", "datasize"], **KW)
            g.add(t, i)

        # ---- the WHOLE body of the posting loop (own contribution, Irecv / Isend with buffers, sizes, request slots, the unused slots),
        # ---- both Waitall calls, the allocations, the copy of the result and the frees
        no_writes(A, ("data", "count", "datatype", "reduce_fn", "groupsize", "maxlevel", "level", "branch", "mpicomm"))
        post = one([n for n in sl.find_nodes(F, lambda n: n.get("kind") == "ForStmt" and sl.refs(n["inner"][2]) == {"i", "allcount"})], "a2a: posting loop")
        RQ = ("sc_MPI_Request *", "int *")
        PB = ["maxlevel", "level", "i", "target", "myrank", "groupsize", "doall", "alldata", "data", "datasize", "rrequest", "srequest", "mpicomm",
              "SC_TAG_REDUCE", "count", "datatype", "sc_MPI_Irecv_ret", "sc_MPI_Isend_ret", "rrequest_i", "srequest_i"]
        def unchain(n):
            """`a = b = v;` at statement level is `b = v; a = b;` (the add-on below refuses an assignment inside an expression)"""
            if not isinstance(n, dict):
                return n
            n = dict(n)
            if "inner" in n:
                inner = []
                for c_ in n["inner"]:
                    c_ = unchain(c_)
                    if n.get("kind") == "CompoundStmt" and isinstance(c_, dict) and c_.get("kind") == "BinaryOperator" and c_.get("opcode") == "=":
                        r_ = sl.strip(c_["inner"][1])
                        if r_.get("kind") == "BinaryOperator" and r_.get("opcode") == "=":
                            inner.append(r_)
                            c_ = dict(c_)
                            c_["inner"] = [c_["inner"][0], r_["inner"][0]]
                    inner.append(c_)
                n["inner"] = inner
            return n
        t, i = sl.emit_block(list(unchain(post["inner"][-1])["inner"]), "a2a_post_body", ["*ghosts", "rrequest_i", "srequest_i"], A, params=tuple(PB), want_params=PB,
                             effects=("memcpy", "sc_MPI_Irecv", "sc_MPI_Isend"), effect_called=True, elem_arrays=("rrequest", "srequest"),
                             elem_ptr_types=RQ, **KW)
        g.add(t, i)
        t, i = sl.emit_expr(sl.strip(al[1]["inner"][1])["inner"][2], "a2a_request_bytes", A, params=("allcount",), want_params=["allcount"], **KW)
        g.add(t, i)
        wa = [n for n in sl.find_nodes(F, lambda n: n.get("kind") == "CallExpr" and sl.callee_name(n) in ("sc_MPI_Waitall", "MPI_Waitall"))]
        if len(wa) != 2:
            raise c2g.Unsupported("sc_reduce_alltoall: %d Waitall calls" % len(wa))
        wn = sl.callee_name(wa[0])
        WP = ["allcount", "rrequest", "srequest", "doall", "data", "alldata", "datasize", "request"]
        t, i = sl.emit_block([wa[0]], "a2a_wait_recvs", ["*ghosts"], A, params=("allcount", "rrequest"), want_params=["allcount", "rrequest"],
                             effects=(wn,), effect_called=True, effect_skip_args={wn: (2,)}, elem_ptr_types=RQ, **KW)
        g.add(t, i)
        # from the second Waitall (inside `if (doall)`) to the end of the collecting branch
        fin = c2g.select_between(fn(A), src, r"if \(doall\) \{\s*mpiret = sc_MPI_Waitall", r"\}\s*else \{\s*mpiret = sc_MPI_Send", occurrence=0)
        t, i = sl.emit_block(fin, "a2a_finish", ["*ghosts"], A, params=tuple(WP), want_params=WP + ["sc_MPI_Waitall_ret", "mpiret"],
                             effects=(wn, "memcpy", "sc_free"), effect_called=True, effect_skip_args={wn: (2,), "sc_free": (0,)}, elem_ptr_types=RQ, **KW)
        g.add(t, i)
        # the reduce_fn call of the combination loops with all four arguments
        CB = ["alldata", "i", "shift", "datasize", "count", "datatype"]
        t, i = sl.emit_block([rf], "a2a_combine_args", ["*ghosts"], A, params=tuple(CB), want_params=CB, effects=("reduce_fn",), effect_called=True, **KW)
        g.add(t, i)
        # a rank that does not collect: one send of the whole buffer to the target
        SB = ["data", "count", "datatype", "target", "mpicomm", "SC_TAG_REDUCE"]
        t, i = sl.emit_block([co["inner"][2]], "a2a_send_whole", ["*ghosts"], A, params=tuple(SB), want_params=SB + ["sc_MPI_Send_ret"], effects=("sc_MPI_Send",), effect_called=True, **KW)
        g.add(t, i)
        nul = [n for n in sl.find_nodes(post, lambda n: n.get("kind") == "BinaryOperator" and n.get("opcode") == "=" and
                                        c2g.skip_parens(n["inner"][0]).get("kind") == "ArraySubscriptExpr" and
                                        not (sl.strip(n["inner"][1]).get("kind") == "BinaryOperator" and sl.strip(n["inner"][1]).get("opcode") == "="))]
        if len(nul) != 3:
            raise c2g.Unsupported("sc_reduce_alltoall: %d stores into the request arrays" % len(nul))
        t, i = sl.emit_expr(nul[0]["inner"][1], "a2a_request_null", A, params=(), want_params=[], **KW)
        g.add(t, i)
        cond(post["inner"][2], "a2a_post_cond", A, ["i", "allcount"])
        t, i = sl.emit_block([post["inner"][0]], "a2a_post_init", ["i"], A, params=(), want_params=[], **KW)
        g.add(t, i)
        t, i = sl.emit_block([post["inner"][3]], "a2a_post_next", ["i"], A, params=("i",), want_params=["i"], **KW)
        g.add(t, i)
        # ================= sc_reduce_custom_dispatch
        D = "sc_reduce_custom_dispatch"
        block(D, r"maxlevel = SC_LOG2_32 \(mpisize - 1\) \+ 1;", r"sc_reduce_recursive \(mpicomm, recvbuf", "dispatch_maxlevel", ["maxlevel"], ["mpisize"])
        rc = one(sl.find_nodes(fn(D), lambda n: n.get("kind") == "CallExpr" and sl.callee_name(n) == "sc_reduce_recursive"), "dispatch: call")
        t, i = sl.emit_block([rc], "dispatch_args", ["*ghosts"], D, params=("mpisize", "target", "maxlevel", "mpirank"), want_params=["mpisize", "target", "maxlevel", "mpirank"],
                             effects=("sc_reduce_recursive",), effect_skip_args={"sc_reduce_recursive": (0, 1, 2, 3, 9)}, **KW)
        g.add(t, i)

        # the copy of the own contribution into the receive buffer, on which the whole reduction then works; buffers handed to the recursion
        no_writes(D, ("sendbuf", "recvbuf", "sendcount", "sendtype", "reduce_fn", "target", "mpicomm"))
        block(D, r"datasize = \(size_t\) sendcount \* sc_mpi_sizeof \(sendtype\);", r"mpiret = sc_MPI_Comm_size", "dispatch_copy", ["*ghosts"],
              ["sendbuf", "recvbuf", "sendcount", "sc_mpi_sizeof_ret"], effects=("memcpy",), effect_called=True)
        t, i = sl.emit_block([rc], "dispatch_bufs", ["*ghosts"], D, params=("recvbuf", "sendcount", "sendtype"), want_params=["recvbuf", "sendcount", "sendtype"],
                             effects=("sc_reduce_recursive",), effect_skip_args={"sc_reduce_recursive": (0, 4, 5, 6, 7, 8, 9)}, **KW)
        g.add(t, i)

        # ================= the four entry points: target == -1 for the allreduce variants, the caller's target otherwise; buffers, count, datatype unchanged
        for E_, callee, nargs, skip in (("sc_allreduce_custom", "sc_reduce_custom_dispatch", 7, (4,)), ("sc_reduce_custom", "sc_reduce_custom_dispatch", 7, (4,)),
                                        ("sc_allreduce", "sc_reduce_dispatch", 7, ()), ("sc_reduce", "sc_reduce_dispatch", 7, ()),
                                        ("sc_reduce_dispatch", "sc_reduce_custom_dispatch", 7, (4,))):
            ce = one(sl.find_nodes(fn(E_), lambda n: n.get("kind") == "CallExpr" and sl.callee_name(n) == callee), E_ + ": call of " + callee)
            ps = [p_ for p_ in ("sendbuf", "recvbuf", "sendcount", "sendtype", "operation", "target", "mpicomm")
                  if p_ != "operation" or (E_ in ("sc_allreduce", "sc_reduce"))]
            ps = [p_ for p_ in ps if p_ != "target" or E_ not in ("sc_allreduce_custom", "sc_allreduce")]
            no_writes(E_, tuple(ps))
            t, i = sl.emit_block([ce], "entry_%s" % E_[3:], ["*ghosts"], E_, params=tuple(ps), want_params=ps, effects=(callee,), effect_skip_args={callee: skip}, **KW)
            g.add(t, i)

        # the choice of the kernel by `operation` in sc_reduce_dispatch as a table (operation named in the condition -> function assigned to reduce_fn)
        OPS, KER = ["sc_MPI_MAX", "sc_MPI_MIN", "sc_MPI_SUM"], ["sc_reduce_max", "sc_reduce_min", "sc_reduce_sum"]
        body = [c for c in fn("sc_reduce_dispatch")["inner"] if c.get("kind") == "CompoundStmt"][0]
        node = one([s_ for s_ in body.get("inner", []) if s_.get("kind") == "IfStmt"], "sc_reduce_dispatch: if chain")
        rows = []
        while node is not None and node.get("kind") == "IfStmt":
            cnd, then = node["inner"][0], node["inner"][1]
            cb, _ = c2g.node_offsets(cnd)
            tb, _ = c2g.node_offsets(then)
            names = re.findall(r"sc_MPI_[A-Z_]+", src[cb:tb])
            if len(names) != 1 or names[0] not in OPS or "operation" not in sl.refs(cnd) or "==" not in src[cb:tb]:
                raise c2g.Unsupported("sc_reduce_dispatch: operation test `%s`" % src[cb:tb].strip()[:60])
            asg = one(sl.find_nodes(then, lambda n: n.get("kind") == "BinaryOperator" and n.get("opcode") == "="), "sc_reduce_dispatch: assignment")
            if sl.strip(asg["inner"][0]).get("referencedDecl", {}).get("name") != "reduce_fn":
                raise c2g.Unsupported("sc_reduce_dispatch: a branch does not assign reduce_fn")
            kn = sl.strip(asg["inner"][1]).get("referencedDecl", {}).get("name")
            if kn not in KER:
                raise c2g.Unsupported("sc_reduce_dispatch: reduce_fn = %s" % kn)
            rows.append((OPS.index(names[0]), KER.index(kn)))
            node = node["inner"][2] if len(node["inner"]) > 2 else None
        g.add("(* sc_reduce_dispatch: (operation, kernel); operations numbered %s, kernels %s *)\n"
              "Definition reduce_op_table : list (Z * Z) :=\n  [%s].\n" % (
                  ", ".join("%d %s" % (k_, n_) for k_, n_ in enumerate(OPS)), ", ".join("%d %s" % (k_, n_) for k_, n_ in enumerate(KER)),
                  "; ".join("(%d, %d)" % r_ for r_ in rows)),
              dict(name="reduce_op_table", params=[], fuel=False, table=[list(r_) for r_ in rows]))

        # ================= the typed kernels
        tables = {}
        for op in ("max", "min", "sum"):
            K = "sc_reduce_" + op
            F = fn(K)
            body = [c for c in F["inner"] if c.get("kind") == "CompoundStmt"][0]
            node = one([s_ for s_ in body.get("inner", []) if s_.get("kind") == "IfStmt"], K + ": if chain")
            rows = []
            seen_ct = set()
            while node is not None and node.get("kind") == "IfStmt":
                cnd, then = node["inner"][0], node["inner"][1]
                cb, _ = c2g.node_offsets(cnd)
                tb, _ = c2g.node_offsets(then)
                names = re.findall(r"sc_MPI_[A-Z_]+", src[cb:tb])
                if not names or any(n_ not in DT_NAMES for n_ in names):
                    raise c2g.Unsupported("%s: datatype test `%s`" % (K, src[cb:tb].strip()[:60]))
                rdecl = one(sl.find_nodes(then, lambda n: n.get("kind") == "VarDecl" and n.get("name") == "r"), K + ": declaration of r")
                sdecl = one(sl.find_nodes(then, lambda n: n.get("kind") == "VarDecl" and n.get("name") == "s"), K + ": declaration of s")
                ety = c2g.strip_quals(re.sub(r"\*\s*$", "", c2g.strip_quals(c2g.tystr(rdecl))))
                sty = c2g.strip_quals(re.sub(r"\*\s*$", "", c2g.strip_quals(c2g.tystr(sdecl))))
                if ety not in CT or sty != ety:
                    raise c2g.Unsupported("%s: element types %s / %s" % (K, ety, sty))
                cname, nbytes, sg, fl = CT[ety]
                for n_ in names:
                    rows.append((DT_NAMES.index(n_), nbytes, sg, fl))
                loop = one(sl.find_nodes(then, lambda n: n.get("kind") == "ForStmt"), K + ": element loop")
                if not fl and cname not in seen_ct:
                    seen_ct.add(cname)
                    inner_st = loop["inner"][-1]
                    t, i = sl.emit_block([inner_st], "reduce_%s_%s" % (op, cname), ["r_store"], K, params=("i",), want_params=["i"],
                                         init={"r_store": "(r i)"}, array_reads=("s", "r"), store_arrays=("r",))
                    g.add(t, i)
                node = node["inner"][2] if len(node["inner"]) > 2 else None
            tables[op] = rows
            g.add("(* %s: (datatype, bytes of the element type of its branch, signed, floating); datatypes numbered\n   %s *)\n"
                  "Definition reduce_%s_types : list (Z * Z * Z * Z) :=\n  [%s].\n" % (
                      K, ", ".join("%d %s" % (k_, n_) for k_, n_ in enumerate(DT_NAMES)), op,
                      "; ".join("(%d, %d, %d, %d)" % r_ for r_ in rows)),
                  dict(name="reduce_%s_types" % op, params=[], fuel=False, table=[list(r_) for r_ in rows], names=DT_NAMES))
        return g, [f]

    GROUPS["ReduceC03"] = gen_reduce
