"""Translator group of C17 (tie T1): `OptionsC17` (coq/Gen/OptionsC17.v), regenerated from /repo/src/sc_options.c on every run.

  sc_iniparser_getint / getsizet / getdouble    everything behind the lookup: errno = 0, the conversion call (its result and the errno it
                                                leaves are parameters), the range tests, what is stored through iserror, the returned value
                                                (HUGE_VAL = __builtin_huge_val () is a symbolic constant; doubles are exact numbers)
  sc_options_parse       parse_optstring_init (`optstring[0] = '\\0'`), parse_optind_reset (`optind = 0`), parse_switch (`++*(int *) opt_var`),
                         parse_bool (the chain optarg == NULL / strspn (optarg, "1tTyY") > 0 / strspn (optarg, "0fFnN") > 0 with the two
                         character sets as byte lists), parse_int_error / parse_int_value, parse_sizet_error / parse_sizet_value,
                         parse_double_error
  sc_options_load_ini    load_has_colon (`strchr (item->opt_name, ':') != NULL`: no "Options:" prefix)
  sc_options_save        save_prefix_base (base name, section prefix and its length from strrchr), save_heading (the test that decides
                         whether a section heading is written, over the symbolic strncmp result), save_switch_numeric (bvalue <= 1)
coq/C17/OptionsGen.v proves that the hand-written model (OptionsModel.v) computes exactly these."""
import os, re, json


def register(GROUPS, c2g, incs, REPO, HERE, STRUCTS, Group):
    import slicelib as sl

    def gen_options(tmp):
        g = Group("OptionsC17")
        f = os.path.join(REPO, "src", "sc_options.c")
        cache = {}
        CONV = ("strtol", "strtoll", "strtod")
        KW = dict(const_calls={"__builtin_huge_val": "HUGE_VAL"}, clobbers=dict((c, ("errno",)) for c in CONV))

        def fn(name):
            if name not in cache:
                cache[name] = c2g.find_function(c2g.clang_ast(f, name, incs(tmp)), name)
            return cache[name]

        def one(lst, what):
            if len(lst) != 1:
                raise c2g.Unsupported("%s: %d candidates" % (what, len(lst)))
            return lst[0]

        def is_errno_reset(n):
            if n.get("kind") != "BinaryOperator" or n.get("opcode") != "=":
                return False
            l = c2g.skip_parens(n["inner"][0])
            return l.get("kind") == "UnaryOperator" and l.get("opcode") == "*" and sl.callee_name(sl.strip(l["inner"][0])) == "__errno_location"

        # ---- the three conversions of the .ini reader: the statements from `errno = 0;` to the end of the function
        for cfn, gname, conv in (("sc_iniparser_getint", "ini_getint", ("strtol",)), ("sc_iniparser_getsizet", "ini_getsizet", ("strtol", "strtoll")),
                                 ("sc_iniparser_getdouble", "ini_getdouble", ("strtod",))):
            F = fn(cfn)
            body = [c for c in F["inner"] if c.get("kind") == "CompoundStmt"][0].get("inner", [])
            k0 = [k for k, s_ in enumerate(body) if is_errno_reset(s_)]
            if len(k0) != 1:
                raise c2g.Unsupported("%s: %d statements `errno = 0`" % (cfn, len(k0)))
            used = set()
            sl.walk(F, lambda n: used.add(sl.callee_name(n)) if n.get("kind") == "CallExpr" and sl.callee_name(n) in conv else None)
            if len(used) != 1:
                raise c2g.Unsupported("%s: conversion calls %s" % (cfn, sorted(used)))
            cv = used.pop()
            want = ["iserror", cv + "_ret", "errno"] + (["HUGE_VAL"] if cfn.endswith("double") else [])
            t, i = sl.emit_block(body[k0[0]:], gname, ["ret", "iserror_deref"], cfn, params=tuple(want) + ("iserror_deref",), ret="ret",
                                 want_params=want + ["iserror_deref", "str"], effects=(cv,), effect_skip_args={cv: (1, 2)},
                                 comment="returns (returned value, *iserror afterwards); %s_ret / errno = what %s returns / leaves in errno" % (cv, cv), **KW)
            g.add(t, i)

        # ---- sc_options_parse
        P = "sc_options_parse"
        F = fn(P)
        a = one(sl.find_nodes(F, lambda n: n.get("kind") == "BinaryOperator" and n.get("opcode") == "=" and
                              sl.strip(n["inner"][0]).get("referencedDecl", {}).get("name") == "optind"), "parse: optind reset")
        t, i = sl.emit_block([a], "parse_optind_reset", ["optind"], P, want_params=[])
        g.add(t, i)
        a = one(sl.find_nodes(F, lambda n: n.get("kind") == "BinaryOperator" and n.get("opcode") == "=" and
                              c2g.skip_parens(n["inner"][0]).get("kind") == "ArraySubscriptExpr" and
                              sl.strip(c2g.skip_parens(n["inner"][0])["inner"][0]).get("referencedDecl", {}).get("name") == "optstring" and
                              sl.strip(c2g.skip_parens(n["inner"][0])["inner"][1]).get("kind") == "IntegerLiteral"), "parse: optstring init")
        t, i = sl.emit_block([a], "parse_optstring_init", ["optstring_0"], P, want_params=[])
        g.add(t, i)
        sw = one(sl.find_nodes(F, lambda n: n.get("kind") == "SwitchStmt"), "parse: switch")
        cases = {}

        def case_groups(body):
            cur = None
            for st in body.get("inner", []):
                n = st
                labels = []
                while n.get("kind") in ("CaseStmt", "DefaultStmt"):
                    if n.get("kind") == "CaseStmt":
                        labels.append(sl.refs(n["inner"][0]) or {"?"})
                    n = n["inner"][-1]
                if labels:
                    cur = []
                    for l in labels:
                        for nm in l:
                            cases[nm] = cur
                if cur is not None:
                    cur.append(n)
        case_groups(sw["inner"][1])

        def case(nm):
            if nm not in cases:
                raise c2g.Unsupported("parse: no case %s" % nm)
            return [s_ for s_ in cases[nm] if s_.get("kind") != "BreakStmt"]
        t, i = sl.emit_block(case("SC_OPTION_SWITCH"), "parse_switch", ["item_opt_var_deref"], P, params=("item_opt_var_deref",), want_params=["item_opt_var_deref"])
        g.add(t, i)
        # bool: the chain, and the two character sets
        cb = case("SC_OPTION_BOOL")
        lits = []
        sl.walk({"inner": cb}, lambda n: lits.append(n) if n.get("kind") == "StringLiteral" and
                lits.count(n) == 0 and len(json.loads(n["value"])) < 12 and "%" not in n["value"] else None)
        calls = sl.find_nodes({"inner": cb}, lambda n: n.get("kind") == "CallExpr" and sl.callee_name(n) == "strspn")
        if len(calls) != 2:
            raise c2g.Unsupported("parse: %d strspn calls in the bool case" % len(calls))
        for ci, c in enumerate(calls):
            lit = sl.strip(c["inner"][2])
            if lit.get("kind") != "StringLiteral" or sl.strip(c["inner"][1]).get("referencedDecl", {}).get("name") != "optarg":
                raise c2g.Unsupported("parse: strspn is not called as strspn (optarg, \"...\")")
            chars = json.loads(lit["value"]).encode("latin-1")
            g.add("Definition parse_bool_set%d : list Z := [%s].\n" % (ci + 1, "; ".join(str(b) for b in chars)),
                  dict(name="parse_bool_set%d" % (ci + 1), params=[], fuel=False))
        t, i = sl.emit_block(cb, "parse_bool", ["item_opt_var_deref", "retval"], P, params=("optarg", "strspn_ret", "strspn2_ret", "item_opt_var_deref", "retval"),
                             want_params=["optarg", "strspn_ret", "strspn2_ret", "item_opt_var_deref", "retval"],
                             symbolic_calls=("strspn",), drop_calls=("sc_logf", "sc_log"),
                             comment="returns (the int opt_var points to, retval); strspn_ret / strspn2_ret = strspn (optarg, parse_bool_set1 / parse_bool_set2)")
        g.add(t, i)

        def cond_of(nm, must):
            nd = one([n for n in sl.find_nodes({"inner": case(nm)}, lambda n: n.get("kind") == "IfStmt") if set(must) <= sl.refs(n["inner"][0])], "parse: test of " + nm)
            return nd
        nd = cond_of("SC_OPTION_INT", ("ilong",))
        t, i = sl.emit_cond(nd["inner"][0], "parse_int_error", P, params=("ilong", "errno"), want_params=["ilong", "errno"], **KW)
        g.add(t, i)
        t, i = sl.emit_block([nd["inner"][2]], "parse_int_value", ["item_opt_var_deref"], P, params=("ilong",), want_params=["ilong"])
        g.add(t, i)
        nd = cond_of("SC_OPTION_SIZE_T", ("ilonglong",))
        t, i = sl.emit_cond(nd["inner"][0], "parse_sizet_error", P, params=("ilonglong", "errno"), want_params=["ilonglong", "errno"], **KW)
        g.add(t, i)
        t, i = sl.emit_block([nd["inner"][2]], "parse_sizet_value", ["item_opt_var_deref"], P, params=("ilonglong",), want_params=["ilonglong"])
        g.add(t, i)
        nd = cond_of("SC_OPTION_DOUBLE", ("dbl",))
        t, i = sl.emit_cond(nd["inner"][0], "parse_double_error", P, params=("dbl", "errno", "HUGE_VAL"), want_params=["dbl", "errno", "HUGE_VAL"], **KW)
        g.add(t, i)
        # errno is reset in front of each of the three conversions
        for nm in ("SC_OPTION_INT", "SC_OPTION_SIZE_T", "SC_OPTION_DOUBLE"):
            if not case(nm) or not is_errno_reset(case(nm)[0]):
                raise c2g.Unsupported("parse: case %s does not start with errno = 0" % nm)

        # ---- sc_options_load_ini: the name carries its own section
        L = "sc_options_load_ini"
        nd = one(sl.find_nodes(fn(L), lambda n: n.get("kind") == "IfStmt" and
                               [c for c in sl.find_nodes(n["inner"][0], lambda m: m.get("kind") == "CallExpr" and sl.callee_name(m) == "strchr")]), "load: colon test")
        t, i = sl.emit_cond(nd["inner"][0], "load_has_colon", L, params=("strchr_ret",), want_params=["strchr_ret"], symbolic_calls=("strchr",))
        g.add(t, i)

        # ---- sc_options_save
        S = "sc_options_save"
        F = fn(S)
        nd = one(sl.find_nodes(F, lambda n: n.get("kind") == "IfStmt" and {"this_prefix", "last_prefix", "this_n", "last_n"} <= sl.refs(n["inner"][0])), "save: heading test")
        t, i = sl.emit_cond(nd["inner"][0], "save_heading", S, params=("this_prefix", "last_prefix", "this_n", "last_n", "strncmp_ret"),
                            want_params=["this_prefix", "last_prefix", "this_n", "last_n", "strncmp_ret"], symbolic_calls=("strncmp",))
        g.add(t, i)
        # what the branch remembers
        keep = [s_ for s_ in nd["inner"][1].get("inner", []) if s_.get("kind") == "BinaryOperator" and s_.get("opcode") == "="
                and sl.strip(s_["inner"][0]).get("referencedDecl", {}).get("name") in ("last_prefix", "last_n")]
        t, i = sl.emit_block(keep, "save_heading_keep", ["last_prefix", "last_n"], S, params=("this_prefix", "this_n"), want_params=["this_prefix", "this_n"])
        g.add(t, i)
        nb = one([n for n in sl.find_nodes(F, lambda n: n.get("kind") == "IfStmt" and
                                           [c for c in sl.find_nodes(n, lambda m: m.get("kind") == "CallExpr" and sl.callee_name(m) == "strrchr")])
                  if "item" in sl.refs(n["inner"][0]) and len(n["inner"]) == 3], "save: prefix / base determination")
        bn = [s_ for s_ in sl.find_nodes(F, lambda n: n.get("kind") == "BinaryOperator" and n.get("opcode") == "=" and
                                         sl.strip(n["inner"][0]).get("referencedDecl", {}).get("name") == "base_name" and
                                         sl.strip(n["inner"][1]).get("kind") == "IntegerLiteral")]
        if len(bn) != 1:
            raise c2g.Unsupported("save: %d resets of base_name" % len(bn))
        t, i = sl.emit_block([bn[0], nb], "save_prefix_base", ["base_name", "this_prefix", "this_n"], S,
                             params=("item_opt_name", "default_prefix", "strlen_ret", "strrchr_ret", "this_prefix", "this_n"),
                             want_params=["item_opt_name", "default_prefix", "strlen_ret", "strlen2_ret", "strrchr_ret", "this_prefix", "this_n"],
                             effects=("strrchr",), effect_skip_args={"strrchr": (0, 1)}, symbolic_calls=("strlen",),
                             comment="returns (base_name, this_prefix, this_n); strrchr_ret = strrchr (opt_name, ':'), strlen_ret / strlen2_ret = strlen (default_prefix)")
        g.add(t, i)
        ns = one(sl.find_nodes(F, lambda n: n.get("kind") == "IfStmt" and sl.refs(n["inner"][0]) == {"bvalue"}), "save: switch value test")
        t, i = sl.emit_cond(ns["inner"][0], "save_switch_boolean", S, params=("bvalue",), want_params=["bvalue"])
        g.add(t, i)
        # ---- the string holder: sc_options_string_set (the one place where parse / load_ini / load_json store a string option) and
        # sc_options_string_get (what save and print_summary read).  SC_FREE / SC_STRDUP are the effects sc_free / sc_strdup (their
        # arguments are outputs); a chained assignment `X = Y = e` is read as `Y = e; X = Y`; strcmp is symbolic.
        def unchain(stmts):
            out = []
            for s_ in stmts:
                if s_.get("kind") == "BinaryOperator" and s_.get("opcode") == "=":
                    r = c2g.skip_parens(s_["inner"][1])
                    while r.get("kind") == "ImplicitCastExpr" and r.get("castKind") in ("LValueToRValue", "NoOp"):
                        r = c2g.skip_parens(r["inner"][0])
                    if r.get("kind") == "BinaryOperator" and r.get("opcode") == "=":
                        inner_l = r["inner"][0]
                        read = dict(kind="ImplicitCastExpr", castKind="LValueToRValue", type=inner_l.get("type"), inner=[inner_l])
                        out += unchain([r]) + [dict(s_, inner=[s_["inner"][0], read])]
                        continue
                out.append(s_)
            return out
        SF = "sc_options_string_set"
        F = fn(SF)
        body = [c for c in F["inner"] if c.get("kind") == "CompoundStmt"][0].get("inner", [])
        t, i = sl.emit_block(unchain(body), "holder_set", ["s_string_var_deref", "s_string_value", "*ghosts"], SF, params=("s_string_value", "newval"),
                             want_params=["s_string_value", "newval", "sc_strdup_ret"], effects=("sc_free", "sc_strdup"), effect_skip_args={"sc_free": (0,), "sc_strdup": (0,)},
                             comment="returns (*s->string_var, s->string_value, what is freed, what is duplicated); sc_strdup_ret = the copy SC_STRDUP returns")
        g.add(t, i)
        SG = "sc_options_string_get"
        F = fn(SG)
        body = [c for c in F["inner"] if c.get("kind") == "CompoundStmt"][0].get("inner", [])
        t, i = sl.emit_block(unchain(body), "holder_get", ["ret", "s_string_value", "*ghosts"], SG, params=("s_string_var_deref", "s_string_value", "strcmp_ret"), ret="ret",
                             want_params=["s_string_var_deref", "s_string_value", "strcmp_ret", "sc_strdup_ret"], effects=("sc_free", "sc_strdup"),
                             effect_skip_args={"sc_free": (0,), "sc_strdup": (0,)}, symbolic_calls=("strcmp",),
                             comment="returns (returned text, s->string_value, what is freed, what is duplicated); strcmp_ret = strcmp (*s->string_var, s->string_value)")
        g.add(t, i)
        return g, [f]

    GROUPS["OptionsC17"] = gen_options


    # ======================================================================================================================
    # group DictC17: /repo/iniparser/dictionary.c, the dictionary behind iniparser_load (one entry per section heading and per key)
    # ======================================================================================================================
    class DictT(sl.SliceT):
        """SliceT with three documented additions for dictionary.c:
           * `d->key[e]` / `d->val[e]` / `d->hash[e]` are the memory reads `d_key e` / `d_val e` / `d_hash e` (the prefix keeps the
             array `d->key` apart from the parameter `key`);
           * `strcmp (key, d->key[e])` is `strcmp_key e` (what strcmp returns for the searched key and the key stored in slot e),
             `xstrdup (p)` is `xstrdup p` (the address of a fresh copy of the string at p): function parameters;
           * `if (++x == e) S` is read as `++x; if (x == e) S`."""
        hook_funs = ()
        loops_return_int = False       # a `return e;` inside a loop delivers an integer (sl.emit_block assumes void)

        @property
        def ret_void(self):
            return not self.loops_return_int

        @ret_void.setter
        def ret_void(self, v):
            pass

        def __init__(self, **kw):
            super().__init__(**kw)
            self._extra = []
            self.call_hooks = dict(self.call_hooks)
            self.call_hooks["strcmp"] = DictT.strcmp_hook
            self.call_hooks["xstrdup"] = DictT.xstrdup_hook

        @property
        def extra(self):
            return self._extra

        @extra.setter
        def extra(self, v):
            self._extra = list(v) + [x for x in self.hook_funs if x not in v]

        def fun_name(self, n):
            b = sl.strip(n["inner"][0])
            if b.get("kind") == "MemberExpr" and (b.get("name") in self.array_reads or b.get("name") in self.store_arrays) and \
                    sl.strip(b["inner"][0]).get("referencedDecl", {}).get("name") == "d":
                return "d_" + b["name"]
            return None

        def lvalue_key(self, n):
            n2 = c2g.skip_parens(n)
            if n2.get("kind") == "ArraySubscriptExpr" and self.fun_name(n2) is not None and self.fun_name(n2)[2:] in self.store_arrays:
                return self.fun_name(n2) + "_store"
            return super().lvalue_key(n)

        def referenced(self, s_, acc):
            # the arrays are memory-read functions, not locations; a hooked / symbolic call contributes only what its translation reads
            if s_.get("kind") == "ArraySubscriptExpr" and self.fun_name(s_) is not None:
                self.referenced(s_["inner"][1], acc)
                return
            if s_.get("kind") == "CallExpr":
                cn = sl.callee_name(s_)
                if cn == "strcmp":
                    b = sl.strip(s_["inner"][2])
                    if b.get("kind") == "ArraySubscriptExpr":
                        self.referenced(b["inner"][1], acc)
                    return
                if cn in self.symbolic_calls:
                    return
                if cn in self.call_hooks or cn in self.effects:
                    for c in s_["inner"][1:]:
                        self.referenced(c, acc)
                    return
            super().referenced(s_, acc)

        def strcmp_hook(self, n, env):
            a, b = sl.strip(n["inner"][1]), sl.strip(n["inner"][2])
            if a.get("referencedDecl", {}).get("name") != "key" or b.get("kind") != "ArraySubscriptExpr" or self.fun_name(b) != "d_key":
                raise c2g.Unsupported("strcmp is not called as strcmp (key, d->key[..]) in %s" % self.fname)
            if ("strcmp_key", "Z -> Z") not in self.hook_funs:
                raise c2g.Unsupported("unexpected strcmp in %s" % self.fname)
            return c2g.E("strcmp_key %s" % self.expr(b["inner"][1], env).z())

        def xstrdup_hook(self, n, env):
            if ("xstrdup", "Z -> Z") not in self.hook_funs:
                raise c2g.Unsupported("unexpected xstrdup in %s" % self.fname)
            return c2g.E("xstrdup %s" % self.expr(n["inner"][1], env).z())

        def stmts(self, ss, env, K):
            if ss and ss[0].get("kind") == "IfStmt":
                c = c2g.skip_parens(ss[0]["inner"][0])
                if c.get("kind") == "BinaryOperator" and c.get("opcode") == "==":
                    l = c2g.skip_parens(c["inner"][0])
                    if l.get("kind") == "UnaryOperator" and l.get("opcode") == "++" and not l.get("isPostfix") and \
                            c2g.skip_parens(l["inner"][0]).get("kind") == "DeclRefExpr":
                        var = c2g.skip_parens(l["inner"][0])
                        read = dict(kind="ImplicitCastExpr", castKind="LValueToRValue", type=var.get("type"), inner=[var])
                        c2 = dict(c, inner=[read, c["inner"][1]])
                        return super().stmts([l, dict(ss[0], inner=[c2] + list(ss[0]["inner"][1:]))] + list(ss[1:]), env, K)
            return super().stmts(ss, env, K)

    STRCMP, XSTRDUP = ("strcmp_key", "Z -> Z"), ("xstrdup", "Z -> Z")

    def demit(hooks, *a, **kw):
        """sl.emit_block with DictT as the translator"""
        saved = sl.SliceT
        DictT.hook_funs = tuple(hooks)
        DictT.loops_return_int = bool(kw.pop("loops_return_int", False))
        sl.SliceT = DictT
        try:
            return sl.emit_block(*a, **kw)
        finally:
            sl.SliceT = saved
            DictT.hook_funs = ()
            DictT.loops_return_int = False

    def gen_dict(tmp):
        g = Group("DictC17")
        f = os.path.join(REPO, "iniparser", "dictionary.c")
        cache = {}
        ARR = ("key", "val", "hash")

        def fn(name):
            if name not in cache:
                cache[name] = c2g.find_function(c2g.clang_ast(f, name, incs(tmp)), name)
            return cache[name]

        def body(F):
            return [c for c in F["inner"] if c.get("kind") == "CompoundStmt"][0].get("inner", [])

        def one(lst, what):
            if len(lst) != 1:
                raise c2g.Unsupported("%s: %d candidates" % (what, len(lst)))
            return lst[0]

        def is_call_assign(s_, callee):
            return s_.get("kind") == "BinaryOperator" and s_.get("opcode") == "=" and sl.callee_name(sl.strip(s_["inner"][1])) == callee

        def member(n, name):
            n = sl.strip(n)
            return n.get("kind") == "MemberExpr" and n.get("name") == name

        # ---- mem_double: the whole function
        F = fn("mem_double")
        t, i = sl.emit_block(body(F), "dict_mem_double", ["ret", "*ghosts"], "mem_double", params=("ptr", "size"), ret="ret",
                             want_params=["ptr", "size", "calloc_ret"], effects=("calloc", "memcpy", "free"),
                             comment="returns (returned pointer, calloc (arg0, arg1), memcpy (arg0, arg1, arg2), free (arg0)); a call that is not made has the arguments 0")
        g.add(t, i)

        # ---- dictionary_new: the minimal size and the three arrays
        F = fn("dictionary_new")
        B = body(F)
        first = one([s_ for s_ in B if s_.get("kind") == "IfStmt" and sl.refs(s_["inner"][0]) == {"size"}], "dictionary_new: minimal size")
        t, i = sl.emit_block([first], "dict_new_size", ["size"], "dictionary_new", params=("size",), want_params=["size"])
        g.add(t, i)
        allocs = [s_ for s_ in B if is_call_assign(s_, "calloc") and sl.strip(s_["inner"][0]).get("kind") == "MemberExpr"]
        sizeas = [s_ for s_ in B if s_.get("kind") == "BinaryOperator" and s_.get("opcode") == "=" and member(s_["inner"][0], "size")]
        if len(allocs) != 3 or len(sizeas) != 1:
            raise c2g.Unsupported("dictionary_new: %d array allocations, %d assignments of d->size" % (len(allocs), len(sizeas)))
        t, i = sl.emit_block(sizeas + allocs, "dict_new_arrays", ["d_size", "d_val", "d_key", "d_hash", "*ghosts"], "dictionary_new", params=("size",),
                             want_params=["size", "calloc_ret", "calloc2_ret", "calloc3_ret"], effects=("calloc",),
                             comment="returns (d->size, d->val, d->key, d->hash, the arguments of the three calloc calls)")
        g.add(t, i)

        # ---- dictionary_get: the whole function
        F = fn("dictionary_get")
        t, i = demit([STRCMP], body(F), "dict_lookup", ["ret"], "dictionary_get", params=("d_size", "def", "dictionary_hash_ret"), ret="ret",
                     want_params=["d_size", "def", "dictionary_hash_ret"], array_reads=ARR, symbolic_calls=("dictionary_hash",), loops_return_int=True,
                     comment="dictionary_hash_ret = dictionary_hash (key)")
        g.add(t, i)

        # ---- dictionary_unset: the search, the not-found test, the removal
        F = fn("dictionary_unset")
        B = body(F)
        loop = one([s_ for s_ in B if s_.get("kind") == "ForStmt"], "dictionary_unset: loop")
        hs_ = one([s_ for s_ in B if is_call_assign(s_, "dictionary_hash")], "dictionary_unset: hash")
        t, i = demit([STRCMP], [hs_, loop], "dict_unset_find", ["i"], "dictionary_unset", params=("d_size", "dictionary_hash_ret"),
                     want_params=["d_size", "dictionary_hash_ret"], array_reads=ARR, symbolic_calls=("dictionary_hash",),
                     comment="the slot the search stops at (d->size: not found)")
        g.add(t, i)
        k = B.index(loop)
        nf = B[k + 1]
        if nf.get("kind") != "IfStmt" or not sl.find_nodes(nf, lambda n: n.get("kind") == "ReturnStmt"):
            raise c2g.Unsupported("dictionary_unset: the statement behind the loop is not the not-found test")
        t, i = sl.emit_cond(nf["inner"][0], "dict_unset_notfound", "dictionary_unset", params=("i", "d_size"), want_params=["i", "d_size"])
        g.add(t, i)
        rest = [s_ for s_ in B[k + 2:] if s_.get("kind") != "ReturnStmt"]
        t, i = demit([], rest, "dict_unset_remove", ["d_key_store", "d_val_store", "d_hash_store", "d_n", "*ghosts"], "dictionary_unset",
                     params=("i", "d_n"), init={"d_key_store": "(-1)", "d_val_store": "(-1)", "d_hash_store": "(-1)"},
                     want_params=["i", "d_n"], array_reads=ARR, store_arrays=ARR, effects=("free",),
                     comment="returns (what is stored into d->key[i], d->val[i], d->hash[i] (-1: nothing), d->n, the arguments of the free calls)")
        g.add(t, i)

        # ---- dictionary_set
        F = fn("dictionary_set")
        B = body(F)
        bad = B[[k_ for k_, s_ in enumerate(B) if s_.get("kind") == "IfStmt"][0]]
        if sl.refs(bad["inner"][0]) != {"d", "key"}:
            raise c2g.Unsupported("dictionary_set: the first test is not the argument test")
        t, i = sl.emit_cond(bad["inner"][0], "dict_set_badargs", "dictionary_set", params=("d", "key"), want_params=["d", "key"])
        g.add(t, i)
        srch = one([s_ for s_ in B if s_.get("kind") == "IfStmt" and sl.find_nodes(s_, lambda n: n.get("kind") == "ForStmt")], "dictionary_set: search")
        t, i = sl.emit_cond(srch["inner"][0], "dict_set_nonempty", "dictionary_set", params=("d_n",), want_params=["d_n"])
        g.add(t, i)
        loop = one(sl.find_nodes(srch, lambda n: n.get("kind") == "ForStmt"), "dictionary_set: search loop")
        found = one(sl.find_nodes(loop, lambda n: n.get("kind") == "IfStmt" and sl.find_nodes(n["inner"][0], lambda m: sl.callee_name(m) == "strcmp")
                                  and not sl.find_nodes(n["inner"][0], lambda m: m.get("kind") == "ArraySubscriptExpr" and member(m["inner"][0], "hash"))),
                    "dictionary_set: key comparison")
        fb = found["inner"][1]
        fstm = fb.get("inner", []) if fb.get("kind") == "CompoundStmt" else [fb]
        if not fstm or fstm[-1].get("kind") != "ReturnStmt":
            raise c2g.Unsupported("dictionary_set: the branch of a found key does not end with return")
        # the search loop with the branch of a found key replaced by `break`: the slot the search stops at
        import copy

        def replace(n):
            if n is found:
                return dict(n, inner=[n["inner"][0], {"kind": "BreakStmt"}])
            if isinstance(n, dict) and "inner" in n:
                return dict(n, inner=[replace(c) for c in n["inner"]])
            return n
        hs_ = one([s_ for s_ in B if is_call_assign(s_, "dictionary_hash")], "dictionary_set: hash")
        t, i = demit([STRCMP], [hs_, replace(loop)], "dict_set_find", ["i"], "dictionary_set", params=("d_size", "dictionary_hash_ret"),
                     want_params=["d_size", "dictionary_hash_ret"], array_reads=ARR, symbolic_calls=("dictionary_hash",),
                     comment="the search loop, the branch of a found key read as `break`: the slot the search stops at (d->size: not found)")
        g.add(t, i)
        t, i = demit([XSTRDUP], fstm, "dict_set_replace", ["ret", "d_val_store", "*ghosts"], "dictionary_set", params=("i", "val"), ret="ret",
                     want_params=["i", "val"], array_reads=ARR, store_arrays=ARR, effects=("free",),
                     comment="the branch of a found key: (returned value, what is stored into d->val[i], the argument of free)")
        g.add(t, i)
        grow = one([s_ for s_ in B if s_.get("kind") == "IfStmt" and sl.find_nodes(s_, lambda n: sl.callee_name(n) == "mem_double")], "dictionary_set: growth")
        t, i = sl.emit_cond(grow["inner"][0], "dict_set_full", "dictionary_set", params=("d_n", "d_size"), want_params=["d_n", "d_size"])
        g.add(t, i)
        gb = grow["inner"][1].get("inner", [])
        dbl = [s_ for s_ in gb if is_call_assign(s_, "mem_double")]
        fail = [s_ for s_ in gb if s_.get("kind") == "IfStmt"]
        szs = [s_ for s_ in gb if s_.get("kind") == "CompoundAssignOperator" and member(s_["inner"][0], "size")]
        if len(dbl) != 3 or len(fail) != 1 or len(szs) != 1 or len(gb) != 5 or len(grow["inner"]) != 2:
            raise c2g.Unsupported("dictionary_set: the growth block is not three mem_double assignments, the failure test and the new size")
        t, i = sl.emit_block(dbl + szs, "dict_set_grow", ["d_val", "d_key", "d_hash", "d_size", "*ghosts"], "dictionary_set",
                             params=("d_val", "d_key", "d_hash", "d_size"), effects=("mem_double",),
                             want_params=["d_val", "d_key", "d_hash", "d_size", "mem_double_ret", "mem_double2_ret", "mem_double3_ret"],
                             comment="returns (d->val, d->key, d->hash, d->size, the arguments (pointer, bytes) of the three mem_double calls)")
        g.add(t, i)
        t, i = sl.emit_cond(fail[0]["inner"][0], "dict_set_grow_failed", "dictionary_set", params=("d_val", "d_key", "d_hash"), want_params=["d_val", "d_key", "d_hash"])
        g.add(t, i)
        k = B.index(grow)
        ins = B[k + 1]
        if ins.get("kind") != "ForStmt":
            raise c2g.Unsupported("dictionary_set: no insertion loop behind the growth block")
        t, i = demit([], [ins], "dict_set_slot", ["i"], "dictionary_set", params=("d_n", "d_size"), want_params=["d_n", "d_size"], array_reads=ARR,
                     comment="the first empty slot from d->n on, wrapping at d->size")
        g.add(t, i)
        rest = [s_ for s_ in B[k + 2:] if s_.get("kind") != "ReturnStmt"]
        t, i = demit([XSTRDUP], rest, "dict_set_store", ["d_key_store", "d_val_store", "d_hash_store", "d_n"], "dictionary_set",
                     params=("key", "val", "hash", "d_n"), want_params=["key", "val", "hash", "d_n"], store_arrays=ARR,
                     comment="what is stored into d->key[i], d->val[i], d->hash[i], and d->n")
        g.add(t, i)
        return g, [f]

    GROUPS["DictC17"] = gen_dict
