"""Translator group of C17 (tie T1): `OptionsC17` (coq/Gen/OptionsC17.v), regenerated from /repo/src/sc_options.c on every run.

  sc_iniparser_getint / getsizet / getdouble    everything behind the lookup: errno = 0, the conversion call (its result and the errno it
                                                leaves are parameters), the range tests, what is stored through iserror, the returned value
                                                (HUGE_VAL = __builtin_huge_val () is a symbolic constant; doubles are exact numbers)
  sc_options_parse       parse_optstring_init (`optstring[0] = '\\0'`), parse_optind_reset (`optind = 0`), parse_switch (`++*(int *) opt_var`),
                         parse_bool (the chain optarg == NULL / strspn (optarg, "1tTyY") > 0 / strspn (optarg, "0fFnN") > 0 with the two
                         character sets as byte lists), parse_int_error / parse_int_value, parse_sizet_error / parse_sizet_value,
                         parse_double_error
  sc_options_load_ini    load_has_colon (`strchr (item->opt_name, ':') != NULL`: no "Options:" prefix)
  sc_options_save        save_prefix_base (base name, section prefix and its length from strrchr), save_heading (the test that decides
                         whether a section heading is written, over the symbolic strncmp result), save_switch_numeric (bvalue <= 1)
coq/C17/OptionsGen.v proves that the hand-written model (OptionsModel.v) computes exactly these."""
import os, re, json


def register(GROUPS, c2g, incs, REPO, HERE, STRUCTS, Group):
    import slicelib as sl

    def gen_options(tmp):
        g = Group("OptionsC17")
        f = os.path.join(REPO, "src", "sc_options.c")
        cache = {}
        CONV = ("strtol", "strtoll", "strtod")
        KW = dict(const_calls={"__builtin_huge_val": "HUGE_VAL"}, clobbers=dict((c, ("errno",)) for c in CONV))

        def fn(name):
            if name not in cache:
                cache[name] = c2g.find_function(c2g.clang_ast(f, name, incs(tmp)), name)
            return cache[name]

        def one(lst, what):
            if len(lst) != 1:
                raise c2g.Unsupported("%s: %d candidates" % (what, len(lst)))
            return lst[0]

        def is_errno_reset(n):
            if n.get("kind") != "BinaryOperator" or n.get("opcode") != "=":
                return False
            l = c2g.skip_parens(n["inner"][0])
            return l.get("kind") == "UnaryOperator" and l.get("opcode") == "*" and sl.callee_name(sl.strip(l["inner"][0])) == "__errno_location"

        # ---- the three conversions of the .ini reader: the statements from `errno = 0;` to the end of the function
        for cfn, gname, conv in (("sc_iniparser_getint", "ini_getint", ("strtol",)), ("sc_iniparser_getsizet", "ini_getsizet", ("strtol", "strtoll")),
                                 ("sc_iniparser_getdouble", "ini_getdouble", ("strtod",))):
            F = fn(cfn)
            body = [c for c in F["inner"] if c.get("kind") == "CompoundStmt"][0].get("inner", [])
            k0 = [k for k, s_ in enumerate(body) if is_errno_reset(s_)]
            if len(k0) != 1:
                raise c2g.Unsupported("%s: %d statements `errno = 0`" % (cfn, len(k0)))
            used = set()
            sl.walk(F, lambda n: used.add(sl.callee_name(n)) if n.get("kind") == "CallExpr" and sl.callee_name(n) in conv else None)
            if len(used) != 1:
                raise c2g.Unsupported("%s: conversion calls %s" % (cfn, sorted(used)))
            cv = used.pop()
            want = ["iserror", cv + "_ret", "errno"] + (["HUGE_VAL"] if cfn.endswith("double") else [])
            t, i = sl.emit_block(body[k0[0]:], gname, ["ret", "iserror_deref"], cfn, params=tuple(want) + ("iserror_deref",), ret="ret",
                                 want_params=want + ["iserror_deref", "str"], effects=(cv,), effect_skip_args={cv: (1, 2)},
                                 comment="returns (returned value, *iserror afterwards); %s_ret / errno = what %s returns / leaves in errno" % (cv, cv), **KW)
            g.add(t, i)

        # ---- sc_options_parse
        P = "sc_options_parse"
        F = fn(P)
        a = one(sl.find_nodes(F, lambda n: n.get("kind") == "BinaryOperator" and n.get("opcode") == "=" and
                              sl.strip(n["inner"][0]).get("referencedDecl", {}).get("name") == "optind"), "parse: optind reset")
        t, i = sl.emit_block([a], "parse_optind_reset", ["optind"], P, want_params=[])
        g.add(t, i)
        a = one(sl.find_nodes(F, lambda n: n.get("kind") == "BinaryOperator" and n.get("opcode") == "=" and
                              c2g.skip_parens(n["inner"][0]).get("kind") == "ArraySubscriptExpr" and
                              sl.strip(c2g.skip_parens(n["inner"][0])["inner"][0]).get("referencedDecl", {}).get("name") == "optstring" and
                              sl.strip(c2g.skip_parens(n["inner"][0])["inner"][1]).get("kind") == "IntegerLiteral"), "parse: optstring init")
        t, i = sl.emit_block([a], "parse_optstring_init", ["optstring_0"], P, want_params=[])
        g.add(t, i)
        sw = one(sl.find_nodes(F, lambda n: n.get("kind") == "SwitchStmt"), "parse: switch")
        cases = {}

        def case_groups(body):
            cur = None
            for st in body.get("inner", []):
                n = st
                labels = []
                while n.get("kind") in ("CaseStmt", "DefaultStmt"):
                    if n.get("kind") == "CaseStmt":
                        labels.append(sl.refs(n["inner"][0]) or {"?"})
                    n = n["inner"][-1]
                if labels:
                    cur = []
                    for l in labels:
                        for nm in l:
                            cases[nm] = cur
                if cur is not None:
                    cur.append(n)
        case_groups(sw["inner"][1])

        def case(nm):
            if nm not in cases:
                raise c2g.Unsupported("parse: no case %s" % nm)
            return [s_ for s_ in cases[nm] if s_.get("kind") != "BreakStmt"]
        t, i = sl.emit_block(case("SC_OPTION_SWITCH"), "parse_switch", ["item_opt_var_deref"], P, params=("item_opt_var_deref",), want_params=["item_opt_var_deref"])
        g.add(t, i)
        # bool: the chain, and the two character sets
        cb = case("SC_OPTION_BOOL")
        lits = []
        sl.walk({"inner": cb}, lambda n: lits.append(n) if n.get("kind") == "StringLiteral" and
                lits.count(n) == 0 and len(json.loads(n["value"])) < 12 and "%" not in n["value"] else None)
        calls = sl.find_nodes({"inner": cb}, lambda n: n.get("kind") == "CallExpr" and sl.callee_name(n) == "strspn")
        if len(calls) != 2:
            raise c2g.Unsupported("parse: %d strspn calls in the bool case" % len(calls))
        for ci, c in enumerate(calls):
            lit = sl.strip(c["inner"][2])
            if lit.get("kind") != "StringLiteral" or sl.strip(c["inner"][1]).get("referencedDecl", {}).get("name") != "optarg":
                raise c2g.Unsupported("parse: strspn is not called as strspn (optarg, \"...\")")
            chars = json.loads(lit["value"]).encode("latin-1")
            g.add("Definition parse_bool_set%d : list Z := [%s].\n" % (ci + 1, "; ".join(str(b) for b in chars)),
                  dict(name="parse_bool_set%d" % (ci + 1), params=[], fuel=False))
        t, i = sl.emit_block(cb, "parse_bool", ["item_opt_var_deref", "retval"], P, params=("optarg", "strspn_ret", "strspn2_ret", "item_opt_var_deref", "retval"),
                             want_params=["optarg", "strspn_ret", "strspn2_ret", "item_opt_var_deref", "retval"],
                             symbolic_calls=("strspn",), drop_calls=("sc_logf", "sc_log"),
                             comment="returns (the int opt_var points to, retval); strspn_ret / strspn2_ret = strspn (optarg, parse_bool_set1 / parse_bool_set2)")
        g.add(t, i)

        def cond_of(nm, must):
            nd = one([n for n in sl.find_nodes({"inner": case(nm)}, lambda n: n.get("kind") == "IfStmt") if set(must) <= sl.refs(n["inner"][0])], "parse: test of " + nm)
            return nd
        nd = cond_of("SC_OPTION_INT", ("ilong",))
        t, i = sl.emit_cond(nd["inner"][0], "parse_int_error", P, params=("ilong", "errno"), want_params=["ilong", "errno"], **KW)
        g.add(t, i)
        t, i = sl.emit_block([nd["inner"][2]], "parse_int_value", ["item_opt_var_deref"], P, params=("ilong",), want_params=["ilong"])
        g.add(t, i)
        nd = cond_of("SC_OPTION_SIZE_T", ("ilonglong",))
        t, i = sl.emit_cond(nd["inner"][0], "parse_sizet_error", P, params=("ilonglong", "errno"), want_params=["ilonglong", "errno"], **KW)
        g.add(t, i)
        t, i = sl.emit_block([nd["inner"][2]], "parse_sizet_value", ["item_opt_var_deref"], P, params=("ilonglong",), want_params=["ilonglong"])
        g.add(t, i)
        nd = cond_of("SC_OPTION_DOUBLE", ("dbl",))
        t, i = sl.emit_cond(nd["inner"][0], "parse_double_error", P, params=("dbl", "errno", "HUGE_VAL"), want_params=["dbl", "errno", "HUGE_VAL"], **KW)
        g.add(t, i)
        # errno is reset in front of each of the three conversions
        for nm in ("SC_OPTION_INT", "SC_OPTION_SIZE_T", "SC_OPTION_DOUBLE"):
            if not case(nm) or not is_errno_reset(case(nm)[0]):
                raise c2g.Unsupported("parse: case %s does not start with errno = 0" % nm)

        # ---- sc_options_load_ini: the name carries its own section
        L = "sc_options_load_ini"
        nd = one(sl.find_nodes(fn(L), lambda n: n.get("kind") == "IfStmt" and
                               [c for c in sl.find_nodes(n["inner"][0], lambda m: m.get("kind") == "CallExpr" and sl.callee_name(m) == "strchr")]), "load: colon test")
        t, i = sl.emit_cond(nd["inner"][0], "load_has_colon", L, params=("strchr_ret",), want_params=["strchr_ret"], symbolic_calls=("strchr",))
        g.add(t, i)

        # ---- sc_options_save
        S = "sc_options_save"
        F = fn(S)
        nd = one(sl.find_nodes(F, lambda n: n.get("kind") == "IfStmt" and {"this_prefix", "last_prefix", "this_n", "last_n"} <= sl.refs(n["inner"][0])), "save: heading test")
        t, i = sl.emit_cond(nd["inner"][0], "save_heading", S, params=("this_prefix", "last_prefix", "this_n", "last_n", "strncmp_ret"),
                            want_params=["this_prefix", "last_prefix", "this_n", "last_n", "strncmp_ret"], symbolic_calls=("strncmp",))
        g.add(t, i)
        # what the branch remembers
        keep = [s_ for s_ in nd["inner"][1].get("inner", []) if s_.get("kind") == "BinaryOperator" and s_.get("opcode") == "="
                and sl.strip(s_["inner"][0]).get("referencedDecl", {}).get("name") in ("last_prefix", "last_n")]
        t, i = sl.emit_block(keep, "save_heading_keep", ["last_prefix", "last_n"], S, params=("this_prefix", "this_n"), want_params=["this_prefix", "this_n"])
        g.add(t, i)
        nb = one([n for n in sl.find_nodes(F, lambda n: n.get("kind") == "IfStmt" and
                                           [c for c in sl.find_nodes(n, lambda m: m.get("kind") == "CallExpr" and sl.callee_name(m) == "strrchr")])
                  if "item" in sl.refs(n["inner"][0]) and len(n["inner"]) == 3], "save: prefix / base determination")
        bn = [s_ for s_ in sl.find_nodes(F, lambda n: n.get("kind") == "BinaryOperator" and n.get("opcode") == "=" and
                                         sl.strip(n["inner"][0]).get("referencedDecl", {}).get("name") == "base_name" and
                                         sl.strip(n["inner"][1]).get("kind") == "IntegerLiteral")]
        if len(bn) != 1:
            raise c2g.Unsupported("save: %d resets of base_name" % len(bn))
        t, i = sl.emit_block([bn[0], nb], "save_prefix_base", ["base_name", "this_prefix", "this_n"], S,
                             params=("item_opt_name", "default_prefix", "strlen_ret", "strrchr_ret", "this_prefix", "this_n"),
                             want_params=["item_opt_name", "default_prefix", "strlen_ret", "strlen2_ret", "strrchr_ret", "this_prefix", "this_n"],
                             effects=("strrchr",), effect_skip_args={"strrchr": (0, 1)}, symbolic_calls=("strlen",),
                             comment="returns (base_name, this_prefix, this_n); strrchr_ret = strrchr (opt_name, ':'), strlen_ret / strlen2_ret = strlen (default_prefix)")
        g.add(t, i)
        ns = one(sl.find_nodes(F, lambda n: n.get("kind") == "IfStmt" and sl.refs(n["inner"][0]) == {"bvalue"}), "save: switch value test")
        t, i = sl.emit_cond(ns["inner"][0], "save_switch_boolean", S, params=("bvalue",), want_params=["bvalue"])
        g.add(t, i)
        return g, [f]

    GROUPS["OptionsC17"] = gen_options
