"""C09 translator groups (tie T1).

HashResize : the integer decisions of the hash table's resize machinery, taken from /repo/src/sc_containers.c
  * the constants sc_hash_minimal_size / sc_hash_shrink_interval (their initialisers),
  * sc_hash_maybe_resize's threshold chain as `hash_new_size elem_count slot_count : option Z`
    (None = the function returns without resizing),
  * the conditions under which sc_hash_insert_unique / sc_hash_remove call sc_hash_maybe_resize.
AvlBalance : sc_avl.c's `lg` and the count-based decision of avl_check_balance as a function of (pl, r).
The hand-written models in coq/C09 use these generated constants, so the theorems are re-checked
against what the code says now."""
import os


def register(GROUPS, c2g, incs, REPO, HERE, STRUCTS, Group):

    def strip(n):
        n = c2g.skip_parens(n)
        while n.get("kind") in ("ImplicitCastExpr", "CStyleCastExpr"):
            n = c2g.skip_parens(n["inner"][0])
        return n

    def calls(n, name):
        if n.get("kind") == "CallExpr":
            callee = strip(n["inner"][0])
            if callee.get("referencedDecl", {}).get("name") == name:
                return True
        return any(calls(c, name) for c in n.get("inner", []) if isinstance(c, dict))

    def find_if_calling(n, name):
        """innermost-first search for an IfStmt whose THEN branch calls `name`"""
        for c in n.get("inner", []):
            if isinstance(c, dict):
                r = find_if_calling(c, name)
                if r is not None:
                    return r
        if n.get("kind") == "IfStmt" and len(n.get("inner", [])) >= 2 and calls(n["inner"][1], name):
            return n
        return None

    def const_value(objs, name):
        var = c2g.find_var(objs, name)
        init = [c for c in var.get("inner", []) if isinstance(c, dict) and c.get("kind") != "FullComment"]
        if not init:
            raise c2g.Unsupported("no initialiser for " + name)
        T = c2g.Translator()
        T.fname = name
        return T.expr(init[-1], {}).z()

    def gen_hash_resize(tmp):
        g = Group("HashResize")
        f = os.path.join(REPO, "src", "sc_containers.c")
        objs = c2g.clang_ast(f, "sc_hash_", incs(tmp))
        consts = {}
        for cn in ("sc_hash_minimal_size", "sc_hash_shrink_interval"):
            consts[cn] = const_value(objs, cn)
            g.add("Definition %s : Z := %s.\n" % (cn, consts[cn]), dict(name=cn, fuel=False, params=[]))
        # threshold chain of sc_hash_maybe_resize
        fn = c2g.find_function(objs, "sc_hash_maybe_resize")
        body = [c for c in fn["inner"] if c.get("kind") == "CompoundStmt"][0]
        st = c2g.find_slice_stmt(body, "new_size")
        T = c2g.Translator()
        T.fname = "sc_hash_maybe_resize/new_size"
        T.gname = "hash_new_size"
        T.free_as_params = True
        env = {"new_size": "0"}
        for cn in consts:
            env[cn] = cn
        K = dict(fin=lambda e2: "Some %s" % e2["new_size"], ret=lambda e, e2: "None", brk=None, cont=None)
        text = T.stmts([st], env, K)
        if sorted(T.params) != ["hash_elem_count", "old_slots_elem_count"]:
            raise c2g.Unsupported("sc_hash_maybe_resize: unexpected free variables %s" % T.params)
        g.add("Definition hash_new_size (hash_elem_count old_slots_elem_count : Z) : option Z :=\n%s.\n" % text,
              dict(name="hash_new_size", cname="sc_hash_maybe_resize", params=["hash_elem_count", "old_slots_elem_count"], fuel=False))
        # the initial slot count used by sc_hash_new: second argument of its sc_array_resize call
        fn = c2g.find_function(objs, "sc_hash_new")

        def find_call(n, name):
            if n.get("kind") == "CallExpr" and strip(n["inner"][0]).get("referencedDecl", {}).get("name") == name:
                return n
            for c in n.get("inner", []):
                if isinstance(c, dict):
                    r = find_call(c, name)
                    if r is not None:
                        return r
            return None
        call = find_call(fn, "sc_array_resize")
        if call is None:
            raise c2g.Unsupported("sc_hash_new: no sc_array_resize call")
        T = c2g.Translator()
        T.fname = "sc_hash_new/initial size"
        e = T.expr(call["inner"][2], dict((cn, cn) for cn in consts))
        g.add("Definition hash_initial_size : Z := %s.\n" % e.z(), dict(name="hash_initial_size", fuel=False, params=[]))
        # call conditions
        for cfn, gname, want in (("sc_hash_insert_unique", "hash_insert_checks", ["hash_elem_count", "hash_slots_elem_count"]),
                                 ("sc_hash_remove", "hash_remove_checks", ["hash_elem_count"])):
            fn = c2g.find_function(objs, cfn)
            ifs = find_if_calling(fn, "sc_hash_maybe_resize")
            if ifs is None:
                raise c2g.Unsupported("%s: no conditional call of sc_hash_maybe_resize" % cfn)
            T = c2g.Translator()
            T.fname = cfn + "/resize condition"
            T.free_as_params = True
            env = dict((cn, cn) for cn in consts)
            cond = T.expr(ifs["inner"][0], env)
            if sorted(T.params) != sorted(want):
                raise c2g.Unsupported("%s: unexpected free variables %s" % (cfn, T.params))
            g.add("Definition %s %s : bool :=\n%s.\n" % (gname, " ".join("(%s : Z)" % p for p in want), cond.b()),
                  dict(name=gname, cname=cfn, params=want, fuel=False))
        return g, [f]

    def gen_avl_balance(tmp):
        g = Group("AvlBalance")
        f = os.path.join(REPO, "src", "sc_avl.c")
        objs = c2g.clang_ast(f, "lg", incs(tmp))
        t, i = c2g.translate_function(c2g.find_function(objs, "lg"), gname="avl_lg")
        g.add(t, i)
        objs = c2g.clang_ast(f, "avl_check_balance", incs(tmp))
        fn = c2g.find_function(objs, "avl_check_balance")
        body = [c for c in fn["inner"] if c.get("kind") == "CompoundStmt"][0]
        # the statements after the two assignments `pl = lg(L_COUNT)` and `r = R_COUNT`: a chain of if/return
        sts = [s for s in body.get("inner", []) if isinstance(s, dict) and s.get("kind") in ("IfStmt", "ReturnStmt")]
        if not sts:
            raise c2g.Unsupported("avl_check_balance: no decision chain")
        T = c2g.Translator()
        T.fname = "avl_check_balance/decision"
        T.free_as_params = True
        K = dict(fin=lambda e2: (_ for _ in ()).throw(c2g.Unsupported("avl_check_balance falls off the end")),
                 ret=lambda e, e2: e.z(), brk=None, cont=None)
        text = T.stmts(sts, {}, K)
        if sorted(T.params) != ["pl", "r"]:
            raise c2g.Unsupported("avl_check_balance: unexpected free variables %s" % T.params)
        g.add("Definition avl_balance_decision (pl r : Z) : Z :=\n%s.\n" % text,
              dict(name="avl_balance_decision", cname="avl_check_balance", params=["pl", "r"], fuel=False))
        return g, [f]

    GROUPS["HashResize"] = gen_hash_resize
    GROUPS["AvlBalance"] = gen_avl_balance
