"""C09 translator groups (tie T1).

HashResize : the integer decisions of the hash table's resize machinery, taken from /repo/src/sc_containers.c
  * the constants sc_hash_minimal_size / sc_hash_shrink_interval (their initialisers),
  * sc_hash_maybe_resize's threshold chain as `hash_new_size elem_count slot_count : option Z`
    (None = the function returns without resizing),
  * the conditions under which sc_hash_insert_unique / sc_hash_remove call sc_hash_maybe_resize.
AvlBalance : sc_avl.c's `lg` and the count-based decision of avl_check_balance as a function of (pl, r).
The hand-written models in coq/C09 use these generated constants, so the theorems are re-checked
against what the code says now.

ContainersC09 / AvlStepsC09 / KeyValueC09 (second half of this file): slices of the bodies of the sc_mstamp / sc_mempool / sc_list /
sc_hash_array / sc_recycle_array functions, of the slot index of the hash table, of the loop bodies of avl_at / avl_index /
avl_search_closest, the rotation-kind tests and CALC_COUNT of avl_rebalance, and of sc_keyvalue_get_int_check / exists / unset with the
enumerators of sc_keyvalue_entry_type_t.  coq/C09/GenTies.v proves the hand-written models EQUAL to them (theorems C09_gen_*).
Conventions beyond tools/c2g/slicelib.py are the AST rewrites of `mk_rw` below (each refuses what it cannot justify):
  * `T *p = &X;` with p never reassigned: p is replaced by &X;  `(&X)->f` is `X.f`;
  * a prefix ++/-- inside a condition, a return value or the right side of an assignment is executed first, provided the
    incremented location occurs nowhere else in that expression;
  * `A = B = C` is `B = C; A = B`;  `return call (..)` / `if (call (..))` for a call in `effects` first stores the result in `<callee>_result`;
  * `x = *(T *) call (..)` reads the parameter `<callee>_ret_deref`; `*(T *) call (..) = v` writes the output `<callee>_store`;
  * `&X` (X a struct member) passed to a call is the opaque address parameter `addr_<X>`; a slice that reads a field of X after such a
    call is refused unless the callee is declared pure;
  * inside a loop body `return e` is `retval = e; break` (`return (a = b, e)` is `a = b; retval = e; break`);
  * the enum type sc_keyvalue_entry_type_t is read as unsigned int (its enumerators are generated as c9_SC_KEYVALUE_ENTRY_*)."""
import os
import copy


def register(GROUPS, c2g, incs, REPO, HERE, STRUCTS, Group):

    def strip(n):
        n = c2g.skip_parens(n)
        while n.get("kind") in ("ImplicitCastExpr", "CStyleCastExpr"):
            n = c2g.skip_parens(n["inner"][0])
        return n

    def calls(n, name):
        if n.get("kind") == "CallExpr":
            callee = strip(n["inner"][0])
            if callee.get("referencedDecl", {}).get("name") == name:
                return True
        return any(calls(c, name) for c in n.get("inner", []) if isinstance(c, dict))

    def find_if_calling(n, name):
        """innermost-first search for an IfStmt whose THEN branch calls `name`"""
        for c in n.get("inner", []):
            if isinstance(c, dict):
                r = find_if_calling(c, name)
                if r is not None:
                    return r
        if n.get("kind") == "IfStmt" and len(n.get("inner", [])) >= 2 and calls(n["inner"][1], name):
            return n
        return None

    def const_value(objs, name):
        var = c2g.find_var(objs, name)
        init = [c for c in var.get("inner", []) if isinstance(c, dict) and c.get("kind") != "FullComment"]
        if not init:
            raise c2g.Unsupported("no initialiser for " + name)
        T = c2g.Translator()
        T.fname = name
        return T.expr(init[-1], {}).z()

    def gen_hash_resize(tmp):
        g = Group("HashResize")
        f = os.path.join(REPO, "src", "sc_containers.c")
        objs = c2g.clang_ast(f, "sc_hash_", incs(tmp))
        consts = {}
        for cn in ("sc_hash_minimal_size", "sc_hash_shrink_interval"):
            consts[cn] = const_value(objs, cn)
            g.add("Definition %s : Z := %s.\n" % (cn, consts[cn]), dict(name=cn, fuel=False, params=[]))
        # threshold chain of sc_hash_maybe_resize
        fn = c2g.find_function(objs, "sc_hash_maybe_resize")
        body = [c for c in fn["inner"] if c.get("kind") == "CompoundStmt"][0]
        st = c2g.find_slice_stmt(body, "new_size")
        T = c2g.Translator()
        T.fname = "sc_hash_maybe_resize/new_size"
        T.gname = "hash_new_size"
        T.free_as_params = True
        env = {"new_size": "0"}
        for cn in consts:
            env[cn] = cn
        K = dict(fin=lambda e2: "Some %s" % e2["new_size"], ret=lambda e, e2: "None", brk=None, cont=None)
        text = T.stmts([st], env, K)
        if sorted(T.params) != ["hash_elem_count", "old_slots_elem_count"]:
            raise c2g.Unsupported("sc_hash_maybe_resize: unexpected free variables %s" % T.params)
        g.add("Definition hash_new_size (hash_elem_count old_slots_elem_count : Z) : option Z :=\n%s.\n" % text,
              dict(name="hash_new_size", cname="sc_hash_maybe_resize", params=["hash_elem_count", "old_slots_elem_count"], fuel=False))
        # the initial slot count used by sc_hash_new: second argument of its sc_array_resize call
        fn = c2g.find_function(objs, "sc_hash_new")

        def find_call(n, name):
            if n.get("kind") == "CallExpr" and strip(n["inner"][0]).get("referencedDecl", {}).get("name") == name:
                return n
            for c in n.get("inner", []):
                if isinstance(c, dict):
                    r = find_call(c, name)
                    if r is not None:
                        return r
            return None
        call = find_call(fn, "sc_array_resize")
        if call is None:
            raise c2g.Unsupported("sc_hash_new: no sc_array_resize call")
        T = c2g.Translator()
        T.fname = "sc_hash_new/initial size"
        e = T.expr(call["inner"][2], dict((cn, cn) for cn in consts))
        g.add("Definition hash_initial_size : Z := %s.\n" % e.z(), dict(name="hash_initial_size", fuel=False, params=[]))
        # call conditions
        for cfn, gname, want in (("sc_hash_insert_unique", "hash_insert_checks", ["hash_elem_count", "hash_slots_elem_count"]),
                                 ("sc_hash_remove", "hash_remove_checks", ["hash_elem_count"])):
            fn = c2g.find_function(objs, cfn)
            ifs = find_if_calling(fn, "sc_hash_maybe_resize")
            if ifs is None:
                raise c2g.Unsupported("%s: no conditional call of sc_hash_maybe_resize" % cfn)
            T = c2g.Translator()
            T.fname = cfn + "/resize condition"
            T.free_as_params = True
            env = dict((cn, cn) for cn in consts)
            cond = T.expr(ifs["inner"][0], env)
            if sorted(T.params) != sorted(want):
                raise c2g.Unsupported("%s: unexpected free variables %s" % (cfn, T.params))
            g.add("Definition %s %s : bool :=\n%s.\n" % (gname, " ".join("(%s : Z)" % p for p in want), cond.b()),
                  dict(name=gname, cname=cfn, params=want, fuel=False))
        return g, [f]

    def gen_avl_balance(tmp):
        g = Group("AvlBalance")
        f = os.path.join(REPO, "src", "sc_avl.c")
        objs = c2g.clang_ast(f, "lg", incs(tmp))
        t, i = c2g.translate_function(c2g.find_function(objs, "lg"), gname="avl_lg")
        g.add(t, i)
        objs = c2g.clang_ast(f, "avl_check_balance", incs(tmp))
        fn = c2g.find_function(objs, "avl_check_balance")
        body = [c for c in fn["inner"] if c.get("kind") == "CompoundStmt"][0]
        # the statements after the two assignments `pl = lg(L_COUNT)` and `r = R_COUNT`: a chain of if/return
        sts = [s for s in body.get("inner", []) if isinstance(s, dict) and s.get("kind") in ("IfStmt", "ReturnStmt")]
        if not sts:
            raise c2g.Unsupported("avl_check_balance: no decision chain")
        T = c2g.Translator()
        T.fname = "avl_check_balance/decision"
        T.free_as_params = True
        K = dict(fin=lambda e2: (_ for _ in ()).throw(c2g.Unsupported("avl_check_balance falls off the end")),
                 ret=lambda e, e2: e.z(), brk=None, cont=None)
        text = T.stmts(sts, {}, K)
        if sorted(T.params) != ["pl", "r"]:
            raise c2g.Unsupported("avl_check_balance: unexpected free variables %s" % T.params)
        g.add("Definition avl_balance_decision (pl r : Z) : Z :=\n%s.\n" % text,
              dict(name="avl_balance_decision", cname="avl_check_balance", params=["pl", "r"], fuel=False))
        return g, [f]

    GROUPS["HashResize"] = gen_hash_resize
    GROUPS["AvlBalance"] = gen_avl_balance
    register_more(GROUPS, c2g, incs, REPO, HERE, STRUCTS, Group)


# ======================================================================================================================
# Extension (deep-c09): slices of the container, AVL and key-value code.
# ======================================================================================================================
# AST rewrites used by the C09 slices (semantics preserving, each refuses what it cannot justify)

def mk_rw(c2g, sl):
    class RW:
        pass
    R = RW()

    def kids(n):
        return [c for c in n.get("inner", []) if isinstance(c, dict)]

    def pseudo(name, ty="size_t", dty="unsigned long"):
        return {"kind": "DeclRefExpr", "type": {"qualType": ty, "desugaredQualType": dty}, "valueCategory": "lvalue",
                "referencedDecl": {"kind": "VarDecl", "name": name, "type": {"qualType": ty, "desugaredQualType": dty}}}

    def rvalue(n):
        return {"kind": "ImplicitCastExpr", "castKind": "LValueToRValue", "type": n.get("type", {}), "inner": [n]}

    def mapn(n, f):
        """bottom-up map over dict nodes"""
        if not isinstance(n, dict):
            return n
        m = dict(n)
        if "inner" in m:
            m["inner"] = [mapn(c, f) for c in m["inner"]]
        return f(m)

    def subst_var(n, name, repl):
        def f(m):
            if m.get("kind") == "DeclRefExpr" and m.get("referencedDecl", {}).get("name") == name:
                return copy.deepcopy(repl)
            return m
        return mapn(n, f)

    def norm_addr_arrow(n):
        """(&X)->f  ==>  X.f   and   *&X ==> X"""
        def f(m):
            if m.get("kind") == "MemberExpr" and m.get("isArrow"):
                b = sl.strip(m["inner"][0])
                if b.get("kind") == "UnaryOperator" and b.get("opcode") == "&":
                    m = dict(m, isArrow=False, inner=[b["inner"][0]])
            return m
        return mapn(n, f)

    def key_of(T, n):
        try:
            return T.lvalue_key(n)
        except c2g.Unsupported:
            return None

    def addr_args(n, T, touched):
        """&X (X a struct member path) as a call argument ==> the opaque address `addr_<key of X>`; the keys are
        collected in `touched` (the callee may write the fields of X)"""
        def f(m):
            if m.get("kind") == "CallExpr":
                new = [m["inner"][0]]
                for a in m["inner"][1:]:
                    s = sl.strip(a)
                    if s.get("kind") == "UnaryOperator" and s.get("opcode") == "&" and sl.strip(s["inner"][0]).get("kind") == "MemberExpr":
                        k = key_of(T, sl.strip(s["inner"][0]))
                        if k is None:
                            raise c2g.Unsupported("address of an unsupported lvalue passed to a call")
                        touched.setdefault(sl.callee_name(m), set()).add(k)
                        new.append(pseudo("addr_" + k, "void *", "void *"))
                    else:
                        new.append(a)
                m = dict(m, inner=new)
            return m
        return mapn(n, f)

    def inline_ptr_alias(stmts):
        """T *p = &X;  (X a struct member path or a local variable; p never assigned again)  ==>  every p replaced by &X"""
        out = list(stmts)
        i = 0
        while i < len(out):
            s = out[i]
            hit = None
            if s.get("kind") == "DeclStmt":
                for d in kids(s):
                    init = kids(d)
                    if init and sl.strip(init[0]).get("kind") == "UnaryOperator" and sl.strip(init[0]).get("opcode") == "&" and \
                            sl.strip(sl.strip(init[0])["inner"][0]).get("kind") in ("MemberExpr", "DeclRefExpr"):
                        hit = d
                        break
            if hit is not None:
                name = hit["name"]
                rest = out[i + 1:]
                assigned = []
                def chk(m):
                    if m.get("kind") in ("BinaryOperator", "CompoundAssignOperator") and m.get("opcode", "").endswith("=") and m.get("opcode") not in ("==", "!=", "<=", ">="):
                        l = sl.strip(m["inner"][0])
                        if l.get("kind") == "DeclRefExpr" and l["referencedDecl"]["name"] == name:
                            assigned.append(1)
                for r in rest:
                    sl.walk(r, chk)
                if assigned:
                    raise c2g.Unsupported("pointer alias %s is reassigned" % name)
                repl = sl.strip(kids(hit)[0])
                others = [d for d in kids(s) if d is not hit]
                head = [dict(s, inner=others)] if others else []
                out = out[:i] + head + [norm_addr_arrow(subst_var(r, name, repl)) for r in rest]
                continue
            i += 1
        return out

    def returns_to_breaks(stmts, name="retval", ty="int", dty="int"):
        """inside a loop body: return e  ==>  retval = e; break   (and `return (a = b, e)` ==> a = b; retval = e; break)"""
        def conv(n):
            if not isinstance(n, dict):
                return n
            if n.get("kind") == "ReturnStmt":
                e = kids(n)[0]
                pre = []
                c = c2g.skip_parens(e)
                while c.get("kind") in ("ImplicitCastExpr",) :
                    c = c2g.skip_parens(c["inner"][0])
                if c.get("kind") == "BinaryOperator" and c.get("opcode") == ",":
                    pre = [c["inner"][0]]
                    e = c["inner"][1]
                pv = pseudo(name, ty, dty)
                asg = {"kind": "BinaryOperator", "opcode": "=", "type": {"qualType": ty}, "inner": [pv, e]}
                return {"kind": "CompoundStmt", "inner": pre + [asg, {"kind": "BreakStmt"}]}
            m = dict(n)
            if "inner" in m:
                m["inner"] = [conv(c) for c in m["inner"]]
            return m
        return [conv(s) for s in stmts]

    def is_pre(m):
        return m.get("kind") == "UnaryOperator" and m.get("opcode") in ("++", "--") and not m.get("isPostfix")

    def hoist_pre(T, e):
        """prefix ++/-- inside the expression e ==> (list of the increments as statements, e with the operand in their place).
        Refused unless the incremented location occurs exactly once in e."""
        pres = sl.find_nodes(e, is_pre)
        if not pres:
            return [], e
        keys = []
        for p in pres:
            k = key_of(T, p["inner"][0])
            if k is None:
                raise c2g.Unsupported("prefix increment of an unsupported lvalue")
            keys.append(k)
        # occurrences of each key in e
        for k in keys:
            cnt = []
            def f(m):
                if m.get("kind") in ("DeclRefExpr", "MemberExpr") and key_of(T, m) == k:
                    cnt.append(1)
            sl.walk(e, f)
            if len(cnt) != 1:
                raise c2g.Unsupported("incremented location %s is used twice in one expression" % k)
        ids = set(id(p) for p in pres)
        def g(m):
            return m
        def repl(n):
            if not isinstance(n, dict):
                return n
            if id(n) in ids:
                return rvalue(n["inner"][0])
            m = dict(n)
            if "inner" in m:
                m["inner"] = [repl(c) for c in m["inner"]]
            return m
        return [dict(p) for p in pres], repl(e)

    def deref_call(n, effects):
        """n = *(T *) call (..) with call in effects: the call node, else None"""
        m = c2g.skip_parens(n)
        while m.get("kind") == "ImplicitCastExpr" and m.get("castKind") in ("LValueToRValue", "NoOp"):
            m = c2g.skip_parens(m["inner"][0])
        if m.get("kind") == "UnaryOperator" and m.get("opcode") == "*":
            c = sl.strip(m["inner"][0])
            if c.get("kind") == "CallExpr" and sl.callee_name(c) in effects:
                return c
        return None

    def void_stmt(call):
        return {"kind": "CStyleCastExpr", "castKind": "ToVoidX", "type": {"qualType": "void"}, "inner": [call]}

    def rewrite_stmt(T, s, effects, count):
        """-> list of statements"""
        k = s.get("kind")
        if k == "CompoundStmt":
            return [dict(s, inner=rewrite_list(T, kids(s), effects, count))]
        if k == "IfStmt":
            inner = kids(s)
            c0 = sl.strip(inner[0])
            if c0.get("kind") == "CallExpr" and sl.callee_name(c0) in effects:
                # if (call (..))  ==>  <callee>_result = call (..); if (<callee>_result)
                pv = pseudo(sl.callee_name(c0) + "_result", "int", "int")
                asg = {"kind": "BinaryOperator", "opcode": "=", "type": {"qualType": "int"}, "inner": [pv, c0]}
                cond0 = {"kind": "ImplicitCastExpr", "castKind": "IntegralToBoolean", "type": {"qualType": "_Bool"}, "inner": [rvalue(pv)]}
                rest_ = rewrite_stmt(T, dict(s, inner=[rvalue(pv)] + inner[1:]), effects, count)
                return [asg] + rest_
            pre, cond = hoist_pre(T, inner[0])
            arms = []
            for a in inner[1:]:
                r = rewrite_stmt(T, a, effects, count)
                arms.append(r[0] if len(r) == 1 else {"kind": "CompoundStmt", "inner": r})
            return pre + [dict(s, inner=[cond] + arms)]
        if k in ("WhileStmt", "ForStmt", "DoStmt"):
            return [s]
        if k == "ReturnStmt" and kids(s):
            e = kids(s)[0]
            c = sl.strip(e)
            if c.get("kind") == "CallExpr" and sl.callee_name(c) in effects:
                # return call (..)  ==>  <callee>_result = call (..); return <callee>_result
                pv = pseudo(sl.callee_name(c) + "_result", "void *", "void *")
                asg = {"kind": "BinaryOperator", "opcode": "=", "type": {"qualType": "void *"}, "inner": [pv, c]}
                return [asg, dict(s, inner=[rvalue(pv)])]
            pre, e2 = hoist_pre(T, e)
            return pre + [dict(s, inner=[e2])]
        if k == "BinaryOperator" and s.get("opcode") == "=":
            lhs, rhs = s["inner"]
            r = c2g.skip_parens(rhs)
            while r.get("kind") in ("ImplicitCastExpr", "CStyleCastExpr") and r.get("castKind") != "ToVoid" and \
                    c2g.skip_parens(r["inner"][0]).get("kind") == "BinaryOperator" and c2g.skip_parens(r["inner"][0]).get("opcode") == "=":
                r = c2g.skip_parens(r["inner"][0])
            if r.get("kind") == "BinaryOperator" and r.get("opcode") == "=":
                # A = B = C  ==>  B = C; A = B   (B a plain location, read back without side effect)
                first = rewrite_stmt(T, r, effects, count)
                second = dict(s, inner=[lhs, rvalue(r["inner"][0])])
                return first + rewrite_stmt(T, second, effects, count)
            c = deref_call(rhs, effects)
            if c is not None:
                nm = sl.callee_name(c)
                count[nm] = count.get(nm, 0) + 1
                pv = pseudo("%s%s_ret_deref" % (nm, "" if count[nm] == 1 else str(count[nm])))
                return [c, dict(s, inner=[lhs, rvalue(pv)])]
            c = deref_call(lhs, effects)
            if c is not None:
                nm = sl.callee_name(c)
                count[nm] = count.get(nm, 0) + 1
                pv = pseudo("%s%s_store" % (nm, "" if count[nm] == 1 else str(count[nm])))
                return [c, dict(s, inner=[pv, rhs])]
            pre, rhs2 = hoist_pre(T, rhs)
            return pre + [dict(s, inner=[lhs, rhs2])]
        return [s]

    def rewrite_list(T, ss, effects, count):
        out = []
        for s in ss:
            out += rewrite_stmt(T, s, effects, count)
        return out

    def prepare(stmts, effects, T=None):
        """all rewrites; -> (statements, {callee: keys of the structs passed by address})"""
        T = T or sl.SliceT()
        T.fname = "rewrite"
        ss = inline_ptr_alias(list(stmts))
        ss = [norm_addr_arrow(s) for s in ss]
        ss = rewrite_list(T, ss, effects, {})
        touched = {}
        ss = [addr_args(s, T, touched) for s in ss]
        return ss, touched


    def retype(stmts, tyname, to="unsigned int"):
        """an enum type whose enumerators are small non-negative numbers is read as unsigned int"""
        def f(m):
            t = m.get("type")
            if isinstance(t, dict) and (tyname in t.get("qualType", "") and "*" not in t.get("qualType", "")):
                m = dict(m, type={"qualType": to, "desugaredQualType": to})
            return m
        return [mapn(s, f) for s in stmts]

    R.retype = retype
    R.prepare = prepare
    R.returns_to_breaks = returns_to_breaks
    R.pseudo = pseudo
    return R


def register_more(GROUPS, c2g, incs, REPO, HERE, STRUCTS, Group):
    import slicelib as sl
    R = mk_rw(c2g, sl)
    CF = os.path.join(REPO, "src", "sc_containers.c")
    CH = os.path.join(REPO, "src", "sc_containers.h")
    AF = os.path.join(REPO, "src", "sc_avl.c")
    KF = os.path.join(REPO, "src", "sc_keyvalue.c")
    KH = os.path.join(REPO, "src", "sc_keyvalue.h")

    def kids(n):
        return [c for c in n.get("inner", []) if isinstance(c, dict)]

    def body(F):
        return kids([c for c in F["inner"] if c.get("kind") == "CompoundStmt"][0])

    def loopbody(F):
        w = [s for s in body(F) if s.get("kind") in ("WhileStmt", "ForStmt")]
        if len(w) != 1:
            raise c2g.Unsupported("%s: expected exactly one top-level loop" % F.get("name"))
        cs = [c for c in kids(w[0]) if c.get("kind") == "CompoundStmt"]
        if len(cs) != 1:
            raise c2g.Unsupported("%s: loop body is not a block" % F.get("name"))
        return kids(cs[0])

    def no_read_after(stmts, touched, fname):
        """a struct passed by address to a call may be written by the callee: refuse slices that read its fields later"""
        T = sl.SliceT()
        T.fname = fname
        calls = []

        def f(n):
            if n.get("kind") == "CallExpr" and sl.callee_name(n) in touched:
                calls.append((c2g.node_offsets(n)[1], touched[sl.callee_name(n)]))
        for s in stmts:
            sl.walk(s, f)

        def g(n):
            if n.get("kind") == "MemberExpr":
                try:
                    k = T.lvalue_key(n)
                except c2g.Unsupported:
                    return
                b = c2g.node_offsets(n)[0]
                for end, keys in calls:
                    if end is not None and b is not None and b > end and any(k.startswith(p + "_") for p in keys):
                        raise c2g.Unsupported("%s: %s is read after its struct was passed by address to a call" % (fname, k))
        for s in stmts:
            sl.walk(s, g)

    def mkslicer(tmp, cache):
        def fn(name, file):
            key = (name, file)
            if key not in cache:
                cache[key] = c2g.find_function(c2g.clang_ast(file, name, incs(tmp)), name)
            return cache[key]

        def sl_fn(g, gname, cname, file, outs, want, effects=(), pick=None, pre=None, expect_outs=None, comment="", **kw):
            F = fn(cname, file)
            b = pick(F) if pick else body(F)
            if pre:
                b = pre(b)
            ss, touched = R.prepare(b, effects)
            no_read_after(ss, dict((k_, v_) for k_, v_ in touched.items() if k_ not in kw.get("pure", ())), cname)
            kw.pop("pure", None)
            t, i = sl.emit_block(ss, gname, outs, cname, effects=effects, effect_called=True, want_params=want, comment=comment, **kw)
            if expect_outs is not None and i["outputs"] != expect_outs:
                raise c2g.Unsupported("%s: outputs %s, expected %s" % (cname, i["outputs"], expect_outs))
            g.add(t, i)
        return fn, sl_fn

    # ------------------------------------------------------------------------------------------------------------------
    def gen_containers(tmp):
        g = Group("ContainersC09")
        fn, S = mkslicer(tmp, {})
        # --- sc_array helpers used by the pools and the recycle array (static inline, sc_containers.h)
        S(g, "c9_array_index", "sc_array_index", CF, ["ret"], ["array_array", "array_elem_size", "iz"], ret="ret",
          comment="sc_array_index: the address of element iz")
        S(g, "c9_array_pop", "sc_array_pop", CF, ["ret", "array_elem_count"], ["array_array", "array_elem_size", "array_elem_count"], ret="ret",
          comment="sc_array_pop: (address of the removed last element, new elem_count)")
        # --- memory stamps
        F = fn("sc_mstamp_init", CF)
        ms = sl.find_nodes(F, lambda n: sl.callee_name(n) == "memset")
        ok = len(ms) == 1 and sl.strip(ms[0]["inner"][1]).get("referencedDecl", {}).get("name") == "mst" and \
            sl.strip(ms[0]["inner"][2]).get("kind") == "IntegerLiteral" and sl.strip(ms[0]["inner"][2]).get("value") == "0"
        if not ok:
            raise c2g.Unsupported("sc_mstamp_init: no memset (mst, 0, ..) at the start")
        S(g, "c9_mstamp_init", "sc_mstamp_init", CF, ["mst_elem_size", "mst_per_stamp", "mst_stamp_size", "mst_cur_snext", "*ghosts"],
          ["stamp_unit", "elem_size", "mst", "addr_mst_remember"], params=("stamp_unit", "elem_size"),
          effects=("sc_array_init", "sc_mstamp_stamp"), drop_calls=("memset",),
          init={"mst_per_stamp": "0", "mst_stamp_size": "0", "mst_cur_snext": "0"},
          expect_outs=["mst_elem_size", "mst_per_stamp", "mst_stamp_size", "mst_cur_snext", "sc_array_init_called", "sc_array_init_arg0",
                       "sc_array_init_arg1", "sc_mstamp_stamp_called", "sc_mstamp_stamp_arg0"],
          comment="sc_mstamp_init after its memset (mst, 0, ..): (elem_size, per_stamp, stamp_size, cur_snext, sc_array_init called/args, sc_mstamp_stamp called/arg)")
        S(g, "c9_mstamp_stamp", "sc_mstamp_stamp", CF, ["mst_cur_snext", "mst_current", "sc_array_push_store", "*ghosts"],
          ["sc_package_id", "mst_stamp_size", "sc_malloc_ret", "addr_mst_remember"], effects=("sc_malloc", "sc_array_push"),
          expect_outs=["mst_cur_snext", "mst_current", "sc_array_push_store", "sc_malloc_called", "sc_malloc_arg0", "sc_malloc_arg1",
                       "sc_array_push_called", "sc_array_push_arg0"],
          comment="sc_mstamp_stamp: (cur_snext, current, pointer stored in the pushed slot of remember, sc_malloc called/package/size, sc_array_push called/array)")
        S(g, "c9_mstamp_alloc", "sc_mstamp_alloc", CF, ["ret", "mst_cur_snext", "*ghosts"],
          ["mst_elem_size", "mst_cur_snext", "mst_current", "mst_per_stamp", "mst"], effects=("sc_mstamp_stamp",), ret="ret",
          expect_outs=["ret", "mst_cur_snext", "sc_mstamp_stamp_called", "sc_mstamp_stamp_arg0"],
          comment="sc_mstamp_alloc: (returned pointer, cur_snext BEFORE the effect of sc_mstamp_stamp, sc_mstamp_stamp called/arg)")
        S(g, "c9_mstamp_truncate", "sc_mstamp_truncate", CF, ["*ghosts"], ["mst", "mst_elem_size"], effects=("sc_mstamp_reset", "sc_mstamp_stamp"),
          expect_outs=["sc_mstamp_reset_called", "sc_mstamp_reset_arg0", "sc_mstamp_stamp_called", "sc_mstamp_stamp_arg0"])
        # --- memory pools
        S(g, "c9_mempool_init", "sc_mempool_init_ext", CF, ["mempool_elem_size", "mempool_elem_count", "mempool_zero_and_persist", "*ghosts"],
          ["elem_size", "zero_and_persist", "addr_mempool_mstamp", "addr_mempool_freed"], effects=("sc_mstamp_init", "sc_array_init"),
          expect_outs=["mempool_elem_size", "mempool_elem_count", "mempool_zero_and_persist", "sc_mstamp_init_called", "sc_mstamp_init_arg0",
                       "sc_mstamp_init_arg1", "sc_mstamp_init_arg2", "sc_array_init_called", "sc_array_init_arg0", "sc_array_init_arg1"])
        S(g, "c9_mempool_alloc", "sc_mempool_alloc", CF, ["ret", "mempool_elem_count", "*ghosts"],
          ["mempool_elem_count", "mempool_freed_elem_count", "addr_mempool_freed", "sc_array_pop_ret_deref", "addr_mempool_mstamp",
           "sc_mstamp_alloc_ret", "mempool_zero_and_persist", "mempool_elem_size"], effects=("sc_array_pop", "sc_mstamp_alloc", "memset"), ret="ret",
          expect_outs=["ret", "mempool_elem_count", "sc_array_pop_called", "sc_array_pop_arg0", "sc_mstamp_alloc_called", "sc_mstamp_alloc_arg0",
                       "memset_called", "memset_arg0", "memset_arg1", "memset_arg2"],
          comment="sc_mempool_alloc (release build): (item, elem_count, pop of freed called/array, sc_mstamp_alloc called/container, memset called/args)")
        S(g, "c9_mempool_free", "sc_mempool_free", CF, ["mempool_elem_count", "sc_array_push_store", "*ghosts"],
          ["mempool_elem_count", "addr_mempool_freed", "elem"], effects=("sc_array_push",),
          expect_outs=["mempool_elem_count", "sc_array_push_store", "sc_array_push_called", "sc_array_push_arg0"])
        S(g, "c9_mempool_truncate", "sc_mempool_truncate", CF, ["mempool_elem_count", "*ghosts"], ["addr_mempool_freed", "addr_mempool_mstamp"],
          effects=("sc_array_reset", "sc_mstamp_truncate"),
          expect_outs=["mempool_elem_count", "sc_array_reset_called", "sc_array_reset_arg0", "sc_mstamp_truncate_called", "sc_mstamp_truncate_arg0"])
        # --- lists
        L = ["list_first", "list_last", "list_elem_count"]
        AL = ["sc_mempool_alloc_called", "sc_mempool_alloc_arg0"]
        FR = ["sc_mempool_free_called", "sc_mempool_free_arg0", "sc_mempool_free_arg1"]
        S(g, "c9_list_init", "sc_list_init", CF, L + ["list_allocator", "list_allocator_owned"], ["allocator"])
        S(g, "c9_list_unlink", "sc_list_unlink", CF, L, [])
        S(g, "c9_list_prepend", "sc_list_prepend", CF, ["ret"] + L + ["lynk_data", "lynk_next", "*ghosts"],
          ["list_allocator", "sc_mempool_alloc_ret", "data", "list_first", "list_last", "list_elem_count"], effects=("sc_mempool_alloc",), ret="ret",
          expect_outs=["ret"] + L + ["lynk_data", "lynk_next"] + AL)
        S(g, "c9_list_append", "sc_list_append", CF, ["ret"] + L + ["lynk_data", "lynk_next", "list_last_next", "*ghosts"],
          ["list_allocator", "sc_mempool_alloc_ret", "data", "list_first", "list_last", "list_last_next", "list_elem_count"],
          effects=("sc_mempool_alloc",), ret="ret", expect_outs=["ret"] + L + ["lynk_data", "lynk_next", "list_last_next"] + AL,
          comment="list_last_next = the next field of the link that was last when the function was entered")
        S(g, "c9_list_insert", "sc_list_insert", CF, ["ret"] + L + ["lynk_data", "lynk_next", "pred_next", "*ghosts"],
          ["list_allocator", "sc_mempool_alloc_ret", "data", "pred_next", "pred", "list_first", "list_last", "list_elem_count"],
          effects=("sc_mempool_alloc",), ret="ret", expect_outs=["ret"] + L + ["lynk_data", "lynk_next", "pred_next"] + AL)
        S(g, "c9_list_remove", "sc_list_remove", CF, ["ret"] + L + ["pred_next", "*ghosts"],
          ["pred", "list", "sc_list_pop_ret", "list_first", "list_last", "list_elem_count", "pred_next", "lynk_next", "lynk_data", "list_allocator"],
          effects=("sc_mempool_free", "sc_list_pop"), ret="ret",
          expect_outs=["ret"] + L + ["pred_next", "sc_list_pop_called", "sc_list_pop_arg0"] + FR,
          comment="lynk = pred->next on entry; lynk_next / lynk_data = the fields of that link")
        S(g, "c9_list_pop", "sc_list_pop", CF, ["ret"] + L + ["*ghosts"],
          ["list_first", "lynk_next", "lynk_data", "list_allocator", "list_last", "list_elem_count"], effects=("sc_mempool_free",), ret="ret",
          expect_outs=["ret"] + L + FR, comment="lynk = list->first on entry")
        S(g, "c9_list_reset_step", "sc_list_reset", CF, ["lynk", "list_elem_count", "*ghosts"],
          ["lynk", "list_elem_count", "list_allocator", "lynk_next"], pick=loopbody, params=("lynk", "list_elem_count"),
          effects=("sc_mempool_free",), expect_outs=["lynk", "list_elem_count"] + FR,
          comment="one iteration of the loop of sc_list_reset: (next link, elem_count, sc_mempool_free called/allocator/link)")
        # --- hash table: which slot
        for cfn, gname in (("sc_hash_lookup", "c9_hash_slot_lookup"), ("sc_hash_insert_unique", "c9_hash_slot_insert"),
                           ("sc_hash_remove", "c9_hash_slot_remove"), ("sc_hash_maybe_resize", "c9_hash_slot_rehash")):
            F = fn(cfn, CF)
            ms = sl.find_nodes(F, lambda n: n.get("kind") == "BinaryOperator" and n.get("opcode") == "%" and
                               sl.find_nodes(n["inner"][0], lambda m: m.get("kind") == "MemberExpr" and m.get("name") == "hash_fn"))
            if len(ms) != 1:
                raise c2g.Unsupported("%s: %d expressions hash_fn (..) %% n" % (cfn, len(ms)))
            want = ["hash_fn_ret", "new_size"] if cfn == "sc_hash_maybe_resize" else ["hash_fn_ret", "hash_slots_elem_count"]
            t, i = sl.emit_expr(ms[0], gname, cfn + "/slot", want_params=want, symbolic_calls=("hash_fn",),
                                comment="the slot index: hash_fn_ret = the unsigned int returned by hash->hash_fn")
            g.add(t, i)
        # --- hash array
        S(g, "c9_harr_insert", "sc_hash_array_insert_unique", CF, ["ret", "position_deref", "found_void_deref", "hash_array_internal_data_current_item", "*ghosts"],
          ["v", "hash_array_h", "sc_hash_insert_unique_ret", "position", "position_deref", "hash_array_a_elem_count", "addr_hash_array_a",
           "sc_array_push_ret", "found_void_deref"], effects=("sc_hash_insert_unique", "sc_array_push"), ret="ret",
          expect_outs=["ret", "position_deref", "found_void_deref", "hash_array_internal_data_current_item", "sc_hash_insert_unique_called",
                       "sc_hash_insert_unique_arg0", "sc_hash_insert_unique_arg1", "sc_array_push_called", "sc_array_push_arg0"],
          comment="found_void_deref = *found_void: the element slot of the internal hash table (in: what sc_hash_insert_unique found; out: what is stored)")
        S(g, "c9_harr_lookup", "sc_hash_array_lookup", CF, ["ret", "position_deref", "hash_array_internal_data_current_item", "*ghosts"],
          ["v", "hash_array_h", "sc_hash_lookup_ret", "position", "position_deref", "found_void_deref"], effects=("sc_hash_lookup",), ret="ret",
          expect_outs=["ret", "position_deref", "hash_array_internal_data_current_item", "sc_hash_lookup_called", "sc_hash_lookup_arg0", "sc_hash_lookup_arg1"])
        # --- recycle array
        S(g, "c9_rec_init", "sc_recycle_array_init", CF, ["rec_array_elem_count", "*ghosts"], ["addr_rec_array_a", "elem_size", "addr_rec_array_f"],
          effects=("sc_array_init",),
          expect_outs=["rec_array_elem_count", "sc_array_init_called", "sc_array_init_arg0", "sc_array_init_arg1", "sc_array_init2_called",
                       "sc_array_init2_arg0", "sc_array_init2_arg1"])
        S(g, "c9_rec_reset", "sc_recycle_array_reset", CF, ["rec_array_elem_count", "*ghosts"], ["addr_rec_array_a", "addr_rec_array_f"],
          effects=("sc_array_reset",),
          expect_outs=["rec_array_elem_count", "sc_array_reset_called", "sc_array_reset_arg0", "sc_array_reset2_called", "sc_array_reset2_arg0"])
        S(g, "c9_rec_insert", "sc_recycle_array_insert", CF, ["ret", "position_deref", "rec_array_elem_count", "*ghosts"],
          ["rec_array_f_elem_count", "addr_rec_array_f", "sc_array_pop_ret_deref", "addr_rec_array_a", "sc_array_index_ret", "rec_array_a_elem_count",
           "sc_array_push_ret", "position", "position_deref", "rec_array_elem_count"],
          effects=("sc_array_pop", "sc_array_index", "sc_array_push"), ret="ret", pure=("sc_array_index",),
          expect_outs=["ret", "position_deref", "rec_array_elem_count", "sc_array_pop_called", "sc_array_pop_arg0", "sc_array_index_called",
                       "sc_array_index_arg0", "sc_array_index_arg1", "sc_array_push_called", "sc_array_push_arg0"],
          comment="sc_array_pop_ret_deref = the position read from the popped slot of f")
        S(g, "c9_rec_remove", "sc_recycle_array_remove", CF, ["ret", "rec_array_elem_count", "sc_array_push_store", "*ghosts"],
          ["addr_rec_array_f", "position", "rec_array_elem_count", "addr_rec_array_a", "sc_array_index_ret"],
          effects=("sc_array_index", "sc_array_push"), ret="ret",
          expect_outs=["ret", "rec_array_elem_count", "sc_array_push_store", "sc_array_push_called", "sc_array_push_arg0", "sc_array_index_called",
                       "sc_array_index_arg0", "sc_array_index_arg1"])
        return g, [CF, CH]

    # ------------------------------------------------------------------------------------------------------------------
    def gen_avl_steps(tmp):
        g = Group("AvlStepsC09")
        fn, S = mkslicer(tmp, {})
        S(g, "c9_avl_at_step", "avl_at", AF, ["stop", "retval", "avlnode", "u"], ["avlnode", "u", "avlnode_left", "avlnode_left_count", "avlnode_right"],
          pick=lambda F: R.returns_to_breaks(loopbody(F)), jumps_end=True, params=("avlnode", "u"), init={"retval": "0"},
          comment="one iteration of the loop of avl_at: (1 = return, returned node, next node, next u)")
        S(g, "c9_avl_index_step", "avl_index", AF, ["avlnode", "c"], ["avlnode", "c", "next", "next_right", "next_left", "next_left_count"],
          pick=loopbody, params=("avlnode", "c", "next"),
          comment="one iteration of the loop of avl_index (next = avlnode->parent, non-NULL): (next node, c)")
        S(g, "c9_avl_search_step", "avl_search_closest", AF, ["stop", "retval", "node", "avlnode_deref"],
          ["cmp_ret", "node_left", "avlnode_deref", "node", "node_right"],
          pick=lambda F: R.returns_to_breaks(loopbody(F)), jumps_end=True, symbolic_calls=("cmp",), init={"retval": "0"},
          comment="one iteration of the loop of avl_search_closest: (1 = return, return value, next node, *avlnode)")
        # the rotation kind conditions and CALC_COUNT inside avl_rebalance
        F = fn("avl_rebalance", AF)
        sw = sl.find_nodes(F, lambda n: n.get("kind") == "SwitchStmt")
        if len(sw) != 1:
            raise c2g.Unsupported("avl_rebalance: expected one switch")
        swbody = [c for c in kids(sw[0]) if c.get("kind") == "CompoundStmt"]
        if len(swbody) != 1:
            raise c2g.Unsupported("avl_rebalance: switch body is not a block")
        # a case label holds only its first statement: group the following siblings with it
        cases = []
        for st in kids(swbody[0]):
            if st.get("kind") in ("CaseStmt", "DefaultStmt"):
                cases.append(dict(st, inner=list(st.get("inner", []))))
            elif cases:
                cases[-1]["inner"].append(st)
            else:
                raise c2g.Unsupported("avl_rebalance: statement before the first case")
        labels = []
        for cse in cases:
            if cse.get("kind") == "DefaultStmt":
                labels.append("default")
                continue
            T = c2g.Translator()
            T.fname = "avl_rebalance/case"
            labels.append(T.expr(kids(cse)[0], {}).z())
        if labels != ["(-1)", "1", "default"]:
            raise c2g.Unsupported("avl_rebalance: case labels %s" % labels)
        for cse, gname in ((cases[0], "c9_avl_left_single"), (cases[1], "c9_avl_right_single")):
            ifs = [n for n in sl.find_nodes(cse, lambda n: n.get("kind") == "IfStmt") if
                   {"child"} <= sl.refs(kids(n)[0]) and len(kids(n)) == 3]
            if not ifs:
                raise c2g.Unsupported("avl_rebalance: no single/double rotation test in a case")
            t, i = sl.emit_cond(kids(ifs[0])[0], gname, "avl_rebalance/rotation kind",
                                want_params=["child_left", "child_left_count", "child_right", "child_right_count"],
                                comment="true: single rotation, false: double rotation (child = the heavy child)")
            g.add(t, i)
        dflt = cases[2]
        asg = sl.find_nodes(dflt, lambda n: n.get("kind") == "BinaryOperator" and n.get("opcode") == "=")
        if len(asg) != 1:
            raise c2g.Unsupported("avl_rebalance: default case is not one count assignment")
        t, i = sl.emit_expr(asg[0]["inner"][1], "c9_avl_calc_count", "avl_rebalance/CALC_COUNT",
                            want_params=["avlnode_left", "avlnode_left_count", "avlnode_right", "avlnode_right_count"],
                            comment="CALC_COUNT (avlnode)")
        g.add(t, i)
        # every count assignment inside the rotations uses the same macro on its own node
        cnt = sl.find_nodes(sw[0], lambda n: n.get("kind") == "BinaryOperator" and n.get("opcode") == "=" and
                            c2g.skip_parens(n["inner"][0]).get("kind") == "MemberExpr" and c2g.skip_parens(n["inner"][0]).get("name") == "count")
        seq = []
        for a in cnt:
            T = sl.SliceT()
            T.fname = "avl_rebalance/count"
            T.free_as_params = True
            T.fun_params = []
            node = T.lvalue_key(a["inner"][0])[:-len("_count")]
            e = T.expr(a["inner"][1], {})
            want = sorted([node + "_left", node + "_left_count", node + "_right", node + "_right_count"])
            if sorted(T.params) != want:
                raise c2g.Unsupported("avl_rebalance: %s->count is not CALC_COUNT of the same node" % node)
            seq.append(node)
        names = {"avlnode": 1, "child": 2, "gchild": 3}
        if any(s not in names for s in seq):
            raise c2g.Unsupported("avl_rebalance: count of an unexpected node %s" % seq)
        g.add("(* the order in which avl_rebalance recomputes the counts (1 = avlnode, 2 = child, 3 = gchild), in source order:\n"
              "   left single, left double, right single, right double, no rotation *)\n"
              "Definition c9_avl_count_order : list Z := [%s].\n" % "; ".join(str(names[s]) for s in seq),
              dict(name="c9_avl_count_order", fuel=False, params=[]))
        # which fields of the node object the insert functions overwrite before linking it in (a node may carry stale left / right /
        # count from an earlier life: avl_unlink_node + re-insertion, or a caller-allocated node that was never initialised)
        S(g, "c9_avl_clear_node", "avl_clear_node", AF, ["newnode_left", "newnode_right", "newnode_count"], [],
          comment="avl_clear_node: (left, right, count) of the node afterwards")
        S(g, "c9_avl_init_node", "avl_init_node", AF, ["ret", "newnode_item", "newnode_left", "newnode_right", "newnode_count", "*ghosts"],
          ["newnode", "item", "newnode_item", "newnode_left", "newnode_right", "newnode_count"], ret="ret", effects=("avl_clear_node",),
          params=("newnode", "item", "newnode_item", "newnode_left", "newnode_right", "newnode_count"),
          expect_outs=["ret", "newnode_item", "newnode_left", "newnode_right", "newnode_count"],
          comment="avl_init_node: (returned node, item, left, right, count): only the item is written; no call of avl_clear_node")
        S(g, "c9_avl_insert_top", "avl_insert_top", AF,
          ["ret", "newnode_prev", "newnode_next", "newnode_parent", "avltree_head", "avltree_tail", "avltree_top", "*ghosts"],
          ["newnode"], ret="ret", effects=("avl_clear_node",),
          expect_outs=["ret", "newnode_prev", "newnode_next", "newnode_parent", "avltree_head", "avltree_tail", "avltree_top",
                       "avl_clear_node_called", "avl_clear_node_arg0"],
          comment="avl_insert_top: the node is cleared (avl_clear_node called on it), prev = next = parent = NULL, head = tail = top = node")

        def direct_path(F):
            # the statements after the early returns (node == NULL, redirection to the in-order neighbour)
            b = body(F)
            k = 0
            while k < len(b) and b[k].get("kind") == "IfStmt" and sl.find_nodes(b[k], lambda n: n.get("kind") == "ReturnStmt"):
                k += 1
            if k != 2:
                raise c2g.Unsupported("%s: expected two early returns, found %d" % (F.get("name"), k))
            return b[k:]
        S(g, "c9_avl_insert_before_link", "avl_insert_before", AF,
          ["ret", "newnode_next", "newnode_parent", "newnode_prev", "node_prev_next", "avltree_head", "node_prev", "node_left", "*ghosts"],
          ["newnode", "node", "node_prev", "node_prev_next", "avltree_head", "avltree"], ret="ret", pick=direct_path,
          effects=("avl_clear_node", "avl_rebalance"),
          expect_outs=["ret", "newnode_next", "newnode_parent", "newnode_prev", "node_prev_next", "avltree_head", "node_prev", "node_left",
                       "avl_clear_node_called", "avl_clear_node_arg0", "avl_rebalance_called", "avl_rebalance_arg0", "avl_rebalance_arg1"],
          comment="avl_insert_before on the path that links the new node as the left child of `node` (node != NULL, node->left == NULL)")
        S(g, "c9_avl_insert_after_link", "avl_insert_after", AF,
          ["ret", "newnode_prev", "newnode_parent", "newnode_next", "node_next_prev", "avltree_tail", "node_next", "node_right", "*ghosts"],
          ["newnode", "node", "node_next", "node_next_prev", "avltree_tail", "avltree"], ret="ret", pick=direct_path,
          effects=("avl_clear_node", "avl_rebalance"),
          expect_outs=["ret", "newnode_prev", "newnode_parent", "newnode_next", "node_next_prev", "avltree_tail", "node_next", "node_right",
                       "avl_clear_node_called", "avl_clear_node_arg0", "avl_rebalance_called", "avl_rebalance_arg0", "avl_rebalance_arg1"],
          comment="avl_insert_after on the path that links the new node as the right child of `node` (node != NULL, node->right == NULL)")
        return g, [AF]

    # ------------------------------------------------------------------------------------------------------------------
    def gen_keyvalue(tmp):
        g = Group("KeyValueC09")
        fn, S = mkslicer(tmp, {})
        objs = c2g.clang_ast(KH, "", incs(tmp))
        acc = []

        def find_enum(n):
            if isinstance(n, dict):
                if n.get("kind") == "EnumDecl" and any(c.get("name") == "SC_KEYVALUE_ENTRY_NONE" for c in kids(n)):
                    acc.append(n)
                for c in n.get("inner", []):
                    find_enum(c)
        for o in objs:
            find_enum(o)
        if not acc:
            raise c2g.Unsupported("enum sc_keyvalue_entry_type_t not found")
        val = -1
        for c in kids(acc[0]):
            if c.get("kind") != "EnumConstantDecl":
                continue
            ce = [k for k in kids(c) if k.get("kind") == "ConstantExpr"]
            others = [k for k in kids(c) if k.get("kind") not in ("ConstantExpr", "FullComment")]
            if others:
                raise c2g.Unsupported("enumerator %s has an initialiser that is not a constant" % c.get("name"))
            val = int(ce[0]["value"]) if ce else val + 1
            g.add("Definition c9_%s : Z := %d.\n" % (c["name"], val), dict(name="c9_" + c["name"], fuel=False, params=[]))
        ety = lambda b: R.retype(b, "sc_keyvalue_entry_type_t")
        S(g, "c9_kv_get_int_check", "sc_keyvalue_get_int_check", KF, ["ret", "status_deref", "svalue_key", "*ghosts"],
          ["status", "status_deref", "key", "SC_KEYVALUE_ENTRY_NONE", "kv_hash", "sc_hash_lookup_ret", "found_deref", "value_type",
           "SC_KEYVALUE_ENTRY_INT", "value_value_i"], effects=("sc_hash_lookup",), ret="ret", enum_params=True, pre=ety,
          expect_outs=["ret", "status_deref", "svalue_key", "sc_hash_lookup_called", "sc_hash_lookup_arg0"],
          comment="value = the entry *found; (result, *status, key of the probe entry, sc_hash_lookup called/table)")
        S(g, "c9_kv_exists", "sc_keyvalue_exists", KF, ["ret", "svalue_key", "*ghosts"],
          ["key", "SC_KEYVALUE_ENTRY_NONE", "kv_hash", "sc_hash_lookup_ret", "found_deref", "value_type"],
          effects=("sc_hash_lookup",), ret="ret", enum_params=True, pre=ety,
          expect_outs=["ret", "svalue_key", "sc_hash_lookup_called", "sc_hash_lookup_arg0"])
        S(g, "c9_kv_unset", "sc_keyvalue_unset", KF, ["ret", "svalue_key", "*ghosts"],
          ["key", "SC_KEYVALUE_ENTRY_NONE", "kv_hash", "sc_hash_remove_ret", "found", "value_type", "kv_value_allocator"],
          effects=("sc_hash_remove", "sc_mempool_free"), ret="ret", enum_params=True, pre=ety,
          expect_outs=["ret", "svalue_key", "sc_hash_remove_called", "sc_hash_remove_arg0", "sc_mempool_free_called", "sc_mempool_free_arg0",
                       "sc_mempool_free_arg1"])
        return g, [KF, KH]

    GROUPS["ContainersC09"] = gen_containers
    GROUPS["AvlStepsC09"] = gen_avl_steps
    GROUPS["KeyValueC09"] = gen_keyvalue
