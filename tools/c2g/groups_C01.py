"""Translator groups for C01/C02: slices of sc_notify.c (slot formula, n-ary and binary recursion arithmetic)."""
import os, re


def register(GROUPS, c2g, incs, REPO, HERE, STRUCTS, Group):
    def gen_notify(tmp):
        g = Group("NotifyC01")
        f = os.path.join(REPO, "src", "sc_notify.c")
        src = open(f).read()
        sim = os.path.join(os.path.dirname(HERE), "simmpi")
        inc = incs(tmp) + [sim]
        defs = ("SC_ENABLE_MPI",)

        def fn(name):
            objs = c2g.clang_ast(f, name, inc, defs=defs)
            return c2g.find_function(objs, name)

        # 1. the payload slot formula, four copies
        sites = [("sc_notify_init_input", "npay", "npay_init_input", "payload"), ("sc_notify_reset_output", "npay", "npay_reset_output", "payload"),
                 ("sc_notify_payload_nary", "npay", "npay_nary", "in_payload"), ("sc_notify_payload_pex", "npay", "npay_pex", "in_payload")]
        for fname, var, gname, pv in sites:
            F = fn(fname)
            st = c2g.select_between(F, src, r"if \(%s\) \{\s*\n\s*size_t\s+lowbound" % pv, r"^\s*(sc_array_init_count|multi = |stride = |/\* convert input)")
            # the nary copy assigns nary->npay
            out = "nary_npay" if fname == "sc_notify_payload_nary" else "npay"
            t, i = c2g.translate_block(st, gname, [], [out], fname=fname, free_params=True, init={out: "0"})
            g.add(t, i)
        # depth of the tree and product of the widths
        F = fn("sc_notify_payload_nary")
        st = c2g.select_between(F, src, r"if \(mpisize <= nbot\) \{", r"SC_ASSERT \(mpisize <= prod\)")
        t, i = c2g.translate_block(st, "nary_depth", [], ["depth", "prod"], fname="nary", free_params=True, init={"depth": "0", "prod": "0"})
        g.add(t, i)
        # 2. n-ary recursion
        F = fn("sc_notify_recursive_nary")
        st = c2g.select_between(F, src, r"divn =\s*$", r"SC_ASSERT \(length % divn == 0\)")
        t, i = c2g.translate_block(st, "nary_divn", [], ["divn"], fname="nary", free_params=True)
        g.add(t, i)
        st = c2g.select_between(F, src, r"lengthn = length / divn;", r"SC_ASSERT \(0 <= mypart")
        t, i = c2g.translate_block(st, "nary_part", [], ["lengthn", "mypart"], fname="nary", free_params=True)
        g.add(t, i)
        st = c2g.select_between(F, src, r"hipart = mypart \+", r"SC_ASSERT \(nrecv >= mypart\)")
        t, i = c2g.translate_block(st, "nary_nrecv", [], ["nrecv"], fname="nary", free_params=True, init={"nrecv": "0"})
        g.add(t, i)
        # peer of slot j in the send loop (second copy: the loop that actually sends); < 0 = no such peer
        st = c2g.select_between(F, src, r"peer = me \+ \(j - mypart\) \* lengthn;", r"mpiret = sc_MPI_Isend", occurrence=1)
        st = [x for x in st if x.get("kind") in ("BinaryOperator", "IfStmt")]
        t, i = c2g.translate_block(st, "nary_peer", [], ["peer"], fname="nary", free_params=True, jumps_end=True)
        g.add(t, i)
        st = c2g.select_between(F, src, r"topart = \(torank % length\) / lengthn;", r"sendbuf = \(sc_array_t \*\) sc_array_index_int")
        t, i = c2g.translate_block(st, "nary_topart", [], ["topart"], fname="nary", free_params=True)
        g.add(t, i)
        st = c2g.select_between(F, src, r"if \(source < me\) \{", r"mpiret = sc_MPI_Get_count")
        t, i = c2g.translate_block(st, "nary_slot", [], ["j"], fname="nary", free_params=True, init={"j": "0"})
        g.add(t, i)
        # 3. binary recursion
        F = fn("sc_notify_recursive")
        st = c2g.select_between(F, src, r"peer = me \^ length2;", r"SC_ASSERT \(peer >= 0 \|\| peer2 == -1\)")
        t, i = c2g.translate_block(st, "binary_peers", [], ["peer", "peer2"], fname="binary", free_params=True)
        g.add(t, i)
        # tag and half length of a level of the binary recursion; SC_LOG2_32 expands to lookups in sc_log2_lookup_table
        fsc = os.path.join(REPO, "src", "sc.c")
        tobjs = c2g.clang_ast(fsc, "sc_log2_lookup_table", incs(tmp))
        t, i = c2g.translate_table(c2g.find_var(tobjs, "sc_log2_lookup_table"), "sc_log2_lookup_table")
        g.add(t, i)

        def enums_as_params(n):
            # an enumerator (SC_TAG_NOTIFY_RECURSIVE) becomes a free parameter of the slice; the theorems instantiate it
            # with the value printed from the headers (Gen/Consts.v)
            if isinstance(n, dict):
                if n.get("kind") == "DeclRefExpr" and n.get("referencedDecl", {}).get("kind") == "EnumConstantDecl":
                    n["referencedDecl"]["kind"] = "VarDecl"
                for c in n.get("inner", []):
                    enums_as_params(c)
            return n
        st = c2g.select_between(F, src, r"tag = SC_TAG_NOTIFY_RECURSIVE \+ SC_LOG2_32 \(length\);", r"SC_ASSERT \(start <= me && me < start \+ length && me < groupsize\)")
        st = [enums_as_params(x) for x in st]
        t, i = c2g.translate_block(st, "binary_tag", [], ["tag", "length2"], fname="binary", free_params=True, tables={"sc_log2_lookup_table"})
        g.add(t, i)
        # length of the top level: next power of two
        F = fn("sc_notify")
        st = c2g.select_between(F, src, r"pow2length = SC_ROUNDUP2_32 \(mpisize\);", r"SC_ASSERT \(num_receivers >= 0\)")
        t, i = c2g.translate_block(st, "binary_pow2length", [], ["pow2length"], fname="binary", free_params=True, tables={"sc_log2_lookup_table"})
        g.add(t, i)
        return g, [f, fsc]
    GROUPS["NotifyC01"] = gen_notify
