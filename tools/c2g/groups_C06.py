"""Translator groups for C06/C07 (tie T1): pure integer leaf code of the codecs.

Group `Codec` (coq/Gen/Codec.v), regenerated from /repo on every run:
  * libb64: base64_encode_value / base64_decode_value with their local static tables;
  * sc_io.c (configuration WITHOUT zlib, where the functions exist): sc_io_adler32_update,
    sc_io_noncompress_bound;
  * expression slices of sc_io_encode_zlib (number of lines, text size, bytes per line) and of
    sc_io_decode (number of lines, size of the decode buffer, the guard that rejects an input too
    short to hold its line break, remaining code bytes, code bytes per line, the guard that rejects a
    declared size above 1032 times the compressed bytes).
The C07 safety theorem is stated about a model that calls these generated definitions, so an edit of
the index arithmetic in /repo changes the definitions the proof is checked against.
"""
import os, copy, json


def register(GROUPS, c2g, incs, REPO, HERE, STRUCTS, Group):
    import vlib

    def walk(n, f):
        if isinstance(n, dict):
            f(n)
            for c in n.get("inner", []):
                walk(c, f)

    def lift_static_tables(fn, rename):
        """Local `static const` tables of a function: emitted as global Gallina tables (renamed), their
        declarations removed from the body; a `static const T n = (T) sizeof (table)` becomes the literal."""
        fn = copy.deepcopy(fn)
        body = [c for c in fn["inner"] if c.get("kind") == "CompoundStmt"][0]
        texts, tables, sizes = [], set(), {}
        keep = []
        for st in body.get("inner", []):
            if st.get("kind") == "DeclStmt" and all(d.get("storageClass") == "static" for d in st.get("inner", [])):
                done = True
                for d in st["inner"]:
                    name = d["name"]
                    qt = d.get("type", {}).get("qualType", "")
                    if name in rename:
                        t, info = c2g.translate_table(d, rename[name])
                        texts.append(t)
                        tables.add(rename[name])
                        esz = 1
                        sizes[name] = info["length"] * esz
                    else:
                        # scalar: sizeof (table) only
                        found = []
                        walk(d, lambda n: found.append(n) if n.get("kind") == "UnaryExprOrTypeTraitExpr" and n.get("name") == "sizeof" else None)
                        refs = []
                        walk(d, lambda n: refs.append(n["referencedDecl"]["name"]) if n.get("kind") == "DeclRefExpr" else None)
                        if len(found) == 1 and len(refs) == 1 and refs[0] in sizes:
                            d["inner"] = [{"kind": "IntegerLiteral", "value": str(sizes[refs[0]]), "type": {"qualType": "int"}}]
                            done = False
                        else:
                            raise c2g.Unsupported("static local %s of %s" % (name, fn["name"]))
                if done:
                    continue
            keep.append(st)
        body["inner"] = keep

        def ren(n):
            if n.get("kind") == "DeclRefExpr" and n.get("referencedDecl", {}).get("name") in rename:
                n["referencedDecl"]["name"] = rename[n["referencedDecl"]["name"]]
        walk(body, ren)
        return fn, "".join(texts), tables

    def cond_slice(fn, must_ref, gname):
        """The first `if` of the function body (outermost level) whose condition mentions all of
        `must_ref`: its condition as a boolean function of the free variables."""
        body = [c for c in fn["inner"] if c.get("kind") == "CompoundStmt"][0]
        for st in body.get("inner", []):
            if st.get("kind") != "IfStmt":
                continue
            refs = set()
            walk(st["inner"][0], lambda n: refs.add(n["referencedDecl"]["name"]) if n.get("kind") == "DeclRefExpr" else None)
            if set(must_ref) <= refs:
                T = c2g.Translator()
                T.fname = fn["name"] + "/guard"
                T.gname = gname
                T.free_as_params = True
                env = {}
                e = T.expr(st["inner"][0], env)
                # the guarded statement must leave the function (return / goto): otherwise it is no guard
                if not T.has_jump(st["inner"][1], ("ReturnStmt", "GotoStmt")):
                    raise c2g.Unsupported("guard %s does not leave the function" % gname)
                plist = " ".join("(%s : Z)" % p for p in T.params)
                return "Definition %s %s : bool :=\n%s.\n" % (gname, plist, e.b()), dict(name=gname, params=list(T.params), fuel=False)
        raise c2g.Unsupported("no guard on %s in %s" % (",".join(must_ref), fn["name"]))

    def gen_codec(tmp):
        g = Group("Codec")
        inc_nz = os.path.join(tmp, "inc_nz")
        os.makedirs(inc_nz, exist_ok=True)
        vlib.make_config_h(os.path.join(inc_nz, "sc_config.h"), "off", False, False)
        I = [inc_nz] + incs(tmp)[1:]
        # --- libb64 value functions and tables
        fe = os.path.join(REPO, "libb64", "cencode.c")
        fd = os.path.join(REPO, "libb64", "cdecode.c")
        objs = c2g.clang_ast(fe, "base64_encode_value", I)
        fn, tt, tabs = lift_static_tables(c2g.find_function(objs, "base64_encode_value"), {"encoding": "base64_encoding_table"})
        g.text += tt
        t, i = c2g.translate_function(fn, tables=tabs)
        g.add(t, i)
        objs = c2g.clang_ast(fd, "base64_decode_value", I)
        fn, tt, tabs = lift_static_tables(c2g.find_function(objs, "base64_decode_value"), {"decoding": "base64_decoding_table"})
        g.text += tt
        t, i = c2g.translate_function(fn, tables=tabs)
        g.add(t, i)
        # --- sc_io.c without zlib
        fio = os.path.join(REPO, "src", "sc_io.c")
        objs = c2g.clang_ast(fio, "sc_io_adler32_update", I)
        t, i = c2g.translate_function(c2g.find_function(objs, "sc_io_adler32_update"), arrays=("buffer",))
        g.add(t, i)
        objs = c2g.clang_ast(fio, "sc_io_noncompress_bound", I)
        t, i = c2g.translate_function(c2g.find_function(objs, "sc_io_noncompress_bound"))
        g.add(t, i)
        # --- slices of the encoder
        objs = c2g.clang_ast(fio, "sc_io_encode_zlib", I)
        fenc = c2g.find_function(objs, "sc_io_encode_zlib")
        for var, gname, occ in (("base64_lines", "enc_base64_lines", 0), ("encoded_size", "enc_encoded_size", 0), ("lein", "enc_lein", 0)):
            t, i = c2g.translate_slice(fenc, var, gname, occurrence=occ)
            g.add(t, i)
        # --- slices of the decoder
        objs = c2g.clang_ast(fio, "sc_io_decode", I)
        fdec = [o for o in objs if o.get("kind") == "FunctionDecl" and o.get("name") == "sc_io_decode"
                and any(c.get("kind") == "CompoundStmt" for c in o.get("inner", []))]
        if not fdec:
            raise c2g.Unsupported("no definition of sc_io_decode")
        fdec = fdec[0]
        for var, gname, occ in (("base64_lines", "dec_base64_lines", 0), ("compressed_size", "dec_compressed_size", 0),
                                ("irem", "dec_irem", 0), ("lein", "dec_lein", 0)):
            t, i = c2g.translate_slice(fdec, var, gname, occurrence=occ)
            g.add(t, i)
        t, i = cond_slice(fdec, ("encoded_size", "base64_lines"), "dec_guard_short")
        g.add(t, i)
        # the guard of commit 5c6a588: a declared size that the compressed data cannot produce is refused
        t, i = cond_slice(fdec, ("encoded_size", "ocnt"), "dec_guard_ratio")
        g.add(t, i)
        return g, [fe, fd, fio]

    GROUPS["Codec"] = gen_codec
