"""Translator groups for C06/C07 (tie T1): pure integer leaf code of the codecs.

Group `Codec` (coq/Gen/Codec.v), regenerated from /repo on every run:
  * libb64: base64_encode_value / base64_decode_value with their local static tables;
  * sc_io.c (configuration WITHOUT zlib, where the functions exist): sc_io_adler32_update,
    sc_io_noncompress_bound;
  * expression slices of sc_io_encode_zlib (number of lines, text size, bytes per line) and of
    sc_io_decode (number of lines, size of the decode buffer, the guard that rejects an input too
    short to hold its line break, remaining code bytes, code bytes per line, the guard that rejects a
    declared size above 1032 times the compressed bytes).
The C07 safety theorem is stated about a model that calls these generated definitions, so an edit of
the index arithmetic in /repo changes the definitions the proof is checked against.

Group `EncodeC06` (coq/Gen/EncodeC06.v): the ENCODER side as statement slices (a straight-line block, a condition, or ONE
iteration of a loop; stores, calls and returns as ghost outputs): libb64/cencode.c (init, the three labelled groups of
base64_encode_block, the cases of base64_encode_blockend), sc_io_adler32_init, sc_io_noncompress, sc_io_encode,
sc_io_encode_zlib (both configurations, must agree outside the compression call), sc_vtk_write_binary,
sc_vtk_write_compressed.  Uses the desugaring add-on of groups_C07.py and the rewriting rules documented at `prep`;
the parameter list of every slice is fixed (EXPECT_PARAMS).  coq/C06/EncodeGen.v + EncodeRun.v prove the models equal.

Group `StaticC06` (coq/Gen/StaticC06.v): census of the objects with static storage duration in sc_puff.c, cencode.c,
cdecode.c with the functions that read / write / pass on each (see `census`); coq/C06/PuffProcess.v proves that it is
exactly the static cache of fixed () that the process model has.
"""
import os, copy, json, re


def register(GROUPS, c2g, incs, REPO, HERE, STRUCTS, Group):
    import vlib

    def walk(n, f):
        if isinstance(n, dict):
            f(n)
            for c in n.get("inner", []):
                walk(c, f)

    def lift_static_tables(fn, rename):
        """Local `static const` tables of a function: emitted as global Gallina tables (renamed), their
        declarations removed from the body; a `static const T n = (T) sizeof (table)` becomes the literal."""
        fn = copy.deepcopy(fn)
        body = [c for c in fn["inner"] if c.get("kind") == "CompoundStmt"][0]
        texts, tables, sizes = [], set(), {}
        keep = []
        for st in body.get("inner", []):
            if st.get("kind") == "DeclStmt" and all(d.get("storageClass") == "static" for d in st.get("inner", [])):
                done = True
                for d in st["inner"]:
                    name = d["name"]
                    qt = d.get("type", {}).get("qualType", "")
                    if name in rename:
                        t, info = c2g.translate_table(d, rename[name])
                        texts.append(t)
                        tables.add(rename[name])
                        esz = 1
                        sizes[name] = info["length"] * esz
                    else:
                        # scalar: sizeof (table) only
                        found = []
                        walk(d, lambda n: found.append(n) if n.get("kind") == "UnaryExprOrTypeTraitExpr" and n.get("name") == "sizeof" else None)
                        refs = []
                        walk(d, lambda n: refs.append(n["referencedDecl"]["name"]) if n.get("kind") == "DeclRefExpr" else None)
                        if len(found) == 1 and len(refs) == 1 and refs[0] in sizes:
                            d["inner"] = [{"kind": "IntegerLiteral", "value": str(sizes[refs[0]]), "type": {"qualType": "int"}}]
                            done = False
                        else:
                            raise c2g.Unsupported("static local %s of %s" % (name, fn["name"]))
                if done:
                    continue
            keep.append(st)
        body["inner"] = keep

        def ren(n):
            if n.get("kind") == "DeclRefExpr" and n.get("referencedDecl", {}).get("name") in rename:
                n["referencedDecl"]["name"] = rename[n["referencedDecl"]["name"]]
        walk(body, ren)
        return fn, "".join(texts), tables

    def cond_slice(fn, must_ref, gname):
        """The first `if` of the function body (outermost level) whose condition mentions all of
        `must_ref`: its condition as a boolean function of the free variables."""
        body = [c for c in fn["inner"] if c.get("kind") == "CompoundStmt"][0]
        for st in body.get("inner", []):
            if st.get("kind") != "IfStmt":
                continue
            refs = set()
            walk(st["inner"][0], lambda n: refs.add(n["referencedDecl"]["name"]) if n.get("kind") == "DeclRefExpr" else None)
            if set(must_ref) <= refs:
                T = c2g.Translator()
                T.fname = fn["name"] + "/guard"
                T.gname = gname
                T.free_as_params = True
                env = {}
                e = T.expr(st["inner"][0], env)
                # the guarded statement must leave the function (return / goto): otherwise it is no guard
                if not T.has_jump(st["inner"][1], ("ReturnStmt", "GotoStmt")):
                    raise c2g.Unsupported("guard %s does not leave the function" % gname)
                plist = " ".join("(%s : Z)" % p for p in T.params)
                return "Definition %s %s : bool :=\n%s.\n" % (gname, plist, e.b()), dict(name=gname, params=list(T.params), fuel=False)
        raise c2g.Unsupported("no guard on %s in %s" % (",".join(must_ref), fn["name"]))

    def gen_codec(tmp):
        g = Group("Codec")
        inc_nz = os.path.join(tmp, "inc_nz")
        os.makedirs(inc_nz, exist_ok=True)
        vlib.make_config_h(os.path.join(inc_nz, "sc_config.h"), "off", False, False)
        I = [inc_nz] + incs(tmp)[1:]
        # --- libb64 value functions and tables
        fe = os.path.join(REPO, "libb64", "cencode.c")
        fd = os.path.join(REPO, "libb64", "cdecode.c")
        objs = c2g.clang_ast(fe, "base64_encode_value", I)
        fn, tt, tabs = lift_static_tables(c2g.find_function(objs, "base64_encode_value"), {"encoding": "base64_encoding_table"})
        g.text += tt
        t, i = c2g.translate_function(fn, tables=tabs)
        g.add(t, i)
        objs = c2g.clang_ast(fd, "base64_decode_value", I)
        fn, tt, tabs = lift_static_tables(c2g.find_function(objs, "base64_decode_value"), {"decoding": "base64_decoding_table"})
        g.text += tt
        t, i = c2g.translate_function(fn, tables=tabs)
        g.add(t, i)
        # --- sc_io.c without zlib
        fio = os.path.join(REPO, "src", "sc_io.c")
        objs = c2g.clang_ast(fio, "sc_io_adler32_update", I)
        t, i = c2g.translate_function(c2g.find_function(objs, "sc_io_adler32_update"), arrays=("buffer",))
        g.add(t, i)
        objs = c2g.clang_ast(fio, "sc_io_noncompress_bound", I)
        t, i = c2g.translate_function(c2g.find_function(objs, "sc_io_noncompress_bound"))
        g.add(t, i)
        # --- slices of the encoder
        objs = c2g.clang_ast(fio, "sc_io_encode_zlib", I)
        fenc = c2g.find_function(objs, "sc_io_encode_zlib")
        for var, gname, occ in (("base64_lines", "enc_base64_lines", 0), ("encoded_size", "enc_encoded_size", 0), ("lein", "enc_lein", 0)):
            t, i = c2g.translate_slice(fenc, var, gname, occurrence=occ)
            g.add(t, i)
        # --- slices of the decoder
        objs = c2g.clang_ast(fio, "sc_io_decode", I)
        fdec = [o for o in objs if o.get("kind") == "FunctionDecl" and o.get("name") == "sc_io_decode"
                and any(c.get("kind") == "CompoundStmt" for c in o.get("inner", []))]
        if not fdec:
            raise c2g.Unsupported("no definition of sc_io_decode")
        fdec = fdec[0]
        for var, gname, occ in (("base64_lines", "dec_base64_lines", 0), ("compressed_size", "dec_compressed_size", 0),
                                ("irem", "dec_irem", 0), ("lein", "dec_lein", 0)):
            t, i = c2g.translate_slice(fdec, var, gname, occurrence=occ)
            g.add(t, i)
        t, i = cond_slice(fdec, ("encoded_size", "base64_lines"), "dec_guard_short")
        g.add(t, i)
        # the guard of commit 5c6a588: a declared size that the compressed data cannot produce is refused
        t, i = cond_slice(fdec, ("encoded_size", "ocnt"), "dec_guard_ratio")
        g.add(t, i)
        return g, [fe, fd, fio]

    GROUPS["Codec"] = gen_codec

    # --------------------------------------------------------------------------------------------------------
    # Group `EncodeC06` (coq/Gen/EncodeC06.v): the ENCODER side as slices
    # --------------------------------------------------------------------------------------------------------
    def c07_tools():
        """The desugaring add-on (x++ inside expressions, stores through pointers as ghost outputs, returns as ghost
        outputs, loop steps) is the one of tools/c2g/groups_C07.py, documented at the top of that file.  Its classes live
        inside groups_C07.register; they are taken from the closure of the registered group function, so that there is ONE
        copy of the add-on in the trusted base.  If that file is reorganised this group FAILS (tie reported as broken)."""
        f = GROUPS.get("DecodeC07")
        if f is None or not f.__closure__:
            raise c2g.Unsupported("EncodeC06 needs the desugaring add-on of groups_C07.py (group DecodeC07 not registered)")
        cl = dict(zip(f.__code__.co_freevars, [c.cell_contents for c in f.__closure__]))
        for need in ("Emitter", "Desugar", "ARRAYS", "TABLES", "stmts_of", "one"):
            if need not in cl:
                raise c2g.Unsupported("EncodeC06: groups_C07.py no longer provides %s" % need)
        return cl

    EXPECT_PARAMS = {'adler32_init': [],
     'b64e_codechar_init': ['code_out'],
     'b64e_end_return': ['codechar', 'code_out'],
     'b64e_end_step_A': [],
     'b64e_end_step_B': ['codechar', 'state_in_result'],
     'b64e_end_step_C': ['codechar', 'state_in_result'],
     'b64e_end_switch_on': ['state_in_step'],
     'b64e_enter': ['state_in_result'],
     'b64e_init': ['step_A'],
     'b64e_plainchar_init': ['plaintext_in'],
     'b64e_plaintextend_init': ['plaintext_in', 'length_in'],
     'b64e_step_A': ['pt_at', 'plainchar', 'plaintextend', 'result', 'step_A', 'codechar', 'code_out', 'fragment', 'state_in_result', 'state_in_step'],
     'b64e_step_B': ['pt_at', 'plainchar', 'plaintextend', 'result', 'step_B', 'codechar', 'code_out', 'fragment', 'state_in_result', 'state_in_step'],
     'b64e_step_C': ['pt_at', 'plainchar', 'plaintextend', 'result', 'step_C', 'codechar', 'code_out', 'fragment', 'state_in_stepcount', 'state_in_result', 'state_in_step'],
     'b64e_switch_on': ['state_in_step'],
     'b64e_unreachable_return': ['codechar', 'code_out'],
     'enc_compress_nz': ['input_size', 'compressed_array', 'original_size', 'data_array'],
     'enc_compress_z': ['input_size', 'compressBound_ret', 'compressed_array', 'original_size', 'data_array', 'zlib_compression_level', 'compress2_ret',
                        'input_compress_bound'],
     'enc_default_break': [],
     'enc_default_level': [],
     'enc_finish': [],
     'enc_input_size': ['out', 'data_elem_count', 'data_elem_size'],
     'enc_line_init': [],
     'enc_line_step': ['zlin', 'base64_lines', 'opos', 'ipos', 'irem', 'lout', 'base_out', 'base64_encode_block_ret', 'line_break_character', 'base64_encode_blockend_ret'],
     'enc_prepare': ['out', 'data', 'input_compress_bound', 'compressed_array', 'out_array'],
     'enc_size_init': [],
     'enc_size_step': ['i', 'input_size'],
     'nonc_block': ['src_size', 'bsize', 'dest', 'dest_size', 'src', 'adler'],
     'nonc_header': ['dest', 'dest_size'],
     'nonc_trailer': ['dest', 'adler'],
     'vtkb_chunk_step': ['remaining', 'writenow', 'base_length', 'chunks', 'chunksize', 'numeric_data', 'base_data', 'base64_encode_block_ret', 'vtkfile'],
     'vtkb_finish': ['base_data', 'base64_encode_blockend_ret', 'vtkfile', 'sc_package_id', 'ferror_ret'],
     'vtkb_header': ['byte_length', 'sc_package_id', 'sc_malloc_ret', 'addr_of_int_header', 'base64_encode_block_ret', 'vtkfile'],
     'vtkc_block_init': [],
     'vtkc_block_step': ['theblock', 'numregularblocks', 'comp_length', 'compress2_in_comp_length', 'retval', 'base_length', 'code_length', 'comp_data', 'numeric_data',
                         'blocksize', 'compress2_ret', 'base_data', 'base64_encode_block_ret', 'vtkfile'],
     'vtkc_dummy_header': ['compression_header', 'header_size', 'base_data', 'base64_encode_block_ret', 'base64_encode_blockend_ret', 'vtkfile', 'ftell_ret'],
     'vtkc_finish': ['base_data', 'base64_encode_blockend_ret', 'vtkfile', 'ftell_ret', 'compression_header', 'header_size', 'base64_encode_block_ret',
                     'base64_encode_blockend2_ret', 'header_pos', 'fseek_ret', 'fseek2_ret', 'sc_package_id', 'comp_data', 'ferror_ret'],
     'vtkc_has_last': ['lastsize'],
     'vtkc_last_block': ['code_length', 'comp_data', 'numeric_data', 'theblock', 'blocksize', 'lastsize', 'compress2_ret', 'comp_length', 'base_data',
                         'base64_encode_block_ret', 'vtkfile'],
     'vtkc_sizes': ['byte_length', 'sc_package_id', 'sc_malloc_ret', 'sc_malloc2_ret', 'sc_malloc3_ret'],
     'vtkc_zero_init': [],
     'vtkc_zero_step': ['iz', 'header_entries']}

    def gen_encode(tmp):
        import slicelib as sl
        X = c07_tools()
        Emitter, Desugar, ARRAYS, TABLES, stmts_of, one = X["Emitter"], X["Desugar"], X["ARRAYS"], X["TABLES"], X["stmts_of"], X["one"]
        g = Group("EncodeC06")
        fe = os.path.join(REPO, "libb64", "cencode.c")
        fio = os.path.join(REPO, "src", "sc_io.c")
        inc_nz = os.path.join(tmp, "inc_nz6")
        os.makedirs(inc_nz, exist_ok=True)
        vlib.make_config_h(os.path.join(inc_nz, "sc_config.h"), "off", False, False)
        Inz = [inc_nz] + incs(tmp)[1:]
        ARRAYS.clear()
        ARRAYS.update(("pt_at", "code_at"))
        TABLES.clear()
        g.text += "From ScV Require Import Gen.Codec.\n\n"
        KF = {"base64_encode_value": ("base64_encode_value", False)}

        # ---------------- libb64/cencode.c
        E = Emitter(g, fe, Inz)
        E.kw = dict(enum_params=True, known_funcs=KF)

        def enum_type(x):
            # the enumeration base64_encodestep has no negative enumerator: its underlying type is unsigned int
            t_ = x.get("type")
            if isinstance(t_, dict) and t_.get("qualType") == "base64_encodestep":
                x["type"] = {"qualType": "unsigned int"}
        PR = {"plainchar": "pt_at", "codechar": "code_at"}
        KEEP = ("base64_encode_value",)

        def D(fname):
            return Desugar(fname, PR, keep_calls=KEEP)
        # base64_init_encodestate
        F = E.fn("base64_init_encodestate")
        sl.walk(F, enum_type)
        E.emit(stmts_of(E.body("base64_init_encodestate")), "b64e_init", "base64_init_encodestate", D=D("base64_init_encodestate"),
               comment="step_A = the enumerator")
        # base64_encode_block: `switch (step) { while (1) { case step_A: .. case step_B: .. case step_C: .. } }`
        F = E.fn("base64_encode_block")
        sl.walk(F, enum_type)
        B = stmts_of(E.body("base64_encode_block"))
        sw = one([s for s in B if s.get("kind") == "SwitchStmt"], "encode_block: switch")
        E.emit([s for s in B[:B.index(sw)] if s.get("kind") != "DeclStmt"], "b64e_enter", "base64_encode_block", D=D("base64_encode_block"),
               comment="result = state_in->result")
        dl = [d for s in B[:B.index(sw)] if s.get("kind") == "DeclStmt" for d in s["inner"]]
        for d in dl:
            init = [c for c in d.get("inner", []) if isinstance(c, dict) and "kind" in c]
            if init:
                t, i = sl.emit_expr(init[0], "b64e_%s_init" % d["name"], "base64_encode_block", want_params=None,
                                    comment="initial value of %s (pointers as integers)" % d["name"])
                g.add(t, i)
        t, i = sl.emit_expr(sw["inner"][0], "b64e_switch_on", "base64_encode_block", want_params=["state_in_step"], comment="the value the switch dispatches on")
        g.add(t, i)
        swb = stmts_of(sw["inner"][1])
        wl = one([s for s in swb if s.get("kind") == "WhileStmt"], "encode_block: while (1)")
        if len(swb) != 1 or not (sl.strip(wl["inner"][0]).get("kind") == "IntegerLiteral" and sl.strip(wl["inner"][0]).get("value") == "1"):
            raise c2g.Unsupported("encode_block: the switch body is not a single `while (1)`")
        groups, cur = [], None
        for st in stmts_of(wl["inner"][1]):
            if st.get("kind") == "CaseStmt":
                lab = sl.refs(st["inner"][0])
                if len(lab) != 1:
                    raise c2g.Unsupported("encode_block: case label")
                cur = [sorted(lab)[0], [st["inner"][-1]]]
                groups.append(cur)
            elif cur is None:
                raise c2g.Unsupported("encode_block: statement before the first case label")
            else:
                cur[1].append(st)
        if [x[0] for x in groups] != ["step_A", "step_B", "step_C"]:
            raise c2g.Unsupported("encode_block: case labels %s" % [x[0] for x in groups])
        for lab, sts in groups:
            # the statements from one case label to the next: fall through into the next label (stop = 0), or return
            E.emit(sts, "b64e_%s" % lab, "base64_encode_block", D=D("base64_encode_block"),
                   comment="the statements from `case %s:` to the next label (the last group falls back to step_A by `while (1)`): "
                           "end of input (state saved, return) or one plaintext byte; pt_at p = the char at plaintext pointer p" % lab)
        rest = B[B.index(sw) + 1:]
        E.emit(rest, "b64e_unreachable_return", "base64_encode_block", D=D("base64_encode_block"), comment="behind the switch")
        # base64_encode_blockend: one slice per case of the switch, the statements behind it
        F = E.fn("base64_encode_blockend")
        sl.walk(F, enum_type)
        B = stmts_of(E.body("base64_encode_blockend"))
        sw = one([s for s in B if s.get("kind") == "SwitchStmt"], "encode_blockend: switch")
        t, i = sl.emit_expr(sw["inner"][0], "b64e_end_switch_on", "base64_encode_blockend", want_params=["state_in_step"])
        g.add(t, i)
        groups, cur = [], None
        for st in stmts_of(sw["inner"][1]):
            if st.get("kind") == "CaseStmt":
                lab = sl.refs(st["inner"][0])
                if len(lab) != 1:
                    raise c2g.Unsupported("encode_blockend: case label")
                if cur is not None and cur[1][-1].get("kind") != "BreakStmt":
                    raise c2g.Unsupported("encode_blockend: fall through between cases")
                cur = [sorted(lab)[0], [st["inner"][-1]]]
                groups.append(cur)
            elif cur is None:
                raise c2g.Unsupported("encode_blockend: statement before the first case label")
            else:
                cur[1].append(st)
        if sorted(x[0] for x in groups) != ["step_A", "step_B", "step_C"] or groups[-1][1][-1].get("kind") != "BreakStmt":
            raise c2g.Unsupported("encode_blockend: case labels %s" % [x[0] for x in groups])
        for lab, sts in groups:
            if any(sl.find_nodes(x, lambda n: n.get("kind") == "BreakStmt") for x in sts[:-1]):
                raise c2g.Unsupported("encode_blockend: break in the middle of a case")
            E.emit(sts[:-1], "b64e_end_%s" % lab, "base64_encode_blockend", D=D("base64_encode_blockend"),
                   comment="case %s of the switch, without its break" % lab)
        E.emit([s for s in B[B.index(sw) + 1:]], "b64e_end_return", "base64_encode_blockend", D=D("base64_encode_blockend"),
               comment="behind the switch (SC_BASE64_WRAP undefined: no newline)")
        pre = [s for s in B[:B.index(sw)] if s.get("kind") != "DeclStmt"]
        if pre:
            raise c2g.Unsupported("encode_blockend: statements in front of the switch")

        # ---------------- src/sc_io.c: rewriting rules applied to the AST before the desugaring (each a C identity)
        #  * `(void) f (..);`  ==>  `f (..);`
        #  * SC_CHECK_ABORT / SC_ABORT statements are dropped (slicelib convention: the executions that do not abort)
        #  * `p[k]` for a `char *` VARIABLE p in MOVING (a pointer the function advances): `mem[(size_t) p + k]`, the byte at
        #    address p + k (so that a store is recorded with its absolute address: ghost outputs mem_widx, mem_wval)
        #  * `(char *) &x` passed as a data pointer: the symbolic address `addr_of_x`
        #  * `x += f (..);`  ==>  `f_value = f (..); x += f_value;`
        #  * `f (.., &x, ..)` with x an integer variable: `f_in_x = x;` is put in front (the value passed in by address becomes an output)
        MOVING = ("dest", "opos")
        SZ = {"qualType": "size_t", "desugaredQualType": "unsigned long"}
        AB = sl.SliceT()

        def prep_expr(n):
            if not isinstance(n, dict):
                return n
            if n.get("kind") == "ArraySubscriptExpr":
                b = sl.strip(n["inner"][0])
                if b.get("kind") == "DeclRefExpr" and b["referencedDecl"]["name"] in MOVING and \
                        c2g.strip_quals(c2g.tystr(b)) in ("char *", "unsigned char *"):
                    idx = prep_expr(n["inner"][1])
                    if c2g.int_type(c2g.strip_quals(c2g.tystr(idx))) != (False, 64):
                        idx = {"kind": "ImplicitCastExpr", "castKind": "IntegralCast", "type": SZ, "inner": [idx]}
                    addr = {"kind": "BinaryOperator", "opcode": "+", "type": SZ, "inner": [
                        {"kind": "CStyleCastExpr", "castKind": "PointerToIntegral", "type": SZ, "inner": [n["inner"][0]]}, idx]}
                    return dict(n, inner=[{"kind": "DeclRefExpr", "referencedDecl": {"name": "mem", "kind": "VarDecl"}, "type": {"qualType": "char *"}}, addr])
            if n.get("kind") in ("CStyleCastExpr", "ImplicitCastExpr") and n.get("castKind") in ("BitCast", "NoOp"):
                t = sl.strip(n)
                if t.get("kind") == "UnaryOperator" and t.get("opcode") == "&" and sl.strip(t["inner"][0]).get("kind") == "DeclRefExpr" and \
                        c2g.int_type(c2g.strip_quals(c2g.tystr(sl.strip(t["inner"][0])))) is not None:
                    return {"kind": "DeclRefExpr", "referencedDecl": {"name": "addr_of_" + sl.strip(t["inner"][0])["referencedDecl"]["name"], "kind": "VarDecl"},
                            "type": {"qualType": "char *"}}
            if "inner" in n:
                return dict(n, inner=[prep_expr(c) for c in n["inner"]])
            return n

        def prep(st):
            """statement -> list of statements"""
            k = st.get("kind")
            if AB.is_abort(st):
                return []
            if k == "CompoundStmt":
                return [dict(st, inner=[y for c in st.get("inner", []) for y in prep(c)])]
            if k == "CStyleCastExpr" and st.get("castKind") == "ToVoid" and c2g.skip_parens(st["inner"][0]).get("kind") == "CallExpr":
                return [prep_expr(c2g.skip_parens(st["inner"][0]))]
            if k in ("IfStmt", "WhileStmt", "DoStmt", "ForStmt"):
                inner = []
                for c in st["inner"]:
                    if isinstance(c, dict) and c.get("kind") in ("CompoundStmt", "IfStmt", "WhileStmt", "DoStmt", "ForStmt") or \
                            (isinstance(c, dict) and c.get("kind") == "CStyleCastExpr" and c.get("castKind") == "ToVoid"):
                        r = prep(c)
                        inner.append(r[0] if len(r) == 1 else {"kind": "CompoundStmt", "inner": r})
                    else:
                        inner.append(prep_expr(c))
                return [dict(st, inner=inner)]
            if k == "CompoundAssignOperator" and sl.strip(st["inner"][1]).get("kind") == "CallExpr":
                # `x += f (..);`  ==>  `f_value = f (..); x += f_value;`  (x is not an argument's side effect; f does not see x)
                call = sl.strip(st["inner"][1])
                tmpv = {"kind": "DeclRefExpr", "referencedDecl": {"name": sl.callee_name(call) + "_value", "kind": "VarDecl"}, "type": call["type"]}
                return [{"kind": "BinaryOperator", "opcode": "=", "type": call["type"], "inner": [tmpv, prep_expr(st["inner"][1])]},
                        dict(st, inner=[st["inner"][0], {"kind": "ImplicitCastExpr", "castKind": "LValueToRValue", "type": call["type"], "inner": [tmpv]}])]
            call = None
            if k == "CallExpr":
                call = st
            elif k == "BinaryOperator" and st.get("opcode") == "=" and sl.strip(st["inner"][1]).get("kind") == "CallExpr":
                call = sl.strip(st["inner"][1])
            pre_ = []
            if call is not None:
                # `f (.., &x, ..)` with x an integer variable: the value passed in by address is recorded (`f_in_x = x;` in front)
                for a in call["inner"][1:]:
                    a_ = sl.strip(a)
                    if a_.get("kind") == "UnaryOperator" and a_.get("opcode") == "&" and sl.strip(a_["inner"][0]).get("kind") == "DeclRefExpr":
                        x_ = sl.strip(a_["inner"][0])
                        if c2g.int_type(c2g.strip_quals(c2g.tystr(x_))) is not None and a.get("kind") != "CStyleCastExpr":
                            gv = {"kind": "DeclRefExpr", "referencedDecl": {"name": "%s_in_%s" % (sl.callee_name(call), x_["referencedDecl"]["name"]), "kind": "VarDecl"}, "type": x_["type"]}
                            pre_.append({"kind": "BinaryOperator", "opcode": "=", "type": x_["type"], "inner": [
                                gv, {"kind": "ImplicitCastExpr", "castKind": "LValueToRValue", "type": x_["type"], "inner": [x_]}]})
            return pre_ + [prep_expr(st)]

        def body_of(E_, name):
            return [y for c in stmts_of(E_.body(name)) if c.get("kind") != "DeclStmt" for y in prep(c)]

        EFFECTS = ("memcpy", "sc_io_adler32_update", "sc_io_adler32_init", "sc_array_init_count", "sc_io_noncompress", "sc_array_resize", "sc_array_reset",
                   "base64_init_encodestate", "base64_encode_block", "base64_encode_blockend", "compressBound", "compress2", "sc_malloc", "sc_free",
                   "fwrite", "ftell", "fseek")
        KEEP2 = EFFECTS + ("sc_io_noncompress_bound", "ferror")
        KF2 = {"sc_io_noncompress_bound": ("sc_io_noncompress_bound", False)}
        KW = dict(known_funcs=KF2, effects=EFFECTS, effect_called=True, symbolic_calls=("ferror",),
                  elem_ptr_types=("Bytef *", "const Bytef *"))
        ARRAYS.update(("mem", "original_size", "base_data", "compression_header"))

        class Desugar2(Desugar):
            """a kept call at statement level stays a statement (groups_C07's Desugar has no such calls and drops the value)"""

            def ds(self, s_):
                if s_.get("kind") == "CallExpr" and sl.callee_name(s_) in self.keep_calls:
                    e_, pre_, post_ = self.dx(s_, s_)
                    return pre_ + [e_] + post_
                return super().ds(s_)

        def D2(fname):
            return Desugar2(fname, {}, keep_calls=KEEP2)

        EC = dict(zip(Emitter.emit.__code__.co_freevars, [c.cell_contents for c in (Emitter.emit.__closure__ or ())]))
        if "assigned_order" not in EC:
            raise c2g.Unsupported("EncodeC06: groups_C07.py no longer provides assigned_order")

        def emit2(E_, stmts, gname, fname, comment="", raw=False, Dx=None, drop=()):
            """as Emitter.emit of groups_C07.py, with the ghost outputs of the CALLS (slicelib `effects`) in front"""
            Dx = Dx or D2(fname)
            ds = list(stmts) if raw else [y for s_ in stmts for y in Dx.ds(s_)]
            locs = [k_ for k_ in EC["assigned_order"](ds) if k_ not in Dx.ghosts and k_ not in drop]
            outs = ["*ghosts"] + Dx.ghosts + locs + ["stop"]
            init = dict((gh, "0") for gh in Dx.ghosts)
            t, i = sl.emit_block(ds, gname, outs, fname, init=init, jumps_end=True, comment=comment,
                                 array_reads=tuple(sorted((Dx.arrays_read | set(Dx.stores)) - TABLES)), drop_calls=("sc_log", "sc_logf"), **E_.kw)
            t = t.replace(" *)\nDefinition", "; returns (%s) *)\nDefinition" % ", ".join(i["outputs"]), 1)
            if gname in E_.names:
                raise c2g.Unsupported("duplicate slice name " + gname)
            E_.names.append(gname)
            g.add(t, i)
            return i

        # ---------------- sc_io_adler32_init, sc_io_noncompress (configuration without zlib)
        E = Emitter(g, fio, Inz)
        E.kw = dict(KW)
        emit2(E, body_of(E, "sc_io_adler32_init"), "adler32_init", "sc_io_adler32_init", comment="*adler = 1")
        N = [s_ for s_ in body_of(E, "sc_io_noncompress") if "sc_io_adler32_init_in_adler" not in sl.refs(s_)]   # adler is not initialised before
        do = one([s for s in N if s.get("kind") == "DoStmt"], "noncompress: loop")
        kd = N.index(do)
        if not (kd >= 1 and N[kd - 1].get("kind") == "CallExpr" and sl.callee_name(N[kd - 1]) == "sc_io_adler32_init" and
                sl.SliceT().addr_of_var(N[kd - 1]["inner"][1]) == "adler"):
            raise c2g.Unsupported("noncompress: sc_io_adler32_init (&adler) is not the statement in front of the loop")
        emit2(E, N[:kd - 1], "nonc_header", "sc_io_noncompress",
               comment="zlib header bytes; mem a = the byte at address a")
        Dn = D2("sc_io_noncompress")
        emit2(E, Dn.loop_step(do), "nonc_block", "sc_io_noncompress", Dx=Dn, raw=True,
               comment="one iteration of the do loop: block header, copy, checksum, `while (src_size > 0)`; adler is passed by address to "
                       "sc_io_adler32_update (Gen/Codec.v)")
        emit2(E, N[kd + 1:], "nonc_trailer", "sc_io_noncompress", comment="the four checksum bytes, big endian")

        # ---------------- sc_io_encode / sc_io_encode_zlib, both configurations
        Ez = Emitter(g, fio, incs(tmp))
        Ez.kw = dict(KW)
        c = one(sl.find_nodes(E.body("sc_io_encode"), lambda n: n.get("kind") == "CallExpr"), "sc_io_encode: call")
        if sl.callee_name(c) != "sc_io_encode_zlib" or [sl.strip(a).get("referencedDecl", {}).get("name") for a in c["inner"][1:3]] != ["data", "out"]:
            raise c2g.Unsupported("sc_io_encode does not call sc_io_encode_zlib (data, out, ..)")
        for k_, nm in ((3, "enc_default_level"), (4, "enc_default_break")):
            t, i = sl.emit_expr(c["inner"][k_], nm, "sc_io_encode", want_params=[])
            g.add(t, i)

        def encode_parts(E_, tag):
            T_ = body_of(E_, "sc_io_encode_zlib")
            fl = [s_ for s_ in T_ if s_.get("kind") == "ForStmt"]
            if len(fl) != 2:
                raise c2g.Unsupported("sc_io_encode_zlib: %d loops" % len(fl))
            k1, k2 = T_.index(fl[0]), T_.index(fl[1])
            cut = [k_ for k_, s_ in enumerate(T_) if s_.get("kind") == "IfStmt" and sl.refs(s_["inner"][0]) == {"out"} and k1 < k_ < k2]
            if len(cut) != 1:
                raise c2g.Unsupported("sc_io_encode_zlib: no single `if (out == NULL)` between the loops")
            parts = []
            names0 = list(E_.names)

            def part(stmts, nm, comment, step=None):
                Dx = D2("sc_io_encode_zlib")
                if step is not None:
                    stmts = Dx.loop_step(step)
                G_ = Group("tmp")
                saved = E_.g, g.text, list(g.infos)
                i = emit2(E_, stmts, nm, "sc_io_encode_zlib", comment=comment, Dx=Dx, raw=step is not None)
                parts.append((nm, g.text[len(saved[1]):], i))
                g.text, g.infos[:] = saved[1], saved[2]
                E_.names.remove(nm)
            part(T_[:k1], "enc_input_size", "the asserts are compiled out; input_size")
            part([fl[0]["inner"][0]], "enc_size_init", "")
            part(None, "enc_size_step", "one iteration of the size loop: big-endian byte i of input_size", step=fl[0])
            part(T_[k1 + 1:cut[0]], "enc_compress_" + tag, "the format letter, the compression bound, the temporary array, the compression call")
            part(T_[cut[0]:k2], "enc_prepare", "output array, sizes, resize, encoder state, the NUL of an empty text")
            part([fl[1]["inner"][0]], "enc_line_init", "")
            part(None, "enc_line_step", "one iteration of the line loop (mem a = the byte at address a)", step=fl[1])
            part(T_[k2 + 1:], "enc_finish", "free the temporary array")
            return parts
        pz, pn = encode_parts(Ez, "z"), encode_parts(E, "nz")
        for (nm1, t1, i1), (nm2, t2, i2) in zip(pz, pn):
            if nm1 == nm2:
                if t1 != t2:
                    raise c2g.Unsupported("sc_io_encode_zlib: slice %s differs between the configurations with and without zlib" % nm1)
                g.add(t2.rstrip("\n") + "\n", i2)
            else:
                g.add(t2.rstrip("\n") + "\n", i2)
                g.add(t1.rstrip("\n") + "\n", i1)

        # ---------------- sc_vtk_write_binary (identical in both configurations: checked), sc_vtk_write_compressed (with zlib)
        def vtkb_parts(E_):
            V = body_of(E_, "sc_vtk_write_binary")
            wl = one([s_ for s_ in V if s_.get("kind") == "WhileStmt"], "sc_vtk_write_binary: loop")
            kw_ = V.index(wl)
            t0, n0 = g.text, len(g.infos)
            emit2(E_, V[:kw_], "vtkb_header", "sc_vtk_write_binary",
                  comment="chunk size, length word, buffer, encoder state, the length word encoded; addr_of_int_header = (char *) &int_header")
            Dx = D2("sc_vtk_write_binary")
            emit2(E_, Dx.loop_step(wl), "vtkb_chunk_step", "sc_vtk_write_binary", Dx=Dx, raw=True, comment="one iteration of `while (remaining > 0)`")
            emit2(E_, V[kw_ + 1:], "vtkb_finish", "sc_vtk_write_binary", comment="end of the base-64 stream, free, return value")
            txt, infos = g.text[len(t0):], g.infos[n0:]
            g.text = t0
            del g.infos[n0:]
            for nm in ("vtkb_header", "vtkb_chunk_step", "vtkb_finish"):
                E_.names.remove(nm)
            return txt, infos
        tz, iz_ = vtkb_parts(Ez)
        tn, in_ = vtkb_parts(E)
        if tz != tn:
            raise c2g.Unsupported("sc_vtk_write_binary differs between the configurations with and without zlib")
        g.text += tz
        g.infos += iz_

        W = body_of(Ez, "sc_vtk_write_compressed")
        fl = [s_ for s_ in W if s_.get("kind") == "ForStmt"]
        if len(fl) != 2:
            raise c2g.Unsupported("sc_vtk_write_compressed: %d loops at the top level" % len(fl))
        k1, k2 = W.index(fl[0]), W.index(fl[1])
        emit2(Ez, W[:k1], "vtkc_sizes", "sc_vtk_write_compressed", comment="block sizes, buffers, the first three header words")
        emit2(Ez, [fl[0]["inner"][0]], "vtkc_zero_init", "sc_vtk_write_compressed")
        Dx = D2("sc_vtk_write_compressed")
        emit2(Ez, Dx.loop_step(fl[0]), "vtkc_zero_step", "sc_vtk_write_compressed", Dx=Dx, raw=True, comment="one iteration of the loop that clears the size words")
        emit2(Ez, W[k1 + 1:k2], "vtkc_dummy_header", "sc_vtk_write_compressed", comment="the dummy header is encoded and written, the encoder state is initialised again")
        emit2(Ez, [fl[1]["inner"][0]], "vtkc_block_init", "sc_vtk_write_compressed")
        Dx = D2("sc_vtk_write_compressed")
        emit2(Ez, Dx.loop_step(fl[1]), "vtkc_block_step", "sc_vtk_write_compressed", Dx=Dx, raw=True,
              comment="one regular block: compress2 (its output length is comp_length afterwards), size word, encode, write")
        tail = W[k2 + 1:]
        if not tail or tail[0].get("kind") != "IfStmt" or sl.refs(tail[0]["inner"][0]) != {"lastsize"} or len(tail[0]["inner"]) != 2:
            raise c2g.Unsupported("sc_vtk_write_compressed: no `if (lastsize > 0)` without else behind the block loop")
        t, i = sl.emit_cond(tail[0]["inner"][0], "vtkc_has_last", "sc_vtk_write_compressed", want_params=["lastsize"])
        g.add(t, i)
        emit2(Ez, [tail[0]["inner"][1]], "vtkc_last_block", "sc_vtk_write_compressed", comment="the odd-sized last block")
        emit2(Ez, tail[1:], "vtkc_finish", "sc_vtk_write_compressed", comment="end of the data stream, the real header written over the dummy, clean up, return value")
        # the theorems apply the generated definitions BY POSITION: the parameter list of every slice is fixed here, so that an edit which
        # replaces one variable by another (and would only rename a parameter) makes the group fail instead of passing unnoticed
        got = dict((i_["name"], list(i_.get("params") or [])) for i_ in g.infos)
        if got != EXPECT_PARAMS:
            bad = sorted(k_ for k_ in set(got) | set(EXPECT_PARAMS) if got.get(k_) != EXPECT_PARAMS.get(k_))
            raise c2g.Unsupported("EncodeC06: the free variables of slice(s) %s changed: %s, expected %s" % (
                ", ".join(bad), [got.get(k_) for k_ in bad], [EXPECT_PARAMS.get(k_) for k_ in bad]))
        return g, [fe, fio]

    GROUPS["EncodeC06"] = gen_encode

    # --------------------------------------------------------------------------------------------------------
    # Group `StaticC06` (coq/Gen/StaticC06.v): census of the objects with static storage duration
    # --------------------------------------------------------------------------------------------------------
    def census(cfile, I):
        """Every variable DEFINITION with static storage duration in the translation unit of cfile (file scope, or `static` inside a
        function), in source order: (name, function it is local to or "", is its type const-qualified, sites) where sites is the
        list without repetitions, in source order, of (function, kind, guard):
          kind  = "read"  the value (of the variable, one of its members or elements) is read
                  "write" it (a member, an element) is the target of = / op= / ++ / --
                  "arg:<callee>:const|mut" its address (or the array) is passed to <callee> whose parameter is a pointer to const / non-const
                  "escape" its address is taken, or the array decays to a pointer, in any other way (e.g. stored into a pointer)
          guard = v if the site lies in the then-branch of `if (v)` for a variable v with static storage duration, else "".
        Whatever does not fit (a reference the classification does not understand) is recorded as kind "unknown"."""
        import subprocess
        cmd = ["clang", "-fsyntax-only", "-w"] + ["-I" + i for i in I] + ["-Xclang", "-ast-dump=json", cfile]
        p = subprocess.run(cmd, stdout=subprocess.PIPE, stderr=subprocess.PIPE)
        if p.returncode != 0:
            raise c2g.Unsupported("clang failed on %s: %s" % (cfile, p.stderr.decode()[-300:]))
        tu = json.loads(p.stdout.decode())
        statics = {}          # id -> [name, function, const, sites]
        order = []

        def is_const(q):
            q = q.strip()
            # the object itself is const: `const T x`, `const T x[n]`, `T *const x`; not `const T *x`
            if q.endswith("]"):
                q = q[:q.index("[")].strip()
            if q.endswith("*const") or q.endswith("* const"):
                return True
            if "*" in q:
                return False
            return bool(re.search(r"\bconst\b", q))

        def add(d, fn):
            statics[d["id"]] = [d["name"], fn, is_const(d["type"]["qualType"]), []]
            order.append(d["id"])

        def find_statics(n, fn):
            for c in n.get("inner", []):
                if not isinstance(c, dict):
                    continue
                if c.get("kind") == "VarDecl" and c.get("storageClass") == "static":
                    add(c, fn)
                find_statics(c, fn)
        funcs = []
        for o in tu.get("inner", []):
            if o.get("kind") == "VarDecl" and not (o.get("storageClass") == "extern" and "init" not in o):
                add(o, "")
            if o.get("kind") == "FunctionDecl" and any(c.get("kind") == "CompoundStmt" for c in o.get("inner", [])):
                funcs.append(o)
                find_statics(o, o["name"])

        def callee_param_const(call, argi):
            cal = call["inner"][0]
            while cal.get("kind") in ("ImplicitCastExpr", "ParenExpr"):
                cal = cal["inner"][0]
            name = cal.get("referencedDecl", {}).get("name", "?")
            q = cal.get("referencedDecl", {}).get("type", {}).get("qualType", "")
            m = re.match(r"^.*?\((.*)\)$", q)
            ps = [x.strip() for x in m.group(1).split(",")] if m else []
            if argi < len(ps) and re.match(r"^const\b[^*]*\*$", ps[argi]):
                return name, "const"
            return name, "mut"

        def visit(n, fn, guard, parents):
            if not isinstance(n, dict):
                return
            k = n.get("kind")
            if k == "DeclRefExpr" and n.get("referencedDecl", {}).get("id") in statics:
                ent = statics[n["referencedDecl"]["id"]]
                # climb: members, subscripts (through the decay of the array itself), parentheses
                i = len(parents) - 1
                cur = n
                kind = None
                while i >= 0:
                    p_ = parents[i]
                    pk = p_.get("kind")
                    if pk == "ParenExpr" or (pk == "MemberExpr" and not p_.get("isArrow")):
                        cur, i = p_, i - 1
                        continue
                    if pk == "ImplicitCastExpr" and p_.get("castKind") == "ArrayToPointerDecay" and i >= 1 and \
                            parents[i - 1].get("kind") == "ArraySubscriptExpr" and parents[i - 1]["inner"][0] is p_:
                        cur, i = parents[i - 1], i - 2
                        continue
                    break
                p_ = parents[i] if i >= 0 else {}
                pk = p_.get("kind")
                if pk == "ImplicitCastExpr" and p_.get("castKind") == "LValueToRValue":
                    kind = "read"
                elif pk in ("BinaryOperator", "CompoundAssignOperator") and (p_.get("opcode") == "=" or pk == "CompoundAssignOperator") and p_["inner"][0] is cur:
                    kind = "write"
                elif pk == "UnaryOperator" and p_.get("opcode") in ("++", "--"):
                    kind = "write"
                elif pk == "UnaryExprOrTypeTraitExpr":
                    kind = "read"       # sizeof
                elif (pk == "UnaryOperator" and p_.get("opcode") == "&") or (pk == "ImplicitCastExpr" and p_.get("castKind") == "ArrayToPointerDecay"):
                    # where does the pointer go?
                    j, node = i - 1, p_
                    while j >= 0 and parents[j].get("kind") in ("ImplicitCastExpr", "CStyleCastExpr", "ParenExpr"):
                        node, j = parents[j], j - 1
                    if j >= 0 and parents[j].get("kind") == "CallExpr" and node in parents[j]["inner"][1:]:
                        kind = "arg:%s:%s" % callee_param_const(parents[j], parents[j]["inner"].index(node) - 1)
                    else:
                        kind = "escape"
                else:
                    kind = "unknown"
                site = (fn, kind, guard)
                if site not in ent[3]:
                    ent[3].append(site)
                return
            if k == "IfStmt":
                cond = n["inner"][0]
                c0 = cond
                while c0.get("kind") in ("ImplicitCastExpr", "ParenExpr"):
                    c0 = c0["inner"][0]
                visit(cond, fn, guard, parents + [n])
                g2 = guard
                if c0.get("kind") == "DeclRefExpr" and c0.get("referencedDecl", {}).get("id") in statics:
                    g2 = statics[c0["referencedDecl"]["id"]][0]
                visit(n["inner"][1], fn, g2, parents + [n])
                for c in n["inner"][2:]:
                    visit(c, fn, guard, parents + [n])
                return
            for c in n.get("inner", []):
                visit(c, fn, guard, parents + [n])
        for F in funcs:
            visit(F, F["name"], "", [])
        return [tuple(statics[i][:3]) + (statics[i][3],) for i in order]

    def gen_static(tmp):
        g = Group("StaticC06")
        inc_nz = os.path.join(tmp, "inc_nzs")
        os.makedirs(inc_nz, exist_ok=True)
        vlib.make_config_h(os.path.join(inc_nz, "sc_config.h"), "off", False, False)
        I = [inc_nz] + incs(tmp)[1:]
        g.text += "From Coq Require Import String.\nLocal Open Scope string_scope.\n\n"
        g.text += "(* (variable, function it is local to, const-qualified object, [(function, kind of use, guard)]): see tools/c2g/groups_C06.py `census` *)\n"
        g.text += "Definition census_t := list (string * string * bool * list (string * string * string)).\n\n"
        files = []
        for nm, rel in (("puff", ("src", "sc_puff.c")), ("cencode", ("libb64", "cencode.c")), ("cdecode", ("libb64", "cdecode.c"))):
            f = os.path.join(REPO, *rel)
            files.append(f)
            cs = census(f, I)
            rows = []
            for (v, fn, cst, sites) in cs:
                rows.append('  ("%s", "%s", %s, [%s])' % (v, fn, "true" if cst else "false", "; ".join('("%s", "%s", "%s")' % s_ for s_ in sites)))
            g.add("Definition %s_static_census : census_t :=\n[%s].\n" % (nm, ";\n".join(rows).lstrip()), dict(name=nm + "_static_census", entries=len(cs)))
        return g, files

    GROUPS["StaticC06"] = gen_static
