"""Helpers shared by the slice groups of C10 / C11 / C15 (tools/c2g/groups_C10.py, groups_C11.py, groups_C15.py).

`SliceT` is an ADD-ON to c2g.Translator (nothing in c2g.py is changed); it accepts a few more constructs, each of them
by an explicit, documented convention.  Whatever is outside raises c2g.Unsupported, i.e. the group FAILS and the
check reports the tie as broken.

 * pointers are integers.  `char *` / `void *` arithmetic is byte arithmetic; arithmetic on `T *` for T in
   `elem_ptr_types` is in units of ELEMENTS (the caller's theorem says what an element is); other pointer
   arithmetic is refused.  Casts pointer <-> integer are the identity on [0, 2^64) and wrap otherwise.
 * `((T **) p)[K]` with a literal K is the 8-byte word at byte address p + K * 8: a READ is `word (p + K * 8)`
   (`word : Z -> Z` becomes the first parameter of the generated definition), a WRITE `((T **) p)[K] = v` records the
   ghost outputs store<n>_addr := p + K * 8 and store<n>_val := v (n = 0, 1, .. in source order).
 * `a[2 * X]` / `a[2 * X + 1]` for a in `pair_arrays` and `a[X]` for a in `elem_arrays`, X a variable: the location
   `a_lo_X` / `a_hi_X` / `a_X` (a scalar location like a struct field; reading a location that was never assigned inside
   the slice makes it a parameter).  Any other index shape is refused.
 * `p->f` for f in `field_reads`, p a pointer variable: `f p` with `f : Z -> Z` a parameter (memory read).
 * a call of a function in `effects`, at statement level / as the right side of an assignment / as an initialiser:
   the ghost outputs <callee>_arg<i> := the arguments; the result, if used, is the parameter <callee>_ret.
   (second call of the same callee: <callee>2_...).
 * calls in `drop_calls` (logging) and the abort macros SC_CHECK_ABORT / SC_CHECK_ABORTF / SC_ABORT (a conditional
   call of sc_abort_verbose[f] / sc_abort_collective / abort) at statement level carry no value and are dropped:
   the generated definition describes the executions that do not abort.
 * `sizeof (T)` of a record type is the symbolic parameter sizeof_T.
 * `x[n++] = v` for x in `append_arrays`: ghost outputs x_hit := 1, x_val := v (and n is incremented).
 * `a[e]` for a (a variable or a struct field) in `array_reads`: the memory read `a e` with `a : Z -> Z` a parameter;
   `a[e] op= v` / `a[e] = v` for a in `store_arrays`: the value is the output location `a_store` (reads of a[..] as above).
 * a call of a function in `symbolic_calls` (by name, or through a struct field of that name: `pst->compar (..)`) inside
   an expression is the parameter <name>_ret (second call in the same slice: <name>2_ret): its value is whatever the callee
   returns; a call of a function in `const_calls` is the symbolic constant named there (HUGE_VAL = __builtin_huge_val ()).
 * with `effect_called` every call in `effects` also has the ghost output <callee>_called := 1 (0 on the paths without the call).
 * `&x` passed to a call in `effects`: the callee stores into x; x is an unknown afterwards (a parameter named x).
 * an enumerator without folded value is the parameter of its name if `enum_params` is set.
 * `errno` (`*__errno_location ()`) is the location `errno`; a call listed in `clobbers` makes the locations named there
   unknown (errno after strtol is whatever strtol left there: a parameter).
 * `*(T *) p->f` is the location p_f_deref.
 * floating point: a literal with an integral value, unary minus and comparisons are taken over the exact numbers, as c2g
   does for + - * (the generated file's header says so).
"""
import re
import c2g

E = c2g.E
ABORTS = ("sc_abort_verbose", "sc_abort_verbosef", "sc_abort", "sc_abort_collective", "abort")


def strip(n):
    n = c2g.skip_parens(n)
    while n.get("kind") in ("ImplicitCastExpr", "CStyleCastExpr") and n.get("castKind") != "ToVoid":
        n = c2g.skip_parens(n["inner"][0])
    return n


def callee_name(n):
    if n.get("kind") != "CallExpr":
        return None
    return strip(n["inner"][0]).get("referencedDecl", {}).get("name")


def walk(n, f):
    if isinstance(n, dict):
        f(n)
        for c in n.get("inner", []):
            walk(c, f)


def is_literal(e):
    return re.match(r"^\(?-?\d+\)?$", e.text) is not None


class SliceT(c2g.Translator):
    def __init__(self, **kw):
        super().__init__(kw.get("structs"), kw.get("known_funcs"), kw.get("tables"))
        self.elem_ptr_types = tuple(kw.get("elem_ptr_types", ()))
        self.pair_arrays = tuple(kw.get("pair_arrays", ()))
        self.elem_arrays = tuple(kw.get("elem_arrays", ()))
        self.append_arrays = tuple(kw.get("append_arrays", ()))
        self.field_reads = tuple(kw.get("field_reads", ()))
        self.effects = tuple(kw.get("effects", ()))
        self.drop_calls = tuple(kw.get("drop_calls", ()))
        self.array_reads = tuple(kw.get("array_reads", ()))
        self.store_arrays = tuple(kw.get("store_arrays", ()))
        self.symbolic_calls = tuple(kw.get("symbolic_calls", ()))
        self.const_calls = dict(kw.get("const_calls", {}))
        self.enum_params = bool(kw.get("enum_params", False))
        self.effect_skip_args = dict(kw.get("effect_skip_args", {}))
        self.effect_called = bool(kw.get("effect_called", False))
        self.clobbers = dict(kw.get("clobbers", {}))
        self.sym_of = {}
        self.sym_count = {}
        self.uses_word = False
        self.ghost_of = {}         # id(node) -> ghost prefix
        self.ghosts = []           # ghost keys in source order
        self.nstore = 0

    # ---- scanning: ghost outputs are created in source order before the translation
    def scan(self, stmts):
        seen = {}

        def f(n):
            if n.get("kind") == "CallExpr" and callee_name(n) in self.effects:
                nm = callee_name(n)
                seen[nm] = seen.get(nm, 0) + 1
                pre = nm if seen[nm] == 1 else "%s%d" % (nm, seen[nm])
                self.ghost_of[id(n)] = pre
                if self.effect_called:
                    self.ghosts.append(pre + "_called")
                for i in range(len(n["inner"]) - 1):
                    if self.arg_is_ghost(nm, i, n["inner"][1 + i]):
                        self.ghosts.append("%s_arg%d" % (pre, i))
            if n.get("kind") == "BinaryOperator" and n.get("opcode") == "=":
                lhs = c2g.skip_parens(n["inner"][0])
                if lhs.get("kind") == "ArraySubscriptExpr":
                    if self.word_base(lhs) is not None:
                        pre = "store%d" % self.nstore
                        self.nstore += 1
                        self.ghost_of[id(n)] = pre
                        self.ghosts += [pre + "_addr", pre + "_val"]
                    elif self.append_base(lhs) is not None:
                        pre = self.append_base(lhs)
                        self.ghost_of[id(n)] = pre
                        for g in (pre + "_hit", pre + "_val"):
                            if g not in self.ghosts:
                                self.ghosts.append(g)
        for s in stmts:
            walk(s, f)

    def addr_of_var(self, a):
        a = strip(a)
        if a.get("kind") == "UnaryOperator" and a.get("opcode") == "&":
            t = strip(a["inner"][0])
            if t.get("kind") == "DeclRefExpr":
                return t["referencedDecl"]["name"]
            return "?"
        return None

    def arg_is_ghost(self, callee, i, a):
        return i not in self.effect_skip_args.get(callee, ()) and self.addr_of_var(a) is None

    def fun_name(self, n):
        """name of the memory-read function for the base of a subscript: a variable or a struct field in array_reads / store_arrays"""
        b = strip(n["inner"][0])
        nm = None
        if b.get("kind") == "DeclRefExpr":
            nm = b["referencedDecl"]["name"]
        elif b.get("kind") == "MemberExpr":
            nm = b.get("name")
        if nm in self.array_reads or nm in self.store_arrays:
            return nm
        return None

    def sym_callee(self, n):
        """name under which a call inside an expression is symbolic, else None"""
        c = strip(n["inner"][0])
        nm = c.get("referencedDecl", {}).get("name") if c.get("kind") == "DeclRefExpr" else (c.get("name") if c.get("kind") == "MemberExpr" else None)
        return nm if nm in self.symbolic_calls else None

    # ---- shapes
    def word_base(self, n):
        """n = ArraySubscriptExpr `((T **) p)[..]`: the node of p, else None"""
        b = c2g.skip_parens(n["inner"][0])
        while b.get("kind") == "ImplicitCastExpr" and b.get("castKind") in ("LValueToRValue", "NoOp"):
            b = c2g.skip_parens(b["inner"][0])
        if b.get("kind") == "CStyleCastExpr" and b.get("castKind") == "BitCast" and \
                re.sub(r"\s+", "", c2g.strip_quals(c2g.tystr(b))).endswith("**"):
            return b["inner"][0]
        return None

    def append_base(self, n):
        b = strip(n["inner"][0])
        i = strip(n["inner"][1])
        if b.get("kind") == "DeclRefExpr" and b["referencedDecl"]["name"] in self.append_arrays and \
                i.get("kind") == "UnaryOperator" and i.get("opcode") == "++" and i.get("isPostfix"):
            return b["referencedDecl"]["name"]
        return None

    def word_addr(self, n, env):
        p = self.word_base(n)
        if p is None:
            return None
        pe = self.expr(p, env)
        ie = self.expr(n["inner"][1], env)
        if not is_literal(ie):
            raise c2g.Unsupported("word access with a non-literal index in %s" % self.fname)
        return E("%s + %s * 8" % (pe.z(), ie.z()))

    def index_key(self, n):
        """location key of a[2 * X], a[2 * X + 1] (pair_arrays) or a[X] (elem_arrays), X a variable; else None"""
        b = strip(n["inner"][0])
        if b.get("kind") != "DeclRefExpr":
            return None
        a = b["referencedDecl"]["name"]
        i = strip(n["inner"][1])

        def var(x):
            x = strip(x)
            return x["referencedDecl"]["name"] if x.get("kind") == "DeclRefExpr" else None

        def two_times(x):
            x = strip(x)
            if x.get("kind") == "BinaryOperator" and x.get("opcode") == "*":
                l, r = strip(x["inner"][0]), strip(x["inner"][1])
                if l.get("kind") == "IntegerLiteral" and l.get("value") == "2":
                    return var(r)
            return None
        if a in self.elem_arrays:
            v = var(i)
            if v is None:
                raise c2g.Unsupported("index of %s is not a variable in %s" % (a, self.fname))
            return "%s_%s" % (a, v)
        if a in self.pair_arrays:
            v = two_times(i)
            if v is not None:
                return "%s_lo_%s" % (a, v)
            if i.get("kind") == "BinaryOperator" and i.get("opcode") == "+":
                l, r = i["inner"][0], strip(i["inner"][1])
                v = two_times(l)
                if v is not None and r.get("kind") == "IntegerLiteral" and r.get("value") == "1":
                    return "%s_hi_%s" % (a, v)
            if i.get("kind") == "BinaryOperator" and i.get("opcode") == "-":
                # a[2 * x - 1] is the second entry of pair x - 1
                l, r = i["inner"][0], strip(i["inner"][1])
                v = two_times(l)
                if v is not None and r.get("kind") == "IntegerLiteral" and r.get("value") == "1":
                    return "%s_hi_%s_m1" % (a, v)
            if i.get("kind") == "BinaryOperator" and i.get("opcode") == "*":
                # a[2 * (x - 1)] is the first entry of pair x - 1
                l, r = strip(i["inner"][0]), strip(i["inner"][1])
                if l.get("kind") == "IntegerLiteral" and l.get("value") == "2" and r.get("kind") == "BinaryOperator" and r.get("opcode") == "-":
                    v, one = var(r["inner"][0]), strip(r["inner"][1])
                    if v is not None and one.get("kind") == "IntegerLiteral" and one.get("value") == "1":
                        return "%s_lo_%s_m1" % (a, v)
            if i.get("kind") == "IntegerLiteral" and i.get("value") == "0":
                return "%s_lo_0" % a
            raise c2g.Unsupported("index of %s is neither 2 * x nor 2 * x + 1 in %s" % (a, self.fname))
        return None

    # ---- expressions
    def expr(self, n, env):
        k = n.get("kind")
        if k in ("ImplicitCastExpr", "CStyleCastExpr"):
            ck = n.get("castKind")
            if ck == "PointerToIntegral":
                dst = c2g.int_type(c2g.tystr(n))
                e = self.expr(n["inner"][0], env)
                if dst == (False, 64):
                    return E(e.z(), "Z", True)
                return E("%s %s" % (c2g.wrapname(dst), e.z()))
            if ck == "IntegralToPointer":
                e = self.expr(n["inner"][0], env)
                if c2g.int_type(c2g.tystr(n["inner"][0])) == (False, 64):
                    return E(e.z(), "Z", True)
                return E("u64 %s" % e.z())
        if k == "BinaryOperator" and n.get("opcode") in ("+", "-") and c2g.is_pointer(c2g.tystr(n)):
            pt = c2g.strip_quals(n.get("type", {}).get("qualType", ""))
            if pt not in ("char *", "unsigned char *", "void *") and pt not in self.elem_ptr_types:
                raise c2g.Unsupported("pointer arithmetic on %s in %s" % (pt, self.fname))
            a = self.expr(n["inner"][0], env)
            b = self.expr(n["inner"][1], env)
            return E("%s %s %s" % (a.z(), n["opcode"], b.z()))
        if k == "BinaryOperator" and n.get("opcode") in ("==", "!=") and c2g.is_pointer(c2g.tystr(n["inner"][0])):
            a = self.expr(n["inner"][0], env)
            b = self.expr(n["inner"][1], env)
            t = "%s =? %s" % (a.z(), b.z())
            return E(t if n["opcode"] == "==" else "negb (%s)" % t, "bool")
        if k == "ArraySubscriptExpr":
            ad = self.word_addr(n, env)
            if ad is not None:
                self.uses_word = True
                return E("word %s" % ad.p())
            key = self.index_key(n)
            if key is not None:
                return E(self.lookup(env, key), "Z", True)
            fnm = self.fun_name(n)
            if fnm is not None:
                if fnm not in self.fun_params:
                    self.fun_params.append(fnm)
                return E("%s %s" % (fnm, self.expr(n["inner"][1], env).z()))
        if k == "CallExpr":
            cn = callee_name(n)
            if cn in self.const_calls:
                return E(self.lookup(env, self.const_calls[cn]), "Z", True)
            sn = self.sym_callee(n)
            if sn is not None:
                if id(n) not in self.sym_of:
                    self.sym_count[sn] = self.sym_count.get(sn, 0) + 1
                    self.sym_of[id(n)] = sn if self.sym_count[sn] == 1 else "%s%d" % (sn, self.sym_count[sn])
                return E(self.lookup(env, self.sym_of[id(n)] + "_ret"), "Z", True)
        if k == "DeclRefExpr" and self.enum_params and n.get("referencedDecl", {}).get("kind") == "EnumConstantDecl":
            return E(self.lookup(env, n["referencedDecl"]["name"]), "Z", True)
        if k == "UnaryOperator" and n.get("opcode") == "*" and callee_name(strip(n["inner"][0])) == "__errno_location":
            return E(self.lookup(env, "errno"), "Z", True)
        if k == "UnaryOperator" and n.get("opcode") == "*":
            # a dereference is a location; the pointer itself is not read as a value (c2g would make it a parameter)
            try:
                key = self.lvalue_key(n)
            except c2g.Unsupported:
                key = None
            if key is not None:
                return E(self.lookup(env, key), "Z", True)
        if k == "FloatingLiteral":
            v = float(n.get("value"))
            if v != int(v):
                raise c2g.Unsupported("floating literal %s in %s" % (n.get("value"), self.fname))
            return c2g.lit(int(v))
        if k == "UnaryOperator" and n.get("opcode") == "-" and c2g.is_float(c2g.tystr(n)):
            return E("- %s" % self.expr(n["inner"][0], env).z())
        if k == "MemberExpr" and n.get("name") in self.field_reads:
            b = strip(n["inner"][0])
            if b.get("kind") == "DeclRefExpr" and n.get("isArrow"):
                if n["name"] not in self.fun_params:
                    self.fun_params.append(n["name"])
                return E("%s %s" % (n["name"], self.expr(n["inner"][0], env).z()))
        if k == "UnaryExprOrTypeTraitExpr" and n.get("name") == "sizeof" and "argType" in n:
            ty = c2g.strip_quals(n["argType"].get("qualType", ""))
            dty = c2g.strip_quals(n["argType"].get("desugaredQualType") or ty)
            if c2g.int_type(dty) is None and not dty.endswith("*") and not c2g.is_float(dty):
                key = "sizeof_" + re.sub(r"[^A-Za-z0-9_]", "_", ty)
                return E(self.lookup(env, key), "Z", True)
        return super().expr(n, env)

    fun_params = None

    def lvalue_key(self, n):
        n2 = c2g.skip_parens(n)
        if n2.get("kind") == "ArraySubscriptExpr":
            key = self.index_key(n2)
            if key is not None:
                return key
            if self.append_base(n2) is not None:
                return self.append_base(n2) + "_val"
            if self.fun_name(n2) in self.store_arrays:
                return self.fun_name(n2) + "_store"
        if n2.get("kind") == "UnaryOperator" and n2.get("opcode") == "*" and callee_name(strip(n2["inner"][0])) == "__errno_location":
            return "errno"
        if n2.get("kind") == "UnaryOperator" and n2.get("opcode") == "*":
            # *(T *) p->f : the object the field points to, whatever scalar type it is read at
            b = strip(n2["inner"][0])
            if b.get("kind") == "MemberExpr":
                return super().lvalue_key(b) + "_deref"
        return super().lvalue_key(n)

    def assigned(self, s, acc, declared):
        super().assigned(s, acc, declared)

        def f(n):
            pre = self.ghost_of.get(id(n))
            if pre is not None:
                for g in self.ghosts:
                    if g.startswith(pre + "_"):
                        acc.add(g)
            if n.get("kind") == "BinaryOperator" and n.get("opcode") == "=" and self.ghost_of.get(id(n)) in self.append_arrays:
                i = strip(c2g.skip_parens(n["inner"][0])["inner"][1])
                acc.add(self.lvalue_key(i["inner"][0]))
        walk(s, f)

    def referenced(self, s, acc):
        # p->f with f a memory-read function: p is referenced, not a location p_f
        if s.get("kind") == "MemberExpr" and s.get("name") in self.field_reads:
            for c in s.get("inner", []):
                if isinstance(c, dict):
                    self.referenced(c, acc)
            return
        if s.get("kind") == "ArraySubscriptExpr":
            try:
                key = self.index_key(s)
            except c2g.Unsupported:
                key = None
            if key is not None:
                acc.add(key)
                return
        super().referenced(s, acc)

    # ---- statements
    def is_abort(self, s):
        t = c2g.skip_parens(s)
        if t.get("kind") == "ConditionalOperator" and c2g.tystr(t) == "void":
            arms = [strip(x) for x in t["inner"][1:]]
            if any(callee_name(a) in ABORTS for a in arms):
                return True
            # logging macros: `(cond) ? (void) 0 : sc_logf (...)` - every arm is a dropped call or a void constant
            def nothing(a):
                if callee_name(a) in self.drop_calls:
                    return True
                a2 = c2g.skip_parens(a)
                return a2.get("kind") == "CStyleCastExpr" and a2.get("castKind") == "ToVoid" and \
                    c2g.skip_parens(a2["inner"][0]).get("kind") == "IntegerLiteral"
            return bool(self.drop_calls) and all(nothing(x) for x in t["inner"][1:])
        if t.get("kind") == "CallExpr" and callee_name(t) in ABORTS:
            return True
        return False

    def ghost_assign(self, pairs, env, rest, K):
        env2 = dict(env)
        pre = ""
        for key, e in pairs:
            v = self.fresh(key)
            pre += "let %s := %s in\n" % (v, e.z())
            env2[key] = v
        return pre + self.stmts(rest, env2, K)

    def stmts(self, ss, env, K):
        if not ss:
            return super().stmts(ss, env, K)
        s, rest = ss[0], ss[1:]
        k = s.get("kind")
        if self.is_abort(s):
            return self.stmts(rest, env, K)
        if k == "DoStmt":
            # do { ... } while (0) wrappers of logging macros carry no integer state
            acc, decl = set(), set()
            self.assigned(s, acc, decl)
            if not [a for a in acc if a in env]:
                return self.stmts(rest, env, K)
        if k == "BinaryOperator" and s.get("opcode") == "=" and id(s) in self.ghost_of:
            pre = self.ghost_of[id(s)]
            lhs = c2g.skip_parens(s["inner"][0])
            if pre in self.append_arrays:
                cnt = strip(lhs["inner"][1])
                v = self.expr(s["inner"][1], env)
                return self.stmts([cnt], env, dict(K, fin=lambda e2: self.ghost_assign(
                    [(pre + "_hit", E("1", "Z", True)), (pre + "_val", v)], e2, rest, K)))
            ad = self.word_addr(lhs, env)
            v = self.expr(s["inner"][1], env)
            return self.ghost_assign([(pre + "_addr", ad), (pre + "_val", v)], env, rest, K)
        if k == "DeclStmt" and len(s.get("inner", [])) == 1:
            # T *x = <pointer VALUE> (NULL, base + i, ..): pointers are integers here; `T *x = y` (alias) is left to c2g
            d = s["inner"][0]
            init = [c for c in d.get("inner", []) if isinstance(c, dict)]
            ty = c2g.strip_quals(c2g.tystr(d))
            if init and c2g.is_pointer(ty) and c2g.int_type(ty) is None and \
                    strip(init[0]).get("kind") not in ("DeclRefExpr", "CallExpr"):
                e = self.expr(init[0], env)
                return self.ghost_assign([(d["name"], e)], env, rest, K)
        call, lhs = None, None
        if k == "CallExpr":
            call = s
        elif k in ("ParenExpr", "CStyleCastExpr", "ImplicitCastExpr") and strip(s).get("kind") == "CallExpr" and not self.is_noop(s):
            call = strip(s)
        elif k == "BinaryOperator" and s.get("opcode") == "=" and strip(s["inner"][1]).get("kind") == "CallExpr":
            call = strip(s["inner"][1])
            lhs = self.resolve_alias(self.lvalue_key(s["inner"][0]))
        elif k == "DeclStmt" and len(s.get("inner", [])) == 1:
            d = s["inner"][0]
            init = [c for c in d.get("inner", []) if isinstance(c, dict)]
            if init and strip(init[0]).get("kind") == "CallExpr":
                call = strip(init[0])
                lhs = d["name"]
        if call is not None:
            name = callee_name(call)
            if name in self.drop_calls:
                if lhs is not None:
                    raise c2g.Unsupported("result of dropped call %s is used in %s" % (name, self.fname))
                return self.stmts(rest, env, K)
            if id(call) in self.ghost_of:
                pre = self.ghost_of[id(call)]
                pairs = [("%s_arg%d" % (pre, i), self.expr(a, env)) for i, a in enumerate(call["inner"][1:])
                         if self.arg_is_ghost(name, i, a)]
                if self.effect_called:
                    pairs.insert(0, (pre + "_called", E("1", "Z", True)))
                env1 = env
                outs = [self.addr_of_var(a) for a in call["inner"][1:]]
                if any(o is not None for o in outs) or self.clobbers.get(name):
                    env1 = dict(env)
                    for o in self.clobbers.get(name, ()):
                        env1.pop(o, None)          # e.g. errno after strtol: whatever the callee left there
                    for o in outs:
                        if o == "?":
                            raise c2g.Unsupported("address of a non-variable passed to %s in %s" % (name, self.fname))
                        if o is not None:
                            env1.pop(o, None)      # the callee stores into it: unknown from here on
                if lhs is not None:
                    # the whole right-hand side (with its casts) around the call's result
                    rhs = s["inner"][1] if k == "BinaryOperator" else [c for c in s["inner"][0].get("inner", []) if isinstance(c, dict)][0]
                    retp = E(self.lookup(env1, pre + "_ret"), "Z", True)
                    saved = dict(self.call_hooks)
                    self.call_hooks[name] = lambda T_, n_, e_: retp
                    try:
                        val = self.expr(rhs, env1)
                    finally:
                        self.call_hooks = saved
                    pairs.append((lhs, val))
                return self.ghost_assign(pairs, env1, rest, K)
        return super().stmts(ss, env, K)


def emit_block(stmts, gname, outputs, fname, params=(), init=None, ret=None, comment="", want_params=None, jumps_end=False, **kw):
    """Translate a statement list with SliceT.  Free variables become parameters (in order of first use, after `params`);
    outputs: location keys, `ret` names the returned value, "*ghosts" is replaced by all ghost outputs in source order.
    jumps_end: the statements are the body of a loop; `continue` and falling off the end deliver the outputs with the
    output `stop` = 0, `break` delivers them with `stop` = 1.
    want_params: if given, the sorted list of parameters must equal it (a new free variable is a changed slice)."""
    T = SliceT(**kw)
    T.fname, T.gname = fname, gname
    T.free_as_params = True
    T.fun_params = []
    T.extra = []
    T.scan(stmts)
    env = dict((p, p) for p in params)
    T.params = list(params)
    for g in T.ghosts:
        env[g] = "0"
    for k_, v_ in (init or {}).items():
        env[k_] = v_
    outs = []
    for o in outputs:
        outs += T.ghosts if o == "*ghosts" else [o]
    has_loops = any(c2g.body_uses_loops(x) for x in stmts)
    # memory-read functions must be known before the loops are emitted
    if T.field_reads or T.array_reads or T.store_arrays:
        found = []

        def fscan(n):
            if n.get("kind") == "MemberExpr" and n.get("name") in T.field_reads and n["name"] not in found:
                found.append(n["name"])
            if n.get("kind") == "ArraySubscriptExpr" and T.fun_name(n) is not None and T.fun_name(n) not in found:
                # a store-only array needs no read function
                found.append(T.fun_name(n))
        for s in stmts:
            walk(s, fscan)
        T.extra = [(f, "Z -> Z") for f in found]
    wordp = []

    def tup(e2, rv=None):
        parts = []
        for o in outs:
            if o == ret:
                if rv is None:
                    raise c2g.Unsupported("%s: falls off the end without a return value" % fname)
                parts.append(rv.z())
            else:
                parts.append(T.lookup(e2, o))
        t = parts[0] if len(parts) == 1 else "(%s)" % ", ".join(parts)
        if has_loops:
            return "Some %s" % (t if t.startswith("(") or re.match(r"^[A-Za-z0-9_']+$", t) else "(%s)" % t)
        return t
    K = dict(fin=lambda e2: tup(e2), ret=(lambda e, e2: tup(e2, e)) if ret else None, brk=None, cont=None)
    if jumps_end:
        env["stop"] = "0"
        K["cont"] = K["fin"]
        K["brk"] = lambda e2: tup(dict(e2, stop="1"))
    T.ret_void = True
    text = T.stmts(list(stmts), env, K)
    if T.uses_word:
        wordp = [("word", "Z -> Z")]
    if T.uses_word and has_loops:
        raise c2g.Unsupported("%s: word access inside a slice with loops" % fname)
    fps = wordp + list(T.extra)
    plist = ("(fuel : nat) " if has_loops else "") + " ".join(["(%s : %s)" % p for p in fps] + ["(%s : Z)" % p for p in T.params])
    if want_params is not None and sorted(T.params) != sorted(want_params):
        raise c2g.Unsupported("%s: free variables %s, expected %s" % (fname, sorted(T.params), sorted(want_params)))
    out = ""
    if comment:
        out += "(* %s *)\n" % comment.replace("*)", "* )").replace("(*", "( *")
    out += "".join(a for _, a in T.aux)
    out += "Definition %s %s :=\n%s.\n" % (gname, plist, text)
    return out, dict(name=gname, cname=fname, params=[p for p, _ in fps] + list(T.params), outputs=outs, fuel=has_loops)


def _emit_e(node, gname, fname, want_params, comment, params, kind, kw):
    T = SliceT(**kw)
    T.fname, T.gname = fname, gname
    T.free_as_params = True
    T.fun_params = []
    T.params = list(params)
    e = T.expr(node, dict((p, p) for p in params))
    if T.uses_word:
        raise c2g.Unsupported("%s: word read inside an expression slice" % fname)
    if want_params is not None and sorted(T.params) != sorted(want_params):
        raise c2g.Unsupported("%s: free variables %s, expected %s" % (fname, sorted(T.params), sorted(want_params)))
    plist = " ".join(["(%s : Z -> Z)" % f for f in T.fun_params] + ["(%s : Z)" % p for p in T.params])
    out = ("(* %s *)\n" % comment.replace("*)", "* )").replace("(*", "( *")) if comment else ""
    out += "Definition %s %s : %s :=\n%s.\n" % (gname, plist, "bool" if kind == "bool" else "Z", e.b() if kind == "bool" else e.z())
    return out, dict(name=gname, cname=fname, params=list(T.fun_params) + list(T.params), fuel=False)


def emit_cond(node, gname, fname, want_params=None, comment="", params=(), **kw):
    """A condition (expression node) as a boolean function of its free variables."""
    return _emit_e(node, gname, fname, want_params, comment, params, "bool", kw)


def emit_expr(node, gname, fname, want_params=None, comment="", params=(), **kw):
    """An integer expression as a function of its free variables."""
    return _emit_e(node, gname, fname, want_params, comment, params, "Z", kw)


def find_nodes(n, pred):
    out = []
    walk(n, lambda x: out.append(x) if pred(x) else None)
    return out


def refs(n):
    r = set()
    walk(n, lambda x: r.add(x["referencedDecl"]["name"]) if x.get("kind") == "DeclRefExpr" else None)
    return r


def returns_enum(st, enum_name):
    """does statement st contain `return <enum_name>;`"""
    hit = []

    def f(x):
        if x.get("kind") == "ReturnStmt":
            if enum_name in refs(x):
                hit.append(x)
    walk(st, f)
    return bool(hit)
