"""Translator group ErrClassC12 (tie T1 of property C12): sc_io_error_class of /repo/src/sc_io.c.

The function is static and exists in two shapes that matter here: without MPI (configuration A, class
values are the SC3_MPI_* enumerators) and with MPI but without MPI I/O (configuration C, the file classes are
libsc's own enumeration starting at MPI_ERR_LASTCODE of the MPI library, here the simulated mpi.h).  Both are
translated from clang's AST with the ordinary c2g rules (switch statement, pointer-to-int output parameter);
the only addition resolves enumerators that occur as values: `X` becomes the Gallina constant `<prefix>_X`,
which a small compiled program (wrap/consts_c12.c, same headers, same configuration) prints with its number.
The same program prints the errno values and the class numbers in one fixed order of names."""
import os, subprocess


def register(GROUPS, c2g, incs, REPO, HERE, STRUCTS, Group):
    import vlib

    def make_translator(prefix):
        class T12(c2g.Translator):
            def expr(self, n, env):
                if n.get("kind") == "DeclRefExpr" and n.get("referencedDecl", {}).get("kind") == "EnumConstantDecl":
                    return c2g.E("%s_%s" % (prefix, n["referencedDecl"]["name"]), "Z", True)
                return super().expr(n, env)

            def switch(self, s, rest, env, K):
                # case labels that are enumerators carry their value in clang's ConstantExpr; nothing to do
                return super().switch(s, rest, env, K)
        return T12

    def consts(tmp, incdirs, defs, prefix):
        w = os.path.join(HERE, "wrap", "consts_c12.c")
        exe = os.path.join(tmp, "consts_c12_" + prefix)
        p = subprocess.run(["gcc", "-w"] + ["-I" + i for i in incdirs] + ["-D" + d for d in defs] + [w, "-o", exe],
                           stdout=subprocess.PIPE, stderr=subprocess.STDOUT)
        if p.returncode != 0:
            raise c2g.Unsupported("consts_c12.c does not compile (%s): %s" % (prefix, p.stdout.decode()[-400:]))
        return subprocess.run([exe, prefix], stdout=subprocess.PIPE).stdout.decode()

    def gen(tmp):
        g = Group("ErrClassC12")
        f = os.path.join(REPO, "src", "sc_io.c")
        # configuration C needs its own sc_config.h (SC_ENABLE_MPI) and the simulated mpi.h
        incC = os.path.join(tmp, "incC12")
        os.makedirs(incC, exist_ok=True)
        vlib.make_config_h(os.path.join(incC, "sc_config.h"), "sim", True, False)
        simdir = os.path.join(os.path.dirname(HERE), "simmpi")
        incsA = incs(tmp)
        incsC = [incC, simdir] + incs(tmp)[1:]
        for prefix, incdirs in (("cA", incsA), ("cC", incsC)):
            out = consts(tmp, incdirs, (), prefix)
            g.add(out, dict(name="consts_" + prefix, lines=out.count("\n")))
            objs = c2g.clang_ast(f, "sc_io_error_class", incdirs)
            fn = c2g.find_function(objs, "sc_io_error_class")
            saved = c2g.Translator
            c2g.Translator = make_translator(prefix)
            try:
                # the address held by the pointer parameter is an ordinary number (the function compares it with NULL)
                t, i = c2g.translate_function(fn, gname="sc_io_error_class_" + prefix[1], extra_params=[("errorclass", "Z")])
            finally:
                c2g.Translator = saved
            g.add(t, i)
        return g, [f, os.path.join(REPO, "src", "sc_mpi.h"), os.path.join(REPO, "src", "sc_io.h"),
                   os.path.join(HERE, "wrap", "consts_c12.c")]

    GROUPS["ErrClassC12"] = gen
