"""Translator group ErrClassC12 (tie T1 of property C12): sc_io_error_class of /repo/src/sc_io.c.

The function is static and exists in two shapes that matter here: without MPI (configuration A, class
values are the SC3_MPI_* enumerators) and with MPI but without MPI I/O (configuration C, the file classes are
libsc's own enumeration starting at MPI_ERR_LASTCODE of the MPI library, here the simulated mpi.h).  Both are
translated from clang's AST with the ordinary c2g rules (switch statement, pointer-to-int output parameter);
the only addition resolves enumerators that occur as values: `X` becomes the Gallina constant `<prefix>_X`,
which a small compiled program (wrap/consts_c12.c, same headers, same configuration) prints with its number.
The same program prints the errno values and the class numbers in one fixed order of names.

Second group OpenC12 (coq/Gen/OpenC12.v): the bodies of sc_io_parse_access_mode, sc_io_open, sc_io_close, sc_io_read, sc_io_write,
sc_io_read_count and of the MPI I/O branches of sc_io_read_at / _read_at_all / _write_at / _write_at_all (plus sc_io_read_at /
sc_io_write_at without MPI I/O), each in every configuration in which it exists: A = without MPI, C = MPI without MPI I/O
(simulated mpi.h), B = MPI with MPI I/O (simulated mpi.h + tools/harness/c12_mpiio.h).  Conventions: tools/c2g/slicelib.py
(calls as effects: ghost outputs <callee>_called / <callee>_arg<i>, result = parameter <callee>_ret) with these additions (class
OpenT below):
  * `(*p)->f` (p a pointer variable) is the location p_f, `*p` the location p_deref;
  * `&<location>` passed to an effect call: the callee stores into it - afterwards the location holds the parameter
    <callee>_out<i>; a pointer PARAMETER handed on (MPI_File_open (.., mpifile), MPI_Get_count (.., ocount)) likewise for the
    location named in PTR_OUTS; for the buffer of a broadcast the value before the call is the ghost output <callee>_in<i>;
  * errno after a stdio call is the parameter <callee>_errno;
  * SC_CHECK_ABORT (c, ..) / SC_CHECK_MPI (r) do not end the slice: the output `ok` (1 at the start) becomes ok && c; SC_ABORT
    sets it to 0: the other outputs are meaningful for ok = 1 only;
  * `(void) f (..)` with f an effect call is the call (c2g alone treats a cast to void as no statement);
  * a string literal is the number whose little-endian bytes are its characters ("rb" = 0x6272);
  * an enumerator is the constant oc<cfg>_<name>, printed with its value by a C program compiled with the same headers;
  * a value of the enumeration type sc_io_open_mode_t is the integer it denotes.
coq/C12/OpenGen.v proves the per-rank programs of the models (FileModel.v, MpiioModel.v) equal to these definitions."""
import os, subprocess
import json

ENUM_TYPES = ("sc_io_open_mode_t",)

def str_code(s):
    b = s.encode()
    return sum(v << (8 * i) for i, v in enumerate(b))

def make_OpenT(c2g, sl, prefix, ptr_outs, inout_args, skip_args, used_enums):
    class OpenT(sl.SliceT):
        ret_void = property(lambda self: False, lambda self, v: None)
        def __init__(self, **kw):
            super().__init__(**kw)
            self.out_of = {}        # id(call) -> [(arg index, location key)]
        # ---- locations
        def deref_field(self, n):
            n = c2g.skip_parens(n)
            if n.get("kind") == "MemberExpr" and n.get("isArrow"):
                b = sl.strip(n["inner"][0])
                if b.get("kind") == "UnaryOperator" and b.get("opcode") == "*":
                    p = sl.strip(b["inner"][0])
                    if p.get("kind") == "DeclRefExpr":
                        return "%s_%s" % (p["referencedDecl"]["name"], n["name"])
            return None
        def lvalue_key(self, n):
            k = self.deref_field(n)
            if k is not None:
                return k
            return super().lvalue_key(n)
        def out_loc(self, a):
            """`&<location>` -> its key, else None"""
            a = sl.strip(a)
            if a.get("kind") == "UnaryOperator" and a.get("opcode") == "&":
                try:
                    return self.lvalue_key(a["inner"][0])
                except c2g.Unsupported:
                    raise c2g.Unsupported("address of a non-location passed to a call in %s" % self.fname)
            return None
        def outs_of(self, call):
            nm = sl.callee_name(call)
            res = []
            for i, a in enumerate(call["inner"][1:]):
                o = self.out_loc(a)
                if o is not None:
                    res.append((i, o))
                elif i in ptr_outs.get(nm, {}):
                    res.append((i, ptr_outs[nm][i]))
            return res
        def arg_is_ghost(self, callee, i, a):
            if i in skip_args.get(callee, ()):
                return False
            return self.out_loc(a) is None and i not in ptr_outs.get(callee, {})
        def scan(self, stmts):
            super().scan(stmts)
            # in/out arguments (the buffer of a broadcast): ghost <pre>_in<i> = value of the location before the call
            def f(n):
                pre = self.ghost_of.get(id(n))
                if pre is not None and n.get("kind") == "CallExpr":
                    nm = sl.callee_name(n)
                    for i in inout_args.get(nm, ()):
                        g = "%s_in%d" % (pre, i)
                        if g not in self.ghosts:
                            # keep source order: right after <pre>_called
                            self.ghosts.insert(self.ghosts.index(pre + "_called") + 1, g)
                if self.abort_cond_of(n) is not None and "ok" not in self.ghosts:
                    self.ghosts.append("ok")
                if n.get("kind") == "CallExpr" and sl.callee_name(n) in sl.ABORTS and "ok" not in self.ghosts:
                    self.ghosts.append("ok")
            for s in stmts:
                sl.walk(s, f)
        # ---- expressions
        def expr(self, n, env):
            k = n.get("kind")
            if k in ("ImplicitCastExpr", "CStyleCastExpr") and n.get("castKind") == "IntegralCast":
                inner = n["inner"][0]
                ty = inner.get("type", {})
                if c2g.int_type(c2g.tystr(inner)) is None and ((ty.get("desugaredQualType") or ty.get("qualType", "")).startswith("enum ") or c2g.strip_quals(ty.get("qualType", "")) in ENUM_TYPES):
                    return self.expr(inner, env)       # an enumeration value is the integer it denotes
            if k == "StringLiteral":
                return c2g.lit(str_code(json.loads(n["value"])))
            if k == "DeclRefExpr" and n.get("referencedDecl", {}).get("kind") == "EnumConstantDecl":
                used_enums.add(n["referencedDecl"]["name"])
                return c2g.E("%s_%s" % (prefix, n["referencedDecl"]["name"]), "Z", True)
            if k == "MemberExpr" and self.deref_field(n) is not None:
                return c2g.E(self.lookup(env, self.deref_field(n)), "Z", True)
            return super().expr(n, env)
        def referenced(self, s, acc):
            if s.get("kind") == "MemberExpr" and self.deref_field(s) is not None:
                acc.add(self.deref_field(s))
                return
            super().referenced(s, acc)
        def assigned(self, s, acc, declared):
            super().assigned(s, acc, declared)
            def f(n):
                if n.get("kind") == "CallExpr" and id(n) in self.ghost_of:
                    for _, loc in self.outs_of(n):
                        acc.add(loc)
                    if sl.callee_name(n) in self.clobbers:
                        for o in self.clobbers[sl.callee_name(n)]:
                            acc.add(o)
                if self.abort_cond_of(n) is not None:
                    acc.add("ok")
            sl.walk(s, f)
        # ---- statements
        def abort_cond_of(self, s):
            """SC_CHECK_ABORT (c, ..) / SC_CHECK_MPI (r) = `(c) ? (void) 0 : sc_abort_verbose (..)`: the node of c"""
            if not isinstance(s, dict):
                return None
            t = c2g.skip_parens(s)
            if t.get("kind") == "ConditionalOperator" and c2g.tystr(t) == "void" and \
                    sl.callee_name(sl.strip(t["inner"][2])) in sl.ABORTS and sl.callee_name(sl.strip(t["inner"][1])) is None:
                return t["inner"][0]
            return None
        def effect_stmt(self, s):
            k = s.get("kind")
            call, lhs, rhs = None, None, None
            if k == "CallExpr":
                call = s
            elif k in ("ParenExpr", "CStyleCastExpr") and c2g.skip_parens(s).get("kind") == "CStyleCastExpr" and \
                    c2g.skip_parens(s).get("castKind") == "ToVoid" and sl.strip(c2g.skip_parens(s)["inner"][0]).get("kind") == "CallExpr":
                call = sl.strip(c2g.skip_parens(s)["inner"][0])       # `(void) f (..)`: the call happens, its result is dropped
            elif k in ("ParenExpr", "CStyleCastExpr", "ImplicitCastExpr") and sl.strip(s).get("kind") == "CallExpr" and not self.is_noop(s):
                call = sl.strip(s)
            elif k == "BinaryOperator" and s.get("opcode") == "=" and sl.strip(s["inner"][1]).get("kind") == "CallExpr":
                call = sl.strip(s["inner"][1])
                lhs = self.resolve_alias(self.lvalue_key(s["inner"][0]))
                rhs = s["inner"][1]
            elif k == "DeclStmt" and len(s.get("inner", [])) == 1:
                d = s["inner"][0]
                init = [c for c in d.get("inner", []) if isinstance(c, dict)]
                if init and sl.strip(init[0]).get("kind") == "CallExpr":
                    call, lhs, rhs = sl.strip(init[0]), d["name"], init[0]
            if call is not None and id(call) in self.ghost_of:
                return call, lhs, rhs
            return None, None, None
        def stmts(self, ss, env, K):
            if ss:
                s, rest = ss[0], list(ss[1:])
                c = self.abort_cond_of(s)
                if c is not None:
                    ce = self.expr(c, env)
                    return self.assign("ok", c2g.E("(z2b %s) && %s" % (self.lookup(env, "ok"), ce.b()), "bool"), env, rest, K)
                if s.get("kind") == "CallExpr" and sl.callee_name(s) in sl.ABORTS:
                    # SC_ABORT (..): unconditional
                    return self.assign("ok", c2g.E("0", "Z", True), env, rest, K)
                call, lhs, rhs = self.effect_stmt(s)
                if call is not None:
                    pre = self.ghost_of[id(call)]
                    name = sl.callee_name(call)
                    pairs = [(pre + "_called", c2g.E("1", "Z", True))]
                    for i in inout_args.get(name, ()):
                        loc = dict(self.outs_of(call)).get(i)
                        if loc is None:
                            raise c2g.Unsupported("%s: in/out argument %d of %s is not the address of a location" % (self.fname, i, name))
                        pairs.append(("%s_in%d" % (pre, i), c2g.E(self.lookup(env, loc), "Z", True)))
                    for i, a in enumerate(call["inner"][1:]):
                        if self.arg_is_ghost(name, i, a):
                            pairs.append(("%s_arg%d" % (pre, i), self.expr(a, env)))
                    env1 = dict(env)
                    for o in self.clobbers.get(name, ()):
                        env1[o] = self.lookup({}, "%s_%s" % (pre, o))
                    for i, loc in self.outs_of(call):
                        env1[loc] = self.lookup({}, "%s_out%d" % (pre, i))
                    if lhs is not None:
                        retp = c2g.E(self.lookup({}, pre + "_ret"), "Z", True)
                        saved = dict(self.call_hooks)
                        self.call_hooks[name] = lambda T_, n_, e_: retp
                        try:
                            val = self.expr(rhs, env1)
                        finally:
                            self.call_hooks = saved
                        pairs.append((lhs, val))
                    return self.ghost_assign(pairs, env1, rest, K)
            return super().stmts(ss, env, K)
    return OpenT

def emit_with(sl, stmts, gname, outputs, fname, T, **kw):
    saved = sl.SliceT
    sl.SliceT = T
    try:
        return sl.emit_block(stmts, gname, outputs, fname, **kw)
    finally:
        sl.SliceT = saved



def register(GROUPS, c2g, incs, REPO, HERE, STRUCTS, Group):
    import vlib

    def make_translator(prefix):
        class T12(c2g.Translator):
            def expr(self, n, env):
                if n.get("kind") == "DeclRefExpr" and n.get("referencedDecl", {}).get("kind") == "EnumConstantDecl":
                    return c2g.E("%s_%s" % (prefix, n["referencedDecl"]["name"]), "Z", True)
                return super().expr(n, env)

            def switch(self, s, rest, env, K):
                # case labels that are enumerators carry their value in clang's ConstantExpr; nothing to do
                return super().switch(s, rest, env, K)
        return T12

    def consts(tmp, incdirs, defs, prefix):
        w = os.path.join(HERE, "wrap", "consts_c12.c")
        exe = os.path.join(tmp, "consts_c12_" + prefix)
        p = subprocess.run(["gcc", "-w"] + ["-I" + i for i in incdirs] + ["-D" + d for d in defs] + [w, "-o", exe],
                           stdout=subprocess.PIPE, stderr=subprocess.STDOUT)
        if p.returncode != 0:
            raise c2g.Unsupported("consts_c12.c does not compile (%s): %s" % (prefix, p.stdout.decode()[-400:]))
        return subprocess.run([exe, prefix], stdout=subprocess.PIPE).stdout.decode()

    def gen(tmp):
        g = Group("ErrClassC12")
        f = os.path.join(REPO, "src", "sc_io.c")
        # configuration C needs its own sc_config.h (SC_ENABLE_MPI) and the simulated mpi.h
        incC = os.path.join(tmp, "incC12")
        os.makedirs(incC, exist_ok=True)
        vlib.make_config_h(os.path.join(incC, "sc_config.h"), "sim", True, False)
        simdir = os.path.join(os.path.dirname(HERE), "simmpi")
        incsA = incs(tmp)
        incsC = [incC, simdir] + incs(tmp)[1:]
        for prefix, incdirs in (("cA", incsA), ("cC", incsC)):
            out = consts(tmp, incdirs, (), prefix)
            g.add(out, dict(name="consts_" + prefix, lines=out.count("\n")))
            objs = c2g.clang_ast(f, "sc_io_error_class", incdirs)
            fn = c2g.find_function(objs, "sc_io_error_class")
            saved = c2g.Translator
            c2g.Translator = make_translator(prefix)
            try:
                # the address held by the pointer parameter is an ordinary number (the function compares it with NULL)
                t, i = c2g.translate_function(fn, gname="sc_io_error_class_" + prefix[1], extra_params=[("errorclass", "Z")])
            finally:
                c2g.Translator = saved
            g.add(t, i)
        return g, [f, os.path.join(REPO, "src", "sc_mpi.h"), os.path.join(REPO, "src", "sc_io.h"),
                   os.path.join(HERE, "wrap", "consts_c12.c")]

    GROUPS["ErrClassC12"] = gen


    # ------------------------------------------------------------------------------------------------ group OpenC12
    PTR_OUTS = {"MPI_File_open": {4: "mpifile_deref"}, "MPI_File_close": {0: "mpifile_deref"},
                "sc_io_read_count": {2: "ocount_deref"}, "MPI_Get_count": {2: "ocount_deref"}}
    INOUT = {"MPI_Bcast": (0,), "sc_MPI_Bcast": (0,)}
    SKIP = {"sc_malloc": (0,), "sc_free": (0,)}
    STDIO = ("fopen", "fclose", "fread", "fwrite", "fseek", "ftell", "fflush")
    # function -> (configurations, extra output locations)
    SLICES = [("sc_io_parse_access_mode", "ACB", ["mode_deref"]),
              ("sc_io_open", "AC", ["mpifile_deref", "mpifile_file"]), ("sc_io_open", "B", ["mpifile_deref"]),
              ("sc_io_close", "ACB", ["mpifile_deref"]),
              ("sc_io_read", "ACB", []), ("sc_io_write", "ACB", []),
              ("sc_io_read_count", "B", ["ocount_deref"]),
              ("sc_io_read_at", "ACB", ["ocount_deref"]), ("sc_io_write_at", "ACB", ["ocount_deref"]),
              ("sc_io_read_at_all", "B", ["ocount_deref"]), ("sc_io_write_at_all", "B", ["ocount_deref"])]

    def gen_open(tmp):
        import slicelib as sl
        g = Group("OpenC12")
        f = os.path.join(REPO, "src", "sc_io.c")
        simdir = os.path.join(os.path.dirname(HERE), "simmpi")
        mioh = os.path.join(os.path.dirname(HERE), "harness", "c12_mpiio.h")
        cfg = {}
        for nm, mpi, defs in (("A", "off", ()), ("C", "sim", ()), ("B", "sim", ("SC_ENABLE_MPIIO",))):
            d = os.path.join(tmp, "incO12" + nm)
            os.makedirs(d, exist_ok=True)
            vlib.make_config_h(os.path.join(d, "sc_config.h"), mpi, True, False, defs)
            cfg[nm] = [d] + ([simdir] if nm != "A" else []) + incs(tmp)[1:]
        # configuration B: an mpi.h that adds the MPI I/O declarations to the simulated one
        mio = os.path.join(tmp, "mioO12")
        os.makedirs(mio, exist_ok=True)
        open(os.path.join(mio, "mpi.h"), "w").write('#include_next <mpi.h>\n#include "%s"\n' % mioh)
        cfg["B"].insert(1, mio)
        used = {"A": set(), "C": set(), "B": set()}
        texts = []
        asts = {}
        for fname, cfgs, extra in SLICES:
            for nm in cfgs:
                if (fname, nm) not in asts:
                    asts[(fname, nm)] = c2g.find_function(c2g.clang_ast(f, fname, cfg[nm]), fname)
                F = asts[(fname, nm)]
                body = [c for c in F["inner"] if c.get("kind") == "CompoundStmt"][0]
                calls = set()
                sl.walk(F, lambda n: calls.add(sl.callee_name(n)) if n.get("kind") == "CallExpr" else None)
                eff = tuple(sorted(c for c in calls if c and c not in sl.ABORTS and c != "__errno_location"))
                T = make_OpenT(c2g, sl, "oc" + nm, PTR_OUTS, INOUT, SKIP, used[nm])
                params = tuple(p["name"] for p in F["inner"] if p.get("kind") == "ParmVarDecl")
                isvoid = F["type"]["qualType"].startswith("void")
                t, i = emit_with(sl, list(body.get("inner", [])), "%s_%s" % (fname, nm), ["*ghosts"] + extra + ([] if isvoid else ["ret"]), fname, T,
                                 params=params, ret=None if isvoid else "ret", effects=eff, effect_called=True, init={"ok": "1"},
                                 clobbers=dict((k, ("errno",)) for k in STDIO),
                                 comment="%s, configuration %s: returns (%s)" % (fname, nm, ", ".join(["<ghost outputs in source order>"] + extra + ([] if isvoid else ["returned value"]))))
                i["outputs_text"] = ", ".join(i["outputs"])
                t = t.replace("(<ghost outputs in source order>", "(" + ", ".join(o for o in i["outputs"] if o not in extra and o != "ret"), 1).replace("returns (, ", "returns (", 1)
                texts.append((t, i))
        # the modes with which the token-passing fallback opens the file (in the turn of a rank > 0, and the re-open of rank 0)
        modes = {}
        for fname in ("sc_io_read_at_all", "sc_io_write_at_all"):
            F = c2g.find_function(c2g.clang_ast(f, fname, cfg["C"]), fname)
            calls = sl.find_nodes(F, lambda n: n.get("kind") == "CallExpr" and sl.callee_name(n) == "fopen")
            lits = []
            for cnode in calls:
                a = sl.strip(cnode["inner"][2])
                if a.get("kind") != "StringLiteral":
                    raise c2g.Unsupported("%s: fopen is not called with a literal mode" % fname)
                lits.append(str_code(json.loads(a["value"])))
            modes[fname] = lits
        # ... and how the result of each of these fopen calls is judged: the statement right behind `mpifile->file = fopen (..)` is
        # `errval = <expression>` (rank > 0 in its turn) resp. `if (<condition>) { .. SC_ABORT .. }` (re-open of rank 0); the bodies
        # of the fallback themselves are not translated (goto), these two expressions per function are
        judge = []
        for fname, tag in (("sc_io_read_at_all", "read"), ("sc_io_write_at_all", "write")):
            F = c2g.find_function(c2g.clang_ast(f, fname, cfg["C"]), fname)
            found = {"errval": [], "reopen": []}

            def is_fopen_assign(st):
                st = c2g.skip_parens(st)
                return st.get("kind") == "BinaryOperator" and st.get("opcode") == "=" and \
                    sl.callee_name(sl.strip(st["inner"][1])) == "fopen"

            def visit(n):
                if n.get("kind") == "CompoundStmt":
                    inner = [c for c in n.get("inner", []) if isinstance(c, dict)]
                    for a, b in zip(inner, inner[1:]):
                        if is_fopen_assign(a):
                            b2 = c2g.skip_parens(b)
                            if b2.get("kind") == "BinaryOperator" and b2.get("opcode") == "=" and \
                                    sl.strip(b2["inner"][0]).get("referencedDecl", {}).get("name") == "errval":
                                found["errval"].append(b2["inner"][1])
                            elif b2.get("kind") == "IfStmt" and sl.find_nodes(b2["inner"][1], lambda x: sl.callee_name(x) in sl.ABORTS):
                                found["reopen"].append(b2["inner"][0])
                            else:
                                raise c2g.Unsupported("%s: the statement behind a fopen is neither `errval = ..` nor `if (..) SC_ABORT`" % fname)
            sl.walk(F, visit)
            if len(found["errval"]) != 1 or len(found["reopen"]) != 1:
                raise c2g.Unsupported("%s: %d / %d judgements of fopen found, expected 1 / 1" % (fname, len(found["errval"]), len(found["reopen"])))
            t, i = sl.emit_expr(found["errval"][0], "oc_fallback_errval_" + tag, fname + "/errval after the fopen of a rank > 0",
                                want_params=["errno", "mpifile_file"], params=("mpifile_file", "errno"),
                                comment="%s, MPI without MPI I/O: the value of `errval` after `mpifile->file = fopen (..)` in a rank's turn" % fname)
            judge.append((t, i))
            t, i = sl.emit_cond(found["reopen"][0], "oc_fallback_reopen_bad_" + tag, fname + "/re-open of rank 0",
                                params=("mpifile_file", "errno"),
                                comment="%s: the condition on which the re-open of rank 0 ends in SC_ABORT" % fname)
            judge.append((t, i))
        # constants: enumerators used by the slices, amode enumerators, MPI_MODE_* bits, MPI_UNDEFINED, string codes
        out = ""
        for nm in "ACB":
            names = sorted(used[nm] | {"SC_IO_READ", "SC_IO_WRITE_CREATE", "SC_IO_WRITE_APPEND"})
            prog = "#include <sc.h>\n#include <sc_io.h>\n#include <stdio.h>\nint main (void) {\n"
            for x in names:
                prog += '  printf ("Definition oc%s_%s : Z := %%lld.\\n", (long long) (%s));\n' % (nm, x, x)
            if nm == "B":
                for x in ("MPI_MODE_RDONLY", "MPI_MODE_WRONLY", "MPI_MODE_RDWR", "MPI_MODE_CREATE", "MPI_MODE_EXCL", "MPI_MODE_APPEND", "MPI_UNDEFINED", "MPI_SUCCESS"):
                    prog += '  printf ("Definition ocB_%s : Z := %%lld.\\n", (long long) (%s));\n' % (x, x)
            prog += "  return 0;\n}\n"
            cpath = os.path.join(tmp, "oc12_%s.c" % nm)
            open(cpath, "w").write(prog)
            exe = os.path.join(tmp, "oc12_%s" % nm)
            p = subprocess.run(["gcc", "-w"] + ["-I" + i for i in cfg[nm]] + [cpath, "-o", exe], stdout=subprocess.PIPE, stderr=subprocess.STDOUT)
            if p.returncode != 0:
                raise c2g.Unsupported("constants program of configuration %s does not compile: %s" % (nm, p.stdout.decode()[-400:]))
            out += subprocess.run([exe], stdout=subprocess.PIPE).stdout.decode()
        # the class numbers of configuration B by the names of sc_mpi.h (same order as cA_classes / cC_classes)
        out += consts(tmp, cfg["B"], (), "cB")
        for s_ in ("rb", "wb", "ab"):
            out += "Definition oc_str_%s : Z := %d.\n" % (s_, str_code(s_))
        out += "Definition oc_fallback_modes_read : list Z := [%s].\n" % "; ".join(str(v) for v in modes["sc_io_read_at_all"])
        out += "Definition oc_fallback_modes_write : list Z := [%s].\n" % "; ".join(str(v) for v in modes["sc_io_write_at_all"])
        g.add(out, dict(name="consts_OpenC12", lines=out.count("\n")))
        # MPI_Error_class of the simulated MPI library: what sc_io_error_class IS in configuration B on that library
        simc = os.path.join(simdir, "simmpi.c")
        fn = c2g.find_function(c2g.clang_ast(simc, "MPI_Error_class", [simdir]), "MPI_Error_class")
        t, i = c2g.translate_function(fn, gname="sim_MPI_Error_class", extra_params=[("errorclass", "Z")])
        g.add(t, i)
        for t, i in judge:
            g.add(t, i)
        for t, i in texts:
            g.add(t, i)
        return g, [f, os.path.join(REPO, "src", "sc_mpi.h"), os.path.join(REPO, "src", "sc_io.h"), mioh,
                   os.path.join(HERE, "wrap", "consts_c12.c"), simc]

    GROUPS["OpenC12"] = gen_open
