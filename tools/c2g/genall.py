#!/usr/bin/env python3
"""Regenerate coq/Gen/*.v from /repo's current working tree (tie T1).
Usage: genall.py [group ...]   (default: all groups).  Prints one line per group;
exit status 0 even when a group fails to translate: the failure is written into
coq/Gen/<Group>.status and the dependent check reports the tie as broken."""
import os, sys, json, hashlib, tempfile, shutil
HERE = os.path.dirname(os.path.abspath(__file__))
sys.path.insert(0, HERE)
sys.path.insert(0, os.path.join(os.path.dirname(HERE), "lib"))
import c2g, vlib

REPO = vlib.REPO
GEN = os.path.join(vlib.COQ, "Gen")
STRUCTS = {"sc_uint128_t": ["high_bits", "low_bits"], "sc_uint128": ["high_bits", "low_bits"]}


def incs(tmp):
    return [os.path.join(tmp, "inc"), os.path.join(REPO, "src"), os.path.join(REPO, "libb64"), os.path.join(REPO, "iniparser")]


class Group:
    def __init__(self, name):
        self.name, self.text, self.infos = name, "", []

    def add(self, text, info):
        self.text += text + "\n"
        self.infos.append(info)


def gen_uint128(tmp):
    g = Group("Uint128")
    f = os.path.join(REPO, "src", "sc_uint128.c")
    objs = c2g.clang_ast(f, "sc_uint128_", incs(tmp))
    for fn in ["sc_uint128_init", "sc_uint128_chk_bit", "sc_uint128_set_bit", "sc_uint128_copy", "sc_uint128_is_equal",
               "sc_uint128_compare", "sc_uint128_add", "sc_uint128_sub", "sc_uint128_bitwise_neg", "sc_uint128_bitwise_or",
               "sc_uint128_bitwise_and", "sc_uint128_shift_right", "sc_uint128_shift_left", "sc_uint128_add_inplace",
               "sc_uint128_sub_inplace", "sc_uint128_bitwise_or_inplace", "sc_uint128_bitwise_and_inplace"]:
        t, i = c2g.translate_function(c2g.find_function(objs, fn), structs=STRUCTS)
        g.add(t, i)
    # the header allows a == b for the in-place functions: the same source translated with b aliased to a
    for fn in ["sc_uint128_add_inplace", "sc_uint128_sub_inplace", "sc_uint128_bitwise_or_inplace", "sc_uint128_bitwise_and_inplace"]:
        t, i = c2g.translate_function(c2g.find_function(objs, fn), gname=fn + "_aliased", structs=STRUCTS, alias={"b": "a"})
        g.add(t, i)
    # documented aliasing of the out-of-place functions: "a == result", "b == result", "input == result", "a == b"
    HL = lambda n: [n + "_high_bits", n + "_low_bits"]
    for fn, al, suffix, outs in [
            ("sc_uint128_shift_right", {"result": "input"}, "_inres", HL("input")),
            ("sc_uint128_shift_left", {"result": "input"}, "_inres", HL("input")),
            ("sc_uint128_bitwise_neg", {"result": "a"}, "_ares", HL("a")),
            ("sc_uint128_bitwise_or", {"result": "a"}, "_ares", HL("a")),
            ("sc_uint128_bitwise_or", {"result": "b"}, "_bres", HL("b")),
            ("sc_uint128_bitwise_or", {"b": "a", "result": "a"}, "_abres", HL("a")),
            ("sc_uint128_bitwise_and", {"result": "a"}, "_ares", HL("a")),
            ("sc_uint128_bitwise_and", {"result": "b"}, "_bres", HL("b")),
            ("sc_uint128_bitwise_and", {"b": "a", "result": "a"}, "_abres", HL("a")),
            ("sc_uint128_add", {"b": "a"}, "_ab", None),
            ("sc_uint128_sub", {"b": "a"}, "_ab", None)]:
        t, i = c2g.translate_function(c2g.find_function(objs, fn), gname=fn + suffix, structs=STRUCTS, alias=al, outputs=outs)
        g.add(t, i)
    return g, [f]


def gen_search(tmp):
    g = Group("Search")
    f = os.path.join(REPO, "src", "sc_search.c")
    objs = c2g.clang_ast(f, "sc_search_", incs(tmp))
    t, i = c2g.translate_function(c2g.find_function(objs, "sc_search_bias"))
    g.add(t, i)
    t, i = c2g.translate_function(c2g.find_function(objs, "sc_search_lower_bound64"), arrays=("array",))
    g.add(t, i)
    objs = c2g.clang_ast(f, "sc_bsearch_range", incs(tmp))

    def strip(n):
        n = c2g.skip_parens(n)
        while n.get("kind") in ("ImplicitCastExpr", "CStyleCastExpr"):
            n = c2g.skip_parens(n["inner"][0])
        return n

    def compar_hook(T, node, env):
        """compar (ckey, cbase + X * size) -> cmp_ke X ; compar (cbase + X * size, ckey) -> cmp_ek X"""
        kinds = []
        for a in node["inner"][1:]:
            a = strip(a)
            if a.get("kind") == "DeclRefExpr" and a["referencedDecl"]["name"] in ("ckey", "key"):
                kinds.append(("key", None))
            elif a.get("kind") == "BinaryOperator" and a.get("opcode") == "+" and \
                    strip(a["inner"][0]).get("referencedDecl", {}).get("name") in ("cbase", "base"):
                mul = strip(a["inner"][1])
                if mul.get("kind") != "BinaryOperator" or mul.get("opcode") != "*" or \
                        strip(mul["inner"][1]).get("referencedDecl", {}).get("name") != "size":
                    raise c2g.Unsupported("compar argument is not base + index * size")
                kinds.append(("elem", T.expr(mul["inner"][0], env)))
            else:
                raise c2g.Unsupported("compar argument shape " + str(a.get("kind")))
        if [k for k, _ in kinds] == ["key", "elem"]:
            return c2g.E("cmp_ke %s" % kinds[1][1].z())
        if [k for k, _ in kinds] == ["elem", "key"]:
            return c2g.E("cmp_ek %s" % kinds[0][1].z())
        raise c2g.Unsupported("compar call shape")

    t, i = c2g.translate_function(c2g.find_function(objs, "sc_bsearch_range"), call_hooks={"compar": compar_hook},
                                  extra_params=[("cmp_ke", "Z -> Z"), ("cmp_ek", "Z -> Z")],
                                  skip_params=("key", "base", "size", "compar"))
    g.add(t, i)
    return g, [f]


def gen_functions(tmp):
    g = Group("Functions")
    f = os.path.join(REPO, "src", "sc_functions.c")
    objs = c2g.clang_ast(f, "sc_intpow", incs(tmp))
    for fn in ["sc_intpow", "sc_intpow64", "sc_intpow64u"]:
        t, i = c2g.translate_function(c2g.find_function(objs, fn))
        g.add(t, i)
    return g, [f]


def gen_macros(tmp):
    g = Group("Macros")
    f = os.path.join(REPO, "src", "sc.c")
    objs = c2g.clang_ast(f, "sc_log2_lookup_table", incs(tmp))
    t, i = c2g.translate_table(c2g.find_var(objs, "sc_log2_lookup_table"), "sc_log2_lookup_table")
    g.add(t, i)
    w = os.path.join(HERE, "wrap", "macros.c")
    objs = c2g.clang_ast(w, "w_sc_", incs(tmp))
    for fn in ["w_sc_log2_8", "w_sc_log2_16", "w_sc_log2_32", "w_sc_log2_32u", "w_sc_log2_64", "w_sc_log2_64u",
               "w_sc_roundup2_32", "w_sc_roundup2_64", "w_sc_min", "w_sc_max"]:
        t, i = c2g.translate_function(c2g.find_function(objs, fn), tables={"sc_log2_lookup_table"})
        g.add(t, i)
    return g, [f, os.path.join(REPO, "src", "sc.h")]


def gen_consts(tmp):
    import subprocess
    g = Group("Consts")
    w = os.path.join(HERE, "wrap", "consts.c")
    exe = os.path.join(tmp, "consts")
    p = subprocess.run(["gcc", "-w"] + ["-I" + i for i in incs(tmp)] + [w, "-o", exe], stdout=subprocess.PIPE, stderr=subprocess.STDOUT)
    if p.returncode != 0:
        raise c2g.Unsupported("consts.c does not compile: " + p.stdout.decode()[-400:])
    out = subprocess.run([exe], stdout=subprocess.PIPE).stdout.decode()
    g.add(out, dict(name="consts", lines=out.count("\n")))
    return g, [os.path.join(REPO, "src", "sc_mpi.h"), os.path.join(REPO, "src", "sc_allgather.h"), os.path.join(REPO, "src", "sc_reduce.h")]


GROUPS = {"Consts": gen_consts, "Uint128": gen_uint128, "Search": gen_search, "Functions": gen_functions, "Macros": gen_macros}

# further groups are registered by optional modules tools/c2g/groups_*.py
import glob, importlib.util
for gp in sorted(glob.glob(os.path.join(HERE, "groups_*.py"))):
    spec = importlib.util.spec_from_file_location(os.path.basename(gp)[:-3], gp)
    m = importlib.util.module_from_spec(spec)
    spec.loader.exec_module(m)
    m.register(GROUPS, c2g, incs, REPO, HERE, STRUCTS, Group)


def run(names=None):
    os.makedirs(GEN, exist_ok=True)
    tmp = tempfile.mkdtemp(prefix="verif-c2g-", dir="/var/tmp")
    os.makedirs(os.path.join(tmp, "inc"))
    vlib.make_config_h(os.path.join(tmp, "inc", "sc_config.h"), "off", True, False)
    status = {}
    try:
        for name in (names or sorted(GROUPS)):
            st = os.path.join(GEN, name + ".status")
            try:
                g, files = GROUPS[name](tmp)
                src = ", ".join(os.path.relpath(x, REPO) if x.startswith(REPO) else os.path.relpath(x, vlib.VERIF) for x in files)
                text = c2g.HEADER % src + g.text
                changed = c2g.write_if_changed(os.path.join(GEN, name + ".v"), text)
                json.dump(dict(ok=True, infos=g.infos, files=files), open(st, "w"), indent=1)
                status[name] = "ok" + (" (changed)" if changed else "")
            except (c2g.Unsupported, KeyError, IndexError, TypeError, ValueError) as e:
                json.dump(dict(ok=False, error=str(e)), open(st, "w"), indent=1)
                # leave a file that does not compile so that dependents cannot silently use stale output
                c2g.write_if_changed(os.path.join(GEN, name + ".v"),
                                     "(* translation failed: %s *)\nFail Definition translation_failed := 0.\nDefinition broken : False := I.\n" % str(e).replace("*)", "* )"))
                status[name] = "FAILED: " + str(e)
    finally:
        shutil.rmtree(tmp, ignore_errors=True)
    return status


if __name__ == "__main__":
    st = run(sys.argv[1:] or None)
    for k, v in st.items():
        print("c2g %-12s %s" % (k, v))
