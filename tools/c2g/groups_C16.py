"""Translator group MpiC16 (tie T1 of property C16): sc_mpi_sizeof of /repo/src/sc_mpi.c in the configuration
without MPI.  The ordinary c2g rules translate the if-chain; two additions: enumerators that occur as values
(`SC3_MPI_BYTE`, ...) become the Gallina constants `dt_<name>` whose numbers a small compiled program
(wrap/consts_c16.c, same headers, same configuration) prints, and the final `SC_ABORT_NOT_REACHED ()` (a call of
the noreturn sc_abort_verbose) becomes `return sizeof_aborts` with `sizeof_aborts := -1`.  The same program prints the
numbers of all sc_MPI_<datatype> handles (`h_MPI_INT`, ...) and of a few constants used by the C16 model."""
import os, subprocess


def register(GROUPS, c2g, incs, REPO, HERE, STRUCTS, Group):

    class T16(c2g.Translator):
        def expr(self, n, env):
            if n.get("kind") == "DeclRefExpr" and n.get("referencedDecl", {}).get("kind") == "EnumConstantDecl":
                return c2g.E("dt_%s" % n["referencedDecl"]["name"], "Z", True)
            return super().expr(n, env)

        def stmts(self, lst, env, K):
            if lst and isinstance(lst[0], dict) and lst[0].get("kind") == "CallExpr":
                callee = c2g.skip_parens(lst[0]["inner"][0])
                while callee.get("kind") == "ImplicitCastExpr":
                    callee = c2g.skip_parens(callee["inner"][0])
                if callee.get("referencedDecl", {}).get("name") == "sc_abort_verbose":
                    return K["ret"](c2g.E("sizeof_aborts", "Z", True), env)
            return super().stmts(lst, env, K)

    def gen(tmp):
        g = Group("MpiC16")
        f = os.path.join(REPO, "src", "sc_mpi.c")
        w = os.path.join(HERE, "wrap", "consts_c16.c")
        exe = os.path.join(tmp, "consts_c16")
        p = subprocess.run(["gcc", "-w"] + ["-I" + i for i in incs(tmp)] + [w, "-o", exe], stdout=subprocess.PIPE, stderr=subprocess.STDOUT)
        if p.returncode != 0:
            raise c2g.Unsupported("consts_c16.c does not compile: " + p.stdout.decode()[-400:])
        out = subprocess.run([exe], stdout=subprocess.PIPE).stdout.decode()
        g.add(out + "Definition sizeof_aborts : Z := -1.\n", dict(name="consts_c16", lines=out.count("\n")))
        objs = c2g.clang_ast(f, "sc_mpi_sizeof", incs(tmp))
        fn = c2g.find_function(objs, "sc_mpi_sizeof")
        saved = c2g.Translator
        c2g.Translator = T16
        try:
            t, i = c2g.translate_function(fn)
        finally:
            c2g.Translator = saved
        g.add(t, i)
        return g, [f, os.path.join(REPO, "src", "sc_mpi.h"), os.path.join(REPO, "src", "sc3_mpi_types.h"), w]

    GROUPS["MpiC16"] = gen
