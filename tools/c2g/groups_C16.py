"""Translator group MpiC16 (tie T1 of property C16), regenerated from /repo/src/sc_mpi.c in the configuration without MPI.

 * sc_mpi_sizeof: the ordinary c2g rules translate the if-chain; two additions: enumerators that occur as values
   (`SC3_MPI_BYTE`, ...) become the Gallina constants `dt_<name>` whose numbers a small compiled program
   (wrap/consts_c16.c, same headers, same configuration) prints, and the final `SC_ABORT_NOT_REACHED ()` (a call of
   the noreturn sc_abort_verbose) becomes `return sizeof_aborts` with `sizeof_aborts := -1`.  The same program prints the
   numbers of all sc_MPI_<datatype> handles (`h_MPI_INT`, ...) and of a few constants used by the C16 model.
 * stub_<name>: the WHOLE BODY of every serial stub that the C16 model covers, translated with slicelib.SliceT (pointers are
   integers, calls of memcpy / of another stub / of snprintf are ghost outputs <callee>_called, <callee>_arg<i>, a result that
   is used is the parameter <callee>_ret, `&x` handed to a callee makes x a parameter) plus five local conventions:
     - enumerators are the constants dt_<name>; those not printed by consts_c16.c are printed by a program that is
       GENERATED here from the names met in the slices and compiled against the same headers;
     - `SC_CHECK_ABORT (c, ..)` is not dropped but tracked: the ghost output `ok` (1 at the start) becomes `ok && c`;
     - `return f (args);` with f an effect; `return *p = v;`; `if ((x = f (..)) < 0)` are split into their two steps;
     - `displ[0]` is the location displ_0;
     - a string literal is the number 1 + its index in the generated list `stub_strings` (byte lists, order of first use).
   stub_gather, stub_gatherv, stub_reduce                         (memcpy_called, dest, src, bytes, returned code)
   stub_allgather, stub_alltoall, stub_allgatherv, stub_allreduce, stub_reduce_scatter_block, stub_scan
                                                                    (callee_called, the forwarded arguments, returned code)
   stub_exscan, stub_bcast, stub_barrier                          returned code (a memcpy would add outputs)
   stub_type_size, stub_pack_size, stub_pack, stub_unpack         stored *size / *position, the memcpy, the space test
   stub_comm_size/rank/dup/split/free/group, stub_group_size/rank/free, stub_init_thread      stored output, returned code
   stub_wait, stub_waitall, stub_testall, stub_waitsome           (ok, stored *flag / *outcount, returned code), loops fuelled
   stub_error_class, stub_error_string, stub_strings
 * sc_mpi_sizeof_mpi: sc_mpi_sizeof from the same source in the configuration WITH MPI (sc_config.h with SC_ENABLE_MPI, include
   directories of `mpicc --showme:incdirs`): `&ompi_mpi_<x>` (the object behind a predefined handle) is the parameter addr_ompi_mpi_<x>.
coq/C16/MpiGen.v proves that the hand-written model (MpiModel.v) computes exactly these."""
import os, re, subprocess


def register(GROUPS, c2g, incs, REPO, HERE, STRUCTS, Group):

    class T16(c2g.Translator):
        def expr(self, n, env):
            if n.get("kind") == "DeclRefExpr" and n.get("referencedDecl", {}).get("kind") == "EnumConstantDecl":
                return c2g.E("dt_%s" % n["referencedDecl"]["name"], "Z", True)
            return super().expr(n, env)

        def stmts(self, lst, env, K):
            if lst and isinstance(lst[0], dict) and lst[0].get("kind") == "CallExpr":
                callee = c2g.skip_parens(lst[0]["inner"][0])
                while callee.get("kind") == "ImplicitCastExpr":
                    callee = c2g.skip_parens(callee["inner"][0])
                if callee.get("referencedDecl", {}).get("name") == "sc_abort_verbose":
                    return K["ret"](c2g.E("sizeof_aborts", "Z", True), env)
            return super().stmts(lst, env, K)

    def gen(tmp):
        g = Group("MpiC16")
        f = os.path.join(REPO, "src", "sc_mpi.c")
        w = os.path.join(HERE, "wrap", "consts_c16.c")
        exe = os.path.join(tmp, "consts_c16")
        p = subprocess.run(["gcc", "-w"] + ["-I" + i for i in incs(tmp)] + [w, "-o", exe], stdout=subprocess.PIPE, stderr=subprocess.STDOUT)
        if p.returncode != 0:
            raise c2g.Unsupported("consts_c16.c does not compile: " + p.stdout.decode()[-400:])
        out = subprocess.run([exe], stdout=subprocess.PIPE).stdout.decode()
        g.add(out + "Definition sizeof_aborts : Z := -1.\n", dict(name="consts_c16", lines=out.count("\n")))
        objs = c2g.clang_ast(f, "sc_mpi_sizeof", incs(tmp))
        fn = c2g.find_function(objs, "sc_mpi_sizeof")
        saved = c2g.Translator
        c2g.Translator = T16
        try:
            t, i = c2g.translate_function(fn)
        finally:
            c2g.Translator = saved
        g.add(t, i)

        # ---------------------------------------------------------------- bodies of the serial stubs
        import slicelib as sl
        used_enums = set()
        strings = []

        class S16(sl.SliceT):
            const_index = False
            track_abort = False
            abort_returns = False

            def __init__(self, **kw):
                super().__init__(**kw)
                self.const_index_locations = S16.const_index

            # every stub returns int: a `return` inside a loop carries a Z (emit_block assumes void)
            ret_void = property(lambda self: False, lambda self, v: None)

            def expr(self, n, env):
                if n.get("kind") == "UnaryOperator" and n.get("opcode") == "&":
                    # the address of a global object (OpenMPI's predefined handles) is the parameter addr_<name>
                    tgt = sl.strip(n["inner"][0])
                    if tgt.get("kind") == "DeclRefExpr" and tgt.get("referencedDecl", {}).get("kind") == "VarDecl" and tgt["referencedDecl"]["name"] not in env:
                        return c2g.E(self.lookup(env, "addr_" + tgt["referencedDecl"]["name"]), "Z", True)
                if n.get("kind") == "StringLiteral":
                    # a string literal is the "address" 1 + its index in the generated list stub_strings
                    import json as _json
                    v = _json.loads(n["value"])
                    if v not in strings:
                        strings.append(v)
                    return c2g.E(str(1 + strings.index(v)), "Z", True)
                if n.get("kind") == "DeclRefExpr" and n.get("referencedDecl", {}).get("kind") == "EnumConstantDecl":
                    used_enums.add(n["referencedDecl"]["name"])
                    return c2g.E("dt_%s" % n["referencedDecl"]["name"], "Z", True)
                return super().expr(n, env)

            def abort_cond_of(self, s):
                """SC_CHECK_ABORT (c, ..) = `(c) ? (void) 0 : sc_abort_verbose (..)`: the node of c, else None"""
                t = c2g.skip_parens(s)
                if S16.track_abort and t.get("kind") == "ConditionalOperator" and c2g.tystr(t) == "void" and \
                        sl.callee_name(sl.strip(t["inner"][2])) in sl.ABORTS and sl.callee_name(sl.strip(t["inner"][1])) is None:
                    return t["inner"][0]
                return None

            def assigned(self, s, acc, declared):
                super().assigned(s, acc, declared)
                if S16.track_abort and sl.find_nodes(s, lambda n: self.abort_cond_of(n) is not None):
                    acc.add("ok")

            def referenced(self, s, acc):
                if s.get("kind") == "ArraySubscriptExpr" and self.fun_name(s) is not None:
                    self.referenced(s["inner"][1], acc)      # the base is a memory-read function, not a variable
                    return
                super().referenced(s, acc)

            def stmts(self, ss, env, K):
                if S16.abort_returns and ss and ss[0].get("kind") == "CallExpr" and sl.callee_name(ss[0]) == "sc_abort_verbose":
                    return K["ret"](c2g.E("sizeof_aborts", "Z", True), env)      # SC_ABORT_NOT_REACHED ()
                # SC_CHECK_ABORT (c, ..): the ghost `ok` (1 at the start) becomes ok && c; execution continues
                if ss and self.abort_cond_of(ss[0]) is not None:
                    c = self.expr(self.abort_cond_of(ss[0]), env)
                    return self.assign("ok", c2g.E("(z2b %s) && %s" % (self.lookup(env, "ok"), c.b()), "bool"), env, list(ss[1:]), K)
                # `if ((x = f (..)) < 0)` is `x = f (..); if (x < 0)`
                if ss and ss[0].get("kind") == "IfStmt":
                    c = c2g.skip_parens(ss[0]["inner"][0])
                    if c.get("kind") == "BinaryOperator" and c.get("opcode") in ("<", "<=", ">", ">=", "==", "!="):
                        a = c2g.skip_parens(c["inner"][0])
                        if a.get("kind") == "BinaryOperator" and a.get("opcode") == "=" and sl.strip(a["inner"][0]).get("kind") == "DeclRefExpr":
                            lhs = dict(kind="ImplicitCastExpr", castKind="LValueToRValue", type=a.get("type"), inner=[a["inner"][0]])
                            c2 = dict(c, inner=[lhs, c["inner"][1]])
                            return self.stmts([a, dict(ss[0], inner=[c2] + list(ss[0]["inner"][1:]))] + list(ss[1:]), env, K)
                # `return *p = v;` is `*p = v; return *p;`
                if ss and ss[0].get("kind") == "ReturnStmt":
                    inner = [c for c in ss[0].get("inner", []) if isinstance(c, dict)]
                    if inner:
                        a = sl.strip(inner[0])
                        if a.get("kind") == "BinaryOperator" and a.get("opcode") == "=":
                            return self.stmts([a, dict(ss[0], inner=[a["inner"][0]])] + list(ss[1:]), env, K)
                        if a.get("kind") == "CallExpr" and id(a) in self.ghost_of:
                            # `return f (args);` with f an effect: the arguments are ghost outputs, the value is f_ret
                            pre = self.ghost_of[id(a)]
                            pairs = [(pre + "_called", c2g.E("1", "Z", True))] if self.effect_called else []
                            pairs += [("%s_arg%d" % (pre, k), self.expr(x, env)) for k, x in enumerate(a["inner"][1:])]
                            retp = c2g.E(self.lookup(env, pre + "_ret"), "Z", True)
                            return self.ghost_assign(pairs, env, [], dict(K, fin=lambda e2: K["ret"](retp, e2)))
                return super().stmts(ss, env, K)

        allf = c2g.clang_ast(f, "sc_MPI_", incs(tmp))
        KF = {"sc_mpi_sizeof": ("sc_mpi_sizeof", False)}

        def body_of(name):
            F = c2g.find_function(allf, name)
            return [c for c in F["inner"] if c.get("kind") == "CompoundStmt"][0].get("inner", [])

        def block(name, gname, outputs, const_index=False, track_abort=False, **kw):
            saved = sl.SliceT
            sl.SliceT = S16
            S16.const_index = const_index
            S16.track_abort = track_abort
            if track_abort:
                kw["init"] = dict(kw.get("init") or {}, ok="1")
            try:
                t, i = sl.emit_block(body_of(name), gname, outputs, name, ret="ret", known_funcs=KF, **kw)
            finally:
                sl.SliceT = saved
            g.add(t, i)
            return i

        MC = dict(effects=("memcpy",), effect_called=True)
        block("sc_MPI_Gather", "stub_gather", ["*ghosts", "ret"], params=("p", "np", "tp", "q"), want_params=["p", "np", "tp", "q"], **MC)
        block("sc_MPI_Gatherv", "stub_gatherv", ["*ghosts", "ret"], params=("p", "np", "tp", "q", "displ_0", "tq"),
              want_params=["p", "np", "tp", "q", "displ_0", "tq"], const_index=True, comment="displ_0 = displ[0]", **MC)
        block("sc_MPI_Reduce", "stub_reduce", ["*ghosts", "ret"], params=("p", "q", "n", "t"), want_params=["p", "q", "n", "t"], **MC)
        for name, callee, want in (("sc_MPI_Allgather", "sc_MPI_Gather", ["p", "np", "tp", "q", "nq", "tq", "comm"]),
                                   ("sc_MPI_Alltoall", "sc_MPI_Gather", ["p", "np", "tp", "q", "nq", "tq", "comm"]),
                                   ("sc_MPI_Allgatherv", "sc_MPI_Gatherv", ["p", "np", "tp", "q", "recvc", "displ", "tq", "comm"]),
                                   ("sc_MPI_Allreduce", "sc_MPI_Reduce", ["p", "q", "n", "t", "op", "comm"]),
                                   ("sc_MPI_Reduce_scatter_block", "sc_MPI_Reduce", ["p", "q", "n", "t", "op", "comm"]),
                                   ("sc_MPI_Scan", "sc_MPI_Reduce", ["sendbuf", "recvbuf", "count", "datatype", "op", "comm"])):
            block(name, "stub_" + name[7:].lower(), ["*ghosts", "ret"], params=tuple(want), want_params=want + [callee + "_ret"],
                  effects=(callee, "memcpy"), effect_called=True)
        for name in ("sc_MPI_Exscan", "sc_MPI_Bcast", "sc_MPI_Barrier"):
            block(name, "stub_" + name[7:].lower(), ["*ghosts", "ret"], want_params=[], **MC)
        block("sc_MPI_Type_size", "stub_type_size", ["size_deref", "ret"], want_params=["datatype"])
        block("sc_MPI_Pack_size", "stub_pack_size", ["*ghosts", "size_deref", "ret"], params=("incount", "datatype", "size"),
              want_params=["incount", "datatype", "size", "size_deref", "sc_MPI_Type_size_ret"],
              effects=("sc_MPI_Type_size",), effect_called=True, clobbers={"sc_MPI_Type_size": ("size_deref",)},
              comment="size_deref = what sc_MPI_Type_size stored through the pointer `size` (its second argument)")
        block("sc_MPI_Pack", "stub_pack", ["*ghosts", "position_deref", "ret"], params=("inbuf", "incount", "datatype", "outbuf", "outsize", "position_deref", "comm"),
              want_params=["inbuf", "incount", "datatype", "outbuf", "outsize", "position_deref", "comm", "size", "sc_MPI_Pack_size_ret"],
              effects=("sc_MPI_Pack_size", "memcpy"), effect_called=True,
              comment="size = what sc_MPI_Pack_size stored through &size")
        block("sc_MPI_Unpack", "stub_unpack", ["*ghosts", "position_deref", "ret"], params=("inbuf", "insize", "position_deref", "outbuf", "outcount", "datatype", "comm"),
              want_params=["inbuf", "insize", "position_deref", "outbuf", "outcount", "datatype", "comm", "size", "sc_MPI_Pack_size_ret"],
              effects=("sc_MPI_Pack_size", "memcpy"), effect_called=True,
              comment="size = what sc_MPI_Pack_size stored through &size")
        for name, out in (("sc_MPI_Comm_size", "size_deref"), ("sc_MPI_Comm_rank", "rank_deref"), ("sc_MPI_Group_size", "size_deref"),
                          ("sc_MPI_Group_rank", "rank_deref"), ("sc_MPI_Comm_free", "comm_deref"), ("sc_MPI_Comm_group", "group_deref"),
                          ("sc_MPI_Group_free", "group_deref")):
            block(name, "stub_" + name[7:].lower(), [out, "ret"], want_params=[])
        block("sc_MPI_Comm_dup", "stub_comm_dup", ["newcomm_deref", "ret"], want_params=["comm"])
        block("sc_MPI_Comm_split", "stub_comm_split", ["newcomm_deref", "ret"], want_params=["comm"])
        block("sc_MPI_Init_thread", "stub_init_thread", ["provided_deref", "ret"], params=("provided", "provided_deref"), want_params=["provided", "provided_deref"])
        # completion calls: SC_CHECK_ABORT (c, ..) is tracked in the ghost output `ok` (1 = no abort so far)
        block("sc_MPI_Wait", "stub_wait", ["ok", "ret"], params=("request_deref",), want_params=["request_deref"], track_abort=True)
        for name, cnt, out in (("sc_MPI_Waitall", "count", None), ("sc_MPI_Testall", "count", "flag_deref"), ("sc_MPI_Waitsome", "incount", "outcount_deref")):
            block(name, "stub_" + name[7:].lower(), ["ok"] + ([out] if out else []) + ["ret"], params=(cnt,) + ((out,) if out else ()),
                  want_params=[cnt] + ([out] if out else []), array_reads=("array_of_requests",), track_abort=True,
                  comment="array_of_requests i = the i-th request; ok = 1 iff no SC_CHECK_ABORT fired")
        block("sc_MPI_Error_class", "stub_error_class", ["errorclass_deref", "ret"], params=("errorcode", "errorclass", "errorclass_deref"),
              want_params=["errorcode", "errorclass", "errorclass_deref"])
        i = block("sc_MPI_Error_string", "stub_error_string", ["*ghosts", "resultlen_deref", "ret"], params=("errorcode", "string", "resultlen", "resultlen_deref"),
                  want_params=["errorcode", "string", "resultlen", "resultlen_deref", "snprintf_ret"], effects=("snprintf",), effect_called=True,
                  comment="a string literal is 1 + its index in stub_strings; snprintf_arg3 = the message, snprintf_ret = what snprintf returns")
        def coqstr(v):
            return "[%s]" % "; ".join(str(b) for b in v.encode("latin-1"))
        g.add("Definition stub_strings : list (list Z) :=\n  [%s].\n" % ";\n   ".join(coqstr(v) for v in strings), dict(name="stub_strings", n=len(strings)))
        # the numbers of the enumerators that occur in the slices (printed by a program compiled against the same headers)
        have = set(re.findall(r"Definition (dt_\w+) ", out))
        need = sorted(e for e in used_enums if "dt_" + e not in have)
        if need:
            src = os.path.join(tmp, "enums_c16.c")
            open(src, "w").write("#include <stdio.h>\n#include <sc_config.h>\n#include <sc_mpi.h>\nint main (void) {\n" +
                                 "".join('  printf ("Definition dt_%s : Z := %%ld.\\n", (long) (%s));\n' % (e, e) for e in need) + "  return 0;\n}\n")
            exe2 = os.path.join(tmp, "enums_c16")
            p = subprocess.run(["gcc", "-w"] + ["-I" + x for x in incs(tmp)] + [src, "-o", exe2], stdout=subprocess.PIPE, stderr=subprocess.STDOUT)
            if p.returncode != 0:
                raise c2g.Unsupported("enumerator program does not compile: " + p.stdout.decode()[-400:])
            out2 = subprocess.run([exe2], stdout=subprocess.PIPE).stdout.decode()
            g.text = g.text.replace("Definition sizeof_aborts", out2 + "Definition sizeof_aborts", 1)
        # ---------------------------------------------------------------- sc_mpi_sizeof in the configuration WITH MPI (OpenMPI's mpi.h)
        q = subprocess.run(["mpicc", "--showme:incdirs"], stdout=subprocess.PIPE, stderr=subprocess.DEVNULL)
        if q.returncode != 0:
            raise c2g.Unsupported("mpicc --showme:incdirs fails")
        import vlib
        inc_mpi = os.path.join(tmp, "inc_mpi")
        os.makedirs(inc_mpi, exist_ok=True)
        vlib.make_config_h(os.path.join(inc_mpi, "sc_config.h"), "ompi", True, False)
        mincs = [inc_mpi] + [x for x in incs(tmp) if not x.startswith(os.path.join(tmp, "inc"))] + q.stdout.decode().split()
        fm = c2g.find_function(c2g.clang_ast(f, "sc_mpi_sizeof", mincs), "sc_mpi_sizeof")
        saved = sl.SliceT
        sl.SliceT = S16
        S16.const_index, S16.track_abort, S16.abort_returns = False, False, True
        try:
            t, i = sl.emit_block([c for c in fm["inner"] if c.get("kind") == "CompoundStmt"][0].get("inner", []), "sc_mpi_sizeof_mpi", ["ret"],
                                 "sc_mpi_sizeof (SC_ENABLE_MPI)", params=("t",), ret="ret",
                                 comment="sc_mpi_sizeof compiled against OpenMPI's mpi.h: addr_<x> = the address of the global object x behind a predefined handle")
        finally:
            sl.SliceT = saved
            S16.abort_returns = False
        g.add(t, i)
        return g, [f, os.path.join(REPO, "src", "sc_mpi.h"), os.path.join(REPO, "src", "sc3_mpi_types.h"), w]

    GROUPS["MpiC16"] = gen
