/* Prints the numeric constants behind sc_io_error_class as Gallina definitions (group ErrClassC12).
   Compiled twice: without MPI (prefix cA_) and with MPI but without MPI I/O against the simulated mpi.h (prefix cC_).
   Usage: consts_c12 <prefix> */
#include <sc.h>
#include <sc_mpi.h>
#include <sc_io.h>
#include <errno.h>
#include <stdio.h>
static const char  *pre;
#define C(x) printf ("Definition %s_%s : Z := %lld.\n", pre, #x, (long long) (x))
#define E(x) printf ("Definition e_%s : Z := %lld.\n", #x, (long long) (x))
int main (int argc, char **argv)
{
  pre = argc > 1 ? argv[1] : "cA";
#ifndef SC_ENABLE_MPI
  /* the enumerators that the class macros of sc_mpi.h expand to */
  C (SC3_MPI_SUCCESS); C (SC3_MPI_ERR_ARG); C (SC3_MPI_ERR_COUNT); C (SC3_MPI_ERR_UNKNOWN); C (SC3_MPI_ERR_OTHER); C (SC3_MPI_ERR_NO_MEM);
  C (SC3_MPI_ERR_FILE); C (SC3_MPI_ERR_NOT_SAME); C (SC3_MPI_ERR_AMODE); C (SC3_MPI_ERR_UNSUPPORTED_DATAREP);
  C (SC3_MPI_ERR_UNSUPPORTED_OPERATION); C (SC3_MPI_ERR_NO_SUCH_FILE); C (SC3_MPI_ERR_FILE_EXISTS); C (SC3_MPI_ERR_BAD_FILE);
  C (SC3_MPI_ERR_ACCESS); C (SC3_MPI_ERR_NO_SPACE); C (SC3_MPI_ERR_QUOTA); C (SC3_MPI_ERR_READ_ONLY); C (SC3_MPI_ERR_FILE_IN_USE);
  C (SC3_MPI_ERR_DUP_DATAREP); C (SC3_MPI_ERR_CONVERSION); C (SC3_MPI_ERR_IO); C (SC3_MPI_ERR_LASTCODE);
  /* errno values (the same in both configurations; printed once) */
  E (EBADF); E (ESPIPE); E (EINVAL); E (EOPNOTSUPP); E (ENOENT); E (EEXIST); E (EFAULT); E (EISDIR); E (ELOOP); E (ENAMETOOLONG);
  E (ENODEV); E (ENOTDIR); E (EACCES); E (EPERM); E (EROFS); E (ETXTBSY); E (EFBIG); E (ENOSPC); E (EOVERFLOW); E (EMFILE);
  E (ENFILE); E (ENOMEM); E (EAGAIN); E (EDESTADDRREQ); E (EINTR); E (EIO); E (ENXIO); E (EPIPE);
  printf ("Definition c12_SC_IO_READ : Z := %d.\nDefinition c12_SC_IO_WRITE_CREATE : Z := %d.\nDefinition c12_SC_IO_WRITE_APPEND : Z := %d.\n",
          (int) SC_IO_READ, (int) SC_IO_WRITE_CREATE, (int) SC_IO_WRITE_APPEND);
#endif
  /* the classes by the names of sc_mpi.h, in one fixed order (index = position in c12_class_names of the check) */
  printf ("Definition %s_classes : list Z := [%d; %d; %d; %d; %d; %d; %d; %d; %d; %d; %d; %d; %d; %d; %d; %d; %d; %d; %d; %d; %d; %d].\n", pre,
          (int) sc_MPI_SUCCESS, (int) sc_MPI_ERR_ARG, (int) sc_MPI_ERR_COUNT, (int) sc_MPI_ERR_UNKNOWN, (int) sc_MPI_ERR_OTHER,
          (int) sc_MPI_ERR_NO_MEM, (int) sc_MPI_ERR_FILE, (int) sc_MPI_ERR_NOT_SAME, (int) sc_MPI_ERR_AMODE,
          (int) sc_MPI_ERR_UNSUPPORTED_DATAREP, (int) sc_MPI_ERR_UNSUPPORTED_OPERATION, (int) sc_MPI_ERR_NO_SUCH_FILE,
          (int) sc_MPI_ERR_FILE_EXISTS, (int) sc_MPI_ERR_BAD_FILE, (int) sc_MPI_ERR_ACCESS, (int) sc_MPI_ERR_NO_SPACE,
          (int) sc_MPI_ERR_QUOTA, (int) sc_MPI_ERR_READ_ONLY, (int) sc_MPI_ERR_FILE_IN_USE, (int) sc_MPI_ERR_DUP_DATAREP,
          (int) sc_MPI_ERR_CONVERSION, (int) sc_MPI_ERR_IO);
  printf ("Definition %s_SUCCESS : Z := %d.\nDefinition %s_ERR_ARG : Z := %d.\n", pre, (int) sc_MPI_SUCCESS, pre, (int) sc_MPI_ERR_ARG);
#ifdef SC_ENABLE_MPI
  C (sc_MPI_ERR_FILE); C (sc_MPI_ERR_NOT_SAME); C (sc_MPI_ERR_AMODE); C (sc_MPI_ERR_UNSUPPORTED_DATAREP);
  C (sc_MPI_ERR_UNSUPPORTED_OPERATION); C (sc_MPI_ERR_NO_SUCH_FILE); C (sc_MPI_ERR_FILE_EXISTS); C (sc_MPI_ERR_BAD_FILE);
  C (sc_MPI_ERR_ACCESS); C (sc_MPI_ERR_NO_SPACE); C (sc_MPI_ERR_QUOTA); C (sc_MPI_ERR_READ_ONLY); C (sc_MPI_ERR_FILE_IN_USE);
  C (sc_MPI_ERR_DUP_DATAREP); C (sc_MPI_ERR_CONVERSION); C (sc_MPI_ERR_IO); C (sc_MPI_ERR_LASTCODE);
#endif
  return 0;
}
