/* C19: one-line wrappers so that clang expands the real log macros of /repo/src/sc.h
   (the translator works on functions; the macro text comes from the repository). */
#include <sc.h>
void w_c19_gen_log (int package, int category, int priority, const char *s) { SC_GEN_LOG (package, category, priority, s); }
void w_c19_gen_logf (int package, int category, int priority, const char *s) { SC_GEN_LOGF (package, category, priority, "%s", s); }
void w_c19_lerror (const char *s) { SC_LERRORF ("%s", s); }
void w_c19_global_essential (const char *s) { SC_GLOBAL_ESSENTIALF ("%s", s); }
void w_c19_global_production (const char *s) { SC_GLOBAL_PRODUCTIONF ("%s", s); }
void w_c19_trace (const char *s) { SC_TRACEF ("%s", s); }
void w_c19_global_info (const char *s) { SC_GLOBAL_INFOF ("%s", s); }
int c19_const_lp_default (void) { return SC_LP_DEFAULT; }
int c19_const_lp_always (void) { return SC_LP_ALWAYS; }
int c19_const_lp_trace (void) { return SC_LP_TRACE; }
int c19_const_lp_statistics (void) { return SC_LP_STATISTICS; }
int c19_const_lp_production (void) { return SC_LP_PRODUCTION; }
int c19_const_lp_essential (void) { return SC_LP_ESSENTIAL; }
int c19_const_lp_error (void) { return SC_LP_ERROR; }
int c19_const_lp_silent (void) { return SC_LP_SILENT; }
int c19_const_lc_global (void) { return SC_LC_GLOBAL; }
int c19_const_lc_normal (void) { return SC_LC_NORMAL; }
int c19_const_lp_threshold (void) { return SC_LP_THRESHOLD; }
