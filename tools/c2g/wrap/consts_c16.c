/* prints the numbers behind the serial (non-MPI) datatype handles and a few constants of sc_mpi.h /
   sc3_mpi_types.h as Gallina definitions; compiled against /repo's headers in the configuration without MPI */
#include <stdio.h>
#include <sc_config.h>
#include <sc_mpi.h>
#define E(n) printf ("Definition dt_%s : Z := %ld.\n", #n, (long) (n))
#define H(n) printf ("Definition h_%s : Z := %ld.\n", #n, (long) (sc_##n))
int main (void)
{
  E (SC3_MPI_DATATYPE_NULL); E (SC3_MPI_BYTE); E (SC3_MPI_INT); E (SC3_MPI_2INT); E (SC3_MPI_UNSIGNED); E (SC3_MPI_LONG);
  E (SC3_MPI_LONG_LONG); E (SC3_MPI_FLOAT); E (SC3_MPI_DOUBLE); E (SC3_MPI_DOUBLE_INT);
  H (MPI_BYTE); H (MPI_CHAR); H (MPI_UNSIGNED_CHAR); H (MPI_SHORT); H (MPI_UNSIGNED_SHORT); H (MPI_INT); H (MPI_UNSIGNED);
  H (MPI_LONG); H (MPI_UNSIGNED_LONG); H (MPI_LONG_LONG_INT); H (MPI_FLOAT); H (MPI_DOUBLE); H (MPI_LONG_DOUBLE);
  H (MPI_2INT); H (MPI_DOUBLE_INT); H (MPI_PACKED);
  H (MPI_SUCCESS); H (MPI_UNDEFINED); H (MPI_REQUEST_NULL);
  H (MPI_ERR_ARG); H (MPI_ERR_UNKNOWN); H (MPI_ERR_OTHER); H (MPI_ERR_NO_MEM); H (MPI_ERR_FILE); H (MPI_ERR_NOT_SAME);
  H (MPI_ERR_AMODE); H (MPI_ERR_UNSUPPORTED_DATAREP); H (MPI_ERR_UNSUPPORTED_OPERATION); H (MPI_ERR_NO_SUCH_FILE);
  H (MPI_ERR_FILE_EXISTS); H (MPI_ERR_BAD_FILE); H (MPI_ERR_ACCESS); H (MPI_ERR_NO_SPACE); H (MPI_ERR_QUOTA);
  H (MPI_ERR_READ_ONLY); H (MPI_ERR_FILE_IN_USE); H (MPI_ERR_DUP_DATAREP); H (MPI_ERR_CONVERSION); H (MPI_ERR_IO);
  H (MPI_COMM_NULL); H (MPI_COMM_WORLD); H (MPI_GROUP_NULL); H (MPI_IDENT); H (MPI_MAX_ERROR_STRING); H (MPI_THREAD_SINGLE);
  return 0;
}
