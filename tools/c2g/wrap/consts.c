/* Prints numeric constants of /repo's headers as Gallina definitions (group Consts). */
#include <sc.h>
#include <sc_mpi.h>
#include <sc_allgather.h>
#include <sc_reduce.h>
#include <stdio.h>
#define C(x) printf ("Definition c_%s : Z := %lld.\n", #x, (long long) (x))
int main (void)
{
  C (SC_TAG_AG_ALLTOALL); C (SC_TAG_AG_RECURSIVE_A); C (SC_TAG_AG_RECURSIVE_B); C (SC_TAG_AG_RECURSIVE_C);
  C (SC_TAG_NOTIFY_CENSUS); C (SC_TAG_NOTIFY_CENSUSV); C (SC_TAG_NOTIFY_NBX); C (SC_TAG_NOTIFY_NBXV);
  C (SC_TAG_NOTIFY_WRAPPER); C (SC_TAG_NOTIFY_WRAPPERV); C (SC_TAG_NOTIFY_RANGES); C (SC_TAG_NOTIFY_PAYLOAD);
  C (SC_TAG_NOTIFY_SUPER_TRUE); C (SC_TAG_NOTIFY_SUPER_EXTRA); C (SC_TAG_NOTIFY_RECURSIVE); C (SC_TAG_NOTIFY_NARY);
  C (SC_TAG_REDUCE); C (SC_TAG_PSORT_LO); C (SC_TAG_PSORT_HI); C (SC_TAG_LAST);
  C (SC_ALLGATHER_ALLTOALL_MAX); C (SC_REDUCE_ALLTOALL_LEVEL);
  return 0;
}
