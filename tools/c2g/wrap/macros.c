/* One-line wrappers so that clang expands the real macros of /repo/src/sc.h
   (the translator works on functions; the macro text comes from the repository). */
#include <sc.h>
int      w_sc_log2_8 (int x) { return SC_LOG2_8 (x); }
int      w_sc_log2_16 (int x) { return SC_LOG2_16 (x); }
int      w_sc_log2_32 (int x) { return SC_LOG2_32 (x); }
int      w_sc_log2_32u (unsigned x) { return SC_LOG2_32 (x); }
int      w_sc_log2_64 (int64_t x) { return SC_LOG2_64 (x); }
int      w_sc_log2_64u (uint64_t x) { return SC_LOG2_64 (x); }
int      w_sc_roundup2_32 (int x) { return SC_ROUNDUP2_32 (x); }
int64_t  w_sc_roundup2_64 (int64_t x) { return SC_ROUNDUP2_64 (x); }
int      w_sc_min (int a, int b) { return SC_MIN (a, b); }
int      w_sc_max (int a, int b) { return SC_MAX (a, b); }
int      w_sc_sqr (int a) { return SC_SQR (a); }
