#!/usr/bin/env python3
"""c2g: translate small C functions / statement slices of /repo into Gallina (tie T1).

Input is clang-14's JSON AST (every implicit conversion and every expression type is
explicit there, so integer promotion is taken from the compiler).  Output are total Gallina
definitions over Z using the fixed-width operations of Base/CInt.v; loops become a Fixpoint on
explicit fuel returning None when the fuel is exhausted.  Anything outside the supported subset
raises Unsupported: the check then treats the tie as broken instead of guessing.
"""
import json, subprocess, os, re, hashlib, sys


class Unsupported(Exception):
    pass


# ---------------------------------------------------------------------------
# clang driver
# ---------------------------------------------------------------------------

def clang_ast(cfile, filt, incs, defs=()):
    cmd = ["clang", "-fsyntax-only", "-w"] + ["-I" + i for i in incs] + ["-D" + d for d in defs] + \
          ["-Xclang", "-ast-dump=json", "-Xclang", "-ast-dump-filter=" + filt, cfile]
    p = subprocess.run(cmd, stdout=subprocess.PIPE, stderr=subprocess.PIPE)
    if p.returncode != 0:
        raise Unsupported("clang failed on %s: %s" % (cfile, p.stderr.decode()[-500:]))
    txt = p.stdout.decode()
    dec = json.JSONDecoder()
    i = 0
    objs = []
    while i < len(txt):
        while i < len(txt) and txt[i].isspace():
            i += 1
        if i >= len(txt):
            break
        o, j = dec.raw_decode(txt, i)
        objs.append(o)
        i = j
    return objs


def find_function(objs, name):
    for o in objs:
        if o.get("kind") == "FunctionDecl" and o.get("name") == name and \
                any(c.get("kind") == "CompoundStmt" for c in o.get("inner", [])):
            return o
    raise Unsupported("no definition of function %s found" % name)


def find_var(objs, name):
    for o in objs:
        if o.get("kind") == "VarDecl" and o.get("name") == name and \
                any(isinstance(c, dict) and c.get("kind") != "FullComment" for c in o.get("inner", [])):
            return o
    raise Unsupported("no initialised variable %s found" % name)


# ---------------------------------------------------------------------------
# types
# ---------------------------------------------------------------------------

INT_TYPES = {
    "char": (True, 8), "signed char": (True, 8), "unsigned char": (False, 8),
    "short": (True, 16), "unsigned short": (False, 16),
    "int": (True, 32), "unsigned int": (False, 32), "unsigned": (False, 32),
    "long": (True, 64), "unsigned long": (False, 64),
    "long long": (True, 64), "unsigned long long": (False, 64),
    "_Bool": (False, 8),
    # common typedefs (when clang gives no desugared type)
    "size_t": (False, 64), "ssize_t": (True, 64), "uint64_t": (False, 64), "int64_t": (True, 64),
    "uint32_t": (False, 32), "int32_t": (True, 32), "uint8_t": (False, 8), "int8_t": (True, 8),
    "uint16_t": (False, 16), "int16_t": (True, 16), "uLong": (False, 64), "uInt": (False, 32),
}


def tystr(node):
    t = node.get("type", {})
    return t.get("desugaredQualType") or t.get("qualType") or ""


def strip_quals(s):
    s = re.sub(r"\b(const|volatile|restrict|register)\b", "", s)
    return re.sub(r"\s+", " ", s).strip()


def int_type(s):
    s = strip_quals(s)
    if s in INT_TYPES:
        return INT_TYPES[s]
    if s.startswith("enum "):
        return (False, 32)
    return None


def is_float(s):
    return strip_quals(s) in ("double", "float", "long double")


def is_pointer(s):
    return strip_quals(s).endswith("*") or strip_quals(s).endswith("]")


def wrapname(t):
    sg, bits = t
    return ("s" if sg else "u") + str(bits)


def trange(t):
    sg, bits = t
    return (-(1 << (bits - 1)), (1 << (bits - 1)) - 1) if sg else (0, (1 << bits) - 1)


def subrange(a, b):
    ra, rb = trange(a), trange(b)
    return rb[0] <= ra[0] and ra[1] <= rb[1]


def sizeof_type(s):
    s = strip_quals(s)
    it = int_type(s)
    if it:
        return it[1] // 8
    if s.endswith("*"):
        return 8
    if s == "double":
        return 8
    if s == "float":
        return 4
    if s == "long double":
        return 16
    raise Unsupported("sizeof(%s)" % s)


# ---------------------------------------------------------------------------
# expression translation
# ---------------------------------------------------------------------------

class E:
    """translated expression: text plus kind 'Z' or 'bool'"""
    def __init__(self, text, kind="Z", atomic=False):
        self.text, self.kind, self.atomic = text, kind, atomic

    def z(self):
        if self.kind == "Z":
            return self.text if self.atomic else "(%s)" % self.text
        return "(b2z %s)" % self.p()

    def b(self):
        if self.kind == "bool":
            return self.text if self.atomic else "(%s)" % self.text
        return "(z2b %s)" % self.p()

    def p(self):
        return self.text if self.atomic else "(%s)" % self.text


def lit(v):
    v = int(v)
    return E(str(v), "Z", True) if v >= 0 else E("(%d)" % v, "Z", True)


def skip_parens(n):
    while n.get("kind") in ("ParenExpr", "ConstantExpr") and n.get("inner"):
        if n.get("kind") == "ConstantExpr" and "value" in n:
            return n
        n = n["inner"][0]
    return n


class Translator:
    def __init__(self, structs=None, known_funcs=None, tables=None, ptr_params=None):
        self.structs = structs or {}          # typedef name -> [fields]
        self.known_funcs = known_funcs or {}  # C name -> (Gallina name, returns_option)
        self.tables = tables or set()         # global constant tables available as Z -> Z
        self.aux = []                         # auxiliary definitions (loops)
        self.counter = 0
        self.params = []                      # ordered parameter names (Gallina)
        self.param_kinds = {}                 # name -> 'Z' | 'arr'
        self.fname = ""
        self.free_as_params = False           # slices: unknown variables become parameters
        self.call_hooks = {}                  # callee name -> function(translator, node, env) -> E
        self.const_index_locations = False    # p[3] with literal index is a scalar location "p_3"

    # -- variable naming ---------------------------------------------------
    def fresh(self, base):
        self.counter += 1
        return "%s_%d" % (re.sub(r"[^A-Za-z0-9_]", "_", base), self.counter)

    def lvalue_key(self, n):
        """key of an assignable location: local/param name or 'ptr->field' / '*ptr'"""
        n = skip_parens(n)
        k = n.get("kind")
        if k == "DeclRefExpr":
            return n["referencedDecl"]["name"]
        if k == "MemberExpr":
            base = skip_parens(n["inner"][0])
            while base.get("kind") == "ImplicitCastExpr":
                base = skip_parens(base["inner"][0])
            if base.get("kind") == "DeclRefExpr":
                bn = base["referencedDecl"]["name"]
                return getattr(self, "alias", {}).get(bn, bn) + "_" + n["name"]
            if base.get("kind") == "MemberExpr":
                return self.lvalue_key(base) + "_" + n["name"]
        if k == "UnaryOperator" and n.get("opcode") == "*":
            base = skip_parens(n["inner"][0])
            while base.get("kind") == "ImplicitCastExpr":
                base = skip_parens(base["inner"][0])
            if base.get("kind") == "DeclRefExpr":
                return base["referencedDecl"]["name"] + "_deref"
        if k == "ArraySubscriptExpr":
            base = skip_parens(n["inner"][0])
            while base.get("kind") == "ImplicitCastExpr":
                base = skip_parens(base["inner"][0])
            idx = skip_parens(n["inner"][1])
            while idx.get("kind") == "ImplicitCastExpr":
                idx = skip_parens(idx["inner"][0])
            if base.get("kind") == "DeclRefExpr" and idx.get("kind") == "IntegerLiteral":
                return "%s_%s" % (base["referencedDecl"]["name"], idx["value"])
        raise Unsupported("lvalue %s in %s" % (k, self.fname))

    def lookup(self, env, key):
        if key in env:
            return env[key]
        if self.free_as_params:
            if key not in self.params:
                self.params.append(key)
                self.param_kinds[key] = "Z"
            env[key] = key
            return key
        raise Unsupported("read of unknown location %s in %s" % (key, self.fname))

    # -- expressions ---------------------------------------------------------
    def expr(self, n, env):
        k = n.get("kind")
        if k in ("ParenExpr",):
            return self.expr(n["inner"][0], env)
        if k == "ConstantExpr":
            if "value" in n:
                return lit(n["value"])
            return self.expr(n["inner"][0], env)
        if k == "IntegerLiteral":
            return lit(n["value"])
        if k == "CharacterLiteral":
            return lit(n["value"])
        if k == "DeclRefExpr":
            rd = n["referencedDecl"]
            if rd.get("kind") == "EnumConstantDecl":
                raise Unsupported("enum constant %s without value (wrap in ConstantExpr)" % rd.get("name"))
            key = rd["name"]
            if key in self.tables:
                return E(key, "arr", True)
            if key in env and self.param_kinds.get(env[key]) == "arr":
                return E(env[key], "arr", True)
            return E(self.lookup(env, key), "Z", True)
        if k == "MemberExpr":
            return E(self.lookup(env, self.lvalue_key(n)), "Z", True)
        if k == "ImplicitCastExpr" or k == "CStyleCastExpr":
            ck = n.get("castKind")
            inner = n["inner"][0]
            if ck in ("LValueToRValue", "NoOp", "ArrayToPointerDecay", "FunctionToPointerDecay", "BitCast"):
                return self.expr(inner, env)
            if ck == "IntegralCast" or ck == "BooleanToSignedIntegral":
                src, dst = int_type(tystr(inner)), int_type(tystr(n))
                e = self.expr(inner, env)
                if src is None or dst is None:
                    raise Unsupported("integral cast %s -> %s" % (tystr(inner), tystr(n)))
                if subrange(src, dst):
                    return E(e.z(), "Z", True)
                if re.match(r"^\(?-?\d+\)?$", e.text):
                    v = int(e.text.strip("()"))
                    lo, hi = trange(dst)
                    if lo <= v <= hi:
                        return lit(v)
                return E("%s %s" % (wrapname(dst), e.z()))
            if ck in ("IntegralToFloating", "FloatingCast"):
                # floating-point values are modelled as exact numbers (see the header of the generated file)
                return self.expr(inner, env)
            if ck == "IntegralToBoolean" or ck == "PointerToBoolean" or ck == "FloatingToBoolean":
                e = self.expr(inner, env)
                return E(e.b(), "bool", True)
            if ck == "NullToPointer":
                return lit(0)
            if ck == "ToVoid":
                return E("0", "Z", True)
            raise Unsupported("cast kind %s in %s" % (ck, self.fname))
        if k == "UnaryExprOrTypeTraitExpr":
            if n.get("name") == "sizeof":
                if "argType" in n:
                    return lit(sizeof_type(n["argType"].get("desugaredQualType") or n["argType"]["qualType"]))
                return lit(sizeof_type(tystr(n["inner"][0])))
            raise Unsupported("trait " + str(n.get("name")))
        if k == "UnaryOperator":
            op = n["opcode"]
            t = int_type(tystr(n))
            a = self.expr(n["inner"][0], env)
            if op == "-":
                if re.match(r"^\d+$", a.text):
                    return lit(-int(a.text))
                return E("%s (- %s)" % (wrapname(t), a.z()))
            if op == "+":
                return a
            if op == "~":
                return E("%s (Z.lnot %s)" % (wrapname(t), a.z()))
            if op == "!":
                return E("negb %s" % a.b(), "bool")
            if op == "*":
                return E(self.lookup(env, self.lvalue_key(n)), "Z", True)
            raise Unsupported("unary %s as expression in %s" % (op, self.fname))
        if k == "BinaryOperator":
            op = n["opcode"]
            if op == ",":
                raise Unsupported("comma operator")
            if op == "=":
                raise Unsupported("assignment used as an expression in %s" % self.fname)
            a = self.expr(n["inner"][0], env)
            b = self.expr(n["inner"][1], env)
            if op in ("<", "<=", ">", ">=", "==", "!="):
                if op == "!=":
                    return E("negb (%s =? %s)" % (a.z(), b.z()), "bool")
                if op in (">", ">="):
                    a, b, op = b, a, {">": "<", ">=": "<="}[op]
                cop = {"<": "<?", "<=": "<=?", "==": "=?"}[op]
                return E("%s %s %s" % (a.z(), cop, b.z()), "bool")
            if op == "&&":
                return E("%s && %s" % (a.b(), b.b()), "bool")
            if op == "||":
                return E("%s || %s" % (a.b(), b.b()), "bool")
            t = int_type(tystr(n))
            if t is None and is_float(tystr(n)) and op in ("+", "-", "*"):
                return E("%s %s %s" % (a.z(), op, b.z()))
            if t is None:
                raise Unsupported("binary %s at type %s in %s" % (op, tystr(n), self.fname))
            return self.arith(op, a, b, t)
        if k == "ConditionalOperator":
            c = self.expr(n["inner"][0], env)
            a = self.expr(n["inner"][1], env)
            b = self.expr(n["inner"][2], env)
            if a.kind == "bool" and b.kind == "bool":
                return E("if %s then %s else %s" % (c.b(), a.b(), b.b()), "bool")
            return E("if %s then %s else %s" % (c.b(), a.z(), b.z()))
        if k == "ArraySubscriptExpr":
            try:
                key = self.lvalue_key(n)
                if key in env or (self.free_as_params and self.const_index_locations):
                    return E(self.lookup(env, key), "Z", True)
            except Unsupported:
                pass
            base = self.expr(n["inner"][0], env)
            idx = self.expr(n["inner"][1], env)
            if base.kind != "arr":
                raise Unsupported("subscript of non-array %s in %s" % (base.text, self.fname))
            return E("%s %s" % (base.text, idx.z()))
        if k == "CallExpr":
            callee = skip_parens(n["inner"][0])
            while callee.get("kind") == "ImplicitCastExpr":
                callee = skip_parens(callee["inner"][0])
            name = callee.get("referencedDecl", {}).get("name")
            if name in self.call_hooks:
                return self.call_hooks[name](self, n, env)
            if name in self.known_funcs:
                gname, opt = self.known_funcs[name]
                if opt:
                    raise Unsupported("call to fuelled function %s inside an expression" % name)
                args = [self.expr(a, env) for a in n["inner"][1:]]
                return E("%s %s" % (gname, " ".join(x.z() if x.kind != "arr" else x.text for x in args)))
            raise Unsupported("call to %s in %s" % (name, self.fname))
        raise Unsupported("expression kind %s in %s" % (k, self.fname))

    def arith(self, op, a, b, t):
        w = wrapname(t)
        if op == "+":
            return E("%s (%s + %s)" % (w, a.z(), b.z()))
        if op == "-":
            return E("%s (%s - %s)" % (w, a.z(), b.z()))
        if op == "*":
            return E("%s (%s * %s)" % (w, a.z(), b.z()))
        if op == "/":
            return E("%s (cdiv %s %s)" % (w, a.z(), b.z())) if t[0] else E("%s / %s" % (a.z(), b.z()))
        if op == "%":
            return E("cmod %s %s" % (a.z(), b.z())) if t[0] else E("%s mod %s" % (a.z(), b.z()))
        if op == "<<":
            return E("%s (shl %s %s)" % (w, a.z(), b.z()))
        if op == ">>":
            return E("shr %s %s" % (a.z(), b.z()))
        if op == "&":
            return E("Z.land %s %s" % (a.z(), b.z()))
        if op == "|":
            return E("Z.lor %s %s" % (a.z(), b.z()))
        if op == "^":
            return E("Z.lxor %s %s" % (a.z(), b.z()))
        raise Unsupported("operator " + op)

    # -- statements ----------------------------------------------------------
    # Every statement list is translated to a Gallina term computing the final
    # result.  `fin(env)` produces the term when control falls off the end;
    # `ret(e, env)` when a return statement is executed;
    # `brk(env)`/`cont(env)` inside loops.

    def is_noop(self, s):
        k = s.get("kind")
        if k == "NullStmt":
            return True
        if k in ("ParenExpr", "CStyleCastExpr"):
            t = skip_parens(s)
            if t.get("kind") == "CStyleCastExpr" and t.get("castKind") == "ToVoid":
                return True
        return False

    def assigned(self, s, acc, declared):
        """collect keys assigned in statement s (for merging / loop variables)"""
        k = s.get("kind")
        if k == "DeclStmt":
            for d in s.get("inner", []):
                declared.add(d["name"])
            return
        if k == "BinaryOperator" and s.get("opcode") == "=":
            acc.add(self.lvalue_key(s["inner"][0]))
        elif k == "CompoundAssignOperator":
            acc.add(self.lvalue_key(s["inner"][0]))
        elif k == "UnaryOperator" and s.get("opcode") in ("++", "--"):
            acc.add(self.lvalue_key(s["inner"][0]))
        for c in s.get("inner", []):
            if isinstance(c, dict) and c.get("kind", "").endswith(("Stmt", "Operator")) or c.get("kind") in ("CompoundStmt",):
                if c.get("kind") in ("CompoundStmt", "IfStmt", "WhileStmt", "ForStmt", "DoStmt", "SwitchStmt", "CaseStmt", "DefaultStmt",
                                     "BinaryOperator", "CompoundAssignOperator", "UnaryOperator", "DeclStmt"):
                    if c.get("kind") in ("BinaryOperator", "CompoundAssignOperator", "UnaryOperator") and k not in (
                            "CompoundStmt", "IfStmt", "WhileStmt", "ForStmt", "DoStmt", "SwitchStmt", "CaseStmt", "DefaultStmt"):
                        continue
                    self.assigned(c, acc, declared)

    def has_jump(self, s, kinds):
        if s.get("kind") in kinds:
            return True
        if s.get("kind") in ("WhileStmt", "ForStmt", "DoStmt", "SwitchStmt") and kinds == ("BreakStmt", "ContinueStmt"):
            return False
        return any(self.has_jump(c, kinds) for c in s.get("inner", []) if isinstance(c, dict))

    def referenced(self, s, acc):
        if s.get("kind") == "DeclRefExpr":
            rd = s["referencedDecl"]
            if rd.get("kind") in ("VarDecl", "ParmVarDecl"):
                acc.add(rd["name"])
        if s.get("kind") == "MemberExpr":
            try:
                acc.add(self.lvalue_key(s))
                return
            except Unsupported:
                pass
        for c in s.get("inner", []):
            if isinstance(c, dict):
                self.referenced(c, acc)

    def assign(self, key, e, env, rest, K):
        v = self.fresh(key)
        env2 = dict(env)
        env2[key] = v
        return "let %s := %s in\n%s" % (v, e.z() if e.kind != "arr" else e.text, self.stmts(rest, env2, K))

    def stmts(self, ss, env, K):
        """K = dict(fin=..., ret=..., brk=..., cont=...) continuations taking env"""
        if not ss:
            return K["fin"](env)
        s, rest = ss[0], ss[1:]
        k = s.get("kind")
        if self.is_noop(s):
            return self.stmts(rest, env, K)
        if k == "CompoundStmt":
            inner = list(s.get("inner", []))
            if not rest:
                return self.stmts(inner, env, K)
            # scoped block: declarations inside do not leak (names are unique per env copy anyway)
            return self.stmts(inner + rest, env, K)
        if k == "DeclStmt":
            out_env = dict(env)
            pre = ""
            for d in s.get("inner", []):
                if d.get("kind") != "VarDecl":
                    raise Unsupported("declaration kind " + d.get("kind"))
                name = d["name"]
                init = [c for c in d.get("inner", []) if isinstance(c, dict)]
                if init:
                    ty = strip_quals(tystr(d))
                    if is_pointer(ty) and int_type(ty) is None:
                        # pointer alias of a parameter: const T *a = (T *) va;
                        src = skip_parens(init[0])
                        while src.get("kind") in ("ImplicitCastExpr", "CStyleCastExpr"):
                            src = skip_parens(src["inner"][0])
                        if src.get("kind") == "DeclRefExpr":
                            srcname = src["referencedDecl"]["name"]
                            for kk in list(out_env.keys()):
                                if kk.startswith(srcname + "_"):
                                    out_env[name + kk[len(srcname):]] = out_env[kk]
                            if srcname in out_env:
                                out_env[name] = out_env[srcname]
                            self.aliases = getattr(self, "aliases", {})
                            self.aliases[name] = srcname
                            continue
                        raise Unsupported("pointer initialiser in %s" % self.fname)
                    e = self.expr(init[0], out_env)
                    v = self.fresh(name)
                    pre += "let %s := %s in\n" % (v, e.z())
                    out_env[name] = v
                else:
                    out_env[name] = "0"      # uninitialised: reading it is undefined behaviour in C
            return pre + self.stmts(rest, out_env, K)
        if k == "BinaryOperator" and s.get("opcode") == "=":
            key = self.resolve_alias(self.lvalue_key(s["inner"][0]))
            e = self.expr(s["inner"][1], env)
            return self.assign(key, e, env, rest, K)
        if k == "CompoundAssignOperator":
            key = self.resolve_alias(self.lvalue_key(s["inner"][0]))
            op = s["opcode"][:-1]
            lt = int_type(tystr(s["inner"][0]))
            ct = int_type(s.get("computeResultType", {}).get("desugaredQualType") or s.get("computeResultType", {}).get("qualType") or tystr(s))
            clt = int_type(s.get("computeLHSType", {}).get("desugaredQualType") or s.get("computeLHSType", {}).get("qualType") or tystr(s))
            a = self.expr(s["inner"][0], env)
            if lt is None and is_float(tystr(s["inner"][0])) and op in ("+", "-", "*"):
                b = self.expr(s["inner"][1], env)
                return self.assign(key, E("%s %s %s" % (a.z(), op, b.z())), env, rest, K)
            if clt and lt and not subrange(lt, clt):
                a = E("%s %s" % (wrapname(clt), a.z()))
            b = self.expr(s["inner"][1], env)
            r = self.arith(op, a, b, ct)
            if ct != lt and not subrange(ct, lt):
                r = E("%s %s" % (wrapname(lt), r.z()))
            return self.assign(key, r, env, rest, K)
        if k == "UnaryOperator" and s.get("opcode") in ("++", "--"):
            key = self.resolve_alias(self.lvalue_key(s["inner"][0]))
            t = int_type(tystr(s))
            a = self.expr(s["inner"][0], env)
            r = E("%s (%s %s 1)" % (wrapname(t), a.z(), "+" if s["opcode"] == "++" else "-"))
            return self.assign(key, r, env, rest, K)
        if k == "ReturnStmt":
            inner = [c for c in s.get("inner", []) if isinstance(c, dict)]
            if K.get("ret") is None:
                raise Unsupported("return statement inside a slice of %s" % self.fname)
            return K["ret"](self.expr(inner[0], env) if inner else None, env)
        if k == "BreakStmt":
            return K["brk"](env)
        if k == "ContinueStmt":
            return K["cont"](env)
        if k == "IfStmt":
            inner = s["inner"]
            c = self.expr(inner[0], env)
            A = [inner[1]]
            B = [inner[2]] if len(inner) > 2 else []
            jumps = ("ReturnStmt", "BreakStmt", "ContinueStmt", "GotoStmt")
            if self.has_jump(inner[1], jumps) or (B and self.has_jump(inner[2], jumps)) or not rest:
                # duplicate the continuation into both arms
                return "(if %s then\n%s\nelse\n%s)" % (c.b(), self.stmts(A + rest, env, K), self.stmts(B + rest, env, K))
            # both arms fall through: merge the assigned variables
            acc, decl = set(), set()
            self.assigned(inner[1], acc, decl)
            if B:
                self.assigned(inner[2], acc, decl)
            keys = sorted(self.resolve_alias(x) for x in acc if self.resolve_alias(x) in env or self.free_as_params)
            for kk in keys:
                self.lookup(env, kk)
            if not keys:
                return self.stmts(rest, env, K)
            K2 = dict(K)
            K2["fin"] = lambda e2: self.tuple_of([e2[kk] for kk in keys])
            ta = self.stmts(A, dict(env), K2)
            tb = self.stmts(B, dict(env), K2)
            news = [self.fresh(kk) for kk in keys]
            env2 = dict(env)
            for kk, v in zip(keys, news):
                env2[kk] = v
            pat = news[0] if len(news) == 1 else "'(%s)" % ", ".join(news)
            return "let %s := (if %s then\n%s\nelse\n%s) in\n%s" % (pat, c.b(), ta, tb, self.stmts(rest, env2, K))
        if k in ("WhileStmt", "ForStmt", "DoStmt"):
            return self.loop(s, rest, env, K)
        if k == "SwitchStmt":
            return self.switch(s, rest, env, K)
        if k == "LabelStmt":
            return self.stmts([c for c in s["inner"] if isinstance(c, dict)] + rest, env, K)
        raise Unsupported("statement kind %s in %s" % (k, self.fname))

    def resolve_alias(self, key):
        al = getattr(self, "aliases", {})
        for a, src in al.items():
            if key == a or key.startswith(a + "_"):
                return src + key[len(a):]
        return key

    def tuple_of(self, names):
        return names[0] if len(names) == 1 else "(%s)" % ", ".join(names)

    def switch(self, s, rest, env, K):
        inner = s["inner"]
        c = self.expr(inner[0], env)
        body = inner[1]
        if body.get("kind") != "CompoundStmt":
            raise Unsupported("switch body")
        groups = []   # (labels or None for default, stmts)
        cur = None
        def unlabel(st, labels):
            if st.get("kind") == "CaseStmt":
                v = skip_parens(st["inner"][0])
                if "value" in v:
                    labels.append(int(v["value"]))
                else:
                    labels.append(self.expr(v, env).z())
                return unlabel(st["inner"][-1], labels)
            if st.get("kind") == "DefaultStmt":
                labels.append(None)
                return unlabel(st["inner"][-1], labels)
            return st
        for st in body.get("inner", []):
            if st.get("kind") in ("CaseStmt", "DefaultStmt"):
                labels = []
                first = unlabel(st, labels)
                if cur is not None and not self.ends_with_jump(cur[1]):
                    raise Unsupported("switch fallthrough between statement groups in %s" % self.fname)
                cur = (labels, [first])
                groups.append(cur)
            else:
                if cur is None:
                    raise Unsupported("statement before first case")
                cur[1].append(st)
        sv = self.fresh("sw")
        K2 = dict(K)
        K2["brk"] = lambda e2: self.stmts(rest, e2, K)
        default = None
        text_groups = []
        for labels, sts in groups:
            if sts and sts[-1].get("kind") == "BreakStmt":
                body_t = self.stmts(sts[:-1] + rest, dict(env), K) if not any(self.has_jump(x, ("BreakStmt",)) for x in sts[:-1]) \
                    else self.stmts(sts, dict(env), K2)
            else:
                body_t = self.stmts(sts, dict(env), K2) if self.ends_with_jump(sts) else self.stmts(sts + rest, dict(env), K)
            if None in labels:
                default = body_t
                labels = [l for l in labels if l is not None]
                if not labels:
                    continue
            cond = " || ".join("(%s =? %s)" % (sv, ("(%d)" % l if isinstance(l, int) and l < 0 else l)) for l in labels)
            text_groups.append((cond, body_t))
        if default is None:
            default = self.stmts(rest, dict(env), K)
        t = default
        for cond, body_t in reversed(text_groups):
            t = "(if %s then\n%s\nelse\n%s)" % (cond, body_t, t)
        return "let %s := %s in\n%s" % (sv, c.z(), t)

    def ends_with_jump(self, sts):
        return bool(sts) and sts[-1].get("kind") in ("BreakStmt", "ReturnStmt", "ContinueStmt")

    def loop(self, s, rest, env, K):
        k = s["kind"]
        inner = s["inner"]
        init, cond, inc, body = None, None, None, None
        if k == "WhileStmt":
            cond, body = inner[0], inner[1]
        elif k == "DoStmt":
            raise Unsupported("do-while loop")
        else:
            # ForStmt: init, condvar, cond, inc, body ({} placeholders for absent parts)
            init, _cv, cond, inc, body = inner
            init = init if init.get("kind") else None
            cond = cond if cond.get("kind") else None
            inc = inc if inc.get("kind") else None
        pre = ""
        if init is not None:
            # translate init as ordinary statements in front
            return self.stmts([init, dict(s, kind="ForStmt", inner=[{}, {}, cond or {}, inc or {}, body])] + rest, env, K)
        # loop variables
        acc, decl = set(), set()
        self.assigned(body, acc, decl)
        if inc is not None:
            self.assigned(inc, acc, decl)
        lvars = sorted(self.resolve_alias(x) for x in acc if self.resolve_alias(x) in env)
        refs = set()
        self.referenced(body, refs)
        if cond is not None:
            self.referenced(cond, refs)
        if inc is not None:
            self.referenced(inc, refs)
        refs = set(self.resolve_alias(x) for x in refs)
        if self.free_as_params:
            for x in sorted(refs):
                if x not in env and x not in decl and x not in self.tables:
                    self.lookup(env, x)
        skip = getattr(self, "skip", ())
        extra = getattr(self, "extra", [])
        fvars = sorted(x for x in refs if x in env and x not in lvars and env[x] != "0" and x not in skip
                       and not any(x == a or x.startswith(a + "_") for a in getattr(self, "aliases", {}) if getattr(self, "aliases", {})[a] in skip))
        self.loopn = getattr(self, "loopn", 0) + 1
        lname = "%s_loop%d" % (self.gname, self.loopn)
        # inside the loop function the variables carry their own names
        lenv = {}
        for x in fvars + lvars:
            lenv[x] = "v_" + re.sub(r"[^A-Za-z0-9_]", "_", x)
        kinds = {}
        for x in fvars:
            if self.param_kinds.get(env[x]) == "arr":
                kinds[lenv[x]] = "arr"
                self.param_kinds[lenv[x]] = "arr"
        tup = lambda e2: self.tuple_of([e2[x] for x in lvars]) if lvars else "tt"
        recur = lambda e2: "%s fuel' %s" % (lname, " ".join([n for n, _ in extra] + [lenv[x] for x in fvars] + [e2[x] for x in lvars]))
        KL = dict(
            fin=(lambda e2: self.stmts([inc], e2, dict(fin=recur, ret=None, brk=None, cont=None)) if inc is not None else recur(e2)),
            ret=lambda e, e2: "Some (inr %s)" % (e.z() if e is not None else "tt"),
            brk=lambda e2: "Some (inl %s)" % tup(e2),
        )
        KL["cont"] = KL["fin"]
        body_t = self.stmts([body], dict(lenv), KL)
        if cond is not None:
            c = self.expr(cond, lenv)
            body_t = "(if %s then\n%s\nelse Some (inl %s))" % (c.b(), body_t, tup(lenv))
        args = " ".join(["(%s : %s)" % (n, t) for n, t in extra] +
                        ["(%s : %s)" % (lenv[x], "Z -> Z" if kinds.get(lenv[x]) == "arr" else "Z") for x in fvars + lvars])
        ltype = " * ".join(["Z"] * len(lvars)) if lvars else "unit"
        rtype = "unit" if getattr(self, "ret_void", False) else "Z"
        self.aux.append((lname, "Fixpoint %s (fuel : nat) %s {struct fuel} : option ((%s) + %s) :=\n  match fuel with\n  | O => None\n  | S fuel' =>\n%s\n  end.\n" % (lname, args, ltype, rtype, body_t)))
        self.uses_fuel = True
        news = [self.fresh(x) for x in lvars]
        env2 = dict(env)
        for x, v in zip(lvars, news):
            env2[x] = v
        pat = "tt" if not lvars else (news[0] if len(news) == 1 else "(%s)" % ", ".join(news))
        call = "%s fuel %s" % (lname, " ".join([n for n, _ in extra] + [env[x] for x in fvars] + [env[x] for x in lvars]))
        return "match %s with\n| None => None\n| Some (inr r_) => %s\n| Some (inl %s) =>\n%s\nend" % (
            call, K["ret"](E("r_", "Z", True), env) if K.get("ret") else "None", pat, self.stmts(rest, env2, K))


# ---------------------------------------------------------------------------
# whole functions
# ---------------------------------------------------------------------------

def body_uses_loops(n):
    if n.get("kind") in ("WhileStmt", "ForStmt", "DoStmt"):
        return True
    return any(body_uses_loops(c) for c in n.get("inner", []) if isinstance(c, dict))


def translate_function(fn, gname=None, structs=None, known_funcs=None, tables=None, outputs=None, arrays=(),
                       call_hooks=None, extra_params=(), skip_params=(), alias=None):
    """fn: FunctionDecl JSON.  Pointer-to-struct parameters are flattened into one Z parameter per
    field (structs: typedef -> fields).  outputs: list of location keys returned after the return
    value (default: all fields of non-const struct pointer parameters that are assigned)."""
    T = Translator(structs, known_funcs, tables)
    T.fname = fn["name"]
    T.gname = gname or fn["name"]
    T.call_hooks = call_hooks or {}
    T.skip = tuple(skip_params)
    T.extra = list(extra_params)
    # alias = {"b": "a"}: the call passes the same object for both struct pointer parameters (`a == b is allowed`):
    # every access through b reads and writes the fields of a; b contributes no parameters
    T.alias = dict(alias or {})
    env = {}
    params = [(n, t) for n, t in extra_params]
    for n, t in extra_params:
        T.param_kinds[n] = "arr" if "->" in t else "Z"
    written_candidates = []
    for p in fn.get("inner", []):
        if p.get("kind") != "ParmVarDecl":
            continue
        name = p.get("name")
        if name is None:
            continue
        if name in skip_params or name in T.alias:
            env[name] = name
            continue
        ty = strip_quals(tystr(p))
        qty = p.get("type", {}).get("qualType", "")
        if int_type(ty):
            env[name] = name
            params.append((name, "Z"))
        elif name in arrays:
            env[name] = name
            params.append((name, "Z -> Z"))
            T.param_kinds[name] = "arr"
        elif ty.endswith("*"):
            base = strip_quals(re.sub(r"\*$", "", strip_quals(qty))).strip()
            base = strip_quals(base)
            fields = (structs or {}).get(base)
            if fields is None and base in ("void",):
                # resolved through a local alias; parameters are created on demand
                T.void_ptrs = getattr(T, "void_ptrs", {})
                T.void_ptrs[name] = True
                env[name] = name
                continue
            if fields is None:
                it = int_type(base)
                if it:   # pointer to scalar: treated as an in/out scalar "name_deref"
                    env[name + "_deref"] = name + "_deref"
                    params.append((name + "_deref", "Z"))
                    if "const" not in qty:
                        written_candidates.append(name + "_deref")
                    env[name] = name
                    continue
                raise Unsupported("parameter %s of type %s in %s" % (name, qty, T.fname))
            for f in fields:
                env[name + "_" + f] = name + "_" + f
                params.append((name + "_" + f, "Z"))
                if "const" not in qty:
                    written_candidates.append(name + "_" + f)
            env[name] = name
        else:
            raise Unsupported("parameter %s of type %s in %s" % (name, qty, T.fname))
    body = [c for c in fn["inner"] if c.get("kind") == "CompoundStmt"][0]
    # void * parameters that are aliased by a typed local pointer: flatten by the alias type
    if getattr(T, "void_ptrs", None):
        for st in body.get("inner", []):
            if st.get("kind") == "DeclStmt":
                for d in st.get("inner", []):
                    init = [c for c in d.get("inner", []) if isinstance(c, dict)]
                    if not init:
                        continue
                    src = skip_parens(init[0])
                    while src.get("kind") in ("ImplicitCastExpr", "CStyleCastExpr"):
                        src = skip_parens(src["inner"][0])
                    if src.get("kind") == "DeclRefExpr" and src["referencedDecl"]["name"] in T.void_ptrs:
                        pname = src["referencedDecl"]["name"]
                        qty = d.get("type", {}).get("qualType", "")
                        base = strip_quals(re.sub(r"\*$", "", strip_quals(qty))).strip()
                        fields = (structs or {}).get(base)
                        if fields is None:
                            raise Unsupported("alias of void* with type %s" % qty)
                        for f in fields:
                            if pname + "_" + f not in env:
                                env[pname + "_" + f] = pname + "_" + f
                                params.append((pname + "_" + f, "Z"))
    acc, decl = set(), set()
    T.assigned(body, acc, decl)
    rett = strip_quals(fn["type"]["qualType"].split("(")[0])
    has_ret = rett != "void"
    T.ret_void = not has_ret
    if outputs is None:
        outputs = [w for w in written_candidates if w in acc]
    uses_loops = body_uses_loops(body)

    def result(e, env2):
        parts = []
        if has_ret:
            parts.append(e.z() if e is not None else "0")
        parts += [env2[o] for o in outputs]
        t = parts[0] if len(parts) == 1 else "(%s)" % ", ".join(parts)
        if not parts:
            t = "tt"
        return ("Some %s" % (t if len(parts) != 1 or parts[0].startswith("(") or re.match(r"^[A-Za-z0-9_']+$", parts[0]) else "(%s)" % t)) if uses_loops else t

    K = dict(fin=lambda e2: result(None, e2), ret=lambda e, e2: result(e, e2),
             brk=lambda e2: (_ for _ in ()).throw(Unsupported("break outside loop")),
             cont=lambda e2: (_ for _ in ()).throw(Unsupported("continue outside loop")))
    text = T.stmts(list(body.get("inner", [])), env, K)
    plist = " ".join("(%s : %s)" % (n, t) for n, t in params)
    fuel = "(fuel : nat) " if uses_loops else ""
    out = "".join(a for _, a in T.aux)
    out += "Definition %s %s%s :=\n%s.\n" % (T.gname, fuel, plist, text)
    info = dict(name=T.gname, cname=fn["name"], params=[n for n, _ in params], param_types=[t for _, t in params],
                outputs=outputs, has_ret=has_ret, fuel=uses_loops)
    return out, info


def find_slice_stmt(body, var, occurrence=0):
    """k-th direct child statement of the function body (or of nested compound statements,
    searched outermost first) that assigns `var`."""
    T = Translator()
    found = []

    def walk(comp):
        for st in comp.get("inner", []):
            if not isinstance(st, dict):
                continue
            acc, decl = set(), set()
            try:
                T.assigned(st, acc, decl)
            except Unsupported:
                acc = set()
            if st.get("kind") == "DeclStmt":
                for d in st.get("inner", []):
                    if d.get("name") == var and [c for c in d.get("inner", []) if isinstance(c, dict)]:
                        found.append(st)
            elif var in acc:
                found.append(st)
            elif st.get("kind") in ("CompoundStmt",):
                walk(st)
            elif st.get("kind") in ("IfStmt", "ForStmt", "WhileStmt"):
                for c in st.get("inner", []):
                    if isinstance(c, dict) and c.get("kind") == "CompoundStmt":
                        walk(c)
    walk(body)
    if occurrence >= len(found):
        raise Unsupported("slice: no statement #%d assigning %s" % (occurrence, var))
    return found[occurrence]


def translate_slice(fn, var, gname, occurrence=0, structs=None, known_funcs=None, tables=None, extra_stmts=0, outvars=None):
    """Translate the statement that assigns `var` as a function of its free variables."""
    body = [c for c in fn["inner"] if c.get("kind") == "CompoundStmt"][0]
    st = find_slice_stmt(body, var, occurrence)
    T = Translator(structs, known_funcs, tables)
    T.fname = fn["name"] + "/" + var
    T.gname = gname
    T.free_as_params = True
    outvars = outvars or [var]
    env = {}
    if st.get("kind") != "DeclStmt":
        for v in outvars:
            env[v] = "0"
    K = dict(fin=lambda e2: T.tuple_of([e2[v] for v in outvars]),
             ret=lambda e, e2: (_ for _ in ()).throw(Unsupported("return inside slice")),
             brk=None, cont=None)
    text = T.stmts([st], env, K)
    plist = " ".join("(%s : Z)" % n for n in T.params)
    out = "".join(a for _, a in T.aux)
    out += "Definition %s %s :=\n%s.\n" % (gname, plist, text)
    rng = st.get("range", {})
    info = dict(name=gname, cname=fn["name"], var=var, params=list(T.params), fuel=False)
    return out, info


def translate_block(stmts, gname, params, outputs, fname="block", structs=None, known_funcs=None, tables=None,
                    free_params=False, jumps_end=False, init=None):
    """Translate a statement list as a function of the given locations (params: list of location keys,
    all of type Z) returning the tuple of the final values of `outputs`."""
    T = Translator(structs, known_funcs, tables)
    T.fname = fname
    T.gname = gname
    T.const_index_locations = True
    T.free_as_params = free_params
    env = dict((p, p) for p in params)
    for k_, v_ in (init or {}).items():
        env[k_] = v_
    T.params = list(params)
    has_loops = any(body_uses_loops(x) for x in stmts)
    fin0 = lambda e2: T.tuple_of([T.lookup(e2, o) for o in outputs])
    fin = (lambda e2: "Some %s" % (fin0(e2) if fin0(e2).startswith("(") or re.match(r"^[A-Za-z0-9_']+$", fin0(e2)) else "(%s)" % fin0(e2))) if has_loops else fin0
    K = dict(fin=fin, ret=None, brk=(fin if jumps_end else None), cont=(fin if jumps_end else None))
    T.ret_void = True
    text = T.stmts(list(stmts), env, K)
    params = list(T.params)
    plist = ("(fuel : nat) " if has_loops else "") + " ".join("(%s : Z)" % n for n in params)
    out = "".join(a for _, a in T.aux)
    out += "Definition %s %s :=\n%s.\n" % (gname, plist, text)
    return out, dict(name=gname, params=list(params), outputs=list(outputs), fuel=has_loops)


def node_offsets(n):
    """(begin, end) file offsets of an AST node, following macro expansions to where they are written"""
    r = n.get("range", {})
    def off(x):
        if "expansionLoc" in x:
            x = x["expansionLoc"]
        return x.get("offset")
    b, e = off(r.get("begin", {})), off(r.get("end", {}))
    return b, e


def select_between(fn, src_text, begin_re, end_re, occurrence=0):
    """Maximal statements of function `fn` that lie between the `occurrence`-th match of begin_re inside the
    function (inclusive, from the start of its line) and the next match of end_re (exclusive, up to the start of
    its line).  Anchors are regular expressions on the SOURCE TEXT, so that the slice follows the code when
    lines move.  Returns the statement list in source order."""
    fb, fe = node_offsets(fn)
    if fb is None or fe is None:
        raise Unsupported("no source range for function " + fn.get("name", "?"))
    text = src_text
    ms = list(re.finditer(begin_re, text[fb:fe], re.M))
    if occurrence >= len(ms):
        raise Unsupported("slice anchor %r: occurrence %d not found in %s" % (begin_re, occurrence, fn.get("name")))
    a = fb + ms[occurrence].start()
    a = text.rfind("\n", 0, a) + 1
    me = re.search(end_re, text[fb + ms[occurrence].end():fe], re.M)
    if not me:
        raise Unsupported("slice end anchor %r not found after %r in %s" % (end_re, begin_re, fn.get("name")))
    b = fb + ms[occurrence].end() + me.start()
    b = text.rfind("\n", 0, b) + 1
    out = []

    def walk(n):
        for c in n.get("inner", []):
            if not isinstance(c, dict) or "kind" not in c:
                continue
            cb, ce = node_offsets(c)
            if cb is None or ce is None:
                continue
            if cb >= a and ce < b:
                if c.get("kind") not in ("ParmVarDecl",):
                    out.append(c)
            elif ce >= a and cb < b and c.get("kind") in ("CompoundStmt", "IfStmt", "ForStmt", "WhileStmt", "DoStmt", "SwitchStmt", "CaseStmt", "DefaultStmt", "LabelStmt"):
                walk(c)
    body = [c for c in fn["inner"] if c.get("kind") == "CompoundStmt"][0]
    walk(body)
    if not out:
        raise Unsupported("slice %r .. %r of %s selects no statement" % (begin_re, end_re, fn.get("name")))
    return out


def translate_table(var, gname):
    """global constant integer array -> Gallina list + lookup function"""
    init = [c for c in var.get("inner", []) if isinstance(c, dict) and c.get("kind") != "FullComment"][-1]
    vals = []

    def walk(n):
        n2 = skip_parens(n)
        if n2.get("kind") == "InitListExpr":
            for c in n2.get("inner", []):
                walk(c)
        elif "value" in n2 and n2.get("kind") in ("IntegerLiteral", "ConstantExpr", "CharacterLiteral"):
            vals.append(int(n2["value"]))
        elif n2.get("kind") in ("ImplicitCastExpr", "CStyleCastExpr"):
            walk(n2["inner"][0])
        elif n2.get("kind") == "UnaryOperator" and n2.get("opcode") == "-":
            k = len(vals)
            walk(n2["inner"][0])
            vals[k] = -vals[k]
        elif n2.get("kind") == "StringLiteral":
            s = json.loads(n2["value"]) if n2["value"].startswith('"') else n2["value"]
            for ch in s.encode("latin-1", "replace"):
                vals.append(ch)
        else:
            raise Unsupported("table initialiser %s" % n2.get("kind"))
    walk(init)
    txt = "Definition %s_list : list Z := [%s].\n" % (gname, "; ".join(str(v) if v >= 0 else "(%d)" % v for v in vals))
    txt += "Definition %s (i : Z) : Z := nth (Z.to_nat i) %s_list 0.\n" % (gname, gname)
    return txt, dict(name=gname, length=len(vals))


HEADER = """(* GENERATED by tools/c2g from %s -- do not edit; regenerated on every run.
   Assumptions of the translation: distinct pointer parameters do not alias, signed overflow
   wraps (two's complement), shift counts are taken as written, every parameter is in the range
   of its C type; floating-point values, where they occur, are modelled as exact numbers
   (no rounding, no NaN, no signed zero). *)
From Coq Require Import ZArith List Bool.
From ScV Require Import Base.CInt.
Import ListNotations.
Local Open Scope Z_scope.
Local Open Scope bool_scope.

"""


def write_if_changed(path, text):
    try:
        if open(path).read() == text:
            return False
    except OSError:
        pass
    os.makedirs(os.path.dirname(path), exist_ok=True)
    open(path, "w").write(text)
    return True
