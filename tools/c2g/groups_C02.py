"""Translator group of C02 (tie T1): `NotifyC02` (coq/Gen/NotifyC02.v), regenerated from /repo/src/sc_notify.c (+ sc_containers.c,
sc.c) on every run: the EPILOGUES that turn what was received into the caller's (senders, payload) arrays.

  sc_notify_payload_cleanup (shared epilogue of nbx and superset)
    * cleanup_msg_size, cleanup_head      - item size, number of senders, the resize of `senders`
    * cleanup_sort                        - WHICH array is handed to sc_array_sort, as a function of (sorted, msg_size) only
    * cleanup_senders_init/_cond/_step/_body - the loop that extracts the sender ranks from the sorted records
    * cleanup_guard                       - the `if (in_payload)` statement with the copy loop replaced by the marker
                                            copy_loop := 1: reset / resize / destroy calls and when the loop runs
    * cleanup_copy_init/_cond/_step/_body - the per-sender copy loop: destination, source, length of the memcpy
  sc_array_sort, sc_int_compare           - arguments of qsort (base, count, ELEMENT SIZE); the comparison of two ranks
  sc_notify_payload_nbx
    * nbx_recv_buf                        - creation of the receive buffer (record size msg_size + sizeof (int) iff sorted)
    * nbx_recv_slot                       - where rank and item of an arriving message are stored, arguments of MPI_Recv
  sc_notify_payload_superset
    * super_recv_buf, super_recv_slot     - the same two places
  sc_notify_payload_census (pcx, rsx)
    * census_stride, census_recv_buf      - record stride and creation of the receive buffer
    * census_recv_body                    - receive loop body: buffer address / count of MPI_Recv, address of the rank store
    * census_sort                         - the sort call
    * census_copy_body, census_senders_body - the two epilogue loop bodies (with / without payload output)

Conventions: tools/c2g/slicelib.py (pointers are integers, call effects are ghost outputs <callee>_called / _arg<i>, abort
macros dropped) plus three LOCAL extensions (class CleanupT below; slicelib.py itself is unchanged):
  * `&a[e]` with a of type `char *` is the address a + e, with a of type `int *` it is a + 4 * e;
  * `a[e] = v` for a in store_arrays additionally records the ghost output a_store_idx := e;
  * `*((int *) p)` for a computed address p: a READ is `load_int p` (load_int : Z -> Z becomes a parameter), a WRITE records
    the ghost outputs deref_store_addr := p, deref_store_val := v.
A slice whose free variables differ from the expected list, or whose effects differ, FAILS (tie broken).
coq/C02/CleanupGen.v proves that the hand-written model coq/C02/CleanupModel.v computes exactly these."""
import os, re, copy


def register(GROUPS, c2g, incs, REPO, HERE, STRUCTS, Group):
    import slicelib as sl
    E = c2g.E

    class CleanupT(sl.SliceT):
        def _sub_addr(self, n, env):
            """n = ArraySubscriptExpr a[e]: its byte address, for a of type char * / int *"""
            b = n["inner"][0]
            bt = c2g.strip_quals(c2g.tystr(b))
            unit = {"char *": 1, "unsigned char *": 1, "int *": 4}.get(bt)
            if unit is None:
                raise c2g.Unsupported("address of an element of %s in %s" % (bt, self.fname))
            be = self.expr(b, env)
            ie = self.expr(n["inner"][1], env)
            return E("%s + %s" % (be.z(), ie.z()) if unit == 1 else "%s + 4 * %s" % (be.z(), ie.z()))

        def _computed_deref(self, n):
            """n = `*((int *) <computed address>)`: the node of the address, else None"""
            if n.get("kind") != "UnaryOperator" or n.get("opcode") != "*":
                return None
            if c2g.strip_quals(c2g.tystr(n)) != "int":
                return None
            p = sl.strip(n["inner"][0])
            if p.get("kind") == "UnaryOperator" and p.get("opcode") == "&" and sl.strip(p["inner"][0]).get("kind") == "ArraySubscriptExpr":
                return p
            return None

        def addr_of_var(self, a):
            a2 = sl.strip(a)
            if a2.get("kind") == "UnaryOperator" and a2.get("opcode") == "&" and sl.strip(a2["inner"][0]).get("kind") == "ArraySubscriptExpr":
                return None                  # a computed address is a VALUE handed to the callee
            return super().addr_of_var(a)

        def expr(self, n, env):
            k = n.get("kind")
            if k == "UnaryOperator" and n.get("opcode") == "&":
                t = sl.strip(n["inner"][0])
                if t.get("kind") == "ArraySubscriptExpr":
                    return self._sub_addr(t, env)
            if k == "ArraySubscriptExpr" and self._ptr_sub(n, self.ptr_loads):
                if ("load_int", "Z -> Z") not in self.extra:
                    self.extra.append(("load_int", "Z -> Z"))
                return E("load_int %s" % self._sub_addr(n, env).p())
            if k == "UnaryOperator" and n.get("opcode") == "*":
                p = self._computed_deref(n)
                if p is not None:
                    if ("load_int", "Z -> Z") not in self.extra:
                        self.extra.append(("load_int", "Z -> Z"))
                    return E("load_int %s" % self.expr(p, env).p())
            return super().expr(n, env)

        def lvalue_key(self, n):
            n2 = c2g.skip_parens(n)
            if n2.get("kind") == "UnaryOperator" and n2.get("opcode") == "*":
                b = sl.strip(n2["inner"][0])            # `*(int *) v`: the object v points to
                if b.get("kind") == "DeclRefExpr":
                    return b["referencedDecl"]["name"] + "_deref"
            return super().lvalue_key(n)

        def __init__(self, **kw):
            super().__init__(**kw)
            self.ptr_stores = tuple(kw.get("ptr_stores", ()))
            self.ptr_loads = tuple(kw.get("ptr_loads", ()))

        def _ptr_sub(self, n, names):
            """n = p[e] with p a pointer VARIABLE listed in names: True"""
            if n.get("kind") != "ArraySubscriptExpr":
                return False
            b = sl.strip(n["inner"][0])
            return b.get("kind") == "DeclRefExpr" and b["referencedDecl"]["name"] in names

        def stmts(self, ss, env, K):
            if ss:
                s = ss[0]
                if s.get("kind") == "BinaryOperator" and s.get("opcode") == "=":
                    lhs = c2g.skip_parens(s["inner"][0])
                    if self._ptr_sub(lhs, self.ptr_stores):
                        nm = sl.strip(lhs["inner"][0])["referencedDecl"]["name"]
                        return self.ghost_assign([(nm + "_store_addr", self._sub_addr(lhs, env)), (nm + "_store_val", self.expr(s["inner"][1], env))], env, ss[1:], K)
                    p = self._computed_deref(lhs)
                    if p is not None:
                        return self.ghost_assign([("deref_store_addr", self.expr(p, env)), ("deref_store_val", self.expr(s["inner"][1], env))], env, ss[1:], K)
            return super().stmts(ss, env, K)

    def emit(stmts, gname, outputs, fname, want, **kw):
        """sl.emit_block with CleanupT; the expected outputs (after expansion of *ghosts) are checked as well"""
        want_outputs = kw.pop("want_outputs", None)
        saved = sl.SliceT
        sl.SliceT = CleanupT
        try:
            t, i = sl.emit_block(stmts, gname, outputs, fname, want_params=want, **kw)
        finally:
            sl.SliceT = saved
        if want_outputs is not None and i["outputs"] != want_outputs:
            raise c2g.Unsupported("%s: effects %s, expected %s" % (gname, i["outputs"], want_outputs))
        return t, i

    def emit_cond(node, gname, fname, want, **kw):
        saved = sl.SliceT
        sl.SliceT = CleanupT
        try:
            return sl.emit_cond(node, gname, fname, want_params=want, **kw)
        finally:
            sl.SliceT = saved

    def without_loops(n, marker=None):
        """copy of statement n with every ForStmt removed, or replaced by the statement list `marker (for_node)`"""
        if not isinstance(n, dict):
            return n
        n = dict(n)
        if "inner" in n:
            inner = []
            for c in n["inner"]:
                if isinstance(c, dict) and c.get("kind") == "ForStmt":
                    inner += marker(c) if marker else []
                else:
                    inner.append(without_loops(c, marker))
            n["inner"] = inner
        return n

    def loop_marker(name):
        """`i = 0` of the loop header rewritten into `<name> = 1`"""
        def mk(L):
            init = copy.deepcopy(L["inner"][0])
            if init.get("kind") != "BinaryOperator" or init.get("opcode") != "=":
                raise c2g.Unsupported("loop header does not start with an assignment")
            lhs = sl.strip(init["inner"][0])
            lhs["referencedDecl"]["name"] = name
            lit = sl.strip(init["inner"][1])
            if lit.get("kind") != "IntegerLiteral":
                raise c2g.Unsupported("loop header does not start from a literal")
            lit["value"] = "1"
            return [init]
        return mk

    def for_parts(L):
        p = L["inner"]
        if len(p) != 5 or p[1] is not None and p[1] != {} or not isinstance(p[0], dict) or not isinstance(p[2], dict) or not isinstance(p[3], dict):
            raise c2g.Unsupported("for loop of unexpected shape")
        body = p[4]["inner"] if p[4].get("kind") == "CompoundStmt" else [p[4]]
        return p[0], p[2], p[3], body

    def split_conditional(n):
        """`x = c ? A : B;` rewritten into `if (c) x = A; else x = B;` (so that a call in an arm is at statement level); recursive"""
        if not isinstance(n, dict):
            return n
        n = dict(n)
        if "inner" in n:
            n["inner"] = [split_conditional(c) for c in n["inner"]]
        if n.get("kind") == "BinaryOperator" and n.get("opcode") == "=":
            rhs = c2g.skip_parens(n["inner"][1])
            if rhs.get("kind") == "ConditionalOperator":
                arms = []
                for a in rhs["inner"][1:]:
                    arms.append(dict(kind="CompoundStmt", inner=[dict(n, inner=[n["inner"][0], a])]))
                return dict(kind="IfStmt", hasElse=True, inner=[rhs["inner"][0]] + arms, range=n.get("range", {}))
        return n

    def rename_var(n, old, new):
        """copy of the tree with the variable `old` renamed (a field of the same name is a different thing)"""
        n = copy.deepcopy(n)

        def f(x):
            if x.get("kind") == "DeclRefExpr" and x.get("referencedDecl", {}).get("name") == old:
                x["referencedDecl"]["name"] = new
            if x.get("kind") in ("ParmVarDecl", "VarDecl") and x.get("name") == old:
                x["name"] = new
        sl.walk(n, f)
        return n

    def compar_is(call, argno, name):
        a = sl.strip(call["inner"][1 + argno])
        if a.get("kind") != "DeclRefExpr" or a["referencedDecl"]["name"] != name:
            raise c2g.Unsupported("comparison function handed to %s is not %s" % (sl.callee_name(call), name))

    SLOT_OUT = ["sc_array_push_called", "sc_array_push_arg0", "sc_array_push2_called", "sc_array_push2_arg0", "sc_array_push3_called", "sc_array_push3_arg0",
                "MPI_Recv_called", "MPI_Recv_arg0", "MPI_Recv_arg1", "MPI_Recv_arg3", "MPI_Recv_arg4", "r_store_addr", "r_store_val"]

    def gen(tmp):
        g = Group("NotifyC02")
        f = os.path.join(REPO, "src", "sc_notify.c")
        fcont = os.path.join(REPO, "src", "sc_containers.c")
        fsc = os.path.join(REPO, "src", "sc.c")
        src = open(f).read()
        sim = os.path.join(os.path.dirname(HERE), "simmpi")
        inc = incs(tmp) + [sim]
        defs = ("SC_ENABLE_MPI",)

        def fn(name, file=f):
            return c2g.find_function(c2g.clang_ast(file, name, inc, defs=defs), name)

        def top(F):
            return [c for c in F["inner"] if c.get("kind") == "CompoundStmt"][0]["inner"]

        def header(L, name, fname, var, bound):
            init, cond, step, body = for_parts(L)
            t, i = emit([init], name + "_init", [var], fname, [])
            g.add(t, i)
            t, i = emit_cond(cond, name + "_cond", fname, sorted([var, bound]))
            g.add(t, i)
            t, i = emit([step], name + "_step", [var], fname, [var])
            g.add(t, i)
            return body

        # ---------------------------------------------------------------- sc_notify_payload_cleanup
        CN = "sc_notify_payload_cleanup"
        F = fn(CN)
        body = top(F)
        kinds = [s.get("kind") for s in body if s.get("kind") != "DeclStmt"]
        if kinds != ["BinaryOperator", "CallExpr", "BinaryOperator", "IfStmt", "IfStmt"]:
            raise c2g.Unsupported("%s: statement sequence %s" % (CN, kinds))
        decl = [s for s in body if s.get("kind") == "DeclStmt" and s["inner"][0].get("name") == "msg_size"]
        if len(decl) != 1:
            raise c2g.Unsupported("%s: no declaration of msg_size" % CN)
        t, i = emit(decl, "cleanup_msg_size", ["msg_size"], CN, ["in_payload"], field_reads=("elem_size",))
        g.add(t, i)
        rest = [s for s in body if s.get("kind") != "DeclStmt"]
        t, i = emit(rest[0:3], "cleanup_head", ["num_senders", "*ghosts", "isenders"], CN, ["recv_buf", "senders"], field_reads=("elem_count", "array"),
                    effects=("sc_array_resize",), want_outputs=["num_senders", "sc_array_resize_arg0", "sc_array_resize_arg1", "isenders"])
        g.add(t, i)
        ifsort, ifpay = rest[3], rest[4]
        for c in sl.find_nodes(ifsort, lambda n: sl.callee_name(n) == "sc_array_sort"):
            compar_is(c, 1, "sc_int_compare")
        t, i = emit([without_loops(ifsort)], "cleanup_sort", ["*ghosts"], CN, ["sorted", "msg_size", "recv_buf", "senders"],
                    effects=("sc_array_sort",), effect_called=True, effect_skip_args={"sc_array_sort": (1,)},
                    want_outputs=["sc_array_sort_called", "sc_array_sort_arg0", "sc_array_sort2_called", "sc_array_sort2_arg0"],
                    comment="(recv_buf sorted?, its address, senders sorted?, its address): depends on (sorted, msg_size) ONLY")
        g.add(t, i)
        # where the senders loop sits: directly behind the sort of the records
        loops = sl.find_nodes(ifsort, lambda n: n.get("kind") == "ForStmt")
        if len(loops) != 1:
            raise c2g.Unsupported("%s: %d loops in the sorted branch" % (CN, len(loops)))
        t, i = emit([without_loops(ifsort, loop_marker("senders_loop"))], "cleanup_senders_when", ["senders_loop"], CN, ["sorted", "msg_size"],
                    effects=("sc_array_sort",), effect_skip_args={"sc_array_sort": (0, 1)}, init={"senders_loop": "0"})
        g.add(t, i)
        b = header(loops[0], "cleanup_senders", CN, "i", "num_senders")
        t, i = emit(b, "cleanup_senders_body", ["*ghosts", "isenders_store_addr", "isenders_store_val"], CN, ["recv_buf", "i", "sc_array_index_int_ret", "isenders"],
                    effects=("sc_array_index_int",), ptr_stores=("isenders",), ptr_loads=("r",),
                    want_outputs=["sc_array_index_int_arg0", "sc_array_index_int_arg1", "isenders_store_addr", "isenders_store_val"],
                    comment="(record array, record index, address and value of the int store); load_int a = the int stored at address a")
        g.add(t, i)
        # the payload part
        loops = sl.find_nodes(ifpay, lambda n: n.get("kind") == "ForStmt")
        if len(loops) != 1:
            raise c2g.Unsupported("%s: %d loops in the payload branch" % (CN, len(loops)))
        t, i = emit([without_loops(ifpay, loop_marker("copy_loop"))], "cleanup_guard", ["*ghosts", "out_payload", "cpayload", "copy_loop"], CN,
                    ["in_payload", "out_payload", "recv_buf", "num_senders"], field_reads=("array",),
                    effects=("sc_array_reset", "sc_array_resize", "sc_array_destroy"), effect_called=True, init={"copy_loop": "0", "cpayload": "0"},
                    want_outputs=["sc_array_reset_called", "sc_array_reset_arg0", "sc_array_resize_called", "sc_array_resize_arg0", "sc_array_resize_arg1",
                                  "sc_array_destroy_called", "sc_array_destroy_arg0", "out_payload", "cpayload", "copy_loop"])
        g.add(t, i)
        b = header(loops[0], "cleanup_copy", CN, "i", "num_senders")
        t, i = emit(b, "cleanup_copy_body", ["*ghosts"], CN, ["recv_buf", "i", "sc_array_index_int_ret", "cpayload", "msg_size"],
                    effects=("sc_array_index_int", "memcpy"), field_reads=("elem_size",),
                    want_outputs=["sc_array_index_int_arg0", "sc_array_index_int_arg1", "memcpy_arg0", "memcpy_arg1", "memcpy_arg2"],
                    comment="(record array, record index, destination, source, length of the memcpy)")
        g.add(t, i)

        # ---------------------------------------------------------------- sc_array_sort, sc_int_compare
        F = rename_var(fn("sc_array_sort", fcont), "array", "arr")
        t, i = emit(top(F), "array_sort_call", ["*ghosts"], "sc_array_sort", ["arr"], field_reads=("elem_count", "elem_size"),
                    effects=("qsort",), effect_skip_args={"qsort": (0, 3)}, want_outputs=["qsort_arg1", "qsort_arg2"],
                    comment="(number of elements, ELEMENT SIZE handed to qsort)")
        g.add(t, i)
        F = rename_var(fn("sc_array_index_int", fcont), "array", "arr")
        t, i = emit(top(F), "array_index_int", ["ret"], "sc_array_index_int", ["arr", "i"], field_reads=("array", "elem_size"), ret="ret",
                    params=("arr", "i"), comment="address of element i of the array arr")
        g.add(t, i)
        F = fn("sc_int_compare", fsc)
        t, i = emit(top(F), "int_compare", ["ret"], "sc_int_compare", ["v1_deref", "v2_deref"], ret="ret")
        g.add(t, i)

        # ---------------------------------------------------------------- sc_notify_payload_nbx
        NN = "sc_notify_payload_nbx"
        F = fn(NN)
        st = c2g.select_between(F, src, r"if \(sorted && msg_size\) \{\s*\n\s*recv_buf = sc_array_new", r"^\s*barr = 0;")
        t, i = emit(st, "nbx_recv_buf", ["*ghosts", "recv_buf"], NN, ["sorted", "msg_size", "out_payload", "sc_array_new_ret", "sc_array_new2_ret"],
                    effects=("sc_array_new",), effect_called=True, init={"recv_buf": "0"},
                    want_outputs=["sc_array_new_called", "sc_array_new_arg0", "sc_array_new2_called", "sc_array_new2_arg0", "recv_buf"])
        g.add(t, i)
        st = c2g.select_between(F, src, r"int\s+\*r;", r"^\s*SC_CHECK_MPI \(mpiret\);")
        st = [split_conditional(x) for x in st]
        t, i = emit(st, "nbx_recv_slot", ["*ghosts", "r_store_addr", "r_store_val"], NN,
                    ["status_MPI_SOURCE", "sorted", "msg_size", "recv_buf", "senders", "sc_array_push_ret", "sc_array_push2_ret", "sc_array_push3_ret",
                     "SC_TAG_NOTIFY_NBX", "MPI_Recv_ret"],
                    effects=("sc_array_push", "MPI_Recv"), effect_called=True, ptr_stores=("r",), enum_params=True,
                    effect_skip_args={"MPI_Recv": (2, 5, 6)}, want_outputs=SLOT_OUT,
                    comment="pushes (records, senders, items), MPI_Recv (buffer, count, source, tag), address and value of the rank store")
        g.add(t, i)

        # ---------------------------------------------------------------- sc_notify_payload_superset
        SN = "sc_notify_payload_superset"
        F = fn(SN)
        st = c2g.select_between(F, src, r"if \(msg_size\) \{\s*\n\s*if \(sorted\) \{\s*\n\s*recv_buf =", r"^\s*for \(queue = num_super_senders;")
        t, i = emit(st, "super_recv_buf", ["*ghosts", "recv_buf"], SN,
                    ["sorted", "msg_size", "out_payload", "num_super_senders", "sc_array_new_count_ret", "sc_array_new_ret"],
                    effects=("sc_array_new_count", "sc_array_new", "sc_array_resize", "sc_array_truncate"), effect_called=True, init={"recv_buf": "0"},
                    want_outputs=["sc_array_new_count_called", "sc_array_new_count_arg0", "sc_array_new_count_arg1", "sc_array_truncate_called", "sc_array_truncate_arg0",
                                  "sc_array_new_called", "sc_array_new_arg0", "sc_array_resize_called", "sc_array_resize_arg0", "sc_array_resize_arg1",
                                  "sc_array_truncate2_called", "sc_array_truncate2_arg0", "recv_buf"])
        g.add(t, i)
        st = c2g.select_between(F, src, r"int\s+\*r;", r"^\s*SC_CHECK_MPI \(mpiret\);")
        st = [split_conditional(x) for x in st]
        t, i = emit(st, "super_recv_slot", ["*ghosts", "r_store_addr", "r_store_val"], SN,
                    ["status_MPI_SOURCE", "sorted", "msg_size", "recv_buf", "senders", "sc_array_push_ret", "sc_array_push2_ret", "sc_array_push3_ret",
                     "SC_TAG_NOTIFY_SUPER_TRUE", "MPI_Recv_ret"],
                    effects=("sc_array_push", "MPI_Recv"), effect_called=True, ptr_stores=("r",), enum_params=True,
                    effect_skip_args={"MPI_Recv": (2, 5, 6)}, want_outputs=SLOT_OUT)
        g.add(t, i)

        # ---------------------------------------------------------------- sc_notify_payload_census
        PN = "sc_notify_payload_census"
        F = fn(PN)
        st = c2g.select_between(F, src, r"stride = sizeof \(int\) \+ msg_size;", r"^\s*crecv = \(char \*\) recv_buf->array;")
        t, i = emit(st, "census_recv_buf", ["stride", "*ghosts", "recv_buf"], PN, ["msg_size", "senders", "num_senders", "sc_array_new_count_ret"],
                    effects=("sc_array_resize", "sc_array_new_count"), effect_called=True,
                    want_outputs=["stride", "sc_array_resize_called", "sc_array_resize_arg0", "sc_array_resize_arg1",
                                  "sc_array_new_count_called", "sc_array_new_count_arg0", "sc_array_new_count_arg1", "recv_buf"])
        g.add(t, i)
        loops = [L for L in sl.find_nodes(F, lambda n: n.get("kind") == "ForStmt")]
        if len(loops) != 4:
            raise c2g.Unsupported("%s: %d loops" % (PN, len(loops)))
        b = header(loops[1], "census_recv", PN, "i", "num_senders")
        t, i = emit(b, "census_recv_body", ["*ghosts", "deref_store_addr", "deref_store_val"], PN,
                    ["crecv", "i", "stride", "msg_size", "SC_TAG_NOTIFY_CENSUS", "MPI_Recv_ret", "status_MPI_SOURCE"],
                    effects=("MPI_Recv",), enum_params=True, effect_skip_args={"MPI_Recv": (2, 3, 5, 6)},
                    want_outputs=["MPI_Recv_arg0", "MPI_Recv_arg1", "MPI_Recv_arg4", "deref_store_addr", "deref_store_val"],
                    comment="MPI_Recv (buffer, count, tag), address and value of the rank store")
        g.add(t, i)
        st = c2g.select_between(F, src, r"if \(sorted\) \{\s*\n\s*sc_array_sort \(recv_buf", r"^\s*mpiret = sc_MPI_Waitall")
        for c in sl.find_nodes(dict(kind="X", inner=st), lambda n: sl.callee_name(n) == "sc_array_sort"):
            compar_is(c, 1, "sc_int_compare")
        t, i = emit(st, "census_sort", ["*ghosts"], PN, ["sorted", "recv_buf"], effects=("sc_array_sort",), effect_called=True,
                    effect_skip_args={"sc_array_sort": (1,)}, want_outputs=["sc_array_sort_called", "sc_array_sort_arg0"])
        g.add(t, i)
        b = header(loops[2], "census_copy", PN, "i", "num_senders")
        t, i = emit(b, "census_copy_body", ["isenders_store_addr", "isenders_store_val", "*ghosts"], PN, ["isenders", "i", "crecv", "stride", "cpayload", "msg_size"],
                    effects=("memcpy",), ptr_stores=("isenders",),
                    want_outputs=["isenders_store_addr", "isenders_store_val", "memcpy_arg0", "memcpy_arg1", "memcpy_arg2"])
        g.add(t, i)
        b = header(loops[3], "census_senders", PN, "i", "num_senders")
        t, i = emit(b, "census_senders_body", ["isenders_store_addr", "isenders_store_val"], PN, ["isenders", "i", "crecv", "stride"], ptr_stores=("isenders",))
        g.add(t, i)

        # ---------------------------------------------------------------- sc_notify_payloadv_census (epilogue, sorted mode)
        VN = "sc_notify_payloadv_census"
        F = fn(VN)
        st = c2g.select_between(F, src, r"if \(out_payload != recv_buf\) \{", r"^\s*if \(first_senders != senders\) \{")
        if len(st) != 1 or st[0].get("kind") != "IfStmt":
            raise c2g.Unsupported("%s: the epilogue is not one if statement" % VN)
        for c in sl.find_nodes(st[0], lambda n: sl.callee_name(n) == "sc_array_sort"):
            compar_is(c, 1, "sc_int_compare")
        loops = sl.find_nodes(st[0], lambda n: n.get("kind") == "ForStmt")
        if len(loops) != 1:
            raise c2g.Unsupported("%s: %d loops in the epilogue" % (VN, len(loops)))
        t, i = emit([without_loops(st[0], loop_marker("copy_loop"))], "censusv_guard", ["*ghosts", "out_payload", "outoff_store_addr", "outoff_store_val", "copy_loop"], VN,
                    ["out_payload", "recv_buf", "in_payload", "recv_size", "sorted", "first_senders", "senders", "outoff"], field_reads=("array",), ptr_stores=("outoff",),
                    effects=("sc_array_reset", "sc_array_resize", "sc_array_copy", "sc_array_sort"), effect_called=True,
                    effect_skip_args={"sc_array_sort": (1,)}, init={"copy_loop": "0", "outoff_store_addr": "0", "outoff_store_val": "0"})
        g.add(t, i)
        b = header(loops[0], "censusv_copy", VN, "i", "num_senders")
        t, i = emit(b, "censusv_copy_body", ["*ghosts", "isenders_store_addr", "isenders_store_val", "outoff_store_addr", "outoff_store_val"], VN,
                    ["first_senders", "i", "sc_array_index_int_ret", "isenders", "cout", "outoff", "msg_size", "crecv"],
                    effects=("sc_array_index_int", "memcpy"), ptr_stores=("isenders", "outoff"), ptr_loads=("sender", "outoff"),
                    want_outputs=["sc_array_index_int_arg0", "sc_array_index_int_arg1", "memcpy_arg0", "memcpy_arg1", "memcpy_arg2",
                                  "isenders_store_addr", "isenders_store_val", "outoff_store_addr", "outoff_store_val"])
        g.add(t, i)
        return g, [f, fcont, fsc]
    GROUPS["NotifyC02"] = gen
