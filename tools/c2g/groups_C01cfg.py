"""Translator group NotifyCfgC01 (C01/C02): the CONFIGURATION path of a notify object in sc_notify.c - the setters that put
parameters in force (sc_notify_nary_set_widths, sc_notify_ranges_set_num_ranges, sc_notify_set_eager_threshold,
sc_notify_superset_set_callback), the initialisation a type change runs (sc_notify_set_type, sc_notify_nary_init,
sc_notify_ranges_init), the places where a round READS the parameters (sc_notify_payload_nary, the eager test of
sc_notify_payload) and the FOOTPRINT of every round function on the notify object (fields read / written / whose address
escapes).  coq/C01/Reconfig.v builds the state model of the object from these definitions."""
import os, re, copy


def register(GROUPS, c2g, incs, REPO, HERE, STRUCTS, Group):
    def ref(name):
        return {"kind": "DeclRefExpr", "referencedDecl": {"kind": "VarDecl", "name": name}, "type": {"qualType": "int"}}

    def lit(v):
        return {"kind": "IntegerLiteral", "value": str(v), "type": {"qualType": "int"}}

    def assign(name, rhs):
        return {"kind": "BinaryOperator", "opcode": "=", "inner": [ref(name), rhs], "type": {"qualType": "int"}}

    def strip(n):
        n = c2g.skip_parens(n)
        while n.get("kind") in ("ImplicitCastExpr", "CStyleCastExpr"):
            n = c2g.skip_parens(n["inner"][0])
        return n

    def callee(n):
        if n.get("kind") != "CallExpr":
            return None
        return strip(n["inner"][0]).get("referencedDecl", {}).get("name")

    def calls(n):
        out = []
        if isinstance(n, dict):
            c = callee(n)
            if c:
                out.append(c)
            for x in n.get("inner", []):
                out += calls(x)
        return out

    GETTERS = {"sc_notify_get_type": "notify_type", "sc_notify_get_comm": "notify_mpicomm"}
    MARKS = {"sc_notify_nary_init": "nary_init", "sc_notify_ranges_init": "ranges_init", "sc_notify_nary_set_widths": "set_widths"}

    ENUMS = {}

    def enum_values(tmp, inc):
        """values of the enumerators of sc_notify_type_t, printed by a program compiled against the headers of the tree"""
        import subprocess
        names = ["SC_NOTIFY_DEFAULT", "SC_NOTIFY_ALLGATHER", "SC_NOTIFY_BINARY", "SC_NOTIFY_NARY", "SC_NOTIFY_PEX", "SC_NOTIFY_PCX", "SC_NOTIFY_RSX",
                 "SC_NOTIFY_NBX", "SC_NOTIFY_RANGES", "SC_NOTIFY_SUPERSET", "SC_NOTIFY_NUM_TYPES"]
        cf, exe = os.path.join(tmp, "cfg_enums.c"), os.path.join(tmp, "cfg_enums")
        open(cf, "w").write("#include <sc.h>\n#include <sc_notify.h>\n#include <stdio.h>\nint main (void) {\n%s return 0; }\n" %
                            "".join('  printf ("%s %%d\\n", (int) %s);\n' % (n, n) for n in names))
        p = subprocess.run(["gcc", "-w"] + ["-I" + i for i in inc] + [cf, "-o", exe], stdout=subprocess.PIPE, stderr=subprocess.STDOUT)
        if p.returncode != 0:
            raise c2g.Unsupported("enumerators of sc_notify_type_t: " + p.stdout.decode()[-300:])
        out = subprocess.run([exe], stdout=subprocess.PIPE).stdout.decode()
        ENUMS.clear()
        for l in out.split("\n"):
            w = l.split()
            if len(w) == 2:
                ENUMS[w[0]] = int(w[1])

    def rw_expr(n):
        """getter calls on the object become reads of the field; enumerators without a value become parameters"""
        if not isinstance(n, dict):
            return n
        c = callee(n)
        if c in GETTERS:
            return ref(GETTERS[c])
        if n.get("kind") == "DeclRefExpr" and n.get("referencedDecl", {}).get("kind") == "EnumConstantDecl":
            nm = n["referencedDecl"]["name"]
            if nm not in ENUMS:
                raise c2g.Unsupported("enumerator %s: value not known" % nm)
            return lit(ENUMS[nm])
        if n.get("kind") in ("ImplicitCastExpr", "CStyleCastExpr") and n.get("castKind") == "IntegralCast" and \
                ("sc_notify_type_t" in c2g.tystr(n) or "sc_notify_type_t" in c2g.tystr(n["inner"][0])):
            return rw_expr(n["inner"][0])      # the enumeration type: its values are in the range of int and of unsigned
        if "inner" in n:
            n = dict(n)
            n["inner"] = [rw_expr(x) for x in n["inner"]]
        return n

    def rw_stmt(s, fname):
        """statement-position rewriting; returns a list of statements"""
        k = s.get("kind")
        if k in ("CompoundStmt",):
            s = dict(s)
            s["inner"] = [y for x in s.get("inner", []) for y in rw_stmt(x, fname)]
            return [s]
        if k == "IfStmt":
            s = dict(s)
            inner = s["inner"]
            new = [rw_expr(inner[0])]
            for b in inner[1:]:
                r = rw_stmt(b, fname)
                new.append(r[0] if len(r) == 1 else {"kind": "CompoundStmt", "inner": r})
            s["inner"] = new
            return [s]
        if k == "SwitchStmt":
            s = dict(s)
            s["inner"] = [rw_expr(s["inner"][0])] + [y for x in s["inner"][1:] for y in rw_stmt(x, fname)]
            return [s]
        if k in ("CaseStmt", "DefaultStmt"):
            s = dict(s)
            last = rw_stmt(s["inner"][-1], fname)
            s["inner"] = [rw_expr(x) for x in s["inner"][:-1]] + [last[0] if len(last) == 1 else {"kind": "CompoundStmt", "inner": last}]
            return [s]
        if k == "CallExpr":
            c = callee(s)
            if c in MARKS:
                out = [assign("called_" + MARKS[c], lit(1))]
                i = 0
                for a in s["inner"][1:]:
                    if strip(a).get("referencedDecl", {}).get("name") == "notify":
                        continue
                    i += 1
                    out.append(assign("%s_arg%d" % (MARKS[c], i), rw_expr(a)))
                return out
            if c and c.startswith("sc_abort"):
                return [assign("aborted", lit(1))]
            raise c2g.Unsupported("unexpected call statement %s in %s" % (c, fname))
        if k == "BinaryOperator" and s.get("opcode") == "=":
            rhs = strip(s["inner"][1])
            c = callee(rhs)
            if c in ("MPI_Comm_size", "MPI_Comm_rank", "sc_MPI_Comm_size", "sc_MPI_Comm_rank"):
                out = strip(rhs["inner"][2])
                if out.get("kind") == "UnaryOperator" and out.get("opcode") == "&":
                    return [assign(strip(out["inner"][0])["referencedDecl"]["name"], ref("comm_size" if c.endswith("size") else "comm_rank"))]
                raise c2g.Unsupported("shape of %s call in %s" % (c, fname))
            if rhs.get("kind") == "BinaryOperator" and rhs.get("opcode") == "=":
                # a = b = e
                first = rw_stmt(rhs, fname)
                s2 = dict(s)
                s2["inner"] = [s["inner"][0], rhs["inner"][0]]
                return first + [s2]
            s = dict(s)
            s["inner"] = [s["inner"][0], rw_expr(s["inner"][1])]
            return [s]
        if k == "ParenExpr" and any(c.startswith("sc_abort") for c in calls(s)):
            return []       # SC_CHECK_MPI (success)
        return [s]

    def footprint(funcs, name, rootmap, memo, stack):
        """Transitive footprint of function `name` on the objects its pointers in rootmap (local name -> canonical name) point
        to: fields read, fields written, and escapes (address of a field taken; the pointer handed to a function that is not
        defined in sc_notify.c or to a function pointer).  Member keys as in lvalue_key, with the canonical root name."""
        mk = (name, tuple(sorted(rootmap.items())))
        if mk in memo:
            return memo[mk]
        if mk in stack:
            return (set(), set(), set())       # recursion: the fixpoint is reached by the outer call
        F = funcs[name]
        T = c2g.Translator()
        T.fname = name
        reads, writes, escapes = set(), set(), set()
        roots = dict(rootmap)

        def key(n):
            n2 = c2g.skip_parens(n)
            if n2.get("kind") != "MemberExpr":
                return None
            try:
                kk = T.lvalue_key(n2)
            except c2g.Unsupported:
                return None
            for r, canon in roots.items():
                if kk.startswith(r + "_"):
                    return canon + kk[len(r):]
            return None

        def walk(n, mode):
            if not isinstance(n, dict):
                return
            k = n.get("kind")
            kk = key(n) if k in ("MemberExpr", "ParenExpr") else None
            if kk:
                (writes if mode == "w" else escapes if mode == "a" else reads).add(kk if mode != "a" else "address of " + kk)
                return
            if k == "VarDecl":
                # a local pointer initialised with a root pointer is another name for the same object
                init_ = [c for c in n.get("inner", []) if isinstance(c, dict)]
                if init_ and c2g.is_pointer(c2g.strip_quals(c2g.tystr(n))):
                    src_ = strip(init_[0])
                    if src_.get("kind") == "DeclRefExpr" and src_["referencedDecl"]["name"] in roots:
                        roots[n["name"]] = roots[src_["referencedDecl"]["name"]]
                        return
            if k == "BinaryOperator" and n.get("opcode") == "=":
                walk(n["inner"][0], "w")
                walk(n["inner"][1], "r")
                return
            if k == "CompoundAssignOperator" or (k == "UnaryOperator" and n.get("opcode") in ("++", "--")):
                walk(n["inner"][0], "w")
                walk(n["inner"][0], "r")
                for x in n["inner"][1:]:
                    walk(x, "r")
                return
            if k == "UnaryOperator" and n.get("opcode") == "&":
                walk(n["inner"][0], "a")
                return
            if k == "CallExpr":
                c = callee(n)
                walk(n["inner"][0], "r")
                passed = {}
                for idx, a in enumerate(n["inner"][1:]):
                    a2 = strip(a)
                    if a2.get("kind") == "DeclRefExpr" and a2.get("referencedDecl", {}).get("name") in roots:
                        passed[idx] = roots[a2["referencedDecl"]["name"]]
                    else:
                        walk(a, "r")
                if passed:
                    if c in funcs:
                        ps = [x for x in funcs[c].get("inner", []) if x.get("kind") == "ParmVarDecl"]
                        sub = dict((ps[idx]["name"], canon) for idx, canon in passed.items() if idx < len(ps))
                        r2, w2, e2 = footprint(funcs, c, sub, memo, stack + [mk])
                        reads.update(r2)
                        writes.update(w2)
                        escapes.update(e2)
                    else:
                        for canon in passed.values():
                            escapes.add("%s passed to %s" % (canon, c or "a function pointer"))
                return
            for x in n.get("inner", []):
                walk(x, mode if k in ("ParenExpr", "ImplicitCastExpr", "CStyleCastExpr") else "r")
        body = [c for c in F["inner"] if c.get("kind") == "CompoundStmt"][0]
        walk(body, "r")
        memo[mk] = (reads, writes, escapes)
        return memo[mk]

    def strlist(l):
        return "[" + "; ".join('"%s"%%string' % x for x in l) + "]"

    def gen_cfg(tmp):
        g = Group("NotifyCfgC01")
        f = os.path.join(REPO, "src", "sc_notify.c")
        src = open(f).read()
        sim = os.path.join(os.path.dirname(HERE), "simmpi")
        inc = incs(tmp) + [sim]
        defs = ("SC_ENABLE_MPI",)
        cache = {}
        enum_values(tmp, incs(tmp))
        g.add("\n".join("Definition cfg_%s : Z := %s." % (k, ("(%d)" % v) if v < 0 else str(v)) for k, v in sorted(ENUMS.items(), key=lambda kv: kv[1])) + "\n",
              dict(name="cfg_enumerators", params=[], outputs=sorted(ENUMS), fuel=False))

        def fn(name):
            if name not in cache:
                objs = c2g.clang_ast(f, name, inc, defs=defs)
                cache[name] = c2g.find_function(objs, name)
            return cache[name]

        def body(F):
            return [c for c in F["inner"] if c.get("kind") == "CompoundStmt"][0]

        def whole(F, gname, params, outputs, init=None, drop_return=False):
            """EVERY statement of the function body, as a function of the locations it reads (params fixes the order of the
            expected ones, so that reordering statements does not permute the arguments; any further location read is appended)"""
            st = [c for c in body(F).get("inner", []) if isinstance(c, dict)]
            if drop_return and st and st[-1].get("kind") == "ReturnStmt":
                st = st[:-1]
            st = [y for x in st for y in rw_stmt(x, F["name"])]
            return c2g.translate_block(st, gname, list(params), outputs, fname=F["name"], free_params=True, init=init)

        # 1. the setters: every field they assign, nothing else (the whole body is translated)
        t, i = whole(fn("sc_notify_nary_set_widths"), "cfg_set_widths", ["ntop", "nint", "nbot"], ["notify_data_nary_ntop", "notify_data_nary_nint", "notify_data_nary_nbot"])
        g.add(t, i)
        t, i = whole(fn("sc_notify_ranges_set_num_ranges"), "cfg_set_num_ranges", ["num_ranges"], ["notify_data_ranges_num_ranges"])
        g.add(t, i)
        t, i = whole(fn("sc_notify_set_eager_threshold"), "cfg_set_eager_threshold", ["thresh"], ["notify_eager_threshold"])
        g.add(t, i)
        t, i = whole(fn("sc_notify_superset_set_callback"), "cfg_set_callback", ["compute_superset", "ctx"], ["notify_data_superset_compute_superset", "notify_data_superset_ctx"])
        g.add(t, i)
        # 2. a type change: new type, which initialisation runs (markers called_*), abort marker
        t, i = whole(fn("sc_notify_set_type"), "cfg_set_type", ["notify_type", "in_type", "sc_notify_type_default"], ["notify_type", "called_nary_init", "called_ranges_init", "aborted"],
                     init={"called_nary_init": "0", "called_ranges_init": "0", "aborted": "0"}, drop_return=True)
        g.add(t, i)
        # the initialisation of the n-ary data: communicator size and rank, then set_widths with the three defaults
        t, i = whole(fn("sc_notify_nary_init"), "cfg_nary_init",
                     ["notify_mpicomm", "comm_size", "comm_rank", "sc_notify_nary_ntop_default", "sc_notify_nary_nint_default", "sc_notify_nary_nbot_default"],
                     ["notify_data_nary_mpicomm", "notify_data_nary_mpisize", "notify_data_nary_mpirank", "called_set_widths", "set_widths_arg1", "set_widths_arg2", "set_widths_arg3"],
                     init={"called_set_widths": "0"})
        g.add(t, i)
        t, i = whole(fn("sc_notify_ranges_init"), "cfg_ranges_init", ["sc_notify_ranges_num_ranges_default", "sc_package_id"],
                     ["notify_data_ranges_num_ranges", "notify_data_ranges_package_id"])
        g.add(t, i)
        # 3. where a round reads its parameters.  n-ary: the local copy `snary = notify->data.nary` and the five reads from it
        F = fn("sc_notify_payload_nary")
        ok = False
        for d in c2g_walk(body(F)):
            if d.get("kind") == "VarDecl" and d.get("name") == "snary":
                init_ = [c for c in d.get("inner", []) if isinstance(c, dict)]
                if init_:
                    T = c2g.Translator()
                    try:
                        ok = T.lvalue_key(strip(init_[0])) == "notify_data_nary"
                    except c2g.Unsupported:
                        ok = False
        if not ok:
            raise c2g.Unsupported("sc_notify_payload_nary: the context of the recursion is no longer the copy `snary = notify->data.nary` taken at the call")
        st = c2g.select_between(F, src, r"mpisize = nary->mpisize;", r"num_receivers = \(int\) receivers->elem_count;")
        t, i = c2g.translate_block(st, "cfg_nary_read", ["nary_mpisize", "nary_mpirank", "nary_ntop", "nary_nint", "nary_nbot"], ["mpisize", "mpirank", "ntop", "nint", "nbot"], fname="sc_notify_payload_nary", free_params=True)
        g.add(t, i)
        # the eager test of the dispatcher
        F = fn("sc_notify_payload")
        st = c2g.select_between(F, src, r"if \(in_payload && in_payload->elem_size <= notify->eager_threshold\) \{", r"switch \(type\) \{")
        st = [x for x in st if x.get("kind") == "IfStmt"]
        cond = st[0]["inner"][0]
        t, i = c2g.translate_block([assign("eager", cond)], "cfg_eager", ["in_payload", "in_payload_elem_size", "notify_eager_threshold"], ["eager"], fname="sc_notify_payload", free_params=True)
        g.add(t, i)
        # 4. footprints on the notify object: what every round function reads / writes / lets escape of *notify (and of the local
        #    context *nary in the n-ary functions).  stats / flop (timing) are ignored.
        allobjs = c2g.clang_ast(f, "sc_notify_", inc, defs=defs)
        funcs = dict((o["name"], o) for o in allobjs if o.get("kind") == "FunctionDecl" and any(c.get("kind") == "CompoundStmt" for c in o.get("inner", [])))
        rows = []
        drop = lambda l: sorted(x for x in l if not re.search(r"notify_(stats|flop)\b", x))
        for name in ["sc_notify_payload", "sc_notify_payloadv"]:
            r, w, e = footprint(funcs, name, {"notify": "notify"}, {}, [])
            rows.append('  ("%s"%%string, (%s, %s, %s))' % (name, strlist(drop(r)), strlist(drop(w)), strlist(drop(e))))
        # the n-ary round works on a COPY of the n-ary data taken at the call: what it reads / writes of the copy
        r, w, e = footprint(funcs, "sc_notify_payload_nary", {"nary": "copy"}, {}, [])
        rows.append('  ("%s"%%string, (%s, %s, %s))' % ("sc_notify_payload_nary (local copy)", strlist(drop(r)), strlist(drop(w)), strlist(drop(e))))
        g.add("From Coq Require Import String.\nDefinition cfg_footprints : list (string * (list string * list string * list string)) :=\n[\n%s\n].\n" % ";\n".join(rows),
              dict(name="cfg_footprints", params=[], outputs=["reads", "writes", "escapes"], fuel=False))
        return g, [f]

    def c2g_walk(n):
        if isinstance(n, dict):
            yield n
            for c in n.get("inner", []):
                for x in c2g_walk(c):
                    yield x
    GROUPS["NotifyCfgC01"] = gen_cfg
