"""Translator group of C10 (tie T1): `AllocC10` (coq/Gen/AllocC10.v), regenerated from /repo/src/sc.c on every run.

  * sc_malloc_aligned_arith (alignment size malloc_ret)    - the whole body of sc_malloc_aligned (padding allocator branch):
        (size passed to malloc, address and value of the two word stores ((char **) ptr)[-1] / [-2], returned pointer)
  * sc_free_aligned_arith (word) (ptr alignment)            - the pointer handed to free (): the word READ at ptr - 8
  * sc_realloc_aligned_arith (word) (ptr alignment size ..) - old size READ at ptr - 16, arguments of sc_malloc_aligned,
        of memcpy (the SC_MIN), of sc_free_aligned, returned pointer
  * alloc_align_malloc / _calloc / _realloc / _free, alloc_calloc_size - the alignment (SC_MEMALIGN_BYTES) and size
        arguments with which sc_malloc / sc_calloc / sc_realloc / sc_free call the three functions above
  * register_slot (fuel) (is_registered) (..)               - sc_package_register from "Try to find unused space" up to
        (excluding) the initialisation loop of the new slots: the first-free-slot loop, the growth test, the new table
        size and the size passed to realloc
See tools/c2g/slicelib.py for the conventions (pointers as integers, `word` = 8-byte memory read, call effects as ghost
outputs, abort macros dropped).  coq/C10/AllocGen.v proves that the hand-written model computes exactly these.

Second group `LedgerC10` (coq/Gen/LedgerC10.v), regenerated from /repo/src/sc_notify.c (compiled with SC_ENABLE_MPI against
tools/simmpi/mpi.h): the OWNERSHIP LEDGER of one level of sc_notify_recursive (the binary notify behind sc_notify () and
SC_NOTIFY_BINARY), see tools/c2g/ledgerlib.py for the events and what is refused:
  * notify_recursive_prefix_b (c)  - the statements of the `length > 1` branch in front of `sendbuf = sc_array_new (..)`
        (the recursive call and the computation of the peers): only mentions of the caller's array
  * notify_recursive_ledger_b (c)  - from `sendbuf = sc_array_new (..)` to the end of the branch: every sc_array_new / init /
        reset / destroy / resize / push / sc_notify_merge / struct assignment on array, sendbuf, recvbuf, morebuf, on every
        path (c i = value of the i-th branch condition; the conditions themselves are emitted as .._c<i> for the reader)
  * hash_resize_prefix_b / hash_resize_ledger_b (c) - sc_hash_maybe_resize (src/sc_containers.c): the declarations and the decision
        (old_slots = hash->slots), then from `new_slots = sc_array_new (..)` to the end
  * hash_new_ledger_b, hash_destroy_ledger_b, hash_unlink_destroy_ledger_b, hash_array_new_ledger_b, hash_array_destroy_ledger_b,
        hash_array_rip_ledger_b (src/sc_containers.c), keyvalue_new_ledger_b, keyvalue_destroy_ledger_b (src/sc_keyvalue.c): whole bodies
coq/C10/LedgerProofs.v proves that the generated event lists are balanced for EVERY valuation of the conditions (the
create / destroy pairs as concatenations new ++ destroy)."""
import os, re


def register(GROUPS, c2g, incs, REPO, HERE, STRUCTS, Group):
    import slicelib as sl

    def gen_alloc(tmp):
        g = Group("AllocC10")
        f = os.path.join(REPO, "src", "sc.c")
        src = open(f).read()

        def fn(name):
            return c2g.find_function(c2g.clang_ast(f, name, incs(tmp)), name)

        def flat_body(F):
            body = [c for c in F["inner"] if c.get("kind") == "CompoundStmt"][0]
            out = []
            for s in body.get("inner", []):
                if s.get("kind") == "CompoundStmt":
                    out += list(s.get("inner", []))
                else:
                    out.append(s)
            return out

        # --- the padding allocator
        F = fn("sc_malloc_aligned")
        t, i = sl.emit_block(flat_body(F), "sc_malloc_aligned_arith", ["*ghosts", "ret"], "sc_malloc_aligned", params=("alignment", "size"),
                             ret="ret", effects=("malloc",), want_params=["alignment", "size", "malloc_ret"],
                             comment="returns (malloc_arg0, store0_addr, store0_val, store1_addr, store1_val, returned pointer); "
                                     "malloc_ret = the address malloc returns")
        if i["outputs"] != ["malloc_arg0", "store0_addr", "store0_val", "store1_addr", "store1_val", "ret"]:
            raise c2g.Unsupported("sc_malloc_aligned: unexpected effects %s" % i["outputs"])
        g.add(t, i)
        F = fn("sc_free_aligned")
        t, i = sl.emit_block(flat_body(F), "sc_free_aligned_arith", ["*ghosts"], "sc_free_aligned", params=("ptr", "alignment"),
                             effects=("free",), want_params=["ptr", "alignment"],
                             comment="returns free_arg0: the pointer handed to free (); word a = the 8-byte word stored at address a")
        if i["outputs"] != ["free_arg0"]:
            raise c2g.Unsupported("sc_free_aligned: unexpected effects %s" % i["outputs"])
        g.add(t, i)
        F = fn("sc_realloc_aligned")
        t, i = sl.emit_block(flat_body(F), "sc_realloc_aligned_arith", ["*ghosts", "ret"], "sc_realloc_aligned", params=("ptr", "alignment", "size"),
                             ret="ret", effects=("sc_malloc_aligned", "memcpy", "sc_free_aligned"),
                             want_params=["ptr", "alignment", "size", "sc_malloc_aligned_ret"],
                             comment="returns (sc_malloc_aligned_arg0, _arg1, memcpy_arg0 (dest), _arg1 (src), _arg2 (length), "
                                     "sc_free_aligned_arg0, _arg1, returned pointer)")
        if i["outputs"] != ["sc_malloc_aligned_arg0", "sc_malloc_aligned_arg1", "memcpy_arg0", "memcpy_arg1", "memcpy_arg2",
                            "sc_free_aligned_arg0", "sc_free_aligned_arg1", "ret"]:
            raise c2g.Unsupported("sc_realloc_aligned: unexpected effects %s" % i["outputs"])
        g.add(t, i)

        # --- the arguments with which the public functions call them
        def call_args(cfn, callee):
            F = fn(cfn)
            calls = sl.find_nodes(F, lambda n: n.get("kind") == "CallExpr" and sl.callee_name(n) == callee)
            if len(calls) != 1:
                raise c2g.Unsupported("%s: %d calls of %s" % (cfn, len(calls), callee))
            return calls[0]["inner"][1:]
        a = call_args("sc_malloc", "sc_malloc_aligned")
        t, i = sl.emit_expr(a[0], "alloc_align_malloc", "sc_malloc/alignment", want_params=[])
        g.add(t, i)
        a = call_args("sc_calloc", "sc_malloc_aligned")
        t, i = sl.emit_expr(a[0], "alloc_align_calloc", "sc_calloc/alignment", want_params=[])
        g.add(t, i)
        t, i = sl.emit_expr(a[1], "alloc_calloc_size", "sc_calloc/size", want_params=["nmemb", "size"])
        g.add(t, i)
        a = call_args("sc_realloc", "sc_realloc_aligned")
        t, i = sl.emit_expr(a[1], "alloc_align_realloc", "sc_realloc/alignment", want_params=[])
        g.add(t, i)
        a = call_args("sc_free", "sc_free_aligned")
        t, i = sl.emit_expr(a[1], "alloc_align_free", "sc_free/alignment", want_params=[])
        g.add(t, i)

        # --- sc_package_register: first free slot, growth
        F = fn("sc_package_register")
        body = [c for c in F["inner"] if c.get("kind") == "CompoundStmt"][0]
        decls = [s for s in body.get("inner", []) if s.get("kind") == "DeclStmt"]
        st = c2g.select_between(F, src, r"/\* Try to find unused space in sc_packages", r"/\* realloc if the space in sc_packages is used up \*/")
        if [s.get("kind") for s in st] != ["ForStmt"]:
            raise c2g.Unsupported("sc_package_register: the search for an unused slot is not a single for loop")
        grow = [s for s in body.get("inner", []) if s.get("kind") == "IfStmt" and len(s["inner"]) == 2 and
                {"i", "sc_num_packages_alloc"} <= sl.refs(s["inner"][0]) and sl.find_nodes(s["inner"][1], lambda n: sl.callee_name(n) == "realloc")]
        if len(grow) != 1 or grow[0]["inner"][1].get("kind") != "CompoundStmt":
            raise c2g.Unsupported("sc_package_register: no single growth branch")
        then = grow[0]["inner"][1]["inner"]
        cut = [k for k, s in enumerate(then) if s.get("kind") == "ForStmt"]
        if len(cut) != 1 or cut[0] != len(then) - 1:
            raise c2g.Unsupported("sc_package_register: the growth branch does not end with the initialisation loop")
        # the growth branch without its last statement (the loop that initialises the new slots)
        st = st + [dict(grow[0], inner=[grow[0]["inner"][0], dict(grow[0]["inner"][1], inner=then[:-1])])]
        t, i = sl.emit_block(decls + st, "register_slot", ["i", "new_package", "new_package_id", "sc_num_packages_alloc", "sc_packages", "realloc_arg1"],
                             "sc_package_register", params=("sc_num_packages_alloc", "sc_packages"),
                             effects=("realloc",), elem_ptr_types=("sc_package_t *",), field_reads=("is_registered",),
                             want_params=["sc_num_packages_alloc", "sc_packages", "sizeof_sc_package_t", "realloc_ret"],
                             comment="returns (i, new_package, new_package_id, sc_num_packages_alloc, sc_packages, size passed to realloc or 0); "
                                     "sc_package_t pointers count in ELEMENTS (sc_packages + i is slot i); is_registered p = p->is_registered")
        g.add(t, i)
        return g, [f]

    GROUPS["AllocC10"] = gen_alloc

    def gen_ledger(tmp):
        import ledgerlib as ll
        g = Group("LedgerC10")
        g.text += ll.PRELUDE
        # ---- 1. one level of the binary notify recursion
        f = os.path.join(REPO, "src", "sc_notify.c")
        sim = os.path.join(os.path.dirname(HERE), "simmpi")
        objs = c2g.clang_ast(f, "sc_notify_recursive", incs(tmp) + [sim], defs=("SC_ENABLE_MPI",))
        F = c2g.find_function(objs, "sc_notify_recursive")
        body = ll.function_body(F)
        ifs = [s for s in body if s.get("kind") == "IfStmt"]
        if len(ifs) != 1 or "length" not in sl.refs(ifs[0]["inner"][0]) or len(ifs[0]["inner"]) > 2 and \
                sl.find_nodes(ifs[0]["inner"][2], lambda n: n.get("kind") in ("CallExpr", "BinaryOperator", "UnaryOperator")):
            raise c2g.Unsupported("sc_notify_recursive: body is not a single `if (length > 1) { .. }` with an empty else branch")
        rest = [s for s in body if s is not ifs[0]]
        t, i = ll.emit_ledger(rest, "notify_recursive_outside", "sc_notify_recursive")
        if not t.rstrip().endswith(":=\n[]."):
            raise c2g.Unsupported("sc_notify_recursive: array operations outside the `length > 1` branch")
        then = ifs[0]["inner"][1]
        if then.get("kind") != "CompoundStmt":
            raise c2g.Unsupported("sc_notify_recursive: the `length > 1` branch is not a block")
        then = then.get("inner", [])
        cut = [k for k, s_ in enumerate(then) if sl.find_nodes(s_, lambda n: sl.callee_name(n) in ll.NEW + ll.INIT)]
        if not cut:
            raise c2g.Unsupported("sc_notify_recursive: no sc_array_new / sc_array_init in the recursion branch")
        cut = cut[0]
        t, i = ll.emit_ledger(then[:cut], "notify_recursive_prefix", "sc_notify_recursive", self_calls=("sc_notify_recursive",),
                              comment="sc_notify_recursive, branch `length > 1`, statements in front of the first sc_array_new: "
                                      "the recursive call (which hands the caller's array on) and the computation of peer / peer2")
        g.add(t, i)
        t, i = ll.emit_ledger(then[cut:], "notify_recursive_ledger", "sc_notify_recursive",
                              comment="sc_notify_recursive, branch `length > 1`, from the first sc_array_new to the end of the branch: "
                                      "ownership events on array (the caller's), sendbuf, recvbuf (heap), morebuf (local struct)")
        g.add(t, i)

        # ---- 2. the containers: rehash of a hash table, create / destroy pairs
        fc = os.path.join(REPO, "src", "sc_containers.c")
        cobjs = {}

        def fn(name, file=fc):
            if (file, name) not in cobjs:
                cobjs[(file, name)] = c2g.find_function(c2g.clang_ast(file, name, incs(tmp)), name)
            return cobjs[(file, name)]

        body = ll.function_body(fn("sc_hash_maybe_resize"))
        cut = [k for k, s_ in enumerate(body) if s_.get("kind") != "DeclStmt" and sl.find_nodes(s_, lambda n: sl.callee_name(n) in ll.NEW + ll.INIT + ll.ALLOC)]
        if not cut:
            raise c2g.Unsupported("sc_hash_maybe_resize: no sc_array_new in the body")
        cut = cut[0]
        t, i = ll.emit_ledger(body[:cut], "hash_resize_prefix", "sc_hash_maybe_resize", allow_return=True,
                              comment="sc_hash_maybe_resize up to (excluding) the allocation of the new slot array: declarations (old_slots = hash->slots) and "
                                      "the decision whether to resize; its `return` statements are dropped (nothing is owned differently on those paths)")
        g.add(t, i)
        t, i = ll.emit_ledger(body[cut:], "hash_resize_ledger", "sc_hash_maybe_resize",
                              comment="sc_hash_maybe_resize from the allocation of the new slot array to the end: ownership events on hash->slots, old_slots, new_slots")
        g.add(t, i)
        for name, gname, cm in [("sc_hash_new", "hash_new_ledger", "sc_hash_new: hash (SC_ALLOC), hash->allocator (own memory pool or the caller's), hash->slots"),
                                ("sc_hash_destroy", "hash_destroy_ledger", "sc_hash_destroy"),
                                ("sc_hash_unlink_destroy", "hash_unlink_destroy_ledger", "sc_hash_unlink_destroy"),
                                ("sc_hash_array_new", "hash_array_new_ledger", "sc_hash_array_new: had (SC_ALLOC_ZERO) with the hash array embedded, hash_array->a (embedded array structure), hash_array->h (sc_hash_new)"),
                                ("sc_hash_array_destroy", "hash_array_destroy_ledger", "sc_hash_array_destroy"),
                                ("sc_hash_array_rip", "hash_array_rip_ledger", "sc_hash_array_rip: the array structure is copied to the caller's `rip`, everything else is freed")]:
            t, i = ll.emit_ledger(ll.function_body(fn(name)), gname, name, comment=cm,
                                  opaque=("hash", "hash->allocator", "allocator", "hash_array", "hash_array->h", "hash_array->internal_data", "had"))
            g.add(t, i)
        fk = os.path.join(REPO, "src", "sc_keyvalue.c")
        for name, gname in [("sc_keyvalue_new", "keyvalue_new_ledger"), ("sc_keyvalue_destroy", "keyvalue_destroy_ledger")]:
            t, i = ll.emit_ledger(ll.function_body(fn(name, fk)), gname, name, comment=name + ": kv (SC_ALLOC), kv->hash (sc_hash_new), kv->value_allocator (sc_mempool_new)",
                                  opaque=("kv", "kv->hash", "kv->value_allocator"))
            g.add(t, i)
        return g, [f, fc, fk]

    GROUPS["LedgerC10"] = gen_ledger
