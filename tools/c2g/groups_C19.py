"""Translator group LogC19 (tie T1 of property C19): the log filter of /repo/src/sc.c.

sc_log, sc_logv and sc_set_log_defaults are translated from clang's AST with the ordinary c2g
expression/statement rules; the only additions (class EvT below) make *calls with effects
observable*: every call statement to the selected log handler, to sc_package_lock/unlock and to
sc_log/sc_logf appends one tuple to an event list, which is the result of the generated function.
Globals of sc.c and the fields of the package table become explicit parameters (a fixed,
white-listed set: anything else makes the translation fail loudly).

event = (kind, handler, stream, package, category, priority, msg) : Z^7
  kind 0 : the handler `handler` is invoked with (stream, package, category, priority, msg)
  kind 1 : sc_package_lock (package)        kind 2 : sc_package_unlock (package)
  kind 3 : sc_log (package, category, priority, msg) is called   (macro wrappers only)
  kind 4 : sc_logf (package, category, priority, fmt := msg) is called   (macro wrappers only)
"""
import os, re

EVT = "Z * Z * Z * Z * Z * Z * Z"

# parameters the generated functions may have, in the order in which they are emitted
ORDER = ["is_registered", "pk_log_threshold", "pk_log_handler",
         "sc_default_log_threshold", "sc_default_log_handler", "sc_log_handler", "sc_log_stream", "stdout",
         "sc_identifier", "sc_trace_file", "sc_trace_prio", "sc_package_id",
         "log_stream", "log_handler", "log_threshold",
         "package", "category", "priority", "msg", "fmt", "s"]
FUNTYPES = {"is_registered": "Z -> Z", "pk_log_threshold": "Z -> Z", "pk_log_handler": "Z -> Z"}


def register(GROUPS, c2g, incs, REPO, HERE, STRUCTS, Group):

    def strip(n):
        n = c2g.skip_parens(n)
        while n.get("kind") in ("ImplicitCastExpr", "CStyleCastExpr") and n.get("castKind") != "ToVoid":
            n = c2g.skip_parens(n["inner"][0])
        return n

    def callee_name(n):
        c = strip(n["inner"][0])
        return c.get("referencedDecl", {}).get("name")

    class EvT(c2g.Translator):
        """c2g.Translator + observable call statements + the package-table pointer `p`."""

        def __init__(self, sc_log_inline=None):
            super().__init__()
            self.free_as_params = True
            self.sc_log_inline = sc_log_inline      # parameter list of the generated sc_log (for sc_logv)
            self.call_hooks = {"sc_package_is_registered": self.hook_isreg}

        # --- expression level ----------------------------------------------------------
        def hook_isreg(self, T, node, env):
            a = self.expr(node["inner"][1], env)
            self.need("is_registered")
            return c2g.E("is_registered %s" % a.z())

        def need(self, name):
            if name not in ORDER:
                raise c2g.Unsupported("%s reads %s, which is not a modelled part of the log state" % (self.fname, name))
            if name not in self.params:
                self.params.append(name)
                self.param_kinds[name] = "Z"

        def lookup(self, env, key):
            if key in env and not isinstance(env[key], tuple):
                return env[key]
            m = re.match(r"^p_(log_threshold|log_handler)$", key)
            if m:
                pv = env.get("p")
                if not (isinstance(pv, tuple) and pv[0] == "IDX"):
                    raise c2g.Unsupported("field %s read through a package pointer that is not sc_packages + index in %s" % (key, self.fname))
                self.need("pk_" + m.group(1))
                return "(pk_%s %s)" % (m.group(1), pv[1])
            if isinstance(env.get(key), tuple):
                raise c2g.Unsupported("package pointer used as a value in %s" % self.fname)
            self.need(key)
            env[key] = key
            return key

        def expr(self, n, env):
            # a function designator used as a value (the built-in handler)
            if n.get("kind") == "DeclRefExpr" and n.get("referencedDecl", {}).get("kind") == "FunctionDecl":
                name = n["referencedDecl"]["name"]
                self.need(name)
                return c2g.E(name, "Z", True)
            return super().expr(n, env)

        # --- statement level -----------------------------------------------------------
        def event_of_call(self, s, env):
            """Gallina list expression appended to the event list by call statement s, or None (dropped)."""
            name = callee_name(s)
            args = s["inner"][1:]
            ex = lambda a: self.expr(a, env).z()

            def plain(a, want):
                r = strip(a)
                if r.get("kind") != "DeclRefExpr" or r["referencedDecl"]["name"] != want:
                    raise c2g.Unsupported("argument %s expected in call to %s in %s" % (want, name, self.fname))
            if name in ("sc_package_lock", "sc_package_unlock"):
                return "[(%d, 0, 0, %s, 0, 0, 0)]" % (1 if name.endswith("_lock") else 2, ex(args[0]))
            if name == "log_handler":     # call through the selected handler
                if len(args) != 7:
                    raise c2g.Unsupported("handler call with %d arguments" % len(args))
                plain(args[1], "filename"); plain(args[2], "lineno")
                return "[(0, %s, %s, %s, %s, %s, %s)]" % (self.lookup(env, "log_handler"), ex(args[0]), ex(args[3]), ex(args[4]), ex(args[5]), ex(args[6]))
            if name == "sc_log":
                if len(args) != 6:
                    raise c2g.Unsupported("sc_log call with %d arguments" % len(args))
                if self.sc_log_inline is None:
                    return "[(3, 0, 0, %s, %s, %s, %s)]" % (ex(args[2]), ex(args[3]), ex(args[4]), ex(args[5]))
                plain(args[0], "filename"); plain(args[1], "lineno")
                actual = {"package": ex(args[2]), "category": ex(args[3]), "priority": ex(args[4]), "msg": ex(args[5])}
                out = []
                for pn in self.sc_log_inline:
                    if pn in actual:
                        out.append(actual[pn])
                    else:
                        self.need(pn)
                        out.append(pn)
                return "(sc_log %s)" % " ".join(out)
            if name == "sc_logf":
                return "[(4, 0, 0, %s, %s, %s, %s)]" % (ex(args[2]), ex(args[3]), ex(args[4]), ex(args[-1]))
            if name in ("__builtin_va_start", "__builtin_va_end"):
                return None
            if name == "sc_abort_verbose":      # enabled SC_ASSERT / SC_CHECK_ABORT: the process ends here
                return "[(9, 0, 0, 0, 0, 0, 0)]"
            raise c2g.Unsupported("call statement to %s in %s" % (name, self.fname))

        def has_event_call(self, s):
            if isinstance(s, dict):
                if s.get("kind") == "CallExpr" and callee_name(s) in ("sc_package_lock", "sc_package_unlock", "log_handler", "sc_log", "sc_logf", "vsnprintf", "sc_abort_verbose"):
                    return True
                return any(self.has_event_call(c) for c in s.get("inner", []))
            return False

        def assigned(self, s, acc, declared):
            super().assigned(s, acc, declared)
            if self.has_event_call(s):
                acc.add("evs")
                if any(True for _ in self.find_calls(s, "vsnprintf")):
                    acc.add("buffer")
            acc.discard("p")

        def find_calls(self, s, name):
            if isinstance(s, dict):
                if s.get("kind") == "CallExpr" and callee_name(s) == name:
                    yield s
                for c in s.get("inner", []):
                    yield from self.find_calls(c, name)

        def stmts(self, ss, env, K):
            if not ss:
                return K["fin"](env)
            s, rest = ss[0], ss[1:]
            k = s.get("kind")
            sp = c2g.skip_parens(s)
            # `cond ? (void) 0 : call (...)` used as a statement (the SC_GEN_LOG macros)
            if sp.get("kind") == "ConditionalOperator" and c2g.tystr(sp) == "void":
                fake = dict(kind="IfStmt", inner=[sp["inner"][0], sp["inner"][1], sp["inner"][2]])
                return self.stmts([fake] + rest, env, K)
            if sp.get("kind") == "CallExpr":
                name = callee_name(sp)
                if name == "vsnprintf":
                    # the formatted text is identified with its format: buffer := fmt
                    a = sp["inner"][1:]
                    if strip(a[0]).get("referencedDecl", {}).get("name") != "buffer":
                        raise c2g.Unsupported("vsnprintf target in %s" % self.fname)
                    return self.assign("buffer", self.expr(a[2], env), env, rest, K)
                ev = self.event_of_call(sp, env)
                if ev is None:
                    return self.stmts(rest, env, K)
                v = self.fresh("evs")
                env2 = dict(env)
                env2["evs"] = v
                return "let %s := %s ++ %s in\n%s" % (v, env["evs"], ev, self.stmts(rest, env2, K))
            if k == "BinaryOperator" and s.get("opcode") == "=":
                lhs = strip(s["inner"][0])
                if lhs.get("kind") == "DeclRefExpr" and "sc_package_t *" in c2g.tystr(lhs):
                    if lhs["referencedDecl"]["name"] != "p":
                        raise c2g.Unsupported("package pointer %s" % lhs["referencedDecl"]["name"])
                    rhs = strip(s["inner"][1])
                    env2 = dict(env)
                    if rhs.get("kind") == "IntegerLiteral" and rhs.get("value") == "0":
                        env2["p"] = ("NULL",)
                    elif rhs.get("kind") == "BinaryOperator" and rhs.get("opcode") == "+" and \
                            strip(rhs["inner"][0]).get("referencedDecl", {}).get("name") == "sc_packages":
                        env2["p"] = ("IDX", self.expr(rhs["inner"][1], env).z())
                    else:
                        raise c2g.Unsupported("package pointer assignment that is not NULL or sc_packages + index in %s" % self.fname)
                    return self.stmts(rest, env2, K)
            return super().stmts(ss, env, K)

    def translate(fn, gname, result, sc_log_inline=None, seed=()):
        """result: 'events' or a list of globals whose final values are returned."""
        T = EvT(sc_log_inline)
        T.fname = fn["name"]
        T.gname = gname
        env = {"evs": "[]"}
        for p in fn.get("inner", []):
            if p.get("kind") == "ParmVarDecl" and p.get("name"):
                pass                      # parameters are added on first use (white list ORDER)
        body = [c for c in fn["inner"] if c.get("kind") == "CompoundStmt"][0]
        if c2g.body_uses_loops(body):
            raise c2g.Unsupported("loop in %s" % fn["name"])
        if result == "events":
            fin = lambda e2: e2["evs"]
            ret = lambda e, e2: fin(e2)
        elif isinstance(result, list) and "evs" in result:
            fin = lambda e2: "(%s)" % ", ".join(e2["evs"] if g == "evs" else T.lookup(e2, g) for g in result)
            ret = lambda e, e2: fin(e2)
        elif result == "value":
            fin = lambda e2: (_ for _ in ()).throw(c2g.Unsupported("no return value in %s" % fn["name"]))
            ret = lambda e, e2: e.z()
        else:
            fin = lambda e2: "(%s)" % ", ".join(T.lookup(e2, g) for g in result)
            ret = lambda e, e2: fin(e2)
        K = dict(fin=fin, ret=ret,
                 brk=lambda e2: (_ for _ in ()).throw(c2g.Unsupported("break outside loop")),
                 cont=lambda e2: (_ for _ in ()).throw(c2g.Unsupported("continue outside loop")))
        text = T.stmts(list(body.get("inner", [])), env, K)
        params = sorted(T.params, key=ORDER.index)
        plist = " ".join("(%s : %s)" % (n, FUNTYPES.get(n, "Z")) for n in params)
        rtype = "list (%s)" % EVT if result == "events" else ("Z" if result == "value" else
                                                               " * ".join(("list (%s)" % EVT) if g == "evs" else "Z" for g in result))
        out = "Definition %s %s : %s :=\n%s.\n" % (gname, plist, rtype, text)
        return out, dict(name=gname, cname=fn["name"], params=params, fuel=False), params

    def gen_log(tmp):
        g = Group("LogC19")
        f = os.path.join(REPO, "src", "sc.c")
        objs = c2g.clang_ast(f, "sc_log", incs(tmp))
        t, i, logparams = translate(c2g.find_function(objs, "sc_log"), "sc_log", "events")
        g.add(t, i)
        t, i, _ = translate(c2g.find_function(objs, "sc_logv"), "sc_logv", "events", sc_log_inline=logparams)
        g.add(t, i)
        objs = c2g.clang_ast(f, "sc_set_log_defaults", incs(tmp))
        t, i, _ = translate(c2g.find_function(objs, "sc_set_log_defaults"), "sc_set_log_defaults",
                            ["sc_default_log_handler", "sc_default_log_threshold", "sc_log_stream", "evs"])
        g.add(t, i)
        # the same function in the debug configuration: SC_LP_THRESHOLD differs and the SC_ASSERT is live
        objs = c2g.clang_ast(f, "sc_set_log_defaults", incs(tmp), ("SC_ENABLE_DEBUG",))
        t, i, _ = translate(c2g.find_function(objs, "sc_set_log_defaults"), "sc_set_log_defaults_dbg",
                            ["sc_default_log_handler", "sc_default_log_threshold", "sc_log_stream", "evs"])
        g.add(t, i)
        # the log macros of sc.h, expanded by clang inside one-line wrapper functions, in the
        # release and in the debug configuration (SC_LP_THRESHOLD differs)
        w = os.path.join(HERE, "wrap", "log_c19.c")
        for suffix, defs in (("", ()), ("_dbg", ("SC_ENABLE_DEBUG",))):
            objs = c2g.clang_ast(w, "w_c19_", incs(tmp), defs)
            for fn in ["w_c19_gen_log", "w_c19_gen_logf", "w_c19_lerror", "w_c19_global_essential", "w_c19_global_production",
                       "w_c19_trace", "w_c19_global_info"]:
                t, i, _ = translate(c2g.find_function(objs, fn), fn + suffix, "events")
                g.add(t, i)
        # the numeric constants the model and the statements refer to, read from the headers
        objs = c2g.clang_ast(w, "c19_const_", incs(tmp))
        for name in ["c19_const_lp_default", "c19_const_lp_always", "c19_const_lp_trace", "c19_const_lp_statistics",
                     "c19_const_lp_production", "c19_const_lp_essential", "c19_const_lp_error",
                     "c19_const_lp_silent", "c19_const_lc_global", "c19_const_lc_normal", "c19_const_lp_threshold"]:
            t, i, _ = translate(c2g.find_function(objs, name), name, "value")
            g.add(t, i)
        objs = c2g.clang_ast(w, "c19_const_", incs(tmp), ("SC_ENABLE_DEBUG",))
        t, i, _ = translate(c2g.find_function(objs, "c19_const_lp_threshold"), "c19_const_lp_threshold_dbg", "value")
        g.add(t, i)
        return g, [f, os.path.join(REPO, "src", "sc.h"), w]

    GROUPS["LogC19"] = gen_log
