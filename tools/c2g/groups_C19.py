"""Translator group LogC19 (tie T1 of property C19): the log filter of /repo/src/sc.c.

sc_log, sc_logv and sc_set_log_defaults are translated from clang's AST with the ordinary c2g
expression/statement rules; the only additions (class EvT below) make *calls with effects
observable*: every call statement to the selected log handler, to sc_package_lock/unlock and to
sc_log/sc_logf appends one tuple to an event list, which is the result of the generated function.
Globals of sc.c and the fields of the package table become explicit parameters (a fixed,
white-listed set: anything else makes the translation fail loudly).

event = (kind, handler, stream, package, category, priority, msg) : Z^7
  kind 0 : the handler `handler` is invoked with (stream, package, category, priority, msg)
  kind 1 : sc_package_lock (package)        kind 2 : sc_package_unlock (package)
  kind 3 : sc_log (package, category, priority, msg) is called   (macro wrappers only)
  kind 4 : sc_logf (package, category, priority, fmt := msg) is called   (macro wrappers only)
"""
import os, re

EVT = "Z * Z * Z * Z * Z * Z * Z"

# parameters the generated functions may have, in the order in which they are emitted
ORDER = ["is_registered", "pk_log_threshold", "pk_log_handler",
         "sc_default_log_threshold", "sc_default_log_handler", "sc_log_handler", "sc_log_stream", "stdout",
         "sc_identifier", "sc_trace_file", "sc_trace_prio", "sc_package_id",
         "log_stream", "log_handler", "log_threshold",
         "package", "category", "priority", "msg", "fmt", "s"]
FUNTYPES = {"is_registered": "Z -> Z", "pk_log_threshold": "Z -> Z", "pk_log_handler": "Z -> Z"}


def register(GROUPS, c2g, incs, REPO, HERE, STRUCTS, Group):

    def strip(n):
        n = c2g.skip_parens(n)
        while n.get("kind") in ("ImplicitCastExpr", "CStyleCastExpr") and n.get("castKind") != "ToVoid":
            n = c2g.skip_parens(n["inner"][0])
        return n

    def callee_name(n):
        c = strip(n["inner"][0])
        return c.get("referencedDecl", {}).get("name")

    class EvT(c2g.Translator):
        """c2g.Translator + observable call statements + the package-table pointer `p`."""

        def __init__(self, sc_log_inline=None):
            super().__init__()
            self.free_as_params = True
            self.sc_log_inline = sc_log_inline      # parameter list of the generated sc_log (for sc_logv)
            self.call_hooks = {"sc_package_is_registered": self.hook_isreg}

        # --- expression level ----------------------------------------------------------
        def hook_isreg(self, T, node, env):
            a = self.expr(node["inner"][1], env)
            self.need("is_registered")
            return c2g.E("is_registered %s" % a.z())

        def need(self, name):
            if name not in ORDER:
                raise c2g.Unsupported("%s reads %s, which is not a modelled part of the log state" % (self.fname, name))
            if name not in self.params:
                self.params.append(name)
                self.param_kinds[name] = "Z"

        def lookup(self, env, key):
            if key in env and not isinstance(env[key], tuple):
                return env[key]
            m = re.match(r"^p_(log_threshold|log_handler)$", key)
            if m:
                pv = env.get("p")
                if not (isinstance(pv, tuple) and pv[0] == "IDX"):
                    raise c2g.Unsupported("field %s read through a package pointer that is not sc_packages + index in %s" % (key, self.fname))
                self.need("pk_" + m.group(1))
                return "(pk_%s %s)" % (m.group(1), pv[1])
            if isinstance(env.get(key), tuple):
                raise c2g.Unsupported("package pointer used as a value in %s" % self.fname)
            self.need(key)
            env[key] = key
            return key

        def expr(self, n, env):
            # a function designator used as a value (the built-in handler)
            if n.get("kind") == "DeclRefExpr" and n.get("referencedDecl", {}).get("kind") == "FunctionDecl":
                name = n["referencedDecl"]["name"]
                self.need(name)
                return c2g.E(name, "Z", True)
            return super().expr(n, env)

        # --- statement level -----------------------------------------------------------
        def event_of_call(self, s, env):
            """Gallina list expression appended to the event list by call statement s, or None (dropped)."""
            name = callee_name(s)
            args = s["inner"][1:]
            ex = lambda a: self.expr(a, env).z()

            def plain(a, want):
                r = strip(a)
                if r.get("kind") != "DeclRefExpr" or r["referencedDecl"]["name"] != want:
                    raise c2g.Unsupported("argument %s expected in call to %s in %s" % (want, name, self.fname))
            if name in ("sc_package_lock", "sc_package_unlock"):
                return "[(%d, 0, 0, %s, 0, 0, 0)]" % (1 if name.endswith("_lock") else 2, ex(args[0]))
            if name == "log_handler":     # call through the selected handler
                if len(args) != 7:
                    raise c2g.Unsupported("handler call with %d arguments" % len(args))
                plain(args[1], "filename"); plain(args[2], "lineno")
                return "[(0, %s, %s, %s, %s, %s, %s)]" % (self.lookup(env, "log_handler"), ex(args[0]), ex(args[3]), ex(args[4]), ex(args[5]), ex(args[6]))
            if name == "sc_log":
                if len(args) != 6:
                    raise c2g.Unsupported("sc_log call with %d arguments" % len(args))
                if self.sc_log_inline is None:
                    return "[(3, 0, 0, %s, %s, %s, %s)]" % (ex(args[2]), ex(args[3]), ex(args[4]), ex(args[5]))
                plain(args[0], "filename"); plain(args[1], "lineno")
                actual = {"package": ex(args[2]), "category": ex(args[3]), "priority": ex(args[4]), "msg": ex(args[5])}
                out = []
                for pn in self.sc_log_inline:
                    if pn in actual:
                        out.append(actual[pn])
                    else:
                        self.need(pn)
                        out.append(pn)
                return "(sc_log %s)" % " ".join(out)
            if name == "sc_logf":
                return "[(4, 0, 0, %s, %s, %s, %s)]" % (ex(args[2]), ex(args[3]), ex(args[4]), ex(args[-1]))
            if name in ("__builtin_va_start", "__builtin_va_end"):
                return None
            if name == "sc_abort_verbose":      # enabled SC_ASSERT / SC_CHECK_ABORT: the process ends here
                return "[(9, 0, 0, 0, 0, 0, 0)]"
            raise c2g.Unsupported("call statement to %s in %s" % (name, self.fname))

        def has_event_call(self, s):
            if isinstance(s, dict):
                if s.get("kind") == "CallExpr" and callee_name(s) in ("sc_package_lock", "sc_package_unlock", "log_handler", "sc_log", "sc_logf", "vsnprintf", "sc_abort_verbose"):
                    return True
                return any(self.has_event_call(c) for c in s.get("inner", []))
            return False

        def assigned(self, s, acc, declared):
            super().assigned(s, acc, declared)
            if self.has_event_call(s):
                acc.add("evs")
                if any(True for _ in self.find_calls(s, "vsnprintf")):
                    acc.add("buffer")
            acc.discard("p")

        def find_calls(self, s, name):
            if isinstance(s, dict):
                if s.get("kind") == "CallExpr" and callee_name(s) == name:
                    yield s
                for c in s.get("inner", []):
                    yield from self.find_calls(c, name)

        def stmts(self, ss, env, K):
            if not ss:
                return K["fin"](env)
            s, rest = ss[0], ss[1:]
            k = s.get("kind")
            sp = c2g.skip_parens(s)
            # `cond ? (void) 0 : call (...)` used as a statement (the SC_GEN_LOG macros)
            if sp.get("kind") == "ConditionalOperator" and c2g.tystr(sp) == "void":
                fake = dict(kind="IfStmt", inner=[sp["inner"][0], sp["inner"][1], sp["inner"][2]])
                return self.stmts([fake] + rest, env, K)
            if sp.get("kind") == "CallExpr":
                name = callee_name(sp)
                if name == "vsnprintf":
                    # the formatted text is identified with its format: buffer := fmt
                    a = sp["inner"][1:]
                    if strip(a[0]).get("referencedDecl", {}).get("name") != "buffer":
                        raise c2g.Unsupported("vsnprintf target in %s" % self.fname)
                    return self.assign("buffer", self.expr(a[2], env), env, rest, K)
                ev = self.event_of_call(sp, env)
                if ev is None:
                    return self.stmts(rest, env, K)
                v = self.fresh("evs")
                env2 = dict(env)
                env2["evs"] = v
                return "let %s := %s ++ %s in\n%s" % (v, env["evs"], ev, self.stmts(rest, env2, K))
            if k == "BinaryOperator" and s.get("opcode") == "=":
                lhs = strip(s["inner"][0])
                if lhs.get("kind") == "DeclRefExpr" and "sc_package_t *" in c2g.tystr(lhs):
                    if lhs["referencedDecl"]["name"] != "p":
                        raise c2g.Unsupported("package pointer %s" % lhs["referencedDecl"]["name"])
                    rhs = strip(s["inner"][1])
                    env2 = dict(env)
                    if rhs.get("kind") == "IntegerLiteral" and rhs.get("value") == "0":
                        env2["p"] = ("NULL",)
                    elif rhs.get("kind") == "BinaryOperator" and rhs.get("opcode") == "+" and \
                            strip(rhs["inner"][0]).get("referencedDecl", {}).get("name") == "sc_packages":
                        env2["p"] = ("IDX", self.expr(rhs["inner"][1], env).z())
                    else:
                        raise c2g.Unsupported("package pointer assignment that is not NULL or sc_packages + index in %s" % self.fname)
                    return self.stmts(rest, env2, K)
            return super().stmts(ss, env, K)

    def translate(fn, gname, result, sc_log_inline=None, seed=()):
        """result: 'events' or a list of globals whose final values are returned."""
        T = EvT(sc_log_inline)
        T.fname = fn["name"]
        T.gname = gname
        env = {"evs": "[]"}
        for p in fn.get("inner", []):
            if p.get("kind") == "ParmVarDecl" and p.get("name"):
                pass                      # parameters are added on first use (white list ORDER)
        body = [c for c in fn["inner"] if c.get("kind") == "CompoundStmt"][0]
        if c2g.body_uses_loops(body):
            raise c2g.Unsupported("loop in %s" % fn["name"])
        if result == "events":
            fin = lambda e2: e2["evs"]
            ret = lambda e, e2: fin(e2)
        elif isinstance(result, list) and "evs" in result:
            fin = lambda e2: "(%s)" % ", ".join(e2["evs"] if g == "evs" else T.lookup(e2, g) for g in result)
            ret = lambda e, e2: fin(e2)
        elif result == "value":
            fin = lambda e2: (_ for _ in ()).throw(c2g.Unsupported("no return value in %s" % fn["name"]))
            ret = lambda e, e2: e.z()
        else:
            fin = lambda e2: "(%s)" % ", ".join(T.lookup(e2, g) for g in result)
            ret = lambda e, e2: fin(e2)
        K = dict(fin=fin, ret=ret,
                 brk=lambda e2: (_ for _ in ()).throw(c2g.Unsupported("break outside loop")),
                 cont=lambda e2: (_ for _ in ()).throw(c2g.Unsupported("continue outside loop")))
        text = T.stmts(list(body.get("inner", [])), env, K)
        params = sorted(T.params, key=ORDER.index)
        plist = " ".join("(%s : %s)" % (n, FUNTYPES.get(n, "Z")) for n in params)
        rtype = "list (%s)" % EVT if result == "events" else ("Z" if result == "value" else
                                                               " * ".join(("list (%s)" % EVT) if g == "evs" else "Z" for g in result))
        out = "Definition %s %s : %s :=\n%s.\n" % (gname, plist, rtype, text)
        return out, dict(name=gname, cname=fn["name"], params=params, fuel=False), params

    def gen_log(tmp):
        g = Group("LogC19")
        f = os.path.join(REPO, "src", "sc.c")
        objs = c2g.clang_ast(f, "sc_log", incs(tmp))
        t, i, logparams = translate(c2g.find_function(objs, "sc_log"), "sc_log", "events")
        g.add(t, i)
        t, i, _ = translate(c2g.find_function(objs, "sc_logv"), "sc_logv", "events", sc_log_inline=logparams)
        g.add(t, i)
        objs = c2g.clang_ast(f, "sc_set_log_defaults", incs(tmp))
        t, i, _ = translate(c2g.find_function(objs, "sc_set_log_defaults"), "sc_set_log_defaults",
                            ["sc_default_log_handler", "sc_default_log_threshold", "sc_log_stream", "evs"])
        g.add(t, i)
        # the same function in the debug configuration: SC_LP_THRESHOLD differs and the SC_ASSERT is live
        objs = c2g.clang_ast(f, "sc_set_log_defaults", incs(tmp), ("SC_ENABLE_DEBUG",))
        t, i, _ = translate(c2g.find_function(objs, "sc_set_log_defaults"), "sc_set_log_defaults_dbg",
                            ["sc_default_log_handler", "sc_default_log_threshold", "sc_log_stream", "evs"])
        g.add(t, i)
        # the log macros of sc.h, expanded by clang inside one-line wrapper functions, in the
        # release and in the debug configuration (SC_LP_THRESHOLD differs)
        w = os.path.join(HERE, "wrap", "log_c19.c")
        for suffix, defs in (("", ()), ("_dbg", ("SC_ENABLE_DEBUG",))):
            objs = c2g.clang_ast(w, "w_c19_", incs(tmp), defs)
            for fn in ["w_c19_gen_log", "w_c19_gen_logf", "w_c19_lerror", "w_c19_global_essential", "w_c19_global_production",
                       "w_c19_trace", "w_c19_global_info"]:
                t, i, _ = translate(c2g.find_function(objs, fn), fn + suffix, "events")
                g.add(t, i)
        # the numeric constants the model and the statements refer to, read from the headers
        objs = c2g.clang_ast(w, "c19_const_", incs(tmp))
        for name in ["c19_const_lp_default", "c19_const_lp_always", "c19_const_lp_trace", "c19_const_lp_statistics",
                     "c19_const_lp_production", "c19_const_lp_essential", "c19_const_lp_error",
                     "c19_const_lp_silent", "c19_const_lc_global", "c19_const_lc_normal", "c19_const_lp_threshold"]:
            t, i, _ = translate(c2g.find_function(objs, name), name, "value")
            g.add(t, i)
        objs = c2g.clang_ast(w, "c19_const_", incs(tmp), ("SC_ENABLE_DEBUG",))
        t, i, _ = translate(c2g.find_function(objs, "c19_const_lp_threshold"), "c19_const_lp_threshold_dbg", "value")
        g.add(t, i)
        return g, [f, os.path.join(REPO, "src", "sc.h"), w]

    GROUPS["LogC19"] = gen_log

    # =================================================================================================
    # Second group PkgC19 (coq/Gen/PkgC19.v): the PACKAGE REGISTRY of src/sc.c - every function that reads or
    # writes sc_packages / sc_num_packages / sc_num_packages_alloc in a field the log filter depends on.
    # Conventions of class RegT (an add-on to EvT; whatever is outside raises c2g.Unsupported):
    #  * a value of type sc_package_t * is the SLOT INDEX it points to: `sc_packages + e` and `&sc_packages[e]` are e;
    #    `sc_packages` used as a value (NULL test, argument of realloc / free) is the scalar sc_packages (0 = NULL)
    #  * a READ of p->f / sc_packages[e].f, f in PKG_FIELDS, is `pk_f slot` (pk_f : Z -> Z = the table when the function
    #    is entered); a read AFTER a store event of the same function is refused
    #  * a WRITE p->f = v is the event (6, code f, 0, slot, 0, 0, v); writes to the fields PKG_IGNORED (allocation counters,
    #    names: outside C19) are dropped; any other field is refused
    #  * sc_packages = realloc (sc_packages, n * sizeof (sc_package_t)) is the event (7, 0, 0, 0, 0, 0, n) and
    #    sc_packages := realloc_ret;  free (sc_packages) is (7, 1, 0, 0, 0, 0, 0)
    #  * calls with effects on the registry are events (8, code, 0, argument, 0, 0, 0): 1 sc_package_unregister_noabort (id),
    #    2 sc_memory_check_noerr (id), 4 pthread_mutex_init (&slot->mutex), 5 pthread_mutex_destroy (&slot->mutex);
    #    their results are the scalar parameters unregister_ret, memory_check_ret, mutex_init_ret, mutex_destroy_ret
    #    (sc_num_packages read after a call of sc_package_unregister_noabort is the parameter sc_num_packages_after_calls)
    #  * SC_CHECK_ABORT / SC_CHECK_ABORTF / live SC_ASSERT: the event (9, 0, 0, 0, 0, 0, 0) when the condition fails
    #    (the process ends there; what follows in the list is meaningless)
    #  * sc_log / sc_logf of the library itself (SC_LERRORF ..): (3 | 4, first integer vararg or 0, 0, package, category,
    #    priority, number of the format text in MSGS)
    #  * strcmp (slot->name, name) is `pk_name_cmp slot`, strcmp (name, "default") the scalar name_cmp_default,
    #    strchr (name, ' ') the scalar name_strchr_space, fclose (..) the scalar fclose_ret
    # =================================================================================================
    PKG_FIELDS = {"is_registered": 1, "log_handler": 2, "log_threshold": 3, "log_indent": 4, "abort_mismatch": 5}
    PKG_IGNORED = ("malloc_count", "free_count", "rc_active", "name", "full")
    IGNORED_GLOBALS = ("sc_mpicomm", "sc_print_backtrace", "sc_initialized")
    DROPPED_CALLS = ("sc_set_signal_handler",)
    MSGS = {"Invalid package id %d\n": -8, "Package %d not registered\n": -9, "Mutex destroy failed for package %s": -10,
            "Trace file close": -11, "Package summary (%d total):\n": -12, "   %3d: %-15s +%d-%d   %s\n": -13}
    FUN_ORDER = ["is_registered", "pk_is_registered", "pk_log_handler", "pk_log_threshold", "pk_log_indent", "pk_abort_mismatch", "pk_name_cmp"]
    SCALARS = ["sc_packages", "sc_num_packages", "sc_num_packages_after_calls", "sc_num_packages_alloc", "sc_identifier", "sc_trace_file", "sc_package_id",
               "default_abort_mismatch", "realloc_ret", "mutex_init_ret", "mutex_destroy_ret", "memory_check_ret", "unregister_ret",
               "fclose_ret", "name_cmp_default", "name_strchr_space",
               "package_id", "package", "set_abort", "log_priority", "log_handler", "log_threshold", "count", "category", "priority", "wp", "wi"]
    CALL_EVENTS = {"sc_package_unregister_noabort": (1, "unregister_ret"), "sc_memory_check_noerr": (2, "memory_check_ret"),
                   "pthread_mutex_init": (4, "mutex_init_ret"), "pthread_mutex_destroy": (5, "mutex_destroy_ret")}

    # The theorems apply the generated functions to their arguments BY POSITION.  The parameter list of every definition of
    # the group is therefore fixed here: an edit after which a function reads different state (another global, another field)
    # fails the translation (the check reports the tie as broken) instead of silently shifting the arguments.
    EXPECT_PARAMS = {
        'sc_package_is_registered': ['pk_is_registered', 'sc_num_packages', 'sc_num_packages_alloc', 'sc_package_id', 'package_id'],
        'sc_package_is_registered_dbg': ['pk_is_registered', 'sc_num_packages', 'sc_num_packages_alloc', 'sc_package_id', 'package_id'],
        'sc_query_doabort': ['is_registered', 'pk_abort_mismatch', 'default_abort_mismatch', 'package'],
        'sc_package_print_summary': ['pk_is_registered', 'sc_num_packages', 'sc_num_packages_alloc', 'sc_package_id', 'log_priority'],
        'sc_package_set_verbosity': ['is_registered', 'package_id', 'log_priority'],
        'sc_package_set_abort_alloc_mismatch': ['default_abort_mismatch', 'package_id', 'set_abort'],
        'sc_package_register': ['pk_is_registered', 'pk_name_cmp', 'sc_packages', 'sc_num_packages', 'sc_num_packages_alloc', 'realloc_ret', 'mutex_init_ret', 'name_cmp_default', 'name_strchr_space', 'log_handler', 'log_threshold'],
        'sc_package_register_dbg': ['pk_is_registered', 'pk_name_cmp', 'sc_packages', 'sc_num_packages', 'sc_num_packages_alloc', 'realloc_ret', 'mutex_init_ret', 'name_cmp_default', 'name_strchr_space', 'log_handler', 'log_threshold'],
        'sc_package_unregister_noabort': ['is_registered', 'sc_num_packages', 'sc_num_packages_alloc', 'sc_package_id', 'mutex_destroy_ret', 'memory_check_ret', 'package_id'],
        'sc_package_unregister': ['is_registered', 'pk_abort_mismatch', 'default_abort_mismatch', 'unregister_ret', 'package_id'],
        'sc_finalize_noabort': ['pk_is_registered', 'sc_num_packages', 'sc_num_packages_alloc', 'sc_trace_file', 'sc_package_id', 'memory_check_ret', 'unregister_ret', 'fclose_ret'],
        'sc_finalize_noabort_dbg': ['pk_is_registered', 'sc_num_packages', 'sc_num_packages_after_calls', 'sc_num_packages_alloc', 'sc_trace_file', 'sc_package_id', 'memory_check_ret', 'unregister_ret', 'fclose_ret'],
        'sc_log_indent_push_count': [],
        'sc_log_indent_pop_count': [],
        'sc_log_indent_push_count_np': ['pk_log_indent', 'package', 'count'],
        'sc_log_indent_pop_count_np': ['pk_log_indent', 'package', 'count'],
        'sc_log_indent_push_count_npdbg': ['pk_log_indent', 'sc_num_packages', 'sc_num_packages_alloc', 'package', 'count'],
        'sc_log_indent_pop_count_npdbg': ['pk_log_indent', 'sc_num_packages', 'sc_num_packages_alloc', 'package', 'count'],
        'sc_log_handler_decide': ['is_registered', 'pk_log_indent', 'sc_identifier', 'package', 'category'],
        'sc_log_handler_prefix_cond': ['wi', 'wp'],
        'sc_log_handler_trace_cond': ['priority'],
    }

    def is_pkgptr(n):
        t = c2g.strip_quals(c2g.tystr(n))
        return "sc_package" in t and t.endswith("*")

    def is_assign(n):
        return isinstance(n, dict) and n.get("kind") == "BinaryOperator" and n.get("opcode") == "="

    class RegT(EvT):
        def __init__(self, inline=None):
            super().__init__()
            self.stored = False
            self.inline = inline or {}           # C name -> parameter list of an already generated function
            self.call_hooks = {"sc_package_is_registered": self.hook_isreg, "strcmp": self.hook_strcmp,
                               "strchr": self.hook_strchr, "fclose": self.hook_fclose}
            for cn in self.inline:
                self.call_hooks[cn] = self.hook_inline
            self.extra = []

        # --- parameters -----------------------------------------------------------------
        def lookup(self, env, key):
            # a call of sc_package_unregister_noabort changes sc_num_packages: what is read afterwards is not the value at entry
            if key == "sc_num_packages" and getattr(self, "clobbered", False):
                key = "sc_num_packages_after_calls"
            return super().lookup(env, key)

        def need(self, name):
            if name in FUN_ORDER:
                if name not in [n_ for n_, _ in self.extra]:
                    raise c2g.Unsupported("%s: table function %s was not found by the scan" % (self.fname, name))
                return
            if name not in SCALARS:
                raise c2g.Unsupported("%s reads %s, which is not a modelled part of the registry" % (self.fname, name))
            if name not in self.params:
                self.params.append(name)
                self.param_kinds[name] = "Z"

        def hook_strcmp(self, T, node, env):
            a, b = strip(node["inner"][1]), strip(node["inner"][2])
            if a.get("kind") == "MemberExpr" and a.get("name") == "name" and self.slot_of(a, env) is not None:
                self.need("pk_name_cmp")
                return c2g.E("pk_name_cmp %s" % self.slot_of(a, env))
            if b.get("kind") == "StringLiteral" and b.get("value") == '"default"':
                return c2g.E(self.lookup(env, "name_cmp_default"), "Z", True)
            raise c2g.Unsupported("strcmp call shape in %s" % self.fname)

        def hook_strchr(self, T, node, env):
            b = strip(node["inner"][2])
            if b.get("kind") == "CharacterLiteral" and b.get("value") == 32:
                return c2g.E(self.lookup(env, "name_strchr_space"), "Z", True)
            raise c2g.Unsupported("strchr call shape in %s" % self.fname)

        def hook_fclose(self, T, node, env):
            return c2g.E(self.lookup(env, "fclose_ret"), "Z", True)

        def hook_inline(self, T, node, env):
            cn = callee_name(node)
            formal = self.inline[cn]
            fn_params = [q.get("name") for q in self.inline_decl[cn].get("inner", []) if q.get("kind") == "ParmVarDecl"]
            actual = dict(zip(fn_params, [self.expr(a, env).z() for a in node["inner"][1:]]))
            out = []
            for pn in formal:
                if pn in actual:
                    out.append(actual[pn])
                else:
                    self.need(pn)
                    out.append(pn)
            return c2g.E("snd (%s %s)" % (cn, " ".join(out)))       # (events, value): the callee is a reader without events

        # --- the table ------------------------------------------------------------------
        def slot_of(self, member, env):
            """slot index (Gallina text) of the object of member expression p->f / sc_packages[e].f, else None"""
            b0 = member["inner"][0]
            if member.get("isArrow"):
                if is_pkgptr(b0):
                    return self.expr(b0, env).z()
                return None
            b = strip(b0)
            if b.get("kind") == "ArraySubscriptExpr" and strip(b["inner"][0]).get("referencedDecl", {}).get("name") == "sc_packages":
                return self.expr(b["inner"][1], env).z()
            return None

        def is_slot_member(self, n):
            if n.get("kind") != "MemberExpr":
                return False
            if n.get("isArrow"):
                return is_pkgptr(n["inner"][0])
            b = strip(n["inner"][0])
            return b.get("kind") == "ArraySubscriptExpr" and strip(b["inner"][0]).get("referencedDecl", {}).get("name") == "sc_packages"

        def lvalue_key(self, n):
            n2 = c2g.skip_parens(n)
            if self.is_slot_member(n2):
                return "pkgslot_" + n2["name"]
            return super().lvalue_key(n)

        def expr(self, n, env):
            k = n.get("kind")
            if k == "MemberExpr" and self.is_slot_member(n):
                f = n["name"]
                if f not in PKG_FIELDS:
                    raise c2g.Unsupported("read of field %s of a package slot in %s" % (f, self.fname))
                if self.stored:
                    raise c2g.Unsupported("read of a package field after a store in %s" % self.fname)
                self.need("pk_" + f)
                return c2g.E("pk_%s %s" % (f, self.slot_of(n, env)))
            if k == "BinaryOperator" and n.get("opcode") == "+" and is_pkgptr(n):
                if strip(n["inner"][0]).get("referencedDecl", {}).get("name") != "sc_packages":
                    raise c2g.Unsupported("package pointer arithmetic that is not sc_packages + index in %s" % self.fname)
                return self.expr(n["inner"][1], env)
            if k == "UnaryOperator" and n.get("opcode") == "&":
                t = strip(n["inner"][0])
                if t.get("kind") == "ArraySubscriptExpr" and strip(t["inner"][0]).get("referencedDecl", {}).get("name") == "sc_packages":
                    return self.expr(t["inner"][1], env)
            return super().expr(n, env)

        # --- events ---------------------------------------------------------------------
        def store_events(self, s, env):
            """[(lhs member node ..)], value expression for a (chained) assignment to slot fields; None if s is not one"""
            lhss, r = [], s
            while is_assign(c2g.skip_parens(r)) if r is not s else is_assign(r):
                r = c2g.skip_parens(r) if r is not s else r
                lhss.append(c2g.skip_parens(r["inner"][0]))
                r = r["inner"][1]
                while r.get("kind") in ("ImplicitCastExpr", "ParenExpr") and is_assign(c2g.skip_parens(r["inner"][0])):
                    r = c2g.skip_parens(r["inner"][0])
            if not lhss or not all(self.is_slot_member(l) for l in lhss):
                return None
            return lhss, r

        def has_event_call(self, s):
            if isinstance(s, dict):
                if s.get("kind") == "CallExpr" and callee_name(s) in ("sc_package_lock", "sc_package_unlock", "sc_log", "sc_logf", "sc_abort_verbose",
                                                                     "sc_abort_verbosef", "realloc", "free") + tuple(CALL_EVENTS):
                    return True
                if s.get("kind") in ("BinaryOperator", "CompoundAssignOperator") and s.get("opcode", "").endswith("=") and \
                        s.get("opcode") not in ("==", "!=", "<=", ">=") and self.is_slot_member(c2g.skip_parens(s["inner"][0])) and \
                        c2g.skip_parens(s["inner"][0])["name"] in PKG_FIELDS:
                    return True
                return any(self.has_event_call(c) for c in s.get("inner", []))
            return False

        def assigned(self, s, acc, declared):
            c2g.Translator.assigned(self, s, acc, declared)
            if self.has_event_call(s):
                acc.add("evs")
            for x in [x for x in acc if x.startswith("pkgslot_") or x in IGNORED_GLOBALS]:
                acc.discard(x)

        def referenced(self, s, acc):
            if isinstance(s, dict) and s.get("kind") == "MemberExpr" and self.is_slot_member(s):
                for c in s.get("inner", []):
                    if isinstance(c, dict):
                        self.referenced(c, acc)
                return
            if isinstance(s, dict) and s.get("kind") == "DeclRefExpr" and s.get("referencedDecl", {}).get("name") in ("sc_packages",) + IGNORED_GLOBALS:
                return
            c2g.Translator.referenced(self, s, acc)

        def event_of_call(self, s, env):
            name = callee_name(s)
            args = s["inner"][1:]
            ex = lambda a: self.expr(a, env).z()
            if name in ("sc_abort_verbose", "sc_abort_verbosef"):
                return "[(9, 0, 0, 0, 0, 0, 0)]"
            if name in ("sc_log", "sc_logf"):
                lit = strip(args[5])
                if lit.get("kind") != "StringLiteral":
                    raise c2g.Unsupported("log call of the library with a computed text in %s" % self.fname)
                import json as _json
                text = _json.loads(lit["value"])
                if text not in MSGS:
                    raise c2g.Unsupported("unknown message text %r in %s" % (text, self.fname))
                first = "0"
                if len(args) > 6 and c2g.int_type(c2g.tystr(args[6])) is not None:
                    first = ex(args[6])
                return "[(%d, %s, 0, %s, %s, %s, %s)]" % (3 if name == "sc_log" else 4, first, ex(args[2]), ex(args[3]), ex(args[4]), c2g.lit(MSGS[text]).z())
            if name == "free":
                if strip(args[0]).get("referencedDecl", {}).get("name") != "sc_packages":
                    raise c2g.Unsupported("free of something else than sc_packages in %s" % self.fname)
                return "[(7, 1, 0, 0, 0, 0, 0)]"
            if name in DROPPED_CALLS:
                return None
            if name in ("sc_package_lock", "sc_package_unlock"):
                return super().event_of_call(s, env)
            raise c2g.Unsupported("call statement to %s in %s" % (name, self.fname))

        def call_event(self, call, env):
            """event text and result parameter of a call listed in CALL_EVENTS"""
            name = callee_name(call)
            code, retp = CALL_EVENTS[name]
            if code == 1:
                self.clobbered = True
            a = call["inner"][1]
            t = strip(a)
            if name.startswith("pthread_mutex"):
                if not (t.get("kind") == "UnaryOperator" and t.get("opcode") == "&" and strip(t["inner"][0]).get("kind") == "MemberExpr"
                        and strip(t["inner"][0]).get("name") == "mutex" and self.is_slot_member(strip(t["inner"][0]))):
                    raise c2g.Unsupported("%s is not called on the mutex of a package slot in %s" % (name, self.fname))
                arg = self.slot_of(strip(t["inner"][0]), env)
            else:
                arg = self.expr(a, env).z()
            return "[(8, %d, 0, %s, 0, 0, 0)]" % (code, arg), self.lookup(env, retp)

        def emit(self, ev, env, rest, K, more=None):
            v = self.fresh("evs")
            env2 = dict(env)
            env2["evs"] = v
            for k_, val in (more or {}).items():
                env2[k_] = val
            return "let %s := %s ++ %s in\n%s" % (v, env["evs"], ev, self.stmts(rest, env2, K))

        # --- statements -----------------------------------------------------------------
        def stmts(self, ss, env, K):
            if not ss:
                return K["fin"](env)
            s, rest = ss[0], ss[1:]
            k = s.get("kind")
            if k == "DeclStmt" and len(s.get("inner", [])) > 1:
                return self.stmts([dict(s, inner=[d]) for d in s["inner"]] + rest, env, K)
            if k == "DeclStmt":
                d = s["inner"][0]
                init = [c for c in d.get("inner", []) if isinstance(c, dict)]
                if init and is_pkgptr(d):
                    return self.assign(d["name"], self.expr(init[0], env), env, rest, K)
            if k == "IfStmt" and rest and any(c2g.body_uses_loops(a) for a in s["inner"][1:]):
                # an arm with a loop ends in a `match`: the continuation is copied into both arms instead of merging
                c = self.expr(s["inner"][0], env)
                return "(if %s then\n%s\nelse\n%s)" % (c.b(), self.stmts([s["inner"][1]] + rest, dict(env), K),
                                                       self.stmts(([s["inner"][2]] if len(s["inner"]) > 2 else []) + rest, dict(env), K))
            if k == "IfStmt":
                # `if (call (..))` / `if (!call (..))` with a call that has an effect on the registry
                c0 = strip(s["inner"][0])
                neg = False
                if c0.get("kind") == "UnaryOperator" and c0.get("opcode") == "!":
                    c0, neg = strip(c0["inner"][0]), True
                if c0.get("kind") == "CallExpr" and callee_name(c0) in CALL_EVENTS:
                    ev, retp = self.call_event(c0, env)
                    saved = dict(self.call_hooks)
                    self.call_hooks[callee_name(c0)] = lambda T_, n_, e_: c2g.E(retp, "Z", True)
                    try:
                        v = self.fresh("evs")
                        env2 = dict(env)
                        env2["evs"] = v
                        return "let %s := %s ++ %s in\n%s" % (v, env["evs"], ev, c2g.Translator.stmts(self, ss, env2, K))
                    finally:
                        self.call_hooks = saved
            if is_assign(s):
                lhs = c2g.skip_parens(s["inner"][0])
                st = self.store_events(s, env)
                if st is not None:
                    lhss, r = st
                    fields = [l["name"] for l in lhss]
                    if all(f in PKG_IGNORED for f in fields):
                        return self.stmts(rest, env, K)
                    if not all(f in PKG_FIELDS for f in fields):
                        raise c2g.Unsupported("store to the package fields %s in %s" % (fields, self.fname))
                    val = self.expr(r, env).z()
                    evs = "; ".join("(6, %d, 0, %s, 0, 0, %s)" % (PKG_FIELDS[l["name"]], self.slot_of(l, env), val) for l in reversed(lhss))
                    self.stored = True
                    return self.emit("[%s]" % evs, env, rest, K)
                if lhs.get("kind") == "DeclRefExpr":
                    ln = lhs["referencedDecl"]["name"]
                    rhs = strip(s["inner"][1])
                    if ln in IGNORED_GLOBALS:
                        return self.stmts(rest, env, K)
                    if ln == "sc_packages" and rhs.get("kind") == "CallExpr" and callee_name(rhs) == "realloc":
                        a = rhs["inner"][1:]
                        if strip(a[0]).get("referencedDecl", {}).get("name") != "sc_packages":
                            raise c2g.Unsupported("realloc of something else than sc_packages")
                        m = strip(a[1])
                        sz = strip(m["inner"][1]) if m.get("kind") == "BinaryOperator" and m.get("opcode") == "*" else {}
                        if not (sz.get("kind") == "UnaryExprOrTypeTraitExpr" and sz.get("name") == "sizeof" and
                                "sc_package" in (sz.get("argType", {}).get("qualType", "") + sz.get("argType", {}).get("desugaredQualType", ""))):
                            raise c2g.Unsupported("realloc size is not n * sizeof (sc_package_t) in %s" % self.fname)
                        n_ = self.expr(strip(m["inner"][0]), env).z()
                        return self.emit("[(7, 0, 0, 0, 0, 0, %s)]" % n_, env, rest, K, {"sc_packages": self.lookup(env, "realloc_ret")})
                    if rhs.get("kind") == "CallExpr" and callee_name(rhs) in CALL_EVENTS:
                        ev, retp = self.call_event(rhs, env)
                        v = self.fresh(ln)
                        return "let %s := %s in\n" % (v, retp) + self.emit(ev, env, rest, K, {ln: v})
                    if is_pkgptr(lhs):
                        return self.assign(ln, self.expr(s["inner"][1], env), env, rest, K)
            if k == "CompoundAssignOperator":
                lhs = c2g.skip_parens(s["inner"][0])
                rhs = strip(s["inner"][1])
                if self.is_slot_member(lhs):
                    f = lhs["name"]
                    if f not in PKG_FIELDS:
                        raise c2g.Unsupported("compound store to package field %s in %s" % (f, self.fname))
                    t = c2g.int_type(c2g.tystr(s))
                    a = self.expr(lhs, env)
                    b = self.expr(s["inner"][1], env)
                    val = self.arith(s["opcode"][:-1], a, b, t).z()
                    self.stored = True
                    return self.emit("[(6, %d, 0, %s, 0, 0, %s)]" % (PKG_FIELDS[f], self.slot_of(lhs, env), val), env, rest, K)
                if rhs.get("kind") == "CallExpr" and callee_name(rhs) in CALL_EVENTS and s.get("opcode") == "+=" and lhs.get("kind") == "DeclRefExpr":
                    ev, retp = self.call_event(rhs, env)
                    ln = lhs["referencedDecl"]["name"]
                    cur = self.lookup(env, ln)
                    v = self.fresh(ln)
                    return "let %s := (s32 (%s + %s)) in\n" % (v, cur, retp) + self.emit(ev, env, rest, K, {ln: v})
            if k in ("WhileStmt", "ForStmt"):
                return self.loop(s, rest, env, K)
            return super().stmts(ss, env, K)

        def loop(self, s, rest, env, K):
            """c2g.Translator.loop with typed loop variables: `evs` is an event list"""
            inner = s["inner"]
            if s["kind"] == "WhileStmt":
                init, cond, inc, body = None, inner[0], None, inner[1]
            else:
                init, _cv, cond, inc, body = inner
                init = init if init.get("kind") else None
                cond = cond if cond.get("kind") else None
                inc = inc if inc.get("kind") else None
            if init is not None:
                return self.stmts([init, dict(s, kind="ForStmt", inner=[{}, {}, cond or {}, inc or {}, body])] + rest, env, K)
            acc, decl = set(), set()
            self.assigned(body, acc, decl)
            if inc is not None:
                self.assigned(inc, acc, decl)
            lvars = sorted(x for x in acc if x in env)
            refs = set()
            self.referenced(body, refs)
            if cond is not None:
                self.referenced(cond, refs)
            if inc is not None:
                self.referenced(inc, refs)
            for x in sorted(refs):
                if x not in env and x not in decl and x in SCALARS:
                    self.lookup(env, x)
            fvars = sorted(x for x in refs if x in env and x not in lvars and env[x] != "0")
            self.loopn = getattr(self, "loopn", 0) + 1
            lname = "%s_loop%d" % (self.gname, self.loopn)
            lenv = dict((x, "v_" + x) for x in fvars + lvars)
            ty = lambda x: ("list (%s)" % EVT) if x == "evs" else "Z"
            tup = lambda e2: self.tuple_of([e2[x] for x in lvars]) if lvars else "tt"
            token = "@@NEWP%d@@" % self.loopn
            before = list(self.params)
            recur = lambda e2: "%s fuel' %s" % (lname, " ".join([n_ for n_, _ in self.extra] + [token] + [lenv[x] for x in fvars] + [e2[x] for x in lvars]))
            KL = dict(fin=(lambda e2: self.stmts([inc], e2, dict(fin=recur, ret=None, brk=None, cont=None)) if inc is not None else recur(e2)),
                      ret=None, brk=lambda e2: "Some %s" % tup(e2))
            KL["cont"] = KL["fin"]
            body_t = self.stmts([body], dict(lenv), KL)
            if cond is not None:
                body_t = "(if %s then\n%s\nelse Some %s)" % (self.expr(cond, lenv).b(), body_t, tup(lenv))
            newp = [x for x in self.params if x not in before]
            body_t = body_t.replace(token, " ".join(newp))
            args = " ".join(["(%s : %s)" % (n_, t_) for n_, t_ in self.extra] + ["(%s : Z)" % x for x in newp] + ["(%s : %s)" % (lenv[x], ty(x)) for x in fvars + lvars])
            ltype = " * ".join(ty(x) for x in lvars) if lvars else "unit"
            self.aux.append((lname, "Fixpoint %s (fuel : nat) %s {struct fuel} : option (%s) :=\n  match fuel with\n  | O => None\n  | S fuel' =>\n%s\n  end.\n"
                             % (lname, args, ltype, body_t)))
            news = [self.fresh(x) for x in lvars]
            env2 = dict(env)
            for x, v in zip(lvars, news):
                env2[x] = v
            pat = "tt" if not lvars else (news[0] if len(news) == 1 else "(%s)" % ", ".join(news))
            call = "%s fuel %s" % (lname, " ".join([n_ for n_, _ in self.extra] + newp + [env[x] for x in fvars] + [env[x] for x in lvars]))
            return "match %s with\n| None => None\n| Some %s =>\n%s\nend" % (call, pat, self.stmts(rest, env2, K))

    def scan_funs(T, nodes):
        """the table functions a statement list may read (they are parameters of every loop function)"""
        found = set()

        def f(n):
            if isinstance(n, dict):
                if is_assign(n) and T.is_slot_member(c2g.skip_parens(n["inner"][0])):
                    # a store: only the slot expression and the value are read
                    for c in c2g.skip_parens(n["inner"][0]).get("inner", []):
                        f(c)
                    f(n["inner"][1])
                    return
                if n.get("kind") == "MemberExpr" and T.is_slot_member(n) and n.get("name") in PKG_FIELDS:
                    found.add("pk_" + n["name"])
                if n.get("kind") == "CallExpr":
                    cn = callee_name(n)
                    if cn == "sc_package_is_registered":
                        found.add("is_registered")
                    if cn == "strcmp":
                        found.add("pk_name_cmp")
                    if cn in T.inline:
                        for pn in T.inline[cn]:
                            if pn in FUN_ORDER:
                                found.add(pn)
                for c in n.get("inner", []):
                    f(c)
        for n in nodes:
            f(n)
        return [x for x in FUN_ORDER if x in found]

    def translate_reg(stmts, gname, cname, outputs, ret=False, inline=None, decls=None, comment=""):
        """statement list -> Definition gname (fuel) (table functions) (scalars) := (evs, outputs.., returned value)"""
        T = RegT(dict((k_, v_[0]) for k_, v_ in (inline or {}).items()))
        T.inline_decl = dict((k_, v_[1]) for k_, v_ in (inline or {}).items())
        T.fname, T.gname = cname, gname
        T.extra = [(x, "Z -> Z") for x in scan_funs(T, stmts)]
        uses_loops = any(c2g.body_uses_loops(x) for x in stmts)
        env = {"evs": "(@nil (%s))" % EVT}

        def result(e, e2):
            parts = [e2["evs"]] + [T.lookup(e2, o) for o in outputs]
            if ret:
                if e is None:
                    raise c2g.Unsupported("%s: falls off the end without a return value" % cname)
                parts.append(e.z())
            t = parts[0] if len(parts) == 1 else "(%s)" % ", ".join(parts)
            return ("Some %s" % t) if uses_loops else t
        K = dict(fin=lambda e2: result(None, e2), ret=lambda e, e2: result(e, e2),
                 brk=lambda e2: (_ for _ in ()).throw(c2g.Unsupported("break outside loop")),
                 cont=lambda e2: (_ for _ in ()).throw(c2g.Unsupported("continue outside loop")))
        text = T.stmts(list(stmts), env, K)
        used = [n_ for n_, _ in T.extra if re.search(r"\b%s\b" % n_, text + "".join(a for _, a in T.aux))]
        # the tie is by POSITION: a function that reads one of the two counters always has both as parameters, so that an edit
        # which reads the other one (count of packages <-> size of the table) changes the meaning and not just a name
        if "sc_num_packages" in T.params or "sc_num_packages_alloc" in T.params:
            for x in ("sc_num_packages", "sc_num_packages_alloc"):
                if x not in T.params:
                    T.params.append(x)
        scal = sorted(T.params, key=SCALARS.index)
        plist = ("(fuel : nat) " if uses_loops else "") + " ".join(["(%s : Z -> Z)" % n_ for n_, _ in T.extra] + ["(%s : Z)" % n_ for n_ in scal])
        out = ("(* %s *)\n" % comment.replace("*)", "* )").replace("(*", "( *")) if comment else ""
        out += "".join(a for _, a in T.aux)
        out += "Definition %s %s :=\n%s.\n" % (gname, plist, text)
        return out, dict(name=gname, cname=cname, params=[n_ for n_, _ in T.extra] + scal, outputs=list(outputs), fuel=uses_loops), [n_ for n_, _ in T.extra] + scal

    def gen_pkg(tmp):
        g = Group("PkgC19")
        f = os.path.join(REPO, "src", "sc.c")
        # a configuration without SC_ENABLE_PTHREAD (the log indentation exists only there)
        np_inc = os.path.join(tmp, "inc_c19_nopthread")
        os.makedirs(np_inc, exist_ok=True)
        cfg = open(os.path.join(tmp, "inc", "sc_config.h")).read()
        cfg2 = re.sub(r"^#define SC_ENABLE_PTHREAD\b.*$", "/* #undef SC_ENABLE_PTHREAD */", cfg, flags=re.M)
        if cfg2 == cfg:
            raise c2g.Unsupported("sc_config.h of the pinned configuration does not define SC_ENABLE_PTHREAD")
        open(os.path.join(np_inc, "sc_config.h"), "w").write(cfg2)
        cache = {}

        def fn(name, conf=""):
            if (name, conf) not in cache:
                inc = incs(tmp)
                if "np" in conf:
                    inc = [np_inc] + inc[1:]
                defs = ("SC_ENABLE_DEBUG",) if "dbg" in conf else ()
                cache[(name, conf)] = c2g.find_function(c2g.clang_ast(f, name, inc, defs), name)
            return cache[(name, conf)]

        def body(F):
            return list([c for c in F["inner"] if c.get("kind") == "CompoundStmt"][0].get("inner", []))

        def whole(name, gname=None, conf="", outputs=(), ret=False, inline=None, comment=""):
            F = fn(name, conf)
            t, i, params = translate_reg(body(F), gname or name + ("_" + conf if conf else ""), name, list(outputs), ret=ret, inline=inline, comment=comment)
            g.add(t, i)
            return params, F

        # --- readers
        p_isreg, _ = whole("sc_package_is_registered", ret=True,
                           comment="returns (events, value): the Invalid-package-id message of negative ids is the event (4, id, 0, sc_package_id, NORMAL, ERROR, -8)")
        whole("sc_package_is_registered", conf="dbg", ret=True)
        p_qd, F_qd = whole("sc_query_doabort", ret=True)
        whole("sc_package_print_summary", comment="(4, first vararg, 0, sc_package_id, GLOBAL, log_priority, text): one heading (-12, number of packages) and one line (-13, slot) per registered slot in increasing order")
        # --- writers
        whole("sc_package_set_verbosity")
        whole("sc_package_set_abort_alloc_mismatch", outputs=("default_abort_mismatch",))
        for conf in ("", "dbg"):
            whole("sc_package_register", conf=conf, outputs=("sc_num_packages", "sc_num_packages_alloc", "sc_packages"), ret=True,
                  comment="returns Some (events, sc_num_packages, sc_num_packages_alloc, sc_packages, new id); log_handler / log_threshold are the arguments")
        whole("sc_package_unregister_noabort", outputs=("sc_num_packages",), ret=True, comment="returns (events, sc_num_packages, number of errors)")
        whole("sc_package_unregister", inline={"sc_query_doabort": (p_qd, F_qd)},
              comment="the call of sc_package_unregister_noabort is the event (8, 1, 0, id, 0, 0, 0), its result the parameter unregister_ret")
        for conf in ("", "dbg"):
            whole("sc_finalize_noabort", conf=conf, outputs=("sc_num_packages_alloc", "sc_packages", "sc_identifier", "sc_trace_file", "sc_package_id"), ret=True,
                  comment="returns Some (events, sc_num_packages_alloc, sc_packages, sc_identifier, sc_trace_file, sc_package_id, number of errors); "
                          "the loop reads is_registered of the table at entry: sc_package_unregister_noabort (i) stores into slot i only")
        # --- log indentation: compiled out with SC_ENABLE_PTHREAD (pinned), live without
        for conf in ("", "np", "npdbg"):
            whole("sc_log_indent_push_count", conf=conf)
            whole("sc_log_indent_pop_count", conf=conf)
        # --- the built-in handler: what it decides to print (statements in front of the first output call)
        for conf in ("",):
            F = fn("sc_log_handler", conf)
            b = body(F)
            cut = [k_ for k_, s_ in enumerate(b) if s_.get("kind") == "IfStmt" and
                   any(callee_name(c_) in ("fputc", "fprintf", "fputs") for c_ in _calls(s_))]
            if not cut:
                raise c2g.Unsupported("sc_log_handler: no conditional output statement")
            t, i, _p = translate_reg(b[:cut[0]], "sc_log_handler_decide" + ("_" + conf if conf else ""), "sc_log_handler", ["package", "wp", "wi", "lindent"],
                                     comment="returns (events, package printed, wp, wi, lindent)")
            g.add(t, i)
            ifs = [s_ for s_ in b[cut[0]:] if s_.get("kind") == "IfStmt"]
            if len(ifs) != 2:
                raise c2g.Unsupported("sc_log_handler: %d conditional output statements, expected prefix and file:line" % len(ifs))
            for nm, st in (("sc_log_handler_prefix_cond", ifs[0]), ("sc_log_handler_trace_cond", ifs[1])):
                if conf:
                    continue
                T = RegT()
                T.fname = T.gname = nm
                e = T.expr(st["inner"][0], {})
                scal = sorted(T.params, key=lambda x: x)
                g.add("Definition %s %s : bool :=\n%s.\n" % (nm, " ".join("(%s : Z)" % x for x in scal), e.b()), dict(name=nm, cname="sc_log_handler", params=scal, fuel=False))
        for i_ in g.infos:
            if i_["name"] not in EXPECT_PARAMS or list(i_["params"]) != EXPECT_PARAMS[i_["name"]]:
                raise c2g.Unsupported("%s reads %s, the theorems are about %s: the function depends on different state than proved about"
                                      % (i_["name"], list(i_["params"]), EXPECT_PARAMS.get(i_["name"])))
        return g, [f, os.path.join(REPO, "src", "sc.h")]

    def _calls(n):
        out = []

        def w(x):
            if isinstance(x, dict):
                if x.get("kind") == "CallExpr":
                    out.append(x)
                for c in x.get("inner", []):
                    w(c)
        w(n)
        return out

    GROUPS["PkgC19"] = gen_pkg
