"""Translator groups for C13 (tie T1), regenerated from /repo/src/sc_statistics.c on every run.

`StatsC13` (coq/Gen/StatsC13.v): the body of sc_stats_mpifunc's loop (one 7-slot record pair).

`StatsVarC13` (coq/Gen/StatsVarC13.v): the per-variable object sc_statinfo_t and its protocol
  var_set1_ext / var_init_ext / var_reset / var_accumulate   the whole bodies: every field they write (dirty, count, sum_values,
        sum_squares, min, max, variable, variable_owned, group, prio; sc_strdup / sc_free as call effects)
  var_set1_copy / _group / _prio, var_init_copy / _group / _prio   the arguments with which sc_stats_set1 / sc_stats_init call the _ext versions
  var_compute1_prep          the loop body of sc_stats_compute1 (a clean variable is skipped - repair F-C13a -, else count, sum_squares, min, max from sum_values)
  var_compute_pack           the body of the packing loop of sc_stats_compute for one variable: memset (address, value, bytes) for a
                             clean variable, else the seven slots flatin[7 * i + 0 .. 6]
  var_compute_post           the body of the post-processing loop for one variable: all 13 numeric fields of the variable from the
                             slots flatout[7 * i + 0 .. 6]; floating division and sqrt are the function parameters fdiv / fsqrt
  var_derived_q              the four assignments average / avg / variance / variance_mean of that loop body over Q (exact rationals)
  sc_stats_group_all_value 0 / sc_stats_prio_all_value 0   the values of the two constants
  compute_alloc_bytes, compute_flatout, compute_flatin, compute_type_count, compute_op_commute, compute_allreduce_count, compute_nompi_copy_bytes
                             the record stride 7 in the allocation, in flatout = flat + 7 * nvars, in MPI_Type_contiguous, the
                             commutativity flag of MPI_Op_create, the count of MPI_Allreduce and the byte count of the memcpy of the
                             build without MPI
Conventions on top of tools/c2g/slicelib.py (all local to this file):
  * `stats[i].f` (i the loop variable, nothing else) is the field f of THE variable considered: location stats_f, like `stats->f`;
  * `flatin[7 * i + K]` / `flatout[7 * i + K]`, K a literal in 0..6, is the location flatin_K / flatout_K (slot K of the variable's
    record); any other index shape is refused, so a changed stride is a failed translation;
  * a chain `a = b = e` is `b = e; a = b`;
  * doubles are exact numbers (header of the generated file); `(long) x` / `(int) x` of a double is s64 x / s32 x: the values
    converted are counts and ranks, i.e. integers (the correspondence theorems assume them in range); `x / y` on doubles is
    `fdiv x y` and `sqrt (x)` is `fsqrt x` with fdiv, fsqrt PARAMETERS of the generated definition (any functions);
    var_derived_q translates the same statements with +, -, *, / and the comparison of SC_MAX over Q.
coq/C13/VarGen.v proves that the hand-written state machine (coq/C13/VarModel.v) computes exactly these."""
import os, re, copy


def register(GROUPS, c2g, incs, REPO, HERE, STRUCTS, Group):
    def gen_stats(tmp):
        g = Group("StatsC13")
        f = os.path.join(REPO, "src", "sc_statistics.c")
        # the function exists only in MPI builds; any mpi.h will do for the AST (simulated one if present)
        sim = os.path.join(os.path.dirname(HERE), "simmpi")
        mpiinc = [sim] if os.path.exists(os.path.join(sim, "mpi.h")) else ["/usr/lib/x86_64-linux-gnu/openmpi/include"]
        objs = c2g.clang_ast(f, "sc_stats_mpifunc", incs(tmp) + mpiinc, defs=("SC_ENABLE_MPI",))
        fn = c2g.find_function(objs, "sc_stats_mpifunc")
        body = [c for c in fn["inner"] if c.get("kind") == "CompoundStmt"][0]
        loops = [c for c in body.get("inner", []) if c.get("kind") == "ForStmt"]
        if len(loops) != 1:
            raise c2g.Unsupported("sc_stats_mpifunc: expected exactly one for loop")
        lbody = loops[0]["inner"][-1]
        stmts = []
        advance = 0
        for st in lbody.get("inner", []):
            # the pointer advancement `in += 7; inout += 7;` is the loop's stride, not part of the record combination
            if st.get("kind") == "CompoundAssignOperator" and st.get("opcode") == "+=" and \
                    c2g.strip_quals(c2g.tystr(st["inner"][0])).endswith("*"):
                v = c2g.skip_parens(st["inner"][1])
                while v.get("kind") == "ImplicitCastExpr":
                    v = c2g.skip_parens(v["inner"][0])
                if v.get("value") != "7":
                    raise c2g.Unsupported("record stride is not 7")
                advance += 1
                continue
            stmts.append(st)
        if advance != 2:
            raise c2g.Unsupported("expected in += 7 and inout += 7")
        params = ["in_%d" % i for i in range(7)] + ["inout_%d" % i for i in range(7)]
        outs = ["inout_%d" % i for i in range(7)]
        t, i = c2g.translate_block(stmts, "sc_stats_mpifunc_body", params, outs, fname="sc_stats_mpifunc")
        g.add(t, i)
        return g, [f]
    GROUPS["StatsC13"] = gen_stats
    register_var(GROUPS, c2g, incs, REPO, HERE, STRUCTS, Group)


def register_var(GROUPS, c2g, incs, REPO, HERE, STRUCTS, Group):
    import slicelib as sl

    FIELDS = ["dirty", "count", "sum_values", "sum_squares", "min", "max"]
    NAMEF = ["variable", "variable_owned", "group", "prio"]
    OUTF = ["min_at_rank", "max_at_rank", "average", "variance", "standev", "variance_mean", "standev_mean"]

    def is_var(n, name):
        n = sl.strip(n)
        return n.get("kind") == "DeclRefExpr" and n.get("referencedDecl", {}).get("name") == name

    def slot_index(n):
        """K of `7 * i + K`, else None"""
        n = sl.strip(n)
        if n.get("kind") != "BinaryOperator" or n.get("opcode") != "+":
            return None
        l, r = sl.strip(n["inner"][0]), sl.strip(n["inner"][1])
        if l.get("kind") != "BinaryOperator" or l.get("opcode") != "*" or r.get("kind") != "IntegerLiteral":
            return None
        a, b = sl.strip(l["inner"][0]), sl.strip(l["inner"][1])
        if a.get("kind") != "IntegerLiteral" or a.get("value") != "7" or not is_var(b, "i"):
            return None
        k = int(r["value"])
        return k if 0 <= k <= 6 else None

    def prep(n, fname):
        """the local conventions as a rewriting of the AST (see the module's documentation)"""
        if not isinstance(n, dict):
            return n
        k = n.get("kind")
        if k == "MemberExpr" and not n.get("isArrow"):
            b = c2g.skip_parens(n["inner"][0])
            if b.get("kind") == "ArraySubscriptExpr":
                if not (is_var(b["inner"][0], "stats") and is_var(b["inner"][1], "i")):
                    raise c2g.Unsupported("%s: field of something that is not stats[i]" % fname)
                ref = dict(kind="DeclRefExpr", type={"qualType": "sc_statinfo_t *"}, referencedDecl=dict(kind="ParmVarDecl", name="stats"))
                return dict(n, isArrow=True, inner=[dict(kind="ImplicitCastExpr", castKind="LValueToRValue", type={"qualType": "sc_statinfo_t *"}, inner=[ref])])
        if k == "ArraySubscriptExpr":
            b = sl.strip(n["inner"][0])
            if b.get("kind") == "DeclRefExpr" and b["referencedDecl"]["name"] in ("flatin", "flatout"):
                ki = slot_index(n["inner"][1])
                if ki is None:
                    raise c2g.Unsupported("%s: index of %s is not 7 * i + K with K in 0..6" % (fname, b["referencedDecl"]["name"]))
                return dict(kind="DeclRefExpr", type=n.get("type"), referencedDecl=dict(kind="VarDecl", name="%s_%d" % (b["referencedDecl"]["name"], ki)))
            if is_var(n["inner"][0], "stats"):
                raise c2g.Unsupported("%s: stats[..] used as a whole" % fname)
        out = dict(n)
        if "inner" in n:
            inner = [prep(c, fname) for c in n["inner"]]
            if k == "CompoundStmt":
                inner = unchain(inner)
            out["inner"] = inner
        return out

    def unchain(stmts):
        out = []
        for s in stmts:
            if isinstance(s, dict) and s.get("kind") == "BinaryOperator" and s.get("opcode") == "=":
                rhs = s["inner"][1]
                if isinstance(rhs, dict) and rhs.get("kind") == "BinaryOperator" and rhs.get("opcode") == "=":
                    inner = unchain([rhs])
                    last = inner[-1]
                    rd = dict(kind="ImplicitCastExpr", castKind="LValueToRValue", type=last["inner"][0].get("type"), inner=[last["inner"][0]])
                    out += inner + [dict(s, inner=[s["inner"][0], rd])]
                    continue
            out.append(s)
        return out

    class StatT(sl.SliceT):
        """doubles: (long) x / (int) x, x / y and sqrt (x) - see the module's documentation"""
        def need(self, name, ty):
            if (name, ty) not in self.extra:
                self.extra.append((name, ty))

        def expr(self, n, env):
            k = n.get("kind")
            if k in ("ImplicitCastExpr", "CStyleCastExpr") and n.get("castKind") == "FloatingToIntegral":
                dst = c2g.int_type(c2g.tystr(n))
                if dst is None:
                    raise c2g.Unsupported("conversion of a double to %s in %s" % (c2g.tystr(n), self.fname))
                return c2g.E("%s %s" % (c2g.wrapname(dst), self.expr(n["inner"][0], env).z()))
            if k == "BinaryOperator" and n.get("opcode") == "/" and c2g.is_float(c2g.tystr(n)):
                a, b = self.expr(n["inner"][0], env), self.expr(n["inner"][1], env)
                self.need("fdiv", "Z -> Z -> Z")
                return c2g.E("fdiv %s %s" % (a.z(), b.z()))
            if k == "CallExpr" and sl.callee_name(n) == "sqrt":
                self.need("fsqrt", "Z -> Z")
                return c2g.E("fsqrt %s" % self.expr(n["inner"][1], env).z())
            return super().expr(n, env)

    def block(stmts, gname, outputs, fname, **kw):
        saved = sl.SliceT
        sl.SliceT = StatT
        try:
            return sl.emit_block(stmts, gname, outputs, fname, **kw)
        finally:
            sl.SliceT = saved

    # ---- the four assignments of the derived outputs over Q
    def qexpr(n, env, fname):
        n = c2g.skip_parens(n)
        k = n.get("kind")
        if k in ("ImplicitCastExpr", "CStyleCastExpr") and n.get("castKind") in ("LValueToRValue", "NoOp", "FloatingCast"):
            return qexpr(n["inner"][0], env, fname)
        if k == "FloatingLiteral":
            v = float(n.get("value"))
            if v != int(v):
                raise c2g.Unsupported("floating literal %s in %s" % (n.get("value"), fname))
            return "(inject_Z %s)" % c2g.lit(int(v)).z()
        if k in ("DeclRefExpr", "MemberExpr"):
            key = n["referencedDecl"]["name"] if k == "DeclRefExpr" else "stats_" + n["name"]
            if k == "MemberExpr" and not (n.get("isArrow") and is_var(n["inner"][0], "stats")):
                raise c2g.Unsupported("field access in %s" % fname)
            if not c2g.is_float(c2g.tystr(n)):
                raise c2g.Unsupported("%s is not a double in %s" % (key, fname))
            if key not in env:
                env[key] = key
                env["*params"].append(key)
            return env[key]
        if k == "BinaryOperator" and n.get("opcode") in ("+", "-", "*", "/") and c2g.is_float(c2g.tystr(n)):
            return "(%s %s %s)" % (qexpr(n["inner"][0], env, fname), n["opcode"], qexpr(n["inner"][1], env, fname))
        if k == "ConditionalOperator":
            c = c2g.skip_parens(n["inner"][0])
            if c.get("kind") == "BinaryOperator" and c.get("opcode") in ("<", ">", "<=", ">="):
                a, b = qexpr(c["inner"][0], env, fname), qexpr(c["inner"][1], env, fname)
                # x < y is negb (y <= x) on the rationals
                cond = {"<": "negb (Qle_bool %s %s)" % (b, a), ">": "negb (Qle_bool %s %s)" % (a, b),
                        "<=": "Qle_bool %s %s" % (a, b), ">=": "Qle_bool %s %s" % (b, a)}[c["opcode"]]
                return "(if %s then %s else %s)" % (cond, qexpr(n["inner"][1], env, fname), qexpr(n["inner"][2], env, fname))
        raise c2g.Unsupported("expression kind %s over Q in %s" % (k, fname))

    def qblock(stmts, gname, outputs, fname, params=()):
        env = {"*params": list(params)}
        for p_ in params:
            env[p_] = p_
        text = ""
        cnt = [0]
        for s in stmts:
            if s.get("kind") != "BinaryOperator" or s.get("opcode") != "=":
                raise c2g.Unsupported("%s: statement kind %s over Q" % (fname, s.get("kind")))
            l = c2g.skip_parens(s["inner"][0])
            key = l["referencedDecl"]["name"] if l.get("kind") == "DeclRefExpr" else "stats_" + l.get("name", "?")
            e = qexpr(s["inner"][1], env, fname)
            cnt[0] += 1
            v = "%s_%d" % (key, cnt[0])
            text += "let %s := %s in\n" % (v, e)
            env[key] = v
        for o in outputs:
            if o not in env:
                raise c2g.Unsupported("%s: %s is not assigned" % (fname, o))
        text += "(%s)" % ", ".join(env[o] for o in outputs)
        plist = " ".join("(%s : Q)" % p for p in env["*params"])
        return "Definition %s %s :=\n(%s)%%Q.\n" % (gname, plist, text), dict(name=gname, cname=fname, params=list(env["*params"]), outputs=list(outputs), fuel=False)

    def gen_var(tmp):
        g = Group("StatsVarC13")
        g.text += "From Coq Require Import QArith.\nLocal Open Scope Z_scope.\n\n"
        f = os.path.join(REPO, "src", "sc_statistics.c")
        sim = os.path.join(os.path.dirname(HERE), "simmpi")
        mpiinc = [sim] if os.path.exists(os.path.join(sim, "mpi.h")) else ["/usr/lib/x86_64-linux-gnu/openmpi/include"]
        cache = {}

        def fn(name, mpi=True):
            if (name, mpi) not in cache:
                objs = c2g.clang_ast(f, name, incs(tmp) + (mpiinc if mpi else []), defs=("SC_ENABLE_MPI",) if mpi else ())
                cache[(name, mpi)] = c2g.find_function(objs, name)
            return cache[(name, mpi)]

        def body(F):
            return [c for c in F["inner"] if c.get("kind") == "CompoundStmt"][0]

        def one(lst, what):
            if len(lst) != 1:
                raise c2g.Unsupported("%s: %d candidates" % (what, len(lst)))
            return lst[0]

        S = ["stats_" + x for x in FIELDS]
        N = ["stats_" + x for x in NAMEF]
        # ---- the four functions that work on one variable through the pointer `stats`
        for cfn, gname, params, outs, want, eff in (
                ("sc_stats_set1_ext", "var_set1_ext", ("value", "variable", "copy_variable", "stats_group", "stats_prio", "stats_variable", "stats_variable_owned"), S + N + ["*ghosts"],
                 ["value", "variable", "copy_variable", "stats_group", "stats_prio", "stats_variable", "stats_variable_owned", "sc_strdup_ret", "sc_package_id"], ("sc_strdup",)),
                ("sc_stats_init_ext", "var_init_ext", ("variable", "copy_variable", "stats_group", "stats_prio", "stats_variable", "stats_variable_owned"), S + N + ["*ghosts"],
                 ["variable", "copy_variable", "stats_group", "stats_prio", "stats_variable", "stats_variable_owned", "sc_strdup_ret", "sc_package_id"], ("sc_strdup",)),
                ("sc_stats_reset", "var_reset", ("reset_vgp",) + tuple(N), S + N + ["*ghosts"],
                 ["reset_vgp", "sc_package_id", "sc_stats_group_all", "sc_stats_prio_all"] + N, ("sc_free",)),
                ("sc_stats_accumulate", "var_accumulate", ("value",) + tuple(S), S, ["value"] + S, ())):
            st = prep(body(fn(cfn)), cfn)["inner"]
            t, i = block(st, gname, outs, cfn, params=params, want_params=want, effects=eff, effect_called=bool(eff))
            g.add(t, i)

        # ---- the two constants "all groups" / "all priorities"
        for cname in ("sc_stats_group_all", "sc_stats_prio_all"):
            v = c2g.find_var(c2g.clang_ast(f, cname, incs(tmp)), cname)
            t, i = c2g.translate_table(v, cname + "_value")
            if i["length"] != 1:
                raise c2g.Unsupported("%s is not a scalar constant" % cname)
            g.add(t, i)

        # ---- how the short forms call the _ext versions
        for cfn, callee, pre, first in (("sc_stats_set1", "sc_stats_set1_ext", "var_set1", 3), ("sc_stats_init", "sc_stats_init_ext", "var_init", 2)):
            calls = sl.find_nodes(fn(cfn), lambda n: n.get("kind") == "CallExpr" and sl.callee_name(n) == callee)
            a = one(calls, "%s: calls of %s" % (cfn, callee))["inner"][1:]
            for k_, nm in enumerate(("copy", "group", "prio")):
                t, i = sl.emit_expr(a[first + k_], "%s_%s" % (pre, nm), cfn, want_params=[] if nm == "copy" else ["sc_stats_%s_all" % nm])
                g.add(t, i)
            for k_ in range(first):
                if not is_var(a[k_], ("stats", "value", "variable")[k_] if first == 3 else ("stats", "variable")[k_]):
                    raise c2g.Unsupported("%s does not pass its own arguments on" % cfn)

        # ---- sc_stats_compute1: the loop body, and the call of sc_stats_compute
        F = fn("sc_stats_compute1")
        loop = one([c for c in body(F).get("inner", []) if c.get("kind") == "ForStmt"], "sc_stats_compute1: for loops")
        rest = [c for c in body(F).get("inner", []) if c.get("kind") not in ("ForStmt", "DeclStmt")]
        if len(rest) != 1 or sl.callee_name(sl.strip(rest[0])) != "sc_stats_compute" or body(F)["inner"][-1] is not rest[0]:
            raise c2g.Unsupported("sc_stats_compute1 is not `loop; sc_stats_compute (..)`")
        for k_, nm in enumerate(("mpicomm", "nvars", "stats")):
            if not is_var(sl.strip(rest[0])["inner"][1 + k_], nm):
                raise c2g.Unsupported("sc_stats_compute1 does not pass %s on" % nm)
        st = prep(loop["inner"][-1], "sc_stats_compute1")["inner"]
        t, i = block(st, "var_compute1_prep", S, "sc_stats_compute1", params=tuple(S), want_params=S, jumps_end=True)
        g.add(t, i)

        # ---- sc_stats_compute
        F = fn("sc_stats_compute")
        loops = [c for c in body(F).get("inner", []) if c.get("kind") == "ForStmt"]
        if len(loops) != 2:
            raise c2g.Unsupported("sc_stats_compute: %d for loops" % len(loops))
        for lp in loops:
            ini, cond, inc = lp["inner"][0], lp["inner"][-3], lp["inner"][-2]
            okc = cond.get("kind") == "BinaryOperator" and cond.get("opcode") == "<" and is_var(cond["inner"][0], "i") and is_var(cond["inner"][1], "nvars")
            oki = ini.get("kind") == "BinaryOperator" and ini.get("opcode") == "=" and is_var(ini["inner"][0], "i") and sl.strip(ini["inner"][1]).get("value") == "0"
            okn = inc.get("kind") == "UnaryOperator" and inc.get("opcode") == "++" and is_var(inc["inner"][0], "i")
            if not (okc and oki and okn):
                raise c2g.Unsupported("sc_stats_compute: a loop is not `for (i = 0; i < nvars; ++i)`")
        FL_IN = ["flatin_%d" % k_ for k_ in range(7)]
        FL_OUT = ["flatout_%d" % k_ for k_ in range(7)]
        st = prep(loops[0]["inner"][-1], "sc_stats_compute")["inner"]
        t, i = block(st, "var_compute_pack", ["*ghosts"] + FL_IN, "sc_stats_compute/pack", params=tuple(S + ["rank", "flatin", "i"] + FL_IN),
                     want_params=S + ["rank", "flatin", "i"] + FL_IN, effects=("memset",), effect_called=True, elem_ptr_types=("double *",), jumps_end=True)
        if i["outputs"] != ["memset_called", "memset_arg0", "memset_arg1", "memset_arg2"] + FL_IN:
            raise c2g.Unsupported("sc_stats_compute/pack: unexpected effects %s" % i["outputs"])
        g.add(t, i)
        ALL = S + ["stats_" + x for x in OUTF]
        st = prep(loops[1]["inner"][-1], "sc_stats_compute")["inner"]
        # the double locals of the function declared without initialiser (cnt, avg, ..): uninitialised before the loop.  They are
        # collected from the declarations so that a new scratch variable is a changed DEFINITION (a theorem breaks), not a failed translation
        dlocals = []
        for d_ in body(F).get("inner", []):
            if d_.get("kind") == "DeclStmt":
                for v_ in d_.get("inner", []):
                    if v_.get("kind") == "VarDecl" and c2g.is_float(c2g.tystr(v_)) and not [c for c in v_.get("inner", []) if isinstance(c, dict)]:
                        dlocals.append(v_["name"])
        if "cnt" not in dlocals or "avg" not in dlocals:
            raise c2g.Unsupported("sc_stats_compute: no double locals cnt, avg")
        t, i = block(st, "var_compute_post", ALL, "sc_stats_compute/post", params=tuple(ALL + FL_OUT), want_params=ALL + FL_OUT, jumps_end=True,
                     init=dict((v_, "0") for v_ in dlocals))
        g.add(t, i)
        # the derived outputs over Q: the assignments to average / avg / variance / variance_mean in the branch with samples
        branch = one([s_ for s_ in st if s_.get("kind") == "IfStmt" and len(s_["inner"]) == 3 and sl.refs(s_["inner"][0]) == {"cnt"}],
                     "sc_stats_compute/post: if (!cnt) .. else ..")
        els = branch["inner"][2].get("inner", [])
        DER = ("stats_average", "stats_variance", "stats_variance_mean") + tuple(v_ for v_ in dlocals if v_ != "cnt")

        def lkey(s_):
            if s_.get("kind") != "BinaryOperator" or s_.get("opcode") != "=":
                return None
            l = c2g.skip_parens(s_["inner"][0])
            return l["referencedDecl"]["name"] if l.get("kind") == "DeclRefExpr" else "stats_" + l.get("name", "?")
        der = [s_ for s_ in els if lkey(s_) in DER]
        pos = [k_ for k_, s_ in enumerate(els) if lkey(s_) in DER]
        if not pos or pos != list(range(pos[0], len(els))):
            raise c2g.Unsupported("sc_stats_compute/post: the derived outputs are not the last statements of the branch with samples")
        t, i = qblock(der, "var_derived_q", ["stats_average", "stats_variance", "stats_variance_mean"], "sc_stats_compute/post",
                      params=("stats_sum_values", "stats_sum_squares", "cnt"))
        if sorted(i["params"]) != ["cnt", "stats_sum_squares", "stats_sum_values"]:
            raise c2g.Unsupported("sc_stats_compute/post: the derived outputs depend on %s" % i["params"])
        g.add(t, i)

        # ---- the record stride and the reduction call
        def call(F_, callee):
            return one(sl.find_nodes(F_, lambda n: n.get("kind") == "CallExpr" and sl.callee_name(n) == callee), "calls of " + callee)["inner"][1:]
        a = call(F, "sc_malloc")
        t, i = sl.emit_expr(a[1], "compute_alloc_bytes", "sc_stats_compute", want_params=["nvars"])
        g.add(t, i)
        asg = one(sl.find_nodes(F, lambda n: n.get("kind") == "BinaryOperator" and n.get("opcode") == "=" and is_var(n["inner"][0], "flatout")), "flatout =")
        t, i = sl.emit_expr(asg["inner"][1], "compute_flatout", "sc_stats_compute", want_params=["flat", "nvars"], elem_ptr_types=("double *",))
        g.add(t, i)
        asg = one(sl.find_nodes(F, lambda n: n.get("kind") == "BinaryOperator" and n.get("opcode") == "=" and is_var(n["inner"][0], "flatin")), "flatin =")
        t, i = sl.emit_expr(asg["inner"][1], "compute_flatin", "sc_stats_compute", want_params=["flat"], elem_ptr_types=("double *",))
        g.add(t, i)
        a = call(F, "MPI_Type_contiguous")
        t, i = sl.emit_expr(a[0], "compute_type_count", "sc_stats_compute", want_params=[])
        g.add(t, i)
        a = call(F, "MPI_Op_create")
        if sl.strip(a[0]).get("referencedDecl", {}).get("name") != "sc_stats_mpifunc":
            raise c2g.Unsupported("MPI_Op_create is not given sc_stats_mpifunc")
        t, i = sl.emit_expr(a[1], "compute_op_commute", "sc_stats_compute", want_params=[])
        g.add(t, i)
        a = call(F, "MPI_Allreduce")
        if not (is_var(a[0], "flatin") and is_var(a[1], "flatout") and is_var(a[3], "ctype") and is_var(a[4], "op") and is_var(a[5], "mpicomm")):
            raise c2g.Unsupported("MPI_Allreduce is not called as (flatin, flatout, .., ctype, op, mpicomm)")
        t, i = sl.emit_expr(a[2], "compute_allreduce_count", "sc_stats_compute", want_params=["nvars"])
        g.add(t, i)
        # the build without MPI (the pinned configuration): flatout is a copy of flatin
        F0 = fn("sc_stats_compute", mpi=False)
        a = call(F0, "memcpy")
        if not (is_var(a[0], "flatout") and is_var(a[1], "flatin")):
            raise c2g.Unsupported("without MPI: memcpy is not (flatout, flatin, ..)")
        t, i = sl.emit_expr(a[2], "compute_nompi_copy_bytes", "sc_stats_compute", want_params=["nvars"])
        g.add(t, i)
        return g, [f]
    GROUPS["StatsVarC13"] = gen_var
