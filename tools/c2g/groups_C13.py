"""Translator group for C13: the body of sc_stats_mpifunc's loop (one 7-slot record pair)."""
import os


def register(GROUPS, c2g, incs, REPO, HERE, STRUCTS, Group):
    def gen_stats(tmp):
        g = Group("StatsC13")
        f = os.path.join(REPO, "src", "sc_statistics.c")
        # the function exists only in MPI builds; any mpi.h will do for the AST (simulated one if present)
        sim = os.path.join(os.path.dirname(HERE), "simmpi")
        mpiinc = [sim] if os.path.exists(os.path.join(sim, "mpi.h")) else ["/usr/lib/x86_64-linux-gnu/openmpi/include"]
        objs = c2g.clang_ast(f, "sc_stats_mpifunc", incs(tmp) + mpiinc, defs=("SC_ENABLE_MPI",))
        fn = c2g.find_function(objs, "sc_stats_mpifunc")
        body = [c for c in fn["inner"] if c.get("kind") == "CompoundStmt"][0]
        loops = [c for c in body.get("inner", []) if c.get("kind") == "ForStmt"]
        if len(loops) != 1:
            raise c2g.Unsupported("sc_stats_mpifunc: expected exactly one for loop")
        lbody = loops[0]["inner"][-1]
        stmts = []
        advance = 0
        for st in lbody.get("inner", []):
            # the pointer advancement `in += 7; inout += 7;` is the loop's stride, not part of the record combination
            if st.get("kind") == "CompoundAssignOperator" and st.get("opcode") == "+=" and \
                    c2g.strip_quals(c2g.tystr(st["inner"][0])).endswith("*"):
                v = c2g.skip_parens(st["inner"][1])
                while v.get("kind") == "ImplicitCastExpr":
                    v = c2g.skip_parens(v["inner"][0])
                if v.get("value") != "7":
                    raise c2g.Unsupported("record stride is not 7")
                advance += 1
                continue
            stmts.append(st)
        if advance != 2:
            raise c2g.Unsupported("expected in += 7 and inout += 7")
        params = ["in_%d" % i for i in range(7)] + ["inout_%d" % i for i in range(7)]
        outs = ["inout_%d" % i for i in range(7)]
        t, i = c2g.translate_block(stmts, "sc_stats_mpifunc_body", params, outs, fname="sc_stats_mpifunc")
        g.add(t, i)
        return g, [f]
    GROUPS["StatsC13"] = gen_stats
