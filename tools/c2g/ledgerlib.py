"""Ownership-ledger slices (tie T1 of C10 for code that creates and destroys objects): a function body is abstracted to
the list of ownership events on its sc_array_t variables and on the heap objects it creates, as a function of the
branch conditions.

Variables are named by their C text: a local / parameter `x`, a field `p->f` or `s.f` (e.g. "hash->slots",
"hash_array->a"); `&x` names x.  Events (coq/C10/LedgerModel.v):
    x = sc_array_new[_count] (..)                       LNew x        heap structure + data block
    sc_array_init[_count] (x | &x, ..)                  LInit x       x's data pointer is overwritten by a fresh block
    sc_array_reset (x | &x)                             LReset x      the data block is freed (nothing when the array is empty)
    sc_array_destroy (x)                                LDestroy x    data block and heap structure are freed
    sc_array_resize / sc_array_push[_count] (x, ..)     LGrow x       x must be a valid array; it holds a block afterwards
    sc_notify_merge (out, a, b, n)                      LUse a; LUse b; LGrow out
    *d = *s, *d = s, d = *s (sc_array_t structures), memcpy (d, s, sizeof (sc_array_t))
                                                        LCopy d s     d's data pointer is overwritten by s's
    x = y, T *x = y (pointers to sc_array_t, or pointers to opaque objects: see below), x = &y
                                                        LAlias x y    x refers to the object y refers to
    x = sc_malloc / sc_calloc (SC_ALLOC, SC_ALLOC_ZERO) / sc_mempool_new* / sc_hash_new (..)
                                                        LAlloc x      an opaque heap object
    sc_free (SC_FREE) / sc_mempool_destroy / sc_hash_destroy (x)
                                                        LFree x       the object itself is freed
    any other mention of an array variable (x->array, x->elem_count, sc_array_index* (x, ..)) and an OPAQUE variable
    passed to another function                          LUse x
A variable is OPAQUE when it is the target of an LAlloc / LFree in the slice or listed by the caller (`opaque=`).
Statements: `if` becomes a Gallina `if` over c <i> (i = source order); the condition is emitted as <name>_c<i> when the
translator can express it.  Loops may only contain LUse / LGrow events (their body is taken once: idempotent).
`return x;` as the LAST statement of the slice is LUse x; with allow_return any `return` is dropped, but then the slice
may only contain LAlias / LUse events (paths that really return early are a subset of the paths of the event list).
REFUSED (c2g.Unsupported: the group fails, the tie is broken): any other call of a function whose name starts with
sc_array_ / sc_malloc / sc_calloc / sc_realloc / sc_free / sc_strdup / sc_mempool_(new|destroy|init|reset) / sc_hash_(new|destroy),
a whole array passed to a function that is not listed, an array variable assigned anything else, a store into a field
of an array, ownership changes inside a loop, a field `x->f` mentioned after a statement of the same block freed `x`
(fields are separate names in the model, so this use after free is caught here)."""
import re
import c2g
import slicelib as sl

NEW = ("sc_array_new", "sc_array_new_count")
INIT = ("sc_array_init", "sc_array_init_count")
GROW = ("sc_array_resize", "sc_array_push", "sc_array_push_count")
USE = ("sc_array_index", "sc_array_index_int", "sc_array_index_long", "sc_array_index_ssize_t")
ALLOC = ("sc_malloc", "sc_calloc", "sc_mempool_new", "sc_mempool_new_zero_and_persist", "sc_hash_new")
FREE = ("sc_free", "sc_mempool_destroy", "sc_hash_destroy")
FREE_ARG = {"sc_free": 1}            # sc_free (package, ptr)
OWNERSHIP_PREFIX = ("sc_array_", "sc_malloc", "sc_calloc", "sc_realloc", "sc_free", "sc_strdup", "sc_mempool_new", "sc_mempool_destroy",
                    "sc_mempool_init", "sc_mempool_reset", "sc_hash_new", "sc_hash_destroy", "sc_hash_array_new", "sc_hash_array_destroy",
                    "sc_list_new", "sc_list_destroy")
CHANGING = r"LNew|LInit|LReset|LDestroy|LCopy|LAlloc|LFree"


def _is_array_type(t):
    t = (t or "").replace("struct ", "")
    return re.match(r"^(const )?sc_array_t( \*)?$", t.strip()) is not None


def _qt(n):
    return (n.get("type", {}) or {}).get("qualType", "")


def _name(n):
    """C text of a variable: x, p->f, s.f; &x names x.  None for anything else."""
    n = sl.strip(n)
    k = n.get("kind")
    if k == "UnaryOperator" and n.get("opcode") == "&":
        return _name(n["inner"][0])
    if k == "DeclRefExpr" and n.get("referencedDecl", {}).get("kind") in ("VarDecl", "ParmVarDecl"):
        return n["referencedDecl"]["name"]
    if k == "MemberExpr":
        b = _name(n["inner"][0])
        if b is None:
            return None
        return "%s%s%s" % (b, "->" if n.get("isArrow") else ".", n.get("name"))
    return None


def _var(n):
    """name of the sc_array_t variable an expression denotes (pointer, structure, or the address of a structure)"""
    n = sl.strip(n)
    if n.get("kind") == "UnaryOperator" and n.get("opcode") == "&":
        n = sl.strip(n["inner"][0])
    if n.get("kind") in ("DeclRefExpr", "MemberExpr") and _is_array_type(_qt(n)):
        return _name(n)
    return None


def q(x):
    return '"%s"%%string' % x


class Ledger:
    def __init__(self, fname, self_calls=(), opaque=(), allow_return=False):
        self.fname = fname
        self.self_calls = tuple(self_calls)
        self.opaque = set(opaque)
        self.allow_return = allow_return
        self.conds = []          # condition nodes in source order
        self.last_stmt = None

    def refuse(self, why, n=None):
        loc = ""
        if isinstance(n, dict):
            b = n.get("range", {}).get("begin", {})
            loc = " (line %s)" % (b.get("line") or b.get("expansionLoc", {}).get("line") or b.get("spellingLoc", {}).get("line") or "?")
        raise c2g.Unsupported("%s: ledger slice: %s%s" % (self.fname, why, loc))

    def scan_opaque(self, stmts):
        """variables that are the target of an allocation / free call are opaque objects"""
        def f(n):
            if n.get("kind") == "BinaryOperator" and n.get("opcode") == "=":
                r = sl.strip(n["inner"][1])
                while r.get("kind") == "BinaryOperator" and r.get("opcode") == "=":
                    r = sl.strip(r["inner"][1])
                if r.get("kind") == "CallExpr" and sl.callee_name(r) in ALLOC:
                    m = n
                    while True:
                        nm = _name(m["inner"][0])
                        if nm is not None:
                            self.opaque.add(nm)
                        m2 = sl.strip(m["inner"][1])
                        if m2.get("kind") == "BinaryOperator" and m2.get("opcode") == "=":
                            m = m2
                        else:
                            break
            if n.get("kind") == "VarDecl":
                for c in n.get("inner", []):
                    if isinstance(c, dict) and sl.strip(c).get("kind") == "CallExpr" and sl.callee_name(sl.strip(c)) in ALLOC:
                        self.opaque.add(n["name"])
            if n.get("kind") == "CallExpr" and sl.callee_name(n) in FREE:
                a = n["inner"][1 + FREE_ARG.get(sl.callee_name(n), 0)]
                if _name(a) is not None:
                    self.opaque.add(_name(a))
        for s in stmts:
            sl.walk(s, f)

    def is_opaque(self, n):
        nm = _name(n)
        return nm is not None and nm in self.opaque and _var(n) is None

    # ------------------------------------------------------------------ expressions
    def call_events(self, n, lhs=None):
        nm = sl.callee_name(n)
        args = n["inner"][1:]
        ev = []
        for a in args:
            ev += self.expr_events(a, toplevel_arg=True)
        if nm in NEW or nm in ALLOC:
            if lhs is None:
                self.refuse("result of %s is not assigned to a variable" % nm, n)
            return ev + ["%s %s" % ("LNew" if nm in NEW else "LAlloc", q(lhs))]
        if lhs is not None:
            self.refuse("a tracked variable is assigned the result of %s" % nm, n)
        if nm in FREE:
            a = args[FREE_ARG.get(nm, 0)]
            x = _name(a)
            if x is None:
                self.refuse("%s of something that is not a plain variable" % nm, n)
            ev = [e for e in ev if e != "LUse %s" % q(x)]
            return ev + ["LFree %s" % q(x)]
        if nm in INIT or nm == "sc_array_reset" or nm == "sc_array_destroy" or nm in GROW or nm in USE:
            x = _var(args[0]) if args else None
            if x is None:
                self.refuse("%s on something that is not a plain array variable" % nm, n)
            k = "LInit" if nm in INIT else "LReset" if nm == "sc_array_reset" else "LDestroy" if nm == "sc_array_destroy" else "LGrow" if nm in GROW else "LUse"
            ev = [e for e in ev if e != "LUse %s" % q(x)] if k != "LUse" else ev
            return ev + ["%s %s" % (k, q(x))]
        if nm == "sc_notify_merge":
            xs = [_var(a) for a in args[:3]]
            if None in xs:
                self.refuse("sc_notify_merge on something that is not a plain array variable", n)
            ev = [e for e in ev if e not in ["LUse %s" % q(x) for x in xs]]
            return ev + ["LUse %s" % q(xs[1]), "LUse %s" % q(xs[2]), "LGrow %s" % q(xs[0])]
        if nm == "memcpy" and len(args) == 3 and _var(args[0]) is not None and _var(args[1]) is not None:
            sz = sl.strip(args[2])
            if sz.get("kind") == "UnaryExprOrTypeTraitExpr" and "sc_array_t" in (sz.get("argType", {}).get("qualType", "") or _qt(sz)):
                d, s_ = _var(args[0]), _var(args[1])
                ev = [e for e in ev if e not in ("LUse %s" % q(d), "LUse %s" % q(s_))]
                return ev + ["LCopy %s %s" % (q(d), q(s_))]
            self.refuse("memcpy between array structures with a size that is not sizeof (sc_array_t)", n)
        if nm is not None and nm.startswith(OWNERSHIP_PREFIX):
            self.refuse("call of %s is not understood" % nm, n)
        if nm in self.self_calls:
            return ev       # the function itself: its array arguments must be valid (LUse, already recorded); by induction it returns them valid
        for a in args:
            if _var(a) is not None:
                self.refuse("array %s is passed to %s, whose effect on it is not known" % (_var(a), nm), n)
        return ev

    def expr_events(self, n, toplevel_arg=False):
        n = sl.strip(n)
        k = n.get("kind")
        if k == "CallExpr":
            return self.call_events(n)
        if _var(n) is not None and k != "UnaryOperator":
            # an array variable (local, parameter or field) mentioned by itself
            if toplevel_arg:
                return ["LUse %s" % q(_var(n))]      # the caller decides (known callee) or refuses
            self.refuse("array variable %s used in an expression" % _var(n), n)
        if k == "UnaryOperator" and n.get("opcode") == "&" and _var(n) is not None:
            if toplevel_arg:
                return ["LUse %s" % q(_var(n))]
            self.refuse("address of array variable %s taken" % _var(n), n)
        if self.is_opaque(n):
            return ["LUse %s" % q(_name(n))] if toplevel_arg else []
        if k == "MemberExpr":
            base = sl.strip(n["inner"][0])
            x = _var(base)
            if x is not None:
                return ["LUse %s" % q(x)]
            return self.expr_events(base)
        if k == "BinaryOperator" and n.get("opcode") == "=":
            return self.assign_events(n)
        ev = []
        for c in n.get("inner", []):
            if isinstance(c, dict):
                ev += self.expr_events(c)
        return ev

    def rhs_events(self, lname, lhs_is_array_ptr, lhs_is_array_struct, lhs_opaque, rhs, n):
        """events of `lname = rhs` for a tracked left side"""
        rhs = sl.strip(rhs)
        if rhs.get("kind") == "BinaryOperator" and rhs.get("opcode") == "=":
            # chained assignment a = b = e
            inner_l = sl.strip(rhs["inner"][0])
            ev = self.assign_events(rhs)
            iname = _name(inner_l)
            if iname is None:
                self.refuse("chained assignment to %s through something that is not a variable" % lname, n)
            return ev + ["LAlias %s %s" % (q(lname), q(iname))]
        if rhs.get("kind") == "CallExpr":
            nm = sl.callee_name(rhs)
            if (nm in NEW and (lhs_is_array_ptr)) or (nm in ALLOC and lhs_opaque):
                return self.call_events(rhs, lhs=lname)
            self.refuse("%s is assigned the result of %s" % (lname, nm), n)
        if lhs_is_array_struct:
            s = None
            if rhs.get("kind") == "UnaryOperator" and rhs.get("opcode") == "*":
                s = _var(rhs["inner"][0])
            elif _var(rhs) is not None and "*" not in _qt(rhs):
                s = _var(rhs)
            if s is None:
                self.refuse("structure %s is assigned something that is not an array structure" % lname, n)
            return ["LCopy %s %s" % (q(lname), q(s))]
        # pointer on the left: another pointer, or the address of a structure
        r = rhs
        if r.get("kind") == "UnaryOperator" and r.get("opcode") == "&":
            r = sl.strip(r["inner"][0])
            nm = _name(r)
            if nm is None:
                self.refuse("%s is assigned an address that is not the address of a variable" % lname, n)
            if lhs_opaque and not _is_array_type(_qt(r)):
                # the address of an embedded member: taken as the address of the enclosing object (first member)
                base = _name(sl.strip(r["inner"][0])) if r.get("kind") == "MemberExpr" else None
                if base is None or base not in self.opaque:
                    self.refuse("%s is assigned the address of %s, which is not inside a tracked object" % (lname, nm), n)
                self.notes.append("`%s = &%s` is taken as an alias of %s (the member is assumed to be the first one of its structure)" % (lname, nm, base))
                return ["LAlias %s %s" % (q(lname), q(base))]
            return ["LAlias %s %s" % (q(lname), q(nm))]
        nm = _name(r)
        if nm is not None and ((lhs_is_array_ptr and _is_array_type(_qt(r))) or (lhs_opaque and (nm in self.opaque or r.get("kind") == "DeclRefExpr"))):
            if lhs_opaque:
                self.opaque.add(nm)
            return ["LAlias %s %s" % (q(lname), q(nm))]
        self.refuse("assignment to %s is not understood" % lname, n)

    notes = []

    def assign_events(self, n):
        lhs, rhs = sl.strip(n["inner"][0]), sl.strip(n["inner"][1])
        lname = _name(lhs)
        if lhs.get("kind") in ("DeclRefExpr", "MemberExpr") and lname is not None:
            if _is_array_type(_qt(lhs)):
                isptr = "*" in _qt(lhs)
                return self.rhs_events(lname, isptr, not isptr, False, rhs, n)
            if lname in self.opaque:
                return self.rhs_events(lname, False, False, True, rhs, n)
        # *d = s  /  *d = *s
        if lhs.get("kind") == "UnaryOperator" and lhs.get("opcode") == "*" and _var(lhs["inner"][0]) is not None:
            return self.rhs_events(_var(lhs["inner"][0]), False, True, False, rhs, n)
        if lhs.get("kind") == "MemberExpr" and _var(sl.strip(lhs["inner"][0])) is not None:
            self.refuse("store into a field of array %s" % _var(sl.strip(lhs["inner"][0])), n)
        return self.expr_events(lhs) + self.expr_events(rhs)

    # ------------------------------------------------------------------ statements
    def lit(self, ev):
        return "[%s]" % "; ".join(ev) if ev else "[]"

    def stmt(self, s, in_loop=False):
        """Gallina term of type list lev"""
        k = s.get("kind")
        if k == "CompoundStmt":
            return self.block(s.get("inner", []), in_loop)
        if k == "IfStmt":
            inner = s["inner"]
            i = len(self.conds)
            self.conds.append(inner[0])
            ce = self.cond_events(inner[0])
            th = self.stmt(inner[1], in_loop)
            el = self.stmt(inner[2], in_loop) if len(inner) > 2 else "[]"
            pre = ("%s ++ " % self.lit(ce)) if ce else ""
            if th == "[]" and el == "[]":
                return self.lit(ce)
            return "%s(if c %d%%nat then %s else %s)" % (pre, i, th, el)
        if k in ("ForStmt", "WhileStmt", "DoStmt"):
            body = [c for c in s["inner"] if isinstance(c, dict) and c.get("kind")]
            parts = []
            for c in body:
                if c.get("kind") in ("CompoundStmt", "IfStmt", "ForStmt", "WhileStmt", "DoStmt", "NullStmt", "DeclStmt", "ReturnStmt", "BreakStmt", "ContinueStmt"):
                    parts.append(self.stmt(c, True))
                else:
                    parts.append(self.lit(self.cond_events(c)))
            t = " ++ ".join(p for p in parts if p != "[]") or "[]"
            if re.search(CHANGING + "|LAlias", t):
                self.refuse("ownership changes inside a loop", s)
            return "(%s)" % t if t != "[]" else "[]"
        if k in ("NullStmt", "BreakStmt", "ContinueStmt"):
            return "[]"
        if k == "ReturnStmt":
            if self.allow_return:
                return "[]"
            if s is self.last_stmt and not in_loop:
                ev = []
                for c in s.get("inner", []):
                    if isinstance(c, dict):
                        ev += self.expr_events(c, toplevel_arg=True)
                return self.lit(ev)
            self.refuse("return inside the slice", s)
        if k == "DeclStmt":
            ev = []
            for d in s.get("inner", []):
                if d.get("kind") != "VarDecl":
                    continue
                inits = [c for c in d.get("inner", []) if isinstance(c, dict) and c.get("kind") != "FullComment"]
                if not inits:
                    continue
                if _is_array_type(_qt(d)):
                    isptr = "*" in _qt(d)
                    ev += self.rhs_events(d["name"], isptr, not isptr, False, inits[0], s)
                elif d["name"] in self.opaque:
                    ev += self.rhs_events(d["name"], False, False, True, inits[0], s)
                else:
                    for c in inits:
                        ev += self.expr_events(c)
            return self.lit(ev)
        return self.lit(self.expr_events(s))

    def cond_events(self, n):
        """a condition / loop header: null tests and flag reads of tracked variables carry no event"""
        n = sl.strip(n)
        k = n.get("kind")
        if _var(n) is not None or self.is_opaque(n):
            return []
        if k == "MemberExpr" and (self.is_opaque(n["inner"][0]) or _name(n) in self.opaque):
            return []
        if k in ("BinaryOperator", "UnaryOperator", "ParenExpr", "ImplicitCastExpr", "CStyleCastExpr") and not (k == "BinaryOperator" and n.get("opcode") == "="):
            ev = []
            for c in n.get("inner", []):
                if isinstance(c, dict):
                    ev += self.cond_events(c)
            return ev
        return self.expr_events(n)

    def block(self, ss, in_loop=False):
        parts = []
        freed = []
        for s in ss:
            p = self.stmt(s, in_loop)
            # a field of an object that an earlier statement of this block has freed must not be mentioned any more
            for x in freed:
                if '"%s->' % x in p or '"%s.' % x in p:
                    self.refuse("a field of %s is used after %s was freed" % (x, x), s)
            freed += re.findall(r'L(?:Free|Destroy) "([^"]+)"', p)
            parts.append(p)
        parts = [p for p in parts if p != "[]"]
        out = []
        for p in parts:
            if out and out[-1].startswith("[") and out[-1].endswith("]") and p.startswith("[") and p.endswith("]") and "if c " not in out[-1] and "if c " not in p:
                out[-1] = out[-1][:-1] + "; " + p[1:]
            else:
                out.append(p)
        return " ++ ".join(out) if out else "[]"


PRELUDE = ("From Coq Require Import String.\nFrom ScV Require Import C10.LedgerModel.\n"
           "\n")


def function_body(F):
    """statements of a FunctionDecl's body"""
    body = [c for c in F["inner"] if c.get("kind") == "CompoundStmt"][0]
    return list(body.get("inner", []))


def emit_ledger(stmts, gname, fname, comment="", self_calls=(), opaque=(), allow_return=False):
    """returns (text, info): definitions <gname>_c<i> (the branch conditions, where the translator can express them:
    documentation of what c <i> stands for) and <gname>_b (c : nat -> bool) : list lev"""
    L = Ledger(fname, self_calls, opaque, allow_return)
    L.notes = []
    L.scan_opaque(stmts)
    L.last_stmt = stmts[-1] if stmts else None
    body = L.block(stmts)
    if allow_return and re.search(CHANGING, body):
        L.refuse("ownership changes in a slice whose `return` statements are dropped")
    text = ("(* %s *)\n" % comment.replace("*)", "* )").replace("(*", "( *")) if comment else ""
    for nt in L.notes:
        text += "(* NOTE: %s *)\n" % nt.replace("*)", "* )").replace("(*", "( *")
    for i, c in enumerate(L.conds):
        try:
            t, info = sl.emit_cond(c, "%s_c%d" % (gname, i), fname)
            text += t
        except (c2g.Unsupported, KeyError, IndexError, TypeError, ValueError, AttributeError) as e:
            text += "(* c %d: a condition the translator does not express (%s); the theorems quantify over its value *)\n" % (i, str(e).replace("*)", "* )").replace("(*", "( *")[:160])
    text += "(* c i = the value of branch condition number i (source order) *)\n"
    text += "Definition %s_b (c : nat -> bool) : list lev :=\n%s.\n" % (gname, body)
    return text, dict(name=gname + "_b", cname=fname, params=["c"], nconds=len(L.conds), fuel=False, opaque=sorted(L.opaque), notes=L.notes)
