"""Ownership-ledger slices (tie T1 of C10 for parallel code): a function body is abstracted to the list of
ownership events on its sc_array_t variables, as a function of the branch conditions.

Events (coq/C10/LedgerModel.v):  LNew x | LInit x | LReset x | LDestroy x | LUse x | LGrow x | LCopy dst src
    x = sc_array_new[_count] (..)                       LNew x        heap struct + data block
    sc_array_init[_count] (x | &x, ..)                  LInit x       x's data pointer is overwritten by a fresh block
    sc_array_reset (x | &x)                             LReset x      the data block is freed (nothing when the array is empty)
    sc_array_destroy (x)                                LDestroy x    data block and heap struct are freed
    sc_array_resize / sc_array_push[_count] (x, ..)     LGrow x       x must be a valid array; it holds a block afterwards
    sc_notify_merge (out, a, b, n)                      LUse a; LUse b; LGrow out
    *d = s   (struct assignment between sc_array_t)     LCopy d s     d's data pointer is overwritten by s's
    any other mention of an array variable (x->array, x->elem_count, sc_array_index[_int] (x, ..), x passed to a
    function that is not listed in PASSIVE)              LUse x / refused
Statements: `if` becomes a Gallina `if` over a boolean parameter c<i> (i = source order); the condition itself is
emitted as a separate definition <name>_c<i> of the function's integer variables.  Loops may only contain LUse / LGrow
events (their body is taken once: those events are idempotent).  Everything else that mentions an sc_array_t variable,
or calls a function whose name starts with sc_array_ / sc_malloc / sc_calloc / sc_realloc / sc_free / sc_strdup / sc_mempool,
is REFUSED (c2g.Unsupported: the group fails, the tie is broken)."""
import re
import c2g
import slicelib as sl

NEW = ("sc_array_new", "sc_array_new_count")
INIT = ("sc_array_init", "sc_array_init_count")
GROW = ("sc_array_resize", "sc_array_push", "sc_array_push_count")
USE = ("sc_array_index", "sc_array_index_int", "sc_array_index_long", "sc_array_index_ssize_t")
OWNERSHIP_PREFIX = ("sc_array_", "sc_malloc", "sc_calloc", "sc_realloc", "sc_free", "sc_strdup", "sc_mempool", "sc_list_", "sc_hash_")


def _is_array_type(t):
    t = (t or "").replace("struct ", "")
    return re.match(r"^(const )?sc_array_t( \*)?$", t.strip()) is not None


def _var(n):
    """name of the sc_array_t variable an argument denotes: x (pointer variable) or &x (struct variable)"""
    n = sl.strip(n)
    if n.get("kind") == "UnaryOperator" and n.get("opcode") == "&":
        n = sl.strip(n["inner"][0])
    if n.get("kind") == "DeclRefExpr" and _is_array_type(n.get("type", {}).get("qualType")):
        return n["referencedDecl"]["name"]
    return None


class Ledger:
    def __init__(self, fname, self_calls=()):
        self.fname = fname
        self.self_calls = tuple(self_calls)
        self.conds = []          # condition nodes in source order

    def array_refs(self, n):
        out = []
        sl.walk(n, lambda x: out.append(x["referencedDecl"]["name"]) if x.get("kind") == "DeclRefExpr" and
                _is_array_type(x.get("type", {}).get("qualType")) else None)
        return out

    def refuse(self, why, n=None):
        loc = ""
        if isinstance(n, dict):
            loc = " (line %s)" % (n.get("range", {}).get("begin", {}).get("line") or n.get("range", {}).get("begin", {}).get("expansionLoc", {}).get("line") or "?")
        raise c2g.Unsupported("%s: ledger slice: %s%s" % (self.fname, why, loc))

    def call_events(self, n, lhs=None):
        """events of one CallExpr (arguments are scanned first: nested calls)"""
        nm = sl.callee_name(n)
        args = n["inner"][1:]
        ev = []
        for a in args:
            ev += self.expr_events(a, toplevel_arg=True)
        if nm in NEW:
            if lhs is None:
                self.refuse("result of %s is not assigned to an array variable" % nm, n)
            return ev + ['LNew "%s"%%string' % lhs]
        if lhs is not None:
            self.refuse("an array variable is assigned the result of %s" % nm, n)
        if nm in INIT or nm == "sc_array_reset" or nm == "sc_array_destroy" or nm in GROW or nm in USE:
            x = _var(args[0]) if args else None
            if x is None:
                self.refuse("%s on something that is not a plain array variable" % nm, n)
            k = "LInit" if nm in INIT else "LReset" if nm == "sc_array_reset" else "LDestroy" if nm == "sc_array_destroy" else "LGrow" if nm in GROW else "LUse"
            # the first argument was scanned as a plain mention (LUse): drop that
            ev = [e for e in ev if e != 'LUse "%s"%%string' % x] if k != "LUse" else ev
            return ev + ['%s "%s"%%string' % (k, x)]
        if nm == "sc_notify_merge":
            xs = [_var(a) for a in args[:3]]
            if None in xs:
                self.refuse("sc_notify_merge on something that is not a plain array variable", n)
            ev = [e for e in ev if e not in ['LUse "%s"%%string' % x for x in xs]]
            return ev + ['LUse "%s"%%string' % xs[1], 'LUse "%s"%%string' % xs[2], 'LGrow "%s"%%string' % xs[0]]
        if nm is not None and nm.startswith(OWNERSHIP_PREFIX):
            self.refuse("call of %s is not understood" % nm, n)
        # any other function (MPI, memcpy, ..): array variables may only be passed through a member (x->array), which
        # expr_events has turned into LUse; a whole array passed to a function that is not listed above is refused
        if nm in self.self_calls:
            return ev       # the function itself: its array arguments must be valid (LUse, already recorded); by induction it returns them valid
        for a in args:
            if _var(a) is not None:
                self.refuse("array %s is passed to %s, whose effect on it is not known" % (_var(a), nm), n)
        return ev

    def expr_events(self, n, toplevel_arg=False):
        n0 = n
        n = sl.strip(n)
        k = n.get("kind")
        if k == "CallExpr":
            return self.call_events(n)
        if k == "MemberExpr":
            base = sl.strip(n["inner"][0])
            x = _var(base)
            if x is not None:
                return ['LUse "%s"%%string' % x]
            return self.expr_events(base)
        if k == "DeclRefExpr":
            if _is_array_type(n.get("type", {}).get("qualType")):
                if toplevel_arg:
                    return ['LUse "%s"%%string' % n["referencedDecl"]["name"]]      # the caller decides (known callee) or refuses
                self.refuse("array variable %s used in an expression" % n["referencedDecl"]["name"], n)
            return []
        if k == "UnaryOperator" and n.get("opcode") == "&" and _var(n) is not None:
            if toplevel_arg:
                return ['LUse "%s"%%string' % _var(n)]
            self.refuse("address of array variable %s taken" % _var(n), n)
        if k == "BinaryOperator" and n.get("opcode") == "=":
            return self.assign_events(n)
        ev = []
        for c in n.get("inner", []):
            if isinstance(c, dict):
                ev += self.expr_events(c)
        return ev

    def assign_events(self, n):
        lhs, rhs = sl.strip(n["inner"][0]), sl.strip(n["inner"][1])
        # x = sc_array_new (..)
        if lhs.get("kind") == "DeclRefExpr" and _is_array_type(lhs.get("type", {}).get("qualType")):
            if rhs.get("kind") == "CallExpr" and sl.callee_name(rhs) in NEW:
                return self.call_events(rhs, lhs=lhs["referencedDecl"]["name"])
            if rhs.get("kind") == "DeclRefExpr" and "*" not in lhs["type"]["qualType"]:
                return ['LCopy "%s"%%string "%s"%%string' % (lhs["referencedDecl"]["name"], rhs["referencedDecl"]["name"])]
            self.refuse("assignment to array variable %s is not understood" % lhs["referencedDecl"]["name"], n)
        # *d = s  /  *d = *s
        if lhs.get("kind") == "UnaryOperator" and lhs.get("opcode") == "*" and _var(lhs["inner"][0]) is not None:
            d = _var(lhs["inner"][0])
            s = None
            if rhs.get("kind") == "DeclRefExpr" and _is_array_type(rhs.get("type", {}).get("qualType")):
                s = rhs["referencedDecl"]["name"]
            elif rhs.get("kind") == "UnaryOperator" and rhs.get("opcode") == "*":
                s = _var(rhs["inner"][0])
            if s is None:
                self.refuse("struct assignment to *%s from something that is not an array variable" % d, n)
            return ['LCopy "%s"%%string "%s"%%string' % (d, s)]
        if lhs.get("kind") == "MemberExpr" and _var(sl.strip(lhs["inner"][0])) is not None:
            self.refuse("store into a field of array %s" % _var(sl.strip(lhs["inner"][0])), n)
        return self.expr_events(lhs) + self.expr_events(rhs)

    def stmt(self, s, in_loop=False):
        """Gallina term of type list lev"""
        k = s.get("kind")
        if k == "CompoundStmt":
            return self.block(s.get("inner", []), in_loop)
        if k == "IfStmt":
            inner = s["inner"]
            i = len(self.conds)
            self.conds.append(inner[0])
            th = self.stmt(inner[1], in_loop)
            el = self.stmt(inner[2], in_loop) if len(inner) > 2 else "[]"
            ce = self.expr_events(inner[0])
            pre = ("[%s] ++ " % "; ".join(ce)) if ce else ""
            if th == "[]" and el == "[]":
                return pre + "[]" if pre else "[]"
            return "%s(if c %d%%nat then %s else %s)" % (pre, i, th, el)
        if k in ("ForStmt", "WhileStmt", "DoStmt"):
            body = [c for c in s["inner"] if isinstance(c, dict) and c.get("kind")]
            parts = []
            for c in body:
                if c.get("kind") in ("CompoundStmt", "IfStmt", "ForStmt", "WhileStmt", "DoStmt", "NullStmt", "DeclStmt", "ReturnStmt", "BreakStmt", "ContinueStmt"):
                    parts.append(self.stmt(c, True))
                else:
                    ev = self.expr_events(c)
                    parts.append("[%s]" % "; ".join(ev) if ev else "[]")
            t = " ++ ".join(p for p in parts if p != "[]") or "[]"
            if re.search(r"LNew|LInit|LReset|LDestroy|LCopy", t):
                self.refuse("ownership changes inside a loop", s)
            return "(%s)" % t if t != "[]" else "[]"
        if k in ("NullStmt", "BreakStmt", "ContinueStmt"):
            return "[]"
        if k == "ReturnStmt":
            self.refuse("return inside the slice", s)
        if k == "DeclStmt":
            ev = []
            for d in s.get("inner", []):
                if d.get("kind") == "VarDecl":
                    if _is_array_type(d.get("type", {}).get("qualType")) and [c for c in d.get("inner", []) if isinstance(c, dict) and c.get("kind") != "FullComment"]:
                        self.refuse("array variable %s declared with an initialiser" % d.get("name"), s)
                    for c in d.get("inner", []):
                        if isinstance(c, dict):
                            ev += self.expr_events(c)
            return "[%s]" % "; ".join(ev) if ev else "[]"
        ev = self.expr_events(s)
        return "[%s]" % "; ".join(ev) if ev else "[]"

    def block(self, ss, in_loop=False):
        parts = [self.stmt(s, in_loop) for s in ss]
        parts = [p for p in parts if p != "[]"]
        # merge adjacent literal lists
        out = []
        for p in parts:
            if out and out[-1].startswith("[") and out[-1].endswith("]") and p.startswith("[") and p.endswith("]") and "if c " not in out[-1] and "if c " not in p:
                out[-1] = out[-1][:-1] + "; " + p[1:]
            else:
                out.append(p)
        return " ++ ".join(out) if out else "[]"


PRELUDE = ("From Coq Require Import String.\nFrom ScV Require Import C10.LedgerModel.\n"
           "\n")


def emit_ledger(stmts, gname, fname, comment="", self_calls=()):
    """returns (text, info): definitions <gname>_c<i> (the branch conditions outside loops, as functions of the integer
    variables: documentation of what c<i> stands for) and <gname>_b (c0 .. : bool) : list lev"""
    L = Ledger(fname, self_calls)
    body = L.block(stmts)
    text = ("(* %s *)\n" % comment.replace("*)", "* )").replace("(*", "( *")) if comment else ""
    for i, c in enumerate(L.conds):
        try:
            t, info = sl.emit_cond(c, "%s_c%d" % (gname, i), fname)
            text += t
        except c2g.Unsupported as e:
            text += "(* c%d: a condition the translator does not express (%s); the ledger theorem quantifies over its value *)\n" % (i, str(e).replace("*)", "* )")[:200])
    text += "(* c i = the value of branch condition number i (source order) *)\n"
    text += "Definition %s_b (c : nat -> bool) : list lev :=\n%s.\n" % (gname, body)
    return text, dict(name=gname + "_b", cname=fname, params=["c"], nconds=len(L.conds), fuel=False)
